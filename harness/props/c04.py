from harness.props import _hier
LEVEL = _hier.LEVEL
EXTRA_PROPS_FILES = ["Scfg/Props/C04Walks.lean", "Scfg/Props/C04Total.lean"]


def run(ctx):
    return _hier.run(ctx, "C04")


def replay(path):
    return _hier.replay(path, "C04")
