from harness.props import _hier
LEVEL = _hier.LEVEL
EXTRA_PROPS_FILES = ["Scfg/Props/C01Join.lean", "Scfg/Props/C01Frame.lean", "Scfg/Props/C01Wrap.lean", "Scfg/Props/C01Chain.lean", "Scfg/Props/C01Conv.lean", "Scfg/Props/C01Fuel.lean"]


def run(ctx):
    return _hier.run(ctx, "C01")


def replay(path):
    return _hier.replay(path, "C01")
