"""C16 — iteration and the region-concealing view enumerate exactly the graph.

For every (sub)graph of every stage output of the real pipeline: `list(scfg)` and
`list(scfg.concealed_region_view)` are compared with the Lean model of the two iterators
(exact order) and judged by the Lean specification predicates iterSpecOK / viewSpecOK.
"""
import json
import os
import random
import multiprocessing as mp
from collections import Counter
from harness import common, export, gen, hier
common.import_repo()
from numba_scfg.core.datastructures import basic_block as bb  # noqa: E402

LEVEL = "proof"
EXTRA_PROPS_FILES = ["Scfg/Props/C16Iter.lean", "Scfg/Props/C16Nodup.lean", "Scfg/Props/C16Unique.lean", "Scfg/Props/C16Dedup.lean", "Scfg/Props/C16Fuel.lean", "Scfg/Props/C16ViewFuel.lean"]


def cj(xs):
    xs = list(xs)
    return ",".join(xs) if xs else "-"


def subgraphs(scfg, cont):
    yield cont, scfg
    for b in scfg.graph.values():
        if isinstance(b, bb.RegionBlock):
            yield from subgraphs(b.subregion, b.name)


def real_iter(sub):
    try:
        return "ok " + cj(n for n, _ in sub)
    except Exception as e:  # noqa: BLE001
        return "abort " + type(e).__name__


def real_view(sub):
    try:
        return "ok " + cj(sub.concealed_region_view)
    except Exception as e:  # noqa: BLE001
        return "abort " + type(e).__name__


def _work(chunk):
    drv = common.Driver()
    lines, meta = [], []
    stale = []
    for tag, succ in chunk:
        scfg = export.mk_scfg(succ)
        held = None
        stages = [("input", None)] + [(s, op) for s, op in (("closed", scfg.join_returns), ("loop", scfg.restructure_loop),
                                                              ("branch", scfg.restructure_branch))]
        if tag == "G9-multiway":
            # restructuring is specified for closed CFGs with at most two successors per block (what the front
            # ends produce); graphs with more are enumerated as the dict / YAML front end delivers them
            stages = stages[:2]
        for stage, op in stages:
            if op is not None:
                try:
                    op()
                except Exception:  # noqa: BLE001
                    break
            top, line = export.export(scfg)
            lines.append(f"H {top} {line}")
            meta.append(None)
            # Scfg.C16.iterAll_nodup_of_uniqueB: a hierarchy passing the computable test `uniqueB` is
            # enumerated without duplicates at every depth — counted, never judged (the real
            # enumeration's duplicate-freedom is judged by iterSpecOK below)
            lines.append("SPEC uniq")
            meta.append((succ, stage, top, "uniq", "", "uniq"))
            # views created before this stage's edit keep working on the edited graph: a view
            # object that answers from state captured earlier would enumerate the old graph
            if held is None:
                held = scfg.concealed_region_view
            else:
                try:
                    a, b = list(held), list(scfg.concealed_region_view)
                except Exception as e:  # noqa: BLE001
                    a, b = ["<raised>" + type(e).__name__], []
                if a != b:
                    stale.append((succ, stage, top, "view", "ok " + cj(a), "view object created before the edit enumerates " + cj(a) + " instead of " + cj(b)))
            for cont, sub in subgraphs(scfg, top):
                ri, rv = real_iter(sub), real_view(sub)
                # asking again, and asking a second view object, gives the same enumeration
                ri2, rv2 = real_iter(sub), real_view(sub)
                if ri2 != ri:
                    ri = f"abort second-iteration-differs"
                if rv2 != rv:
                    rv = f"abort second-view-differs"
                for kind, real in (("iter", ri), ("view", rv)):
                    lines.append(f"IT {kind} {cont}")
                    meta.append((succ, stage, cont, kind, real, "model"))
                    if real.startswith("ok "):
                        lines.append(f"SPEC {kind} {cont} {real[3:]}")
                        meta.append((succ, stage, cont, kind, real, "spec"))
    # a kept view object, iterated once, then the graph gets a new entry block in front of the old
    # head (which stays in the graph): the same view object must enumerate the edited graph
    for tag, succ in chunk[::3]:
        try:
            g = export.mk_scfg(succ)
            v = g.concealed_region_view
            first = list(v)
            if not first:
                continue
            g.add_block(bb.BasicBlock(name="pre_entry", _jump_targets=(first[0],)))
            a, b = list(v), list(g.concealed_region_view)
            it1 = [n for n, _ in g]
            if a != b or (b and b[0] != "pre_entry"):
                stale.append((succ, "input", g.region.name, "view", "ok " + cj(a),
                              "view object iterated before an entry block was added enumerates " + cj(a) + " instead of " + cj(b)))
            if it1 and it1[0] != "pre_entry":
                stale.append((succ, "input", g.region.name, "iter", "ok " + cj(it1), "iteration after adding an entry block does not start with it"))
        except Exception as e:  # noqa: BLE001
            stale.append((succ, "input", "?", "view", "abort " + type(e).__name__, "kept-view history raised"))
    # a kept view object, iterated once on a loop-restructured graph; then a block is inserted behind one
    # of its regions through the public API: the same view object must enumerate the edited graph
    for tag, succ in chunk[1::3]:
        if tag == "G9-multiway":
            continue
        try:
            g = export.mk_scfg(succ)
            g.join_returns()
            g.restructure_loop()
            regs = [(n, b) for n, b in g.graph.items() if isinstance(b, bb.RegionBlock) and len(b._jump_targets) >= 1]
            if not regs:
                continue
            rname, rblk = regs[0]
            v = g.concealed_region_view
            first = list(v)
            g.insert_SyntheticFill("kept_fill", [rname], [rblk._jump_targets[0]])
            a, b = list(v), list(g.concealed_region_view)
            if a != b:
                stale.append((succ, "loop", g.region.name, "view", "ok " + cj(a),
                              "view object iterated before a block was inserted behind a region enumerates " + cj(a) + " instead of " + cj(b)))
        except Exception as e:  # noqa: BLE001
            stale.append((succ, "loop", "?", "view", "abort " + type(e).__name__, "insert-behind-region history raised"))
    rep = drv.run(lines)
    mism, fails = [], []
    stats = Counter()
    for m, r in zip(meta, rep):
        if m is None:
            continue
        succ, stage, cont, kind, real, what = m
        if what == "uniq":
            stats["hierarchies"] += 1
            stats["hierarchies_passing_uniqueB"] += (r == "1")
            continue
        if what == "model":
            stats[kind] += 1
            rm = r.split("@")[0] if r.startswith("abort") else r
            if rm != real:
                mism.append((succ, stage, cont, kind, real, r))
            if not real.startswith("ok"):
                fails.append((succ, stage, cont, kind, real, "aborted"))
        elif r != "1":
            fails.append((succ, stage, cont, kind, real, "spec"))
    fails += stale
    return mism, fails, stats


def run(ctx):
    inputs = gen.graph_inputs(ctx["tier"], ctx["seed"])
    if ctx["tier"] == "quick":
        inputs = [x for x in inputs if len(x[1]) <= 16]
    # graphs as the dict / YAML front end admits them: blocks with three or four jump targets, dense,
    # one head (the generators above give at most two targets per block)
    import random
    rng = random.Random(ctx["seed"] * 104729 + 16)
    for _ in range((1500 * common.boost()) if ctx["tier"] == "quick" else 40000):
        n = rng.randint(5, 10)
        succ = []
        for i in range(n):
            k = rng.choice([1, 2, 3, 3, 4, 4]) if i < n - 1 else 0
            pool = [j for j in range(1, n) if j != i] if rng.random() < 0.25 else list(range(i + 1, n))
            ts = rng.sample(pool, min(k, len(pool)))
            succ.append(list(ts))
        for j in range(1, n):                      # one head, everything reachable from it
            if not any(j in succ[i] for i in range(j)):
                succ[rng.randrange(0, j)].append(j)
        inputs.append(("G9-multiway", tuple(tuple(x) for x in succ)))
    nproc = common.ncpu()
    size = max(20, min(1000, len(inputs) // (nproc * 4) + 1))
    chunks = [inputs[i:i + size] for i in range(0, len(inputs), size)]
    with mp.get_context("fork").Pool(nproc) as pool:
        parts = pool.map(_work, chunks)
    mism = [m for p in parts for m in p[0]]
    fails = [f for p in parts for f in p[1]]
    stats = Counter()
    for p in parts:
        stats.update(p[2])
    violations, broken = [], []
    bykey = {}
    for f in fails:
        bykey.setdefault((f[3], f[1], f[5]), []).append(f)
    for (kind, stage, why), items in bykey.items():
        f = min(items, key=lambda x: (len(x[0]), x[0]))
        violations.append({"signature": {"iterator": kind, "stage": stage, "why": why},
                           "what": f"{kind} of a (sub)graph after stage '{stage}' does not enumerate exactly the graph ({why}), {len(items)} cases",
                           "payload": {"input_succ": [list(s) for s in f[0]], "stage": stage, "container": f[2], "yielded": f[4], "count": len(items)}})
    if mism:
        m = mism[0]
        path = common.write_replay("C16", {"property": "C16", "kind": "correspondence-broken",
                                           "correspondence": "Scfg.Model.Iter vs SCFG.__iter__/region_view_iterator",
                                           "input_succ": [list(s) for s in m[0]], "stage": m[1], "container": m[2], "iterator": m[3],
                                           "impl": m[4], "model": m[5], "mismatches": len(mism)})
        broken.append({"signature": {"kind": "correspondence"}, "replay": path, "nfi": True, "what": "iterator model mismatch"})
    uniq = {k: stats.pop(k, 0) for k in ("hierarchies", "hierarchies_passing_uniqueB")}
    n = sum(stats.values())
    cov = {"evaluations": n, "distinct_nontrivial": len(inputs),
           "rule": "closed CFGs as for C01 (≤16 nodes in the quick tier) plus dense graphs whose blocks have up to four jump targets; before and after every stage, every (sub)graph at every depth: "
                   "list(scfg) and list(scfg.concealed_region_view) vs. the Lean model (exact order) and the Lean specification",
           "samples": [{"input_succ": [list(s) for s in inputs[len(inputs) // 2][1]]}],
           "graphs": len(inputs), "iterations_checked": dict(stats),
           "nodup_by_theorem": {**uniq, "theorem": "Scfg.C16.iterAll_nodup_of_uniqueB (hierarchies passing the computable test uniqueB are enumerated duplicate-free at every depth; hierarchies not passing it are judged by iterSpecOK only)"}, "model_mismatches": len(mism), "spec_failures": len(fails),
           "traces_validated_against_impl": n - len(mism)}
    return {"level": LEVEL, "coverage": cov, "violations": violations, "broken": broken,
            "assumptions": ["model of the iterators corresponds to the code as far as exercised; spec predicates are the meaning of C16"]}


def replay(path):
    d = json.load(open(path if os.path.isabs(path) else os.path.join(common.VERIF, path)))
    succ = tuple(tuple(s) for s in d["input_succ"])
    mism, fails, _ = _work([("replay", succ)])
    print(json.dumps({"model_mismatches": mism, "spec_failures": fails}, indent=1, default=str)[:3000])
    if fails:
        print(f"VIOLATION property=C16 replay={path}")
        return 1
    return 0
