from harness.props import _hier
LEVEL = _hier.LEVEL


def run(ctx):
    return _hier.run(ctx, "C06")


def replay(path):
    return _hier.replay(path, "C06")
