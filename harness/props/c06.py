"""C06 — control variables are assigned before use and in range.

(1) every stage output of the real pipeline: Lean `ctlOK` (verified closed-set check over all
    reachable control-variable valuations, latches consuming their variable) and `tablesOK`;
(2) "after every renaming": random edit histories on real graphs that contain branching
    synthetic blocks (restructured hierarchies); after every completed real call the Lean
    predicate `tablesPreserved` must hold between the real before/after pair.
"""
import random
from harness import common, edits, export
from harness.props import _hier

LEVEL = _hier.LEVEL
EXTRA_PROPS_FILES = ["Scfg/Props/C06Tables.lean"]


def renaming_histories(n, seed):
    rng = random.Random(seed * 2713 + 6)
    drv = common.Driver()
    lines, meta = [], []
    tried = 0
    while len(meta) < n and tried < n * 6:
        tried += 1
        kind, scfg, ops = edits.gen_history(rng)
        if kind == "flat":
            continue
        top = scfg.region.name
        for op in ops:
            _, before = export.export(scfg)
            if "synth_head" not in before and "synth_exit" not in before:
                break
            abort, _ = edits.apply_real(scfg, op)
            if abort is not None:
                break
            _, after = export.export(scfg)
            # only re-targetings of existing arcs are "renamings"; giving an exit a first successor
            # (S = [], join_returns) adds an arc and is not covered by this clause
            if op[0] == "join_returns" or (op[0] == "insert_block" and not op[4]) or (op[0] == "insert_ctl" and not op[3]):
                continue
            lines += [f"G {top} {before}", f"H {top} {after}", "SPEC tables_preserved"]
            meta.append((kind, op, before, after))
    rep = drv.run(lines) if lines else []
    fails = []
    for k, m in enumerate(meta):
        if rep[3 * k + 2] != "1":
            fails.append(m)
    return len(meta), fails


def twin_runs(ctx):
    """A second graph obtained from the first one (dictionary write/read, or a copy of its block
    table) holds the same value-table objects unless somebody copies them: restructuring the first
    graph further must leave the twin - its successors *and* its tables - as it was, so that the
    twin's tables still agree with its successors."""
    import random
    from harness import gen
    common.import_repo()
    from numba_scfg.core.datastructures.scfg import SCFG
    rng = random.Random(ctx["seed"] * 91 + 6)
    inputs = [s for _, s in gen.graph_inputs(ctx["tier"], ctx["seed"]) if 4 <= len(s) <= 12]
    rng.shuffle(inputs)
    inputs = inputs[: (300 * common.boost() if ctx["tier"] == "quick" else 5000)]
    drv = common.Driver()
    lines, meta, fails = [], [], []
    for succ in inputs:
        a = export.mk_scfg(succ)
        try:
            a.join_returns()
            a.restructure_loop()
            twin, _ = SCFG.from_dict(a.to_dict())
            t0, before = export.export(twin)
            a.restructure_branch()
        except Exception:  # noqa: BLE001
            continue
        t1, after = export.export(twin)
        if after != before:
            fails.append((succ, "a graph read back from the loop stage changed when the original was restructured further"))
        lines += [f"G {t1} {after}", f"H {t1} {after}", "CHK"]
        meta.append(succ)
    rep = drv.run(lines) if lines else []
    for k, succ in enumerate(meta):
        chk = dict(kv.split("=", 1) for kv in rep[3 * k + 2].split(" ") if "=" in kv)
        if chk.get("tables") != "1":
            fails.append((succ, "the twin's value tables no longer agree with its successors"))
    return len(inputs), fails


def run(ctx):
    res = _hier.run(ctx, "C06")
    nt, tf = twin_runs(ctx)
    res["coverage"]["twin_runs"] = nt
    res["coverage"]["twin_failures"] = len(tf)
    if tf:
        succ, why = min(tf, key=lambda f: (len(f[0]), f[0]))
        res["violations"].append({"signature": {"stage": "twin", "clauses": why[:50]},
                                  "what": f"C06 (shared tables): {why} ({len(tf)} of {nt} graphs)",
                                  "payload": {"input_succ": [list(x) for x in succ], "observed": why, "count": len(tf)}})
    n, fails = renaming_histories(1500 if ctx["tier"] == "quick" else 40000, ctx["seed"])
    res["coverage"]["renaming_steps_checked"] = n
    res["coverage"]["renaming_failures"] = len(fails)
    res["coverage"]["rule"] += "; plus random edit operations (insert_block, insert_block_and_control_blocks, join_returns, " \
                               "join_tails_and_exits) on restructured real hierarchies, table agreement of pre-existing branching blocks re-checked after each"
    if fails:
        kind, op, before, after = min(fails, key=lambda m: len(m[2]))
        res["violations"].append({
            "signature": {"stage": "renaming", "clauses": "tables-after-" + op[0]},
            "what": f"a branching block's value table disagrees with its successors after {op[0]} ({len(fails)} of {n} edit steps)",
            "payload": {"start_kind": kind, "op": op, "before": before, "after": after, "count": len(fails)}})
    return res


def replay(path):
    return _hier.replay(path, "C06")
