"""C06 — control variables are assigned before use and in range.

(1) every stage output of the real pipeline: Lean `ctlOK` (verified closed-set check over all
    reachable control-variable valuations, latches consuming their variable) and `tablesOK`;
(2) "after every renaming": random edit histories on real graphs that contain branching
    synthetic blocks (restructured hierarchies); after every completed real call the Lean
    predicate `tablesPreserved` must hold between the real before/after pair.
"""
import random
from harness import common, edits, export
from harness.props import _hier

LEVEL = _hier.LEVEL
EXTRA_PROPS_FILES = ["Scfg/Props/C06Tables.lean"]


def renaming_histories(n, seed):
    rng = random.Random(seed * 2713 + 6)
    drv = common.Driver()
    lines, meta = [], []
    tried = 0
    while len(meta) < n and tried < n * 6:
        tried += 1
        kind, scfg, ops = edits.gen_history(rng)
        if kind == "flat":
            continue
        top = scfg.region.name
        for op in ops:
            _, before = export.export(scfg)
            if "synth_head" not in before and "synth_exit" not in before:
                break
            abort, _ = edits.apply_real(scfg, op)
            if abort is not None:
                break
            _, after = export.export(scfg)
            # only re-targetings of existing arcs are "renamings"; giving an exit a first successor
            # (S = [], join_returns) adds an arc and is not covered by this clause
            if op[0] == "join_returns" or (op[0] == "insert_block" and not op[4]) or (op[0] == "insert_ctl" and not op[3]):
                continue
            lines += [f"G {top} {before}", f"H {top} {after}", "SPEC tables_preserved"]
            meta.append((kind, op, before, after))
    rep = drv.run(lines) if lines else []
    fails = []
    for k, m in enumerate(meta):
        if rep[3 * k + 2] != "1":
            fails.append(m)
    return len(meta), fails


def merge_histories(n, seed):
    """directed histories: a head made by insert_block_and_control_blocks over all arcs into two blocks (so a
    successor entered by two arcs has two values in its table), then several of the head's own arcs merged
    into one new block (insert_SyntheticExit / insert_SyntheticTail / join_tails_and_exits): the table must
    keep every key and send it to the new block"""
    from harness import gen
    rng = random.Random(seed * 977 + 61)
    drv = common.Driver()
    lines, meta = [], []
    tried = 0
    while len(meta) < n and tried < n * 20:
        tried += 1
        succ = gen.rand_closed(rng, rng.randint(4, 8))
        names = [str(i) for i in range(len(succ))]
        cand = [j for j in range(1, len(succ)) if sum(j in s for s in succ) >= 1]
        if len(cand) < 2:
            continue
        s2 = rng.sample(cand, 2)
        preds = [i for i, s in enumerate(succ) if set(s) & set(s2)]
        if sum(len([t for t in succ[i] if t in s2]) for i in preds) < 3:
            continue                                   # some successor has to be entered by two arcs
        scfg = export.mk_scfg(succ)
        top = scfg.region.name
        a1, _ = edits.apply_real(scfg, ("insert_ctl", "mhead", [names[i] for i in preds], [names[j] for j in s2]))
        if a1 is not None or "mhead" not in scfg.graph:
            continue
        tgts = list(dict.fromkeys(scfg.graph["mhead"]._jump_targets))
        if len(tgts) < 2:
            continue
        r = rng.random()
        if r < 0.4:
            op = ("insert_block", "synth_exit", "mnew", ["mhead"], tgts)
        elif r < 0.7:
            op = ("insert_block", "synth_tail", "mnew", ["mhead"], tgts)
        else:
            op = ("join_tails_exits", ["mhead"], tgts)
        _, before = export.export(scfg)
        a2, _ = edits.apply_real(scfg, op)
        if a2 is not None:
            continue
        _, after = export.export(scfg)
        # static clause (tables name successors) and dynamic clause (no path reaches a branching block with a
        # value that is not a key: the closed-set exploration `ctlOK`), before and after the merge
        lines += [f"G {top} {before}", f"H {top} {after}", "SPEC tables_preserved",
                  f"H {top} {before}", "CHK", f"H {top} {after}", "CHK"]
        meta.append(("merge-after-ctl", op, before, after))
    rep = drv.run(lines) if lines else []
    fails = []
    for k, m in enumerate(meta):
        r = rep[7 * k: 7 * k + 7]
        ctl_before = "ctl=1" in r[4].split()
        ctl_after = "ctl=1" in r[6].split()
        if r[2] != "1" or (ctl_before and not ctl_after):
            fails.append(m)
    return len(meta), fails


def direct_renames(n, seed):
    """`replace_jump_targets` called directly on a branching block with a good table: same number of targets, new
    names that may coincide with old names at *other* positions (shifts, swaps); the table must still name exactly
    the successors"""
    common.import_repo()
    from numba_scfg.core.datastructures import basic_block as bb
    from numba_scfg.core.datastructures.scfg import SCFG
    rng = random.Random(seed * 419 + 66)
    pool = ["a", "b", "c", "d", "e", "f"]
    drv = common.Driver()
    lines, meta = [], []
    for _ in range(n):
        k = rng.randint(2, 4)
        old = rng.sample(pool, k)
        new = list(old)
        how = rng.random()
        if how < 0.35:                                   # shift: position i takes the old name of position i+1
            new = old[1:] + [rng.choice([x for x in pool if x not in old])]
        elif how < 0.6:                                  # swap two positions
            i, j = rng.sample(range(k), 2)
            new[i], new[j] = new[j], new[i]
        else:                                            # rename some positions to names not in use
            free = [x for x in pool if x not in old]
            rng.shuffle(free)
            for i in range(k):
                if free and rng.random() < 0.6:
                    new[i] = free.pop()
        vals = list(range(k + rng.randint(0, 2)))
        table = {v: old[v % k] for v in vals}
        mk = rng.choice([bb.SyntheticHead, bb.SyntheticExitBranch])
        br = mk(name="br", _jump_targets=tuple(old), backedges=(), variable="v", branch_value_table=dict(table))
        graph = {x: bb.BasicBlock(name=x) for x in pool}
        graph["br"] = br
        g = SCFG(graph)
        top, before = export.export(g)
        try:
            g.graph["br"] = br.replace_jump_targets(tuple(new))
        except Exception as e:  # noqa: BLE001
            meta.append(("direct-rename", ("replace_jump_targets", old, new, type(e).__name__), before, "raised"))
            lines += [f"G {top} {before}", f"H {top} {before}", "SPEC no_such_check"]
            continue
        _, after = export.export(g)
        lines += [f"G {top} {before}", f"H {top} {after}", "SPEC tables_preserved"]
        meta.append(("direct-rename", ("replace_jump_targets", old, new), before, after))
    rep = drv.run(lines) if lines else []
    fails = [m for k, m in enumerate(meta) if rep[3 * k + 2] != "1"]
    return len(meta), fails


def twin_runs(ctx):
    """A second graph obtained from the first one (dictionary write/read, or a copy of its block
    table) holds the same value-table objects unless somebody copies them: restructuring the first
    graph further must leave the twin - its successors *and* its tables - as it was, so that the
    twin's tables still agree with its successors."""
    import random
    from harness import gen
    common.import_repo()
    from numba_scfg.core.datastructures.scfg import SCFG
    rng = random.Random(ctx["seed"] * 91 + 6)
    inputs = [s for _, s in gen.graph_inputs(ctx["tier"], ctx["seed"]) if 4 <= len(s) <= 12]
    rng.shuffle(inputs)
    inputs = inputs[: (300 * common.boost() if ctx["tier"] == "quick" else 5000)]
    drv = common.Driver()
    lines, meta, fails = [], [], []
    for succ in inputs:
        a = export.mk_scfg(succ)
        try:
            a.join_returns()
            a.restructure_loop()
            twin, _ = SCFG.from_dict(a.to_dict())
            t0, before = export.export(twin)
            a.restructure_branch()
        except Exception:  # noqa: BLE001
            continue
        t1, after = export.export(twin)
        if after != before:
            fails.append((succ, "a graph read back from the loop stage changed when the original was restructured further"))
        lines += [f"G {t1} {after}", f"H {t1} {after}", "CHK"]
        meta.append(succ)
    rep = drv.run(lines) if lines else []
    for k, succ in enumerate(meta):
        chk = dict(kv.split("=", 1) for kv in rep[3 * k + 2].split(" ") if "=" in kv)
        if chk.get("tables") != "1":
            fails.append((succ, "the twin's value tables no longer agree with its successors"))
    return len(inputs), fails


def run(ctx):
    res = _hier.run(ctx, "C06")
    nt, tf = twin_runs(ctx)
    res["coverage"]["twin_runs"] = nt
    res["coverage"]["twin_failures"] = len(tf)
    if tf:
        succ, why = min(tf, key=lambda f: (len(f[0]), f[0]))
        res["violations"].append({"signature": {"stage": "twin", "clauses": why[:50]},
                                  "what": f"C06 (shared tables): {why} ({len(tf)} of {nt} graphs)",
                                  "payload": {"input_succ": [list(x) for x in succ], "observed": why, "count": len(tf)}})
    n, fails = renaming_histories(1500 if ctx["tier"] == "quick" else 40000, ctx["seed"])
    res["coverage"]["renaming_steps_checked"] = n
    res["coverage"]["renaming_failures"] = len(fails)
    res["coverage"]["rule"] += "; plus random edit operations (insert_block, insert_block_and_control_blocks, join_returns, " \
                               "join_tails_and_exits) on restructured real hierarchies, table agreement of pre-existing branching blocks re-checked after each"
    n3, fails3 = direct_renames((400 * common.boost()) if ctx["tier"] == "quick" else 10000, ctx["seed"])
    res["coverage"]["direct_same_length_renames"] = n3
    res["coverage"]["renaming_failures"] += len(fails3)
    fails = fails + fails3
    n2, fails2 = merge_histories((300 * common.boost()) if ctx["tier"] == "quick" else 8000, ctx["seed"])
    res["coverage"]["merge_after_control_block_histories"] = n2
    res["coverage"]["renaming_failures"] += len(fails2)
    fails = fails + fails2
    if fails:
        kind, op, before, after = min(fails, key=lambda m: len(m[2]))
        res["violations"].append({
            "signature": {"stage": "renaming", "clauses": "tables-after-" + op[0]},
            "what": f"a branching block's value table disagrees with its successors after {op[0]} ({len(fails)} of {n} edit steps)",
            "payload": {"start_kind": kind, "op": op, "before": before, "after": after, "count": len(fails)}})
    return res


def replay(path):
    return _hier.replay(path, "C06")
