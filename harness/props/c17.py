"""C17 — rendering never fails and draws exactly the graph.

Every stage output of the real pipeline (and bytecode graphs through ByteFlowRenderer) is
rendered by the real renderer; the DOT source is parsed (harness/dot.py) and the drawing is
judged by the Lean predicate drawingOK (nodes, nested clusters, solid/dashed edges with
header-resolved destinations, as multisets); labels are checked field by field.
"""
import json
import logging
import os
import multiprocessing as mp
from collections import Counter
from harness import common, export, gen, dot
common.import_repo()
_lvl = logging.root.level
from numba_scfg.rendering.rendering import SCFGRenderer, ByteFlowRenderer  # noqa: E402
logging.disable(logging.CRITICAL)
from numba_scfg.core.datastructures.byte_flow import ByteFlow  # noqa: E402
from numba_scfg.core.datastructures import basic_block as bb  # noqa: E402
from numba_scfg.core.datastructures.scfg import SCFG  # noqa: E402

LEVEL = "proof"
EXTRA_PROPS_FILES = ["Scfg/Props/C17Render.lean"]


def cj(xs):
    xs = list(xs)
    return ",".join(xs) if xs else "-"


def label_problems(scfg, nodes, clusters):
    """labels show name, control variable + table / assignments, and for regions their name"""
    out = []

    def walk(g):
        for k, b in g.graph.items():
            if isinstance(b, bb.RegionBlock):
                lab = clusters.get(k, ("", {}))[1].get("label", "")
                if k not in lab:
                    out.append(f"cluster {k}: label lacks the name")
                walk(b.subregion)
                continue
            lab = nodes.get(k, ("", {}))[1].get("label", "")
            if k not in lab:
                out.append(f"node {k}: label lacks the name")
            if isinstance(b, bb.SyntheticBranch):
                if b.variable not in lab:
                    out.append(f"node {k}: label lacks the control variable")
                for kk, vv in b.branch_value_table.items():
                    if f"{kk} → {vv}" not in lab and f"{kk}=>{vv}" not in lab:
                        out.append(f"node {k}: label lacks table entry {kk}→{vv}")
            if isinstance(b, bb.SyntheticAssignment):
                for kk, vv in b.variable_assignment.items():
                    if f"{kk} = {vv}" not in lab:
                        out.append(f"node {k}: label lacks assignment {kk} = {vv}")
    walk(scfg)
    return out


def render_case(scfg, how="scfg", bf=None):
    """returns (driver SPEC line | None, [problems])"""
    render_case.model = None
    try:
        src = SCFGRenderer(scfg).render_scfg().source if how == "scfg" else ByteFlowRenderer().render_byteflow(bf).source
    except Exception as e:  # noqa: BLE001
        import traceback
        tb = [f for f in traceback.extract_tb(e.__traceback__) if "numba_scfg" in f.filename]
        return None, [f"render raised {type(e).__name__}@{tb[-1].name if tb else '?'}"]
    try:
        nodes, clusters, edges, dups = dot.parse(src)
    except Exception as e:  # noqa: BLE001
        return None, [f"DOT source not parsable: {type(e).__name__}"]
    probs = [f"node {d} drawn twice" for d in dups]
    # drawing the same graph again (a second renderer object) gives the same drawing
    try:
        src2 = SCFGRenderer(scfg).render_scfg().source if how == "scfg" else ByteFlowRenderer().render_byteflow(bf).source
        if src2 != src:
            probs.append("drawing differs when the same graph is rendered a second time")
    except Exception as e:  # noqa: BLE001
        probs.append(f"render raised {type(e).__name__} when the same graph is rendered a second time")
    probs += label_problems(scfg, nodes, clusters)
    if how == "byteflow":
        for k, b in scfg.graph.items():
            if isinstance(b, bb.PythonBytecodeBlock):
                lab = nodes.get(k, ("", {}))[1].get("label", "")
                for inst in b.get_instructions(SCFG.bcmap_from_bytecode(bf.bc)):
                    if f"{inst.offset:3}: {inst.opname}" not in lab:
                        probs.append(f"node {k}: label lacks instruction {inst.offset}")
    top = scfg.region.name
    ns = cj(f"{n}@{c}" for n, (c, _) in nodes.items())
    cs = cj(f"{n}@{p}" for n, (p, _) in clusters.items())
    es = cj(f"{s}>{d}:{'d' if a.get('style') == 'dashed' else 's'}" for s, d, a in edges)
    render_case.model = (f"RENDER {top} {'1' if how == 'byteflow' else '0'}", f"ok {ns} {cs} {es}")
    return f"SPEC drawing {top} {ns} {cs} {es}", probs


def gfun(a, b):
    s = 0
    for i in range(a):
        if i == b:
            break
        s += i
    return s


def gfun2(a):
    while a:
        a -= 1
        if a == 3:
            continue
    return a


def _work(chunk):
    drv = common.Driver()
    lines, meta, fails = [], [], []
    n = 0
    for tag, succ in chunk:
        if succ is None:
            bf = ByteFlow.from_bytecode(tag)
            scfg, how = bf.scfg, "byteflow"
        else:
            scfg, how, bf = export.mk_scfg(succ, declare_backedges=(tag == "declared-backedges")), "scfg", None
        for stage, op in (("input", None), ("closed", "join_returns"), ("loop", "restructure_loop"), ("branch", "restructure_branch")):
            if op is not None:
                try:
                    getattr(scfg, op)()
                except Exception:  # noqa: BLE001
                    break
            n += 1
            spec, probs = render_case(scfg, how, bf)
            for p in probs:
                fails.append((succ, stage, p))
            if spec:
                top, hl = export.export(scfg)
                lines += [f"H {top} {hl}", spec]
                meta += [None, (succ, stage)]
                if render_case.model:
                    # the Lean model of the renderer's control flow must emit the same nodes,
                    # clusters and edges in the same order as the real DOT source
                    lines.append(render_case.model[0])
                    meta.append(("model", succ, stage, render_case.model[1]))
    rep = drv.run(lines) if lines else []
    mism, nmodel = [], 0
    for m, r in zip(meta, rep):
        if m is None:
            continue
        if m[0] == "model":
            nmodel += 1
            if r != m[3]:
                mism.append((m[1], m[2], m[3][:300], r[:300]))
        elif r != "1":
            fails.append((m[0], m[1], "drawing differs from the hierarchy (nodes / clusters / edges)"))
    return n, fails, nmodel, mism


def run(ctx):
    inputs = [x for x in gen.graph_inputs(ctx["tier"], ctx["seed"]) if len(x[1]) <= 14]
    if ctx["tier"] == "quick":
        inputs = inputs[::3]
    # wide value tables (9-14 rows): loops with many exits
    inputs += [("G0-wide-tables", s) for s in gen.wide_graphs()]
    # graphs as the YAML/dict front end delivers them: with declared back edges, endless loops and
    # latches whose only successor is a back edge included (random digraphs, not only closed CFGs)
    import random
    rng = random.Random(ctx["seed"] + 17)
    declared = [("declared-backedges", s) for _, s in inputs[::4] if any(s)]
    want = 150 if ctx["tier"] == "quick" else 3000
    for _ in range(want * 40):
        if want <= 0:
            break
        n = rng.randint(2, 8)
        s = [sorted(rng.sample(range(n), rng.choice([0, 1, 1, 1, 2, 2]))) for _ in range(n)]
        # a control-flow graph: node 0 is the only block without a (non-back-edge) predecessor
        # and every block is reachable from it
        be = export.dfs_backedges(s)
        preds = {w for v in range(n) for w in s[v] if (v, w) not in be}
        seen, st = {0}, [0]
        while st:
            for w in s[st.pop()]:
                if w not in seen:
                    seen.add(w)
                    st.append(w)
        if len(seen) == n and preds == set(range(1, n)):
            declared.append(("declared-backedges", s))
            want -= 1
    declared += [("declared-backedges", s) for s in ([[1], [2], [1]], [[1], [1]], [[0]], [[1], [2, 3], [1], []], [[1], [2], [3], [1, 2]])]
    inputs += declared
    inputs += [(gfun, None), (gfun2, None)]
    nproc = common.ncpu()
    size = max(20, min(500, len(inputs) // (nproc * 4) + 1))
    chunks = [inputs[i:i + size] for i in range(0, len(inputs), size)]
    with mp.get_context("fork").Pool(nproc) as pool:
        parts = pool.map(_work, chunks)
    n = sum(p[0] for p in parts)
    fails = [f for p in parts for f in p[1]]
    nmodel = sum(p[2] for p in parts)
    mism = [m for p in parts for m in p[3]]
    broken = []
    if mism:
        m0 = min(mism, key=lambda m: (len(m[0]) if m[0] else 99, str(m[0])))
        path = common.write_replay("C17", {"property": "C17", "kind": "correspondence-broken",
                                           "what": "Lean model of the renderer (Scfg/Model/Render.lean) disagrees with the drawing parsed from the real DOT source",
                                           "input_succ": [list(x) for x in m0[0]] if m0[0] else "bytecode", "stage": m0[1],
                                           "expected_from_code": m0[2], "model_reply": m0[3], "count": len(mism)})
        broken.append({"signature": {"kind": "correspondence"}, "replay": path, "nfi": True,
                       "what": f"render model mismatch on {len(mism)} drawings"})
    by = {}
    for succ, stage, why in fails:
        key = (stage, why if why.startswith(("render raised", "drawing", "DOT")) else "label: " + why.split(":")[-1].strip().split(" ")[0:3].__str__())
        by.setdefault(key, []).append((succ, why))
    violations = []
    for (stage, why), items in sorted(by.items(), key=lambda kv: -len(kv[1]))[:6]:
        succ, detail = min(items, key=lambda x: (len(x[0]) if x[0] else 99, str(x[0])))
        violations.append({"signature": {"stage": stage, "failure": why},
                           "what": f"rendering the graph after stage '{stage}': {detail} ({len(items)} graphs)",
                           "payload": {"input_succ": [list(s) for s in succ] if succ else "bytecode", "stage": stage, "detail": detail, "count": len(items)}})
    cov = {"programs": len(inputs), "disagreements_checked": len(fails),
           "samples": [{"input_succ": [list(s) for s in inputs[len(inputs) // 3][1]]}],
           "evaluations": n, "distinct_nontrivial": len(inputs),
           "rule": "closed CFGs as for C01 (≤14 nodes, every third in the quick tier) + the same and random CFGs (≤8 nodes, endless loops included) with their depth-first back arcs declared, as the YAML/dict front end allows + two bytecode functions through ByteFlowRenderer; "
                   "rendered before and after every stage; DOT parsed by harness/dot.py",
           "drawings_checked": n, "model_comparisons": nmodel, "model_mismatches": len(mism),
           "traces_validated_against_impl": nmodel, "failures_by_kind": {f"{k[0]}:{k[1]}": len(v) for k, v in by.items()}}
    return {"level": LEVEL, "coverage": cov, "violations": violations, "broken": broken,
            "assumptions": ["the DOT printer of the graphviz package and harness/dot.py are trusted; labels are checked for containing each field, not for layout"]}


def replay(path):
    d = json.load(open(path if os.path.isabs(path) else os.path.join(common.VERIF, path)))
    succ = d["input_succ"]
    n, fails, _, _ = _work([("replay", tuple(tuple(s) for s in succ))]) if isinstance(succ, list) else _work([(gfun, None)])
    print(fails[:5])
    if fails:
        print(f"VIOLATION property=C17 replay={path}")
        return 1
    return 0
