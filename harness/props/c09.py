"""C09 — the graph built from bytecode is exactly the bytecode's control flow.

harness/bc_worker.py runs under every available supported interpreter (3.12 always, 3.11 when
`python3.11` exists): for every in-domain function of a standard-library corpus plus generated
ones, the real FlowInfo/build_basicblocks result is compared with (a) the Lean model given the
opcode tables *regenerated from /repo* and (b) the control flow prescribed by the interpreter's
own opcode metadata (Lean `specBlocks`); the table-agreement hypothesis is evaluated as data.
"""
import json
import os
import shutil
import subprocess
from harness import common

LEVEL = "proof"
EXTRA_PROPS_FILES = ["Scfg/Props/C09Total.lean"]


def run_worker(py, tier, seed):
    env = dict(os.environ, PYTHONPATH=common.REPO)
    p = subprocess.run([py, os.path.join(common.VERIF, "harness", "bc_worker.py"), common.REPO, common.DRIVER, tier, str(seed)],
                       capture_output=True, text=True, env=env, timeout=3000)
    lines = [ln for ln in p.stdout.split("\n") if ln.startswith("{")]
    if p.returncode != 0 or not lines:
        raise RuntimeError(f"bc_worker under {py} failed: {p.stderr[-1500:]}")
    return json.loads(lines[-1])


def run(ctx):
    interps = ["/venv/bin/python"]
    if shutil.which("python3.11"):
        interps.append(shutil.which("python3.11"))
    results = [run_worker(py, ctx["tier"], ctx["seed"]) for py in interps]
    violations, broken = [], []
    for r in results:
        ver = ".".join(map(str, r["version"][:2]))
        for off in r["table_offenders"]:
            violations.append({"signature": {"py": ver, "cause": "opcode-misclassified", "opname": off["opname"]},
                               "what": f"Python {ver}: opcode {off['opname']} is '{off['interpreter']}' for the interpreter but '{off['library']}' in the library's tables",
                               "payload": {"offender": off, "example": next((v for v in r["violations"] if off["opname"] in v.get("ops", [])), None)}})
        known_ops = {o["opname"] for o in r["table_offenders"]}
        other = [v for v in r["violations"] if not (set(v.get("ops", [])) & known_ops)]
        if other:
            violations.append({"signature": {"py": ver, "cause": "cfg-differs"},
                               "what": f"Python {ver}: {len(other)} functions whose CFG differs from the interpreter's control flow",
                               "payload": {"examples": other[:5]}})
        if r["n_model_mismatches"]:
            path = common.write_replay("C09", {"property": "C09", "kind": "correspondence-broken",
                                               "correspondence": "Scfg.Model.Bytecode vs FlowInfo", "python": ver,
                                               "examples": r["model_mismatches"]})
            broken.append({"signature": {"kind": "correspondence"}, "replay": path, "nfi": True, "what": "bytecode model mismatch"})
    total = sum(r["functions"] for r in results)
    cov = {"evaluations": total, "distinct_nontrivial": sum(r["nontrivial"] for r in results),
           "rule": "every function/method of ~80 stdlib modules without exception table, raise or generator opcodes, plus generated "
                   "functions covering every conditional/unconditional/returning opcode and EXTENDED_ARG-prefixed jumps (bodies of 150 statements); "
                   "per block also get_instructions(bcmap) vs the offsets of its range (model getInstructions, theorem getInstructions_spec); non-trivial = more than one block",
           "samples": [{"python": r["version"], "first_function": r["sample"], "jump_ops_seen": r["jump_ops_seen"]} for r in results],
           "interpreters": [r["version"] for r in results],
           "functions_by_interpreter": {".".join(map(str, r["version"])): r["functions"] for r in results},
           "table_offenders": {".".join(map(str, r["version"])): r["table_offenders"] for r in results},
           "model_mismatches": sum(r["n_model_mismatches"] for r in results),
           "cfg_violations": sum(r["n_violations"] for r in results),
           "opcode_tables_regenerated_from_source": results[0]["tables"],
           "buildBlocks_total_hypothesis": {".".join(map(str, r["version"])): {"holds": r["last_instruction_classified"][0], "of": r["last_instruction_classified"][1]} for r in results},
           "traces_validated_against_impl": total - sum(r["n_model_mismatches"] for r in results)}
    return {"level": LEVEL, "coverage": cov, "violations": violations, "broken": broken,
            "assumptions": ["truth class of an opcode: member of dis.hasjrel ∪ dis.hasjabs; unconditional iff the name starts with JUMP and has no _IF_; "
                            "returning iff RETURN_VALUE / RETURN_CONST (trusted rule)", "dis.get_instructions / is_jump_target / argval are trusted"]}


def replay(path):
    d = json.load(open(path if os.path.isabs(path) else os.path.join(common.VERIF, path)))
    print(json.dumps(d, indent=1)[:3000])
    r = run_worker("/venv/bin/python", "quick", 0)
    if r["table_offenders"] or r["n_violations"]:
        print(f"VIOLATION property=C09 replay={path}")
        return 1
    return 0
