"""Shared implementation of the closed-CFG properties C01–C06: the real pipeline is run on
every generated input, every stage is exported, and verified Lean deciders judge the outputs."""
import json
import os
from collections import Counter
from harness import common, hier, gen, export

LEVEL = "translation_validation"

# property → function(stage, chk dict) → list of failing clause labels
def _bits(chk, key, labels):
    v = chk.get(key, "")
    return [lab for lab, b in zip(labels, v) if b != "1"] if len(v) == len(labels) else [key + "?"]


WF_LABELS = ["W1-unique-names", "W2-header-exiting-inside", "W3-leaves-only-from-exiting",
             "W4-targets-in-scope", "W5-region-targets-eq-exiting-targets", "W6-parent-is-container"]
ST_LABELS = ["S1-acyclic-without-backedges", "S2-backedges-only-loop-latch-to-header",
             "S3-branching-only-at-head-region-exits", "S4-every-cycle-takes-a-backedge"]


def judge(prop, stage, chk):
    if prop == "C01":
        return [k for k in ("simName", "simRegion") if chk.get(k) != "1"]
    if prop == "C03":
        return _bits(chk, "structured", ST_LABELS) if stage == "branch" else []
    if prop == "C04":
        return _bits(chk, "wf", WF_LABELS)
    if prop == "C05":
        return [k for k in ("conserved",) if chk.get(k) != "1"]
    if prop == "C06":
        return [k for k in ("ctl", "tables") if chk.get(k) != "1"]
    raise KeyError(prop)


def case_failures(prop, case):
    """list of (stage, labels) for one pipeline run"""
    out = []
    if prop == "C02":
        if case["abort"]:
            out.append((case["abort"][0], [case["abort"][1]]))
        return out
    for stage in hier.STAGES:
        chk = case["stages"].get(stage)
        if chk is None:
            continue
        labs = judge(prop, stage, chk)
        if labs:
            out.append((stage, labs))
    return out


def fails_on(prop, succ, stage, labels):
    cs = hier.run_graphs([("shrink", succ)], nproc=1)
    for st, labs in case_failures(prop, cs[0]):
        if st == stage and set(labs) & set(labels):
            return True
    return False


def cached_cases(ctx):
    """The six closed-CFG properties judge the same pipeline runs; the runs are cached under
    .cache/, keyed by the content of /repo's package, of the harness, of the driver binary, the
    tier and the seed — any change to any of them recomputes. Evidence is rewritten regardless."""
    import hashlib
    import pickle
    h = hashlib.sha256()
    h.update(common.repo_fingerprint().encode())
    for f in ("harness/hier.py", "harness/gen.py", "harness/export.py", "harness/common.py"):
        h.update(open(os.path.join(common.VERIF, f), "rb").read())
    h.update(open(common.DRIVER, "rb").read())
    h.update(f"{ctx['tier']}/{ctx['seed']}/{common.boost()}".encode())
    if os.environ.get("VERIF_NO_CACHE"):
        return hier.run_graphs(gen.graph_inputs(ctx["tier"], ctx["seed"]) + hier.derived_inputs(ctx["tier"], ctx["seed"]))
    cdir = os.path.join(common.VERIF, ".cache")
    os.makedirs(cdir, exist_ok=True)
    path = os.path.join(cdir, f"hier-{h.hexdigest()[:24]}.pkl")
    if os.path.exists(path):
        try:
            return pickle.load(open(path, "rb"))
        except Exception:  # noqa: BLE001
            pass
    cases = hier.run_graphs(gen.graph_inputs(ctx["tier"], ctx["seed"]) + hier.derived_inputs(ctx["tier"], ctx["seed"]))
    for old in os.listdir(cdir):
        if old.startswith("hier-") and ctx["tier"] == "quick":
            try:
                if os.path.getmtime(os.path.join(cdir, old)) < __import__("time").time() - 6 * 3600:
                    os.unlink(os.path.join(cdir, old))
            except OSError:
                pass
    tmp = path + f".{os.getpid()}"
    pickle.dump(cases, open(tmp, "wb"))
    os.replace(tmp, path)
    return cases


def run(ctx, prop):
    cases = cached_cases(ctx)
    by_gen = Counter(c["tag"] for c in cases)
    sizes = Counter(len(c["succ"]) for c in cases)
    aborts = Counter(c["abort"][1] for c in cases if c["abort"])
    nontrivial = set()
    judged = 0
    sigs = {}
    for c in cases:
        if "branch" in c["nblocks"] and c["nblocks"]["branch"] > len(c["succ"]) + 1:
            nontrivial.add(c["succ"])
        judged += len(c["stages"])
        for stage, labs in case_failures(prop, c):
            key = (stage, tuple(labs))
            sigs.setdefault(key, []).append(c)
    violations = []
    for (stage, labs), cs in sorted(sigs.items(), key=lambda kv: -len(kv[1]))[:6]:
        smallest = min(cs, key=lambda c: (len(c["succ"]), c["succ"]))
        shrunk = hier.shrink(smallest["succ"], lambda s: fails_on(prop, s, stage, labs))
        d = hier.diag(shrunk, stage)
        violations.append({
            "signature": {"stage": stage, "clauses": "+".join(labs)},
            "what": f"{prop} fails at stage '{stage}': {', '.join(labs)} on {len(cs)} generated inputs",
            "payload": {"input_succ": [list(s) for s in shrunk], "found_on": [list(s) for s in smallest["succ"]],
                        "stage": stage, "failing": list(labs), "count": len(cs), "lean": d,
                        "replay_cmd": f"./check {prop} --replay <this file>"},
        })
    sample = []
    for c in cases[:: max(1, len(cases) // 5)][:5]:
        sample.append({"generator": c["tag"], "succ": [list(s) for s in c["succ"]],
                       "stages": {k: v for k, v in c["stages"].items()}, "abort": c["abort"]})
    cov = {
        "programs": len(cases),
        "disagreements_checked": sum(len(v) for v in sigs.values()),
        "samples": sample,
        "evaluations": judged,
        "distinct_nontrivial": len(nontrivial),
        "rule": "closed CFGs (entry=node 0, ≤2 ordered distinct successors): all with ≤4 nodes"
                + (" and all 88 680 with 5 nodes" if ctx["tier"] == "thorough" else " plus a seeded sample of 5- and 6-node ones")
                + ", seeded random and template-biased larger ones, closed CFGs of standard-library functions (bytecode front end) and of generated functions (source front end); each run through the real join_returns, "
                  "restructure_loop, restructure_branch with every stage exported and judged by the Lean deciders; "
                  "non-trivial = the final hierarchy has more entries than input blocks + 1 (something was restructured)",
        "exhaustive": False,
        "exhaustive_scope": "all closed CFGs with ≤4 nodes" + (" and with 5 nodes" if ctx["tier"] == "thorough" else ""),
        "inputs_by_generator": dict(by_gen),
        "inputs_by_size": {str(k): v for k, v in sorted(sizes.items())},
        "aborts_by_site": dict(aborts),
        "stage_outputs_judged": judged,
    }
    if prop == "C04":
        # hypotheses of Scfg.C04.walks_agree_iff evaluated on the real stage outputs (statistics:
        # where they hold the theorem applies; `wf` itself is the property and judged above)
        st = [chk for c in cases for chk in c["stages"].values()]
        cov["walks_agree_iff_hypotheses"] = {
            "stage_outputs": len(st),
            "containers_are_regions": sum(1 for k in st if k.get("conts") == "1"),
            "wf_and_s2": sum(1 for k in st if set(k.get("wf", "0")) == {"1"} and len(k.get("structured", "")) >= 2 and k["structured"][1] == "1"),
            "region_walk_error_free_and_equal_to_name_walk": sum(1 for k in st if k.get("simName") == "1" and k.get("simRegion") == "1"),
        }
    if prop in ("C01", "C14"):
        # step certificates: every real extract_region / one-successor insert_block call of the pipeline,
        # whole hierarchy before and after, judged by wrappedB / splicedB (sound for the hypotheses of
        # wrapped_paths / spliced_paths). A rejected step is not a violation (the relation is sufficient,
        # not necessary); the stage outputs above decide the property.
        from harness import steps
        cov["step_certificates"], big_viol = steps.coverage(prop, ctx["tier"], [c["succ"] for c in cases], ctx["seed"])
        if prop == "C01":
            # diagnosis only: which mutating call of the failing run is the first one outside its step relation
            for v in violations[:3]:
                try:
                    succ = tuple(tuple(x) for x in v["payload"]["input_succ"])
                    cst, unc = steps.certify_chains([succ])
                    v["payload"]["chain_diagnosis"] = {
                        "fully_observed": cst["runs_fully_observed"] == 1,
                        "certified": cst["runs_certified_unconditionally"] == 1,
                        "first_uncertified_step": unc[0][1] if unc else None,
                        "steps_by_kind": cst.get("steps_by_kind", {})}
                except Exception as e:  # noqa: BLE001
                    v["payload"]["chain_diagnosis"] = {"error": type(e).__name__}
        for v in big_viol[:3]:
            violations.append({
                "signature": {"stage": "large-input", "clauses": "trace-differs"},
                "what": f"C01: the walk by name over the final hierarchy of a {len(v['succ'])}-block input shows a trace that "
                        f"differs from the input graph's after decisions {v['decisions']}",
                "payload": {"input_succ": v["succ"], "kind": "large-input-walk", "walks": v["walks"],
                            "decisions": v["decisions"], "first_uncertified_step": v.get("first_uncertified_step"),
                            "replay_cmd": "./check C01 --replay <this file>"}})
    return {"level": LEVEL, "coverage": cov, "violations": violations, "assumptions": ASSUMPTIONS}


ASSUMPTIONS = [
    "harness/export.py faithfully dumps the real SCFG objects (walks graph dicts and subregions directly)",
    "the Lean deciders are compiled by Lean's code generator; their soundness theorems are kernel-checked",
    "the quantifier over input graphs is carried by enumeration (exhaustive small scope + seeded samples), "
    "the quantifiers over decision sequences / paths / levels by the theorems",
]


def replay(path, prop):
    d = json.load(open(os.path.join(common.VERIF, path) if not os.path.isabs(path) else path))
    succ = tuple(tuple(s) for s in d["input_succ"])
    if d.get("kind") == "large-input-walk":
        from harness import big
        st, detail = big.walk_check(succ, tuple(d["walks"]))
        print(json.dumps({"input_blocks": len(succ), "walk_comparison": st, "detail": detail}))
        if st != "ok":
            print(f"VIOLATION property={prop} replay={path}")
            return 1
        print("replay: property holds on this input now")
        return 0
    cs = hier.run_graphs([("replay", succ)], nproc=1)
    fl = case_failures(prop, cs[0])
    print(json.dumps({"input": succ, "stages": cs[0]["stages"], "abort": cs[0]["abort"], "failures": fl}, indent=1))
    if fl:
        print(f"VIOLATION property={prop} replay={path}")
        return 1
    print("replay: property holds on this input now")
    return 0
