"""C11 — unsupported source constructs are refused, never mistranslated.

(1) theorem Scfg.C11.transform_refuses (all programs, any nesting) under the decidable
    hypothesis `dispatchOK`, which is evaluated on the dispatcher data the translator
    regenerates from /repo's source and the running interpreter's ast classes;
(2) G6: every statement class of the interpreter outside the supported set × structural
    positions through the real AST2SCFG: must raise NotImplementedError; the model's
    `refusesTop` must agree with the real outcome on every program.
"""
import ast
import json
import os
import textwrap
from collections import Counter
from harness import common, translate
common.import_repo()
from numba_scfg.core.datastructures.ast_transforms import AST2SCFG, AST2SCFGTransformer  # noqa: E402

LEVEL = "proof"

SNIPPETS = {
    "With": "with a: pass", "AsyncWith": "async with a: pass", "Try": "try:\n    pass\nexcept E:\n    pass",
    "TryStar": "try:\n    pass\nexcept* E:\n    pass", "Raise": "raise E", "Assert": "assert a", "Delete": "del a",
    "Global": "global g", "Nonlocal": "nonlocal n", "Import": "import m", "ImportFrom": "from m import n",
    "FunctionDef": "def inner():\n    return 1", "AsyncFunctionDef": "async def inner():\n    return 1",
    "ClassDef": "class C:\n    pass", "Match": "match a:\n    case 1:\n        pass", "AsyncFor": "async for i in a: pass",
    "AnnAssign": "a: int = 1", "TypeAlias": "type T = int",
}
SUPPORTED = ["FunctionDef", "Assign", "AugAssign", "Expr", "Return", "Pass", "If", "While", "For", "Break", "Continue"]

POSITIONS = {
    "top": "def f(a):\n    b = 1\n{S}\n    return b",
    "if-body": "def f(a):\n    if a:\n{SS}\n    return a",
    "if-else": "def f(a):\n    if a:\n        a = 1\n    else:\n{SS}\n    return a",
    "while-body": "def f(a):\n    while a:\n        a -= 1\n{SS}\n    return a",
    "for-body": "def f(a):\n    for i in range(a):\n{SS}\n    return a",
    "loop-else": "def f(a):\n    while a:\n        a -= 1\n    else:\n{SS}\n    return a",
    "after-loop": "def f(a):\n    for i in range(a):\n        a += i\n{S}\n    return a",
    "nested-deep": "def f(a):\n    if a:\n        while a:\n            if a > 1:\n{SSSS}\n            a -= 1\n    return a",
    "first": "def f(a):\n{S}\n    return a",
    # reachable only through a `break` that sits in the else clause of an inner loop, after an outer loop whose
    # own else clause returns (a "the rest is dead" shortcut that looks at the outer loop alone is wrong here)
    "after-loop-left-by-inner-else-break": "def f(a):\n    if a:\n        while a:\n            for i in range(a):\n                a -= 1\n"
                                           "            else:\n                if a == 3:\n                    break\n            a -= 1\n"
                                           "        else:\n            return 0\n{SS}\n    return a",
    "after-loop-left-by-inner-else-break-top": "def f(a):\n    while a:\n        for i in range(a):\n            a -= 1\n"
                                               "        else:\n            if a == 3:\n                break\n        a -= 1\n"
                                               "    else:\n        return 0\n{S}\n    return a",
    # the else clause of a loop whose test is a constant (the clause can never run, the statement is there all the same)
    "while-true-else": "def f(a):\n    while True:\n        a -= 1\n        if a < 0:\n            break\n    else:\n{SS}\n    return a",
    "while-one-else-nested": "def f(a):\n    while 1:\n        a -= 1\n        if a < 0:\n            break\n    else:\n        if a:\n{SSS}\n    return a",
    "after-if-one-arm-returns": "def f(a):\n    if a:\n        return 1\n    else:\n        a = 2\n{S}\n    return a",
}


def programs():
    for kind, snip in SNIPPETS.items():
        for pos, tmpl in POSITIONS.items():
            src = tmpl
            for key, ind in (("{SSSS}", 16), ("{SSS}", 12), ("{SS}", 8), ("{S}", 4)):
                src = src.replace(key, textwrap.indent(snip, " " * ind))
            yield kind, pos, src
    # a second top-level statement that is not the function
    yield "FunctionDef", "second-toplevel", "def f(a):\n    return a\ndef g(b):\n    return b"
    yield "Import", "second-toplevel", "def f(a):\n    return a\nimport m"


def abstract(nodes):
    """ast statement list → wire form of Scfg.Model.Stmt"""
    out = []
    for n in nodes:
        k = type(n).__name__
        body = getattr(n, "body", []) if k in ("FunctionDef", "If", "While", "For") else []
        orelse = getattr(n, "orelse", []) if k in ("If", "While", "For") else []
        out.append(f"{k}[{abstract(body)}][{abstract(orelse)}]")
    return "".join(out)


def outcome(src, refusal=(NotImplementedError,)):
    """The entry point on a fresh transformer, and then one transformer object asked several times
    (both views, and again): every request must be refused - a refusal that only holds for the
    first request lets a truncated graph out on the second."""
    try:
        AST2SCFG(src)
        return "accepted"
    except refusal:
        pass
    except Exception as e:  # noqa: BLE001
        return "crash:" + type(e).__name__
    try:
        tr = AST2SCFGTransformer(src)
    except refusal:
        return "refused"
    except Exception as e:  # noqa: BLE001
        return "crash:" + type(e).__name__
    for k, view in enumerate(("transform_to_ASTCFG", "transform_to_SCFG", "transform_to_ASTCFG", "transform_to_SCFG")):
        try:
            getattr(tr, view)()
            return f"accepted-on-request-{k + 1}-of-one-transformer"
        except refusal:
            continue
        except Exception as e:  # noqa: BLE001
            return "crash:" + type(e).__name__
    return "refused"


def run(ctx):
    d = translate.dispatch_data()
    wire = translate.dispatch_wire(d)
    drv = common.Driver()
    parts = drv.run([f"DISPATCH {wire}"])[0].split(" ")
    if len(parts) == 2:
        ok, offenders = parts
        offenders = [] if offenders == "-" else offenders.split(",")
    else:
        ok, offenders = "0", ["translator:unrecognised-dispatch-data"]
    if any(c[0] == ["?unrecognised-test"] for c in d["chain"]):
        offenders.append("translator:unrecognised-test-in-chain")
    cases, lines = [], []
    unparsable = []
    for kind, pos, src in programs():
        try:
            tree = ast.parse(src)
        except SyntaxError:
            unparsable.append((kind, pos))
            continue
        cases.append((kind, pos, src, outcome(src)))
        lines.append(f"REFUSES {wire} {abstract(tree.body)}")
    # non-function input
    nonfn = [("non-function:assign-first", "x = 1\ndef f(a):\n    return a"), ("non-function:expression", "1 + 1")]
    # already parsed input (a list of ast nodes) whose first element is not a function definition
    nonfn += [("non-function:ast-list-assign", ast.parse("x = 1").body), ("non-function:ast-list-expr", ast.parse("f(1)").body),
              ("non-function:ast-list-if", ast.parse("if a:\n    b = 1").body), ("non-function:ast-list-while", ast.parse("while a:\n    a -= 1").body),
              ("non-function:ast-list-class", ast.parse("class C:\n    pass").body)]
    nf_out = []
    for tag, src in nonfn:
        nf_out.append((tag, outcome(src, (NotImplementedError, AssertionError))))
    rep = drv.run(lines)
    violations, broken, mism = [], [], []
    bad = {}
    stats = Counter()
    for (kind, pos, src, out), r in zip(cases, rep):
        model_refuses, has_unsup, known = r.split(" ")
        stats[out] += 1
        if out != "refused":
            bad.setdefault((kind, out.split(":")[0]), []).append((pos, src, out))
        if (out == "refused") != (model_refuses == "1") and not out.startswith("crash"):
            mism.append({"kind": kind, "position": pos, "impl": out, "model_refuses": model_refuses, "source": src})
    for (kind, what), items in sorted(bad.items()):
        pos, src, out = items[0]
        violations.append({"signature": {"stmt": kind, "outcome": what},
                           "what": f"unsupported statement {kind} is {out} instead of refused (positions: {sorted({p for p, _, _ in items})})",
                           "payload": {"source": src, "position": pos, "outcome": out, "positions": sorted({p for p, _, _ in items})}})
    for tag, out in nf_out:
        if out != "refused":
            violations.append({"signature": {"stmt": tag, "outcome": out}, "what": f"{tag}: {out}", "payload": {"input": tag}})
    # the hypothesis of the theorem, as data
    for off in offenders:
        k = off.split(":")[0]
        if not any(v["signature"].get("stmt") == k for v in violations):
            violations.append({"signature": {"stmt": k, "outcome": "dispatch-" + off.split(":")[1]},
                               "what": f"dispatcher data: {off} (hypothesis dispatchOK of transform_refuses is false)",
                               "payload": {"offender": off, "chain": d["chain"]}})
    if mism:
        path = common.write_replay("C11", {"property": "C11", "kind": "correspondence-broken",
                                           "correspondence": "Scfg.Model.Dispatch (regenerated data) vs AST2SCFG", **mism[0]})
        broken.append({"signature": {"kind": "correspondence"}, "replay": path, "nfi": True, "what": "dispatch model mismatch"})
    cov = {"evaluations": len(cases) + len(nf_out), "distinct_nontrivial": len(cases),
           "rule": "one minimal instance of every statement class of the running interpreter outside the supported set × "
                   f"{len(POSITIONS)} structural positions (+ second top-level statement, non-function input); each through the real AST2SCFG",
           "samples": [{"kind": c[0], "position": c[1], "outcome": c[3]} for c in cases[:4]],
           "dispatch_chain_from_source": d["chain"], "fallback": d["fallback"], "nested_def_refused_in_source": d["nested"],
           "interpreter_stmt_classes": [k for k, _ in d["kinds"]], "dispatchOK": ok == "1", "dispatch_offenders": offenders,
           "classes_without_snippet": sorted({k for k, _ in d["kinds"]} - set(SNIPPETS) - set(SUPPORTED)),
           "unparsable_here": unparsable, "outcomes": dict(stats), "non_function_inputs": nf_out,
           "model_mismatches": len(mism), "traces_validated_against_impl": len(cases) - len(mism)}
    if cov["classes_without_snippet"]:
        broken.append({"signature": {"kind": "generator-gap"}, "nfi": True,
                       "what": f"statement classes of this interpreter without a G6 snippet: {cov['classes_without_snippet']}",
                       "payload": {"classes": cov["classes_without_snippet"]}})
    return {"level": LEVEL, "coverage": cov, "violations": violations, "broken": broken,
            "assumptions": ["translator recognises the isinstance chain of handle_ast_node and the nested-definition guard of handle_function_def "
                            "(anything else is reported as an 'unknown' arm)", "ast.parse is trusted"]}


def replay(path):
    d = json.load(open(path if os.path.isabs(path) else os.path.join(common.VERIF, path)))
    src = d.get("source")
    if src:
        out = outcome(src)
        print(src, "\n->", out)
        if out != "refused":
            print(f"VIOLATION property=C11 replay={path}")
            return 1
        return 0
    print(json.dumps(d, indent=1)[:2000])
    return 1
