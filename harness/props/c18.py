"""C18 — generated names are fresh.

(1) theorems (Scfg/Props/C18.lean): requests_fresh, render_inj, names_fresh — any request
    sequence; the hypothesis `prefixesOK` is *evaluated* on the table of (namespace, kind)
    requests regenerated from /repo's source by harness/translate.py.
(2) correspondence: random request sequences against the real NameGenerator vs. the Lean model.
(3) second clause (never clobbers an existing block) on the real pipeline: closed CFGs whose
    block names lie in the generator's namespace, and stage prefixes interleaved with
    dict write/read round trips.
"""
import json
import os
import random
from collections import Counter
from harness import common, translate, export, gen, hier
common.import_repo()
from numba_scfg.core.datastructures.scfg import SCFG, NameGenerator  # noqa: E402
from numba_scfg.core.datastructures import basic_block as bb  # noqa: E402

LEVEL = "proof"
EXTRA_PROPS_FILES = ["Scfg/Props/C18Reserve.lean"]
NS = {"b": "new_block_name", "r": "new_region_name", "v": "new_var_name"}


def ng_corr(rng, table, n):
    kinds = sorted({k for _, k in table}) + ["a", "a_block_1", "x_var_0", "k9"]
    drv = common.Driver()
    lines, exp = [], []
    for _ in range(n):
        ng = NameGenerator()
        pre = {}
        for _ in range(rng.randint(0, 3)):
            pre[rng.choice(kinds)] = rng.randint(0, 12)
        ng.kinds.update(pre)
        reqs = [(rng.choice("brv"), rng.choice(kinds)) for _ in range(rng.randint(1, 12))]
        ngline = ",".join(f"{k}={v}" for k, v in pre.items()) or "-"
        names = [getattr(ng, NS[a])(k) for a, k in reqs]
        lines.append(f"NG {ngline} " + ",".join(f"{a}:{k}" for a, k in reqs))
        exp.append((names, dict(ng.kinds), reqs, pre))
    out = drv.run(lines)
    bad = []
    dup = []
    for rep, (names, kinds_after, reqs, pre) in zip(out, exp):
        parts = rep.split(" ")
        got = parts[0].split(",")
        gk = dict((kv.split("=")[0], int(kv.split("=")[1])) for kv in parts[1].split(",")) if len(parts) > 1 and parts[1] != "-" else {}
        if got != names or gk != kinds_after:
            bad.append({"requests": reqs, "start": pre, "impl": names, "model": rep})
        # the property itself on the real generator, for requests within the library's table
        lib = [nm for nm, (a, k) in zip(names, reqs) if (a, k) in table]
        if len(set(lib)) != len(lib):
            dup.append({"requests": reqs, "start": pre, "impl": names})
    return bad, dup, len(lines)


def reserve_corr(rng, table, n):
    """real NameGenerator.reserve vs the Lean model (Scfg/Model/Reserve.lean) on names of generated
    shape, near misses and arbitrary names"""
    kinds = sorted({k for _, k in table}) + ["a", "a_block_1", "x_var_0", "k9", "b_region_2"]
    alphabet = "ab_019"
    drv = common.Driver()
    lines, exp = [], []
    for _ in range(n):
        ng = NameGenerator()
        pre = {}
        for _ in range(rng.randint(0, 3)):
            pre[rng.choice(kinds)] = rng.randint(0, 12)
        ng.kinds.update(pre)
        names = []
        for _ in range(rng.randint(1, 8)):
            k, i = rng.choice(kinds), rng.choice([0, 1, 2, 5, 9, 10, 11, 12, 13, 99, 100])
            shape = rng.randint(0, 9)
            nm = [f"{k}_block_{i}", f"{k}_region_{i}", f"__scfg_{k}_var_{i}__", f"{k}_block_{i}_", f"{k}_blok_{i}",
                  f"_block_{i}", f"__scfg__var_{i}__", f"{k}_block_", f"{k}_block_0{i}",
                  "".join(rng.choice(alphabet) for _ in range(rng.randint(1, 10)))][shape]
            names.append(nm)
            ng.reserve(nm)
        ngline = ",".join(f"{k}={v}" for k, v in pre.items()) or "-"
        lines.append(f"RSV {ngline} " + ",".join(names))
        exp.append((dict(ng.kinds), names, pre))
    out = drv.run(lines)
    bad = []
    for rep, (kinds_after, names, pre) in zip(out, exp):
        gk = dict((kv.split("=")[0], int(kv.split("=")[1])) for kv in rep.split(",")) if rep not in ("-", "") and "=" in rep else {}
        if gk != kinds_after or list(gk) != list(kinds_after):
            bad.append({"names": names, "start": pre, "impl": kinds_after, "model": rep})
    return bad, len(lines)


GEN_NAMES = ["synth_asign_block_0", "synth_asign_block_1", "synth_head_block_0", "synth_exit_latch_block_0",
             "synth_exit_block_0", "synth_tail_block_0", "synth_fill_block_0", "synth_return_block_0",
             "loop_region_0", "head_region_0", "branch_region_0", "tail_region_0", "synth_asign_block_2",
             "synth_tail_block_1", "branch_region_1", "synth_fill_block_1"]


def clobber_runs(rng, n):
    """closed CFGs with some blocks named like generated names; returns (runs, failures)"""
    inputs = []
    for _ in range(n):
        k = rng.randint(3, 9)
        succ = gen.rand_template(rng, k) if rng.random() < 0.5 else gen.rand_closed(rng, k)
        names = [str(i) for i in range(k)]
        for i in rng.sample(range(1, k), rng.randint(1, min(3, k - 1))):
            names[i] = rng.choice(GEN_NAMES)
        if len(set(names)) != len(names):
            continue
        inputs.append((succ, names))
    drv = common.Driver()
    lines, plan, fails = [], [], []
    for idx, (succ, names) in enumerate(inputs):
        scfg = export.mk_scfg(succ, names)
        gtop, gline = export.export(scfg)
        lines.append(f"G {gtop} {gline}")
        plan.append(None)
        for stage, top, line, abort in hier.run_stages(scfg):
            if abort:
                fails.append({"succ": succ, "names": names, "stage": stage, "what": "abort " + abort})
                break
            lines += [f"H {top} {line}", "CHK"]
            plan += [None, (idx, stage)]
    rep = drv.run(lines)
    for pl, r in zip(plan, rep):
        if pl is None:
            continue
        idx, stage = pl
        chk = hier.parse_chk(r)
        if chk.get("conserved") != "1" or chk.get("wf", "0")[0] != "1":
            succ, names = inputs[idx]
            fails.append({"succ": succ, "names": names, "stage": stage,
                          "what": f"conserved={chk.get('conserved')} unique-names={chk.get('wf', '0')[0]}"})
    return len(inputs), fails


from numba_scfg.core import transformations as _T  # noqa: E402


def reload_runs(rng, n):
    """stage prefixes interleaved with to_dict/from_dict; the final hierarchy is judged against the
    original graph by the Lean deciders (unique names, conserved, path equivalence): a generated
    name that re-binds an existing block shows up as a lost / altered block or a changed path."""
    runs, fails, io_aborts = 0, [], Counter()
    drv = common.Driver()
    lines, meta = [], []
    for _ in range(n):
        k = rng.randint(4, 10)
        succ = gen.rand_template(rng, k) if rng.random() < 0.7 else gen.rand_closed(rng, k)
        scfg = export.mk_scfg(succ)
        gtop, gline = export.export(scfg)
        ops = [("join_returns", lambda s: s.join_returns()), ("restructure_loop", lambda s: s.restructure_loop()),
               ("restructure_branch", lambda s: s.restructure_branch())]
        reload_after = rng.randint(0, 2)
        ok = True
        history = rng.choice(["prefix", "prefix", "top-level-loops-first", "pipeline-twice"])
        if history == "top-level-loops-first":
            # only the outermost graph's loops (public module function), write/read, then the stages
            ops = [("join_returns", lambda s: s.join_returns()),
                   ("transformations.restructure_loop(region)", lambda s: _T.restructure_loop(s.region)),
                   ("restructure_loop", lambda s: s.restructure_loop()), ("restructure_branch", lambda s: s.restructure_branch())]
            reload_after = 1
        elif history == "pipeline-twice":
            # the whole pipeline, write/read, and the restructuring stages once more on the result
            ops = ops + [("restructure_loop (again)", lambda s: s.restructure_loop()), ("restructure_branch (again)", lambda s: s.restructure_branch())]
            reload_after = 2
        for i, (nm, op) in enumerate(ops):
            try:
                op(scfg)
            except Exception as e:  # noqa: BLE001
                fails.append({"succ": succ, "reload_after_stage": reload_after, "stage": nm, "what": "abort " + type(e).__name__})
                ok = False
                break
            if i == reload_after:
                try:
                    scfg, _ = SCFG.from_dict(scfg.to_dict())
                except Exception as e:  # noqa: BLE001
                    io_aborts[f"to/from_dict after {nm}:{type(e).__name__}"] += 1
                    ok = False
                    break
        runs += 1
        if ok:
            top, line = export.export(scfg)
            lines += [f"G {gtop} {gline}", f"H {top} {line}", "CHK"]
            meta += [None, None, (succ, reload_after)]
    rep = drv.run(lines) if lines else []
    for m, r in zip(meta, rep):
        if m is None:
            continue
        chk = hier.parse_chk(r)
        if chk.get("conserved") != "1" or chk.get("wf", "0")[0] != "1" or chk.get("simName") != "1":
            fails.append({"succ": m[0], "reload_after_stage": m[1], "stage": "final",
                          "what": f"conserved={chk.get('conserved')} unique-names={chk.get('wf', '0')[0]} paths={chk.get('simName')}"})
    return runs, fails, io_aborts


def run(ctx):
    rng = random.Random(ctx["seed"] * 104729 + 18)
    quick = ctx["tier"] == "quick"
    table, unresolved, sites = translate.name_requests()
    drv = common.Driver()
    tline = ",".join(f"{a}:{k}" for a, k in table)
    pref = drv.run([f"PREFIXOK {tline}"])[0]
    violations, broken = [], []
    if unresolved:
        broken.append({"signature": {"kind": "translator"}, "nfi": True,
                       "what": f"name-request kinds not resolvable from source: {unresolved}",
                       "payload": {"unresolved": unresolved}})
    if pref != "1":
        # search for the confusable pair → concrete clashing names on the real generator
        witness = None
        for a in table:
            for b in table:
                if a != b and drv.run([f"PREFIXOK {a[0]}:{a[1]},{b[0]}:{b[1]}"])[0] != "1":
                    witness = (a, b)
        violations.append({"signature": {"cause": "confusable-prefixes"},
                           "what": f"kinds in the source can render equal names: {witness}",
                           "payload": {"pair": witness, "table": table}})
    bad, dup, nseq = ng_corr(rng, set(table), 400 * common.boost() if quick else 20000)
    if dup:
        violations.append({"signature": {"cause": "duplicate-name-from-generator"},
                           "what": "real NameGenerator handed out the same name twice", "payload": dup[0]})
    if bad:
        path = common.write_replay("C18", {"property": "C18", "kind": "correspondence-broken",
                                           "correspondence": "Scfg.Model.NameGen vs NameGenerator", **bad[0]})
        broken.append({"signature": {"kind": "correspondence"}, "replay": path, "nfi": True, "what": "NameGenerator model mismatch"})
    rbad, nres = reserve_corr(rng, set(table), 400 * common.boost() if quick else 20000)
    if rbad:
        path = common.write_replay("C18", {"property": "C18", "kind": "correspondence-broken",
                                           "correspondence": "Scfg.Model.NameGen.reserve vs NameGenerator.reserve", **rbad[0]})
        broken.append({"signature": {"kind": "correspondence-reserve"}, "replay": path, "nfi": True, "what": "reserve model mismatch"})
    nclob, cfails = clobber_runs(rng, 600 * common.boost() if quick else 20000)
    if cfails:
        f = min(cfails, key=lambda x: len(x["succ"]))
        violations.append({"signature": {"cause": "input-name-in-generator-namespace"},
                           "what": f"restructuring a graph whose block names lie in the generator's namespace clobbers / loses a block ({len(cfails)} of {nclob} runs)",
                           "payload": {"input_succ": [list(s) for s in f["succ"]], "names": f["names"], "stage": f["stage"],
                                       "observed": f["what"], "count": len(cfails)}})
    nrel, rfails, io_aborts = reload_runs(rng, 800 * common.boost() if quick else 20000)
    if rfails:
        f = min(rfails, key=lambda x: len(x["succ"]))
        violations.append({"signature": {"cause": "reload-resets-counters"},
                           "what": f"after a dict write/read between stages a generated name re-binds an existing block ({len(rfails)} of {nrel})",
                           "payload": {"input_succ": [list(s) for s in f["succ"]], **{k: v for k, v in f.items() if k != "succ"}}})
    cov = {
        "evaluations": nseq + nclob + nrel,
        "distinct_nontrivial": nseq + nclob,
        "rule": "request sequences: 1–12 requests over the library's kinds plus adversarial kinds, random starting counters; "
                "clobber runs: closed CFGs with 1–3 blocks named like generated names, all three stages, judged by the Lean "
                "deciders conserved/W1; reload runs: dict write/read after a random stage",
        "samples": [{"table_from_source": table}, {"request_sites": [s for _, _, s in sites][:6]}],
        "name_request_table": table, "prefixesOK_on_source_table": pref == "1",
        "ng_sequences": nseq, "ng_model_mismatches": len(bad),
        "reserve_sequences": nres, "reserve_model_mismatches": len(rbad),
        "clobber_runs": nclob, "clobber_failures": len(cfails),
        "reload_runs": nrel, "reload_failures": len(rfails), "reload_io_aborts": dict(io_aborts),
        "traces_validated_against_impl": nseq - len(bad),
    }
    return {"level": LEVEL, "coverage": cov, "violations": violations, "broken": broken,
            "assumptions": ["translator resolves every name-request kind from the source (unresolved ones are reported)",
                            "Lean `toString : Nat → String` and Python `str(int)` agree on naturals (exercised by the correspondence)"]}


def replay(path):
    d = json.load(open(path if os.path.isabs(path) else os.path.join(common.VERIF, path)))
    if "names" in d:
        succ = tuple(tuple(s) for s in d["input_succ"])
        scfg = export.mk_scfg(succ, d["names"])
        before = set(scfg.graph)
        try:
            scfg.restructure()
        except Exception as e:  # noqa: BLE001
            print("abort", type(e).__name__)
            print(f"VIOLATION property=C18 replay={path}")
            return 1
        allnames = [e[1] for e in export.export_entries(scfg, "top")]
        kinds = {e[1]: e[2] for e in export.export_entries(scfg, "top")}
        lost = [n for n in before if kinds.get(n) != "basic"]
        print("lost-or-rebound:", lost, "duplicates:", len(allnames) - len(set(allnames)))
        if lost or len(allnames) != len(set(allnames)):
            print(f"VIOLATION property=C18 replay={path}")
            return 1
        return 0
    print(json.dumps(d, indent=1)[:2000])
    return 1
