"""C10 — code generation emits every block exactly once, validly and hygienically.

Static census of the generated tree, by object identity (the code generator reuses the node
objects of the blocks): statements of every original block, assignments of every synthetic
assignment block, the test of every two-way block as the condition of exactly one `if`.
Two routes: (a) functions through the whole source pipeline, (b) arbitrary restructured closed
CFGs whose blocks carry synthetic AST payloads, fed to SCFG2ASTTransformer directly.
The multiset comparison is the Lean predicate sameMultiset (Scfg.C10.census_sound); compile
and hygiene are checked on the unparsed text.
"""
import ast
import json
import os
import random
import multiprocessing as mp
from collections import Counter
from harness import common, gen, pygen, export
common.import_repo()
from numba_scfg.core.datastructures.ast_transforms import AST2SCFG, SCFG2AST, SCFG2ASTTransformer  # noqa: E402
from numba_scfg.core.datastructures import basic_block as bb  # noqa: E402
from numba_scfg.core.datastructures.scfg import SCFG  # noqa: E402

LEVEL = "translation_validation"
EXTRA_PROPS_FILES = ["Scfg/Props/C10Gen.lean"]


def expected_tags(scfg, tag):
    """walk the restructured hierarchy: tags of statements / tests / control assignments"""
    exp = []

    def walk(g):
        for b in g.graph.values():
            if isinstance(b, bb.RegionBlock):
                walk(b.subregion)
            elif type(b) is bb.PythonASTBlock:
                tree = list(b.tree)
                if len(b.jump_targets) == 2 and tree:
                    last = tree.pop()
                    t = last.value if isinstance(last, ast.Expr) else last
                    exp.append("test:" + tag(t))
                elif tree and isinstance(tree[-1], ast.Return) and len(b._jump_targets) == 1:
                    # a return that continues to the common synthetic return: its value is assigned
                    last = tree.pop()
                    exp.append("ret:" + (tag(last.value) if last.value is not None else "None@" + tag(last)))
                for s in tree:
                    exp.append("stmt:" + tag(s))
            elif type(b) is bb.SyntheticAssignment:
                for k, v in b.variable_assignment.items():
                    exp.append(f"asg:{b.name}:{k}={v}")
    walk(scfg)
    return exp


def found_tags(fdef, tag, known, asg_index):
    """walk the generated tree"""
    got = []
    other_new_names = set()

    def visit_stmts(ss):
        for s in ss:
            visit(s)

    def visit(s):
        if id(s) in known:
            got.append("stmt:" + tag(s))
            return
        if isinstance(s, ast.If):
            t = s.test
            if id(t) in known:
                got.append("test:" + tag(t))
            visit_stmts(s.body)
            visit_stmts(s.orelse)
            return
        if isinstance(s, ast.While):
            visit_stmts(s.body)
            visit_stmts(s.orelse)
            return
        if isinstance(s, ast.Assign) and len(s.targets) == 1 and isinstance(s.targets[0], ast.Name):
            x = s.targets[0].id
            if x == "__scfg_return_value__":
                v = s.value
                if id(v) in known:
                    got.append("ret:" + tag(v))
                elif isinstance(v, ast.Constant) and v.value is None:
                    got.append("ret:None@?")
                return
            if isinstance(s.value, ast.Constant) and isinstance(s.value.value, int) and not isinstance(s.value.value, bool):
                key = (x, s.value.value)
                got.append(f"asgfound:{x}={s.value.value}")
                return
    visit_stmts(fdef.body)
    return got


def census(scfg, fdef):
    tags = {}

    def tag(node):
        return tags.setdefault(id(node), f"n{len(tags)}")
    exp = expected_tags(scfg, tag)
    known = set(tags)
    got = found_tags(fdef, tag, known, None)
    # assignments: expected carry the block name, found do not — compare as (var=value) multisets
    exp2 = [("asg:" + e.split(":", 2)[2]) if e.startswith("asg:") else (("ret:None") if e.startswith("ret:None@") else e) for e in exp]
    got2 = [("asg:" + g.split(":", 1)[1]) if g.startswith("asgfound:") else (("ret:None") if g.startswith("ret:None@") else g) for g in got]
    return exp2, got2


def hygiene(src_names, fdef):
    bound = set()
    for n in ast.walk(fdef):
        if isinstance(n, ast.Name) and isinstance(n.ctx, ast.Store):
            bound.add(n.id)
        if isinstance(n, ast.Assign):
            for t in n.targets:
                if isinstance(t, ast.Name):
                    bound.add(t.id)
    return sorted(x for x in bound if x not in src_names and not (x.startswith("__scfg_") and x.endswith("__")))


def names_bound(fdef):
    out = {a.arg for a in fdef.args.args}
    for n in ast.walk(fdef):
        if isinstance(n, ast.Name):
            out.add(n.id)
    return out


def synth_cfg(succ):
    """closed CFG with synthetic AST payloads: each block `sK` statements, a test name for two-way
    blocks, a return for exits"""
    g = {}
    for i, ss in enumerate(succ):
        tree = [ast.Expr(ast.Name(f"s{i}_{k}", ast.Load()), lineno=0) for k in range(1 + i % 2)]
        if len(ss) == 2:
            tree.append(ast.Name(f"t{i}", ast.Load()))
        if len(ss) == 0:
            tree.append(ast.Return(ast.Name(f"r{i}", ast.Load()), lineno=0))
        g[str(i)] = bb.PythonASTBlock(name=str(i), _jump_targets=tuple(str(s) for s in ss), tree=tree)
    return SCFG(g)


ORIG = ast.parse("def f():\n    pass\n").body[0]


def _work(chunk):
    drv = common.Driver()
    lines, meta, fails = [], [], []
    n = 0
    # one transformer object used for every function of the chunk (the class is public API and
    # `transform` resets its per-run state): its output must not depend on what it generated before
    shared = SCFG2ASTTransformer()
    for kind, item in chunk:
        try:
            if kind == "src":
                scfg = AST2SCFG(item)
                scfg.restructure()
                fdef = SCFG2AST(item, scfg)
                src_names = names_bound(ast.parse(item).body[0])
            else:
                scfg = synth_cfg(item)
                src_names = {n_.id for b in scfg.graph.values() for t in b.tree for n_ in ast.walk(t) if isinstance(n_, ast.Name)}
                scfg.restructure()
                fdef = SCFG2ASTTransformer().transform(original=ORIG, scfg=scfg)
        except NotImplementedError:
            continue            # refusal is C07's business
        except Exception:  # noqa: BLE001
            continue            # crashes are C07's / C02's business
        n += 1
        exp, got = census(scfg, fdef)
        lines.append("SPEC census " + (",".join(exp) or "-") + " " + (",".join(got) or "-"))
        meta.append((kind, item, exp, got))
        try:
            text = ast.unparse(fdef)
            compile(text, "<gen>", "exec")
        except Exception as e:  # noqa: BLE001
            fails.append((kind, item, "does-not-compile:" + type(e).__name__, ""))
            continue
        hy = hygiene(src_names, ast.parse(text).body[0])
        if hy:
            fails.append((kind, item, "introduces-names-outside-the-reserved-namespace", str(hy)))
        # regenerate from the same restructured graph: once more with a fresh transformer, once with
        # the shared one; both must reproduce the first text (a changed text is then judged by the
        # census, so that the report names what was lost or duplicated)
        orig = ast.parse(item).body[0] if kind == "src" else ORIG
        for how, tr in (("regenerated-from-the-same-graph", SCFG2ASTTransformer()), ("reused-transformer", shared)):
            try:
                f2 = tr.transform(original=orig, scfg=scfg)
                t2 = ast.unparse(f2)
            except Exception as e:  # noqa: BLE001
                fails.append((kind, item, f"{how}:raises-{type(e).__name__}", ""))
                continue
            if t2 != text:
                e2, g2 = census(scfg, f2)
                ce, cg = Counter(e2), Counter(g2)
                fails.append((kind, item, f"{how}:output-differs",
                              f"lost={sorted((ce - cg).elements())[:4]} extra={sorted((cg - ce).elements())[:4]}"))
    rep = drv.run(lines) if lines else []
    for (kind, item, exp, got), r in zip(meta, rep):
        if r != "1":
            ce, cg = Counter(exp), Counter(got)
            lost = sorted((ce - cg).elements())
            dup = sorted((cg - ce).elements())
            what = []
            if any(x.startswith("asg:") for x in lost):
                what.append("control-variable-assignment-lost")
            if any(x.startswith(("stmt:", "ret:")) for x in lost):
                what.append("statement-lost")
            if any(x.startswith("test:") for x in lost):
                what.append("test-lost")
            if any(x.startswith("asg:") for x in dup):
                what.append("control-variable-assignment-duplicated")
            if any(x.startswith(("stmt:", "ret:")) for x in dup):
                what.append("statement-duplicated")
            if any(x.startswith("test:") for x in dup):
                what.append("test-duplicated")
            fails.append((kind, item, "census:" + "+".join(what), f"lost={lost[:4]} extra={dup[:4]}"))
    return n, fails


def front_end_shape(item):
    try:
        scfg = AST2SCFG(item)
    except Exception:  # noqa: BLE001
        return "front-end-raised"
    if any(len(b._jump_targets) == 2 and b._jump_targets[0] == b._jump_targets[1] for b in scfg.graph.values()):
        return "two-way-block-with-identical-successors"
    return "none"


def run(ctx):
    rng = random.Random(ctx["seed"] * 5323 + 10)
    quick = ctx["tier"] == "quick"
    progs = list(pygen.HAND) + [p for p in pygen.corpus_programs() if p not in pygen.HAND] + [pygen.gen_program(rng, rng.randint(3, 11), depth=rng.choice([2, 3, 4])) for _ in range(300 * common.boost() if quick else 6000)]
    graphs = [s for _, s in gen.graph_inputs(ctx["tier"], ctx["seed"]) if len(s) <= 16]
    if quick:
        graphs = graphs[::3]
    items = [("src", p) for p in progs] + [("cfg", g) for g in graphs]
    nproc = common.ncpu()
    size = max(10, min(400, len(items) // (nproc * 4) + 1))
    chunks = [items[i:i + size] for i in range(0, len(items), size)]
    with mp.get_context("fork").Pool(nproc) as pool:
        parts = pool.map(_work, chunks)
    n = sum(p[0] for p in parts)
    fails = [f for p in parts for f in p[1]]
    by = {}
    for kind, item, why, detail in fails:
        shape = front_end_shape(item) if kind == "src" else "n/a"
        by.setdefault((kind, why, shape), []).append((item, detail))
    violations = []
    for (kind, why, shape), items_ in sorted(by.items(), key=lambda kv: -len(kv[1]))[:8]:
        item, detail = min(items_, key=lambda x: len(x[0]))
        violations.append({"signature": {"route": kind, "failure": why, "construct": shape},
                           "what": f"generated code: {why} ({kind} route, {len(items_)} cases) {detail}",
                           "payload": {"source" if kind == "src" else "input_succ": item if kind == "src" else [list(s) for s in item],
                                       "detail": detail, "count": len(items_)}})
    cov = {"programs": len(items), "disagreements_checked": len(fails),
           "samples": [{"source": progs[len(pygen.HAND)]}, {"input_succ": [list(s) for s in graphs[len(graphs) // 2]]}],
           "evaluations": n, "distinct_nontrivial": n,
           "rule": "route (a): generated functions through AST2SCFG → restructure → SCFG2AST; route (b): closed CFGs (as C01, ≤16 nodes) with synthetic "
                   "AST payloads through restructure → SCFG2ASTTransformer; census by object identity judged by Lean sameMultiset; compile of the unparsed text; hygiene",
           "outputs_censused": n, "source_programs": len(progs), "cfg_inputs": len(graphs),
           "failures_by_kind": {" | ".join(k): len(v) for k, v in by.items()}}
    return {"level": LEVEL, "coverage": cov, "violations": violations,
            "assumptions": ["the code generator reuses the node objects of the blocks (census by identity); ast.unparse / compile are trusted"]}


def replay(path):
    d = json.load(open(path if os.path.isabs(path) else os.path.join(common.VERIF, path)))
    item = ("src", d["source"]) if "source" in d else ("cfg", tuple(tuple(s) for s in d["input_succ"]))
    n, fails = _work([item])
    print(fails)
    if fails:
        print(f"VIOLATION property=C10 replay={path}")
        return 1
    return 0
