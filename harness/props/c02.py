"""C02 — restructuring accepts every closed control-flow graph.

(1) the real pipeline is run on every closed CFG of the exhaustive scope and on seeded larger
    ones under a per-stage timer; any exception or time-out is a violation with the graph as
    replay (shared runs with C01, see _hier.py);
(2) correspondence: the Lean model of the whole pipeline (Scfg/Model/Pipeline.lean:
    join_returns, loop restructuring, region extraction, branch restructuring, abort sites
    included) is compared with the real result after every stage — names, dict order of every
    container, value tables, assignments, name-generator counters — exactly.
"""
import multiprocessing as mp
from collections import Counter
from harness import common, export, gen, edits, hier
from harness.props import _hier

LEVEL = _hier.LEVEL
EXTRA_PROPS_FILES = ["Scfg/Props/C02Join.lean"]
STAGES = (("join_returns", "join_returns"), ("restructure_loop", "restructure_loop"), ("restructure_branch", "restructure_branch"))


def _work(chunk):
    drv = common.Driver()
    lines, exp = [], []
    for succ in chunk:
        scfg = export.mk_scfg(succ)
        top, line = export.export(scfg)
        lines.append(f"S {line} {edits.ng_line(scfg)}")
        exp.append(None)
        for stage, meth in STAGES:
            try:
                getattr(scfg, meth)()
                ab = None
            except Exception as e:  # noqa: BLE001
                ab = hier.abort_site(e)
            lines.append(f"OP {stage} {top}")
            if ab:
                exp.append((succ, stage, None, None, ab))
                break
            _, after = export.export(scfg)
            exp.append((succ, stage, after, edits.ng_line(scfg), None))
    rep = drv.run(lines)
    mism = []
    n = 0
    for e, r in zip(exp, rep):
        if e is None:
            continue
        n += 1
        succ, stage, after, ng, ab = e
        if ab:
            if not r.startswith("abort " + ab.split("@")[0]):
                mism.append((succ, stage, f"impl aborted {ab}, model {r[:60]}"))
        elif not r.startswith("ok "):
            mism.append((succ, stage, f"impl completed, model {r[:80]}"))
        else:
            parts = r.split(" ")
            if edits.canon(parts[1]) != edits.canon(after):
                mism.append((succ, stage, "hierarchies differ"))
            elif edits.canon_ng(parts[2]) != edits.canon_ng(ng):
                mism.append((succ, stage, "name generators differ"))
    return n, mism


def run(ctx):
    res = _hier.run(ctx, "C02")
    inputs = [s for _, s in gen.graph_inputs(ctx["tier"], ctx["seed"])]
    nproc = common.ncpu()
    size = max(50, min(2000, len(inputs) // (nproc * 4) + 1))
    chunks = [inputs[i:i + size] for i in range(0, len(inputs), size)]
    with mp.get_context("fork").Pool(nproc) as pool:
        parts = pool.map(_work, chunks)
    n = sum(p[0] for p in parts)
    mism = [m for p in parts for m in p[1]]
    res["coverage"]["pipeline_model_stage_comparisons"] = n
    res["coverage"]["pipeline_model_mismatches"] = len(mism)
    res["coverage"]["traces_validated_against_impl"] = n - len(mism)
    res["coverage"]["rule"] += "; every stage result also compared dump-for-dump with the Lean model of the pipeline"
    # long straight-line code: a chain of 1 200 blocks in front of an if/else, and one inside a loop body
    # (closed CFGs like any other; a stage that recurses per block runs out of stack here)
    import time
    from harness import export
    longfails = []
    for tag, succ in (("chain-then-diamond", tuple([(i + 1,) for i in range(1200)] + [(1201, 1202), (1203,), (1203,), ()])),
                      ("chain-in-loop", tuple([(1,)] + [(i + 1,) for i in range(1, 1200)] + [(1, 1201), ()]))):
        t0 = time.time()
        try:
            g = export.mk_scfg(succ)
            g.join_returns()
            g.restructure_loop()
            g.restructure_branch()
        except BaseException as e:  # noqa: BLE001
            longfails.append((tag, len(succ), type(e).__name__))
        res["coverage"].setdefault("long_straight_line_inputs", {})[tag] = {"blocks": len(succ), "seconds": round(time.time() - t0, 1)}
    if longfails:
        tag, nb, exc = longfails[0]
        res["violations"].append({"signature": {"stage": "long-input", "clauses": exc},
                                  "what": f"C02: restructuring a closed CFG with a straight-line run of 1 200 blocks ({tag}) raises {exc}",
                                  "payload": {"shape": tag, "blocks": nb, "exception": exc, "count": len(longfails)}})
    if mism:
        succ, stage, why = min(mism, key=lambda m: (len(m[0]), m[0]))
        path = common.write_replay("C02", {"property": "C02", "kind": "correspondence-broken",
                                           "correspondence": "Scfg.Model.Pipeline vs numba_scfg.core.transformations",
                                           "input_succ": [list(s) for s in succ], "stage": stage, "why": why,
                                           "mismatches": len(mism), "by_stage": dict(Counter(m[1] for m in mism))})
        res["broken"] = [{"signature": {"kind": "correspondence"}, "replay": path, "nfi": True,
                          "what": f"pipeline model mismatch at {stage}: {why}"}]
    return res


def replay(path):
    return _hier.replay(path, "C02")
