"""C12 — results are deterministic across processes and hash seeds.

(1) Lean: Scfg.C12.sortNames_perm & co. (sorting erases set iteration order);
(2) translator: every order-exposing use of a set in the source is listed on every run and
    must be in the audited table below (with the justification); a site that appears, or loses
    its `sorted`, is no longer covered → the multi-seed search looks for a witness;
(3) multi-seed correspondence: the real pipeline (closed CFGs with hash-sensitive names, source
    programs incl. regenerated text, bytecode functions) in separate processes under k values
    of PYTHONHASHSEED must give byte-identical canonical dumps.
"""
import json
import os
import subprocess
from concurrent.futures import ThreadPoolExecutor
from harness import common, translate

LEVEL = "proof"
EXTRA_PROPS_FILES = ["Scfg/Props/C12Doms.lean"]

ORDER_FREE = "sorted(): order erased — theorem sortNames_perm"
AUDITED = {
    ("scfg.py", "find_head", "heads", "next(iter())"): "asserted to be a singleton (singleton_perm)",
    ("scfg.py", "find_headers_and_entries", "headers", "sorted"): ORDER_FREE,
    ("scfg.py", "find_headers_and_entries", "entries", "sorted"): ORDER_FREE,
    ("scfg.py", "find_exiting_and_exits", "subgraph", "for"): "only adds to the sets exiting/exits (commutative); results are sorted",
    ("scfg.py", "find_exiting_and_exits", "exiting", "sorted"): ORDER_FREE,
    ("scfg.py", "find_exiting_and_exits", "exits", "sorted"): ORDER_FREE,
    ("scfg.py", "remove_blocks", "names", "for"): "deletes dict keys; the remaining dict does not depend on deletion order",
    ("scfg.py", "insert_block_and_control_blocks", "set(block.jump_targets).intersection(successors)", "sorted"): ORDER_FREE,
    ("scfg.py", "make_scfg", "curr_heads", "sorted"): ORDER_FREE,
    ("scfg.py", "to_dict", "q", "pop"): "fills dicts keyed by name; only the insertion order of the returned dict varies (dict equality and to_yaml, which sorts, are unaffected); to_dict is outside C12's statement",
    ("transformations.py", "loop_restructure_helper", "loop", "comprehension"): "backedge_blocks is only used through len(), membership and [0] when len() == 1 (length_mem_perm, singleton_perm)",
    ("transformations.py", "loop_restructure_helper", "loop", "sorted"): ORDER_FREE,
    ("transformations.py", "restructure_loop", "nodes", "next(iter())"): "evaluated only when len(nodes) == 1 (short-circuit `or`)",
    ("transformations.py", "extract_region", "region_blocks", "sorted"): ORDER_FREE,
    ("transformations.py", "find_tail_blocks", "sub", "for"): "only discards from a set (commutative)",
    ("transformations.py", "_imm_doms", "vs", "list"): "subtracts idoms[v] for every v of a snapshot: a union of subtractions, order-free",
    ("transformations.py", "_imm_doms", "vs", "unpack"): "raises unless a singleton",
    ("transformations.py", "_find_dominators_internal", "entries", "for"): "initialises dict entries; only dict insertion order varies and consumers only look keys up (doms_order_free)",
    ("transformations.py", "_find_dominators_internal", "succs_table[n]", "extend"): "work-list order of a monotone fix-point; theorem Scfg.C12.doms_order_free: any two orders give the same tables (both equal path dominance, Scfg.C13.domsInternal_correct)",
    ("transformations.py", "_find_dominators_internal", "preds", "comprehension"): "operands of an intersection (commutative, associative)",
    ("basic_block.py", "replace_jump_targets", "diff", "next(iter())"): "asserted to be a singleton",
    ("ast_transforms.py", "prune_unreachable", "to_visit", "pop"): "reachability closure; the reachable set does not depend on visiting order",
}


def run_seed(hs, tier, seed):
    env = dict(os.environ, PYTHONHASHSEED=str(hs))
    p = subprocess.run(["/venv/bin/python", os.path.join(common.VERIF, "harness", "seed_worker.py"), common.REPO, tier, str(seed)],
                       capture_output=True, text=True, env=env, timeout=3000)
    lines = [ln for ln in p.stdout.split("\n") if ln.startswith("{")]
    if not lines:
        raise RuntimeError("seed worker failed: " + p.stderr[-1500:])
    return json.loads(lines[-1])


def run(ctx):
    sites = translate.set_sites()
    keys = {(s["file"].split("/")[-1], s["function"], s["expr"], s["use"]) for s in sites}
    unaudited = sorted(k for k in keys if k not in AUDITED)
    vanished = sorted(k for k in AUDITED if k not in keys)
    nseeds = 4 if ctx["tier"] == "quick" else 32
    if unaudited:
        nseeds = max(nseeds, 16)          # the search for a witness of order dependence
    hashseeds = [0] + [1000003 * (i + 1) + ctx["seed"] for i in range(nseeds - 1)]
    with ThreadPoolExecutor(max_workers=min(common.ncpu(), nseeds)) as ex:
        results = list(ex.map(lambda hs: run_seed(hs, ctx["tier"], ctx["seed"]), hashseeds))
    base = results[0]["digests"]
    diffs = {}
    for r in results[1:]:
        for k, v in r["digests"].items():
            if base.get(k) != v:
                diffs.setdefault(k, []).append(r["hashseed"])
    probes = {tuple(r["set_order_probe"]) for r in results}
    violations, broken = [], []
    # the same input run again in one process must give the same result as its first run
    within = sorted({k for r in results for k, v in r["digests"].items() if str(v).startswith("differs")})
    for k in within[:3]:
        violations.append({"signature": {"cause": "result-depends-on-process-history", "kind": k[0]},
                           "what": f"input {k}: restructuring it again in the same process gives a different result ({base.get(k)})",
                           "payload": {"input": k, "digests": base.get(k), "tier": ctx["tier"], "seed": ctx["seed"],
                                       "replay": "PYTHONHASHSEED=0 /venv/bin/python harness/seed_worker.py /repo <tier> <seed>"}})
    for k, seeds in sorted(diffs.items())[:5]:
        violations.append({"signature": {"cause": "hash-seed-dependent-result", "kind": k[0]},
                           "what": f"input {k}: result differs between PYTHONHASHSEED=0 and {seeds[:3]}",
                           "payload": {"input": k, "hashseeds": ["0"] + seeds, "tier": ctx["tier"], "seed": ctx["seed"],
                                       "replay": "PYTHONHASHSEED=<n> /venv/bin/python harness/seed_worker.py /repo <tier> <seed>"}})
    if unaudited:
        path = common.write_replay("C12", {"property": "C12", "kind": "proof-no-longer-covers-the-code",
                                           "theorem": "Scfg.C12.sortNames_perm + audit table of set-iteration sites",
                                           "unaudited_sites": [s for s in sites if (s["file"].split("/")[-1], s["function"], s["expr"], s["use"]) in unaudited],
                                           "searched_hashseeds": hashseeds})
        broken.append({"signature": {"kind": "unaudited-set-site"}, "replay": path, "nfi": True,
                       "what": f"set-iteration sites not covered by the order-independence audit: {unaudited}"})
    cov = {"evaluations": len(base) * len(results), "distinct_nontrivial": len(base),
           "rule": "each input (closed CFGs with hash-sensitive block names, 6 source programs incl. regenerated text, 2 bytecode functions) "
                   "is run in a separate process per hash seed; digests of the name-, order- and table-exact canonical dump are compared",
           "samples": [{"input": k, "digest": v} for k, v in list(base.items())[:3]],
           "hash_seeds": hashseeds, "inputs": len(base), "differing_inputs": len(diffs),
           "distinct_set_iteration_orders_observed": len(probes),
           "set_sites_in_source": len(keys), "unaudited_sites": unaudited, "audited_sites_no_longer_present": vanished,
           "aborting_inputs": sum(1 for v in base.values() if v.startswith("abort"))}
    return {"level": LEVEL, "coverage": cov, "violations": violations, "broken": broken,
            "assumptions": ["the set-site audit's type inference finds every order-exposing use of a set (a missed one would only be seen by the multi-seed runs)",
                            "justifications of the non-sorted sites are arguments, not Lean theorems, except where a theorem is named"]}


def replay(path):
    d = json.load(open(path if os.path.isabs(path) else os.path.join(common.VERIF, path)))
    if "hashseeds" in d:
        rs = [run_seed(hs, d["tier"], d["seed"])["digests"].get(d["input"]) for hs in d["hashseeds"][:4]]
        print(rs)
        if len(set(rs)) > 1:
            print(f"VIOLATION property=C12 replay={path}")
            return 1
        return 0
    print(json.dumps(d, indent=1)[:2000])
    return 1
