"""C05 — original blocks are conserved.

(1) every stage output of the real pipeline judged by the Lean decider `conserved` (shared runs, see
    _hier.py); (2) aliasing: two graphs built from the *same* block objects — restructuring one of
    them must leave the other one (and the shared block objects) exactly as they were, and
    restructuring the second afterwards must give what restructuring a fresh copy gives: an input
    block altered in place is seen by every graph that holds it.
"""
import random
from harness import common, export, gen
from harness.props import _hier
LEVEL = _hier.LEVEL
EXTRA_PROPS_FILES = ["Scfg/Props/C05Join.lean", "Scfg/Props/C05Chain.lean"]


def aliasing_runs(ctx):
    common.import_repo()
    from numba_scfg.core.datastructures.scfg import SCFG
    rng = random.Random(ctx["seed"] * 77 + 5)
    inputs = [s for _, s in gen.graph_inputs(ctx["tier"], ctx["seed"]) if 3 <= len(s) <= 12]
    rng.shuffle(inputs)
    inputs = inputs[: (400 * common.boost() if ctx["tier"] == "quick" else 6000)]
    fails = []
    for succ in inputs:
        base = export.mk_scfg(succ, payload="bytecode")
        blocks = dict(base.graph)
        g1, g2 = SCFG(dict(blocks)), SCFG(dict(blocks))
        before = export.canonical_dump(g2)
        snap = {k: (type(b).__name__, b.name, tuple(b._jump_targets), tuple(b.backedges), getattr(b, "begin", None), getattr(b, "end", None))
                for k, b in blocks.items()}
        try:
            g1.restructure()
        except Exception:  # noqa: BLE001
            continue                      # C02's business
        now = {k: (type(b).__name__, b.name, tuple(b._jump_targets), tuple(b.backedges), getattr(b, "begin", None), getattr(b, "end", None))
               for k, b in blocks.items()}
        if now != snap:
            k = next(k for k in snap if snap[k] != now[k])
            fails.append((succ, f"input block object {k} altered in place: {snap[k]} -> {now[k]}"))
            continue
        if export.canonical_dump(g2) != before:
            fails.append((succ, "a second graph holding the same block objects changed when the first was restructured"))
            continue
        try:
            g2.restructure()
            fresh = export.mk_scfg(succ, payload="bytecode")
            fresh.restructure()
            d2 = export.canonical_dump(g2).replace(g2.region.name, "TOP")
            df = export.canonical_dump(fresh).replace(fresh.region.name, "TOP")
            if d2 != df:
                fails.append((succ, "restructuring the second graph afterwards differs from restructuring a fresh copy"))
        except Exception as e:  # noqa: BLE001
            fails.append((succ, f"restructuring the second graph afterwards raises {type(e).__name__}"))
    return len(inputs), fails


def run(ctx):
    res = _hier.run(ctx, "C05")
    n, fails = aliasing_runs(ctx)
    res["coverage"]["aliasing_runs"] = n
    res["coverage"]["aliasing_failures"] = len(fails)
    if fails:
        succ, why = min(fails, key=lambda f: (len(f[0]), f[0]))
        res["violations"].append({"signature": {"stage": "aliasing", "clauses": why.split(":")[0][:60]},
                                  "what": f"C05 (aliasing): {why} ({len(fails)} of {n} graphs)",
                                  "payload": {"input_succ": [list(x) for x in succ], "observed": why, "count": len(fails)}})
    return res


def replay(path):
    return _hier.replay(path, "C05")
