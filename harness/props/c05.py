from harness.props import _hier
LEVEL = _hier.LEVEL
EXTRA_PROPS_FILES = ["Scfg/Props/C05Join.lean"]


def run(ctx):
    return _hier.run(ctx, "C05")


def replay(path):
    return _hier.replay(path, "C05")
