"""C08 — the graph built from source means what the source means.

For every generated function (atoms are oracle calls; every statement kind, and/or in every
position the front end descends into):
 (1) Lean: the reference semantics of the function (Scfg/Py/Micro.lean, compileFn) and the
     block-by-block semantics of the real front end's CFG (compileCfg) are compared by the
     verified simulation checker: equal event traces (every atom evaluation, in order, with the
     reaching definitions it reads, and the returned value) for ALL decision sequences;
 (2) CPython: the function and a CPython interpretation of the same CFG are run natively on every
     decision sequence up to a depth bound; and the Lean reference semantics is validated against
     CPython on the same paths;
 (3) census: every reachable simple statement is in exactly one block; nothing but unreachable
     blocks, no-op statements and empty blocks was pruned.
"""
import ast
import json
import os
import random
import multiprocessing as mp
from collections import Counter
from harness import common, pysem, pygen, pyconc
common.import_repo()
from numba_scfg.core.datastructures.ast_transforms import AST2SCFGTransformer  # noqa: E402

LEVEL = "translation_validation"
EXTRA_PROPS_FILES = ["Scfg/Props/C08Prune.lean"]


def paths(fn, nparams, depth):
    st = [[]]
    while st:
        ds = st.pop()
        segs, status = pysem.run_oracle(fn, nparams, ds)
        if status == "need-more" and len(ds) < depth:
            st.append(ds + [0])
            st.append(ds + [1])
        else:
            yield ds, segs, status


def census(src, astcfg_pruned, astcfg_raw):
    """statement objects of the source (the transformer reuses them) vs. block contents"""
    probs = []
    seen = Counter()
    for b in astcfg_pruned.values():
        for ins in b.instructions:
            seen[id(ins)] += 1
    dup = [k for k, v in seen.items() if v > 1]
    if dup:
        probs.append("a statement occurs in more than one block / twice")
    # reachable raw blocks: every non-noop instruction must survive pruning
    reach, st = set(), ["0"]
    while st:
        n = st.pop()
        if n in reach or n not in astcfg_raw:
            continue
        reach.add(n)
        st += astcfg_raw[n].jump_targets
    for n in reach:
        for ins in astcfg_raw[n].instructions:
            if isinstance(ins, (ast.Pass, ast.Break, ast.Continue)):
                continue
            if seen[id(ins)] != 1:
                probs.append(f"reachable statement `{ast.unparse(ins)[:40]}` lost by pruning")
    # (The property says what may be pruned, not that everything prunable must be: a kept empty or
    # unreachable block is no violation -- prune_empty deliberately keeps an empty entry block or arm.)
    return probs


def classify(src, why):
    """signature of a failure for known-findings matching: the source construct involved"""
    tree = ast.parse(src)
    feats = []
    fbody = tree.body[0].body
    first = next((s for s in fbody), None)
    if isinstance(first, (ast.While, ast.For)):
        feats.append("starts-with-loop")
    for n in ast.walk(tree):
        if isinstance(n, ast.For):
            feats.append("for")
        if isinstance(n, ast.If) and all(isinstance(s, ast.Pass) for s in n.body) and n.orelse and all(isinstance(s, ast.Pass) for s in n.orelse):
            feats.append("if-pass-else-pass")
        if isinstance(n, ast.BoolOp):
            for v in n.values[1:]:
                if any(isinstance(m, ast.BoolOp) for m in ast.walk(v)):
                    feats.append("boolop-nested-in-later-operand")
            if len(n.values) > 2:
                feats.append("boolop-3+")
        if isinstance(n, ast.Call):
            for i, a in enumerate(n.args):
                if any(isinstance(m, ast.BoolOp) for m in ast.walk(a)) and (i > 1 or any(isinstance(m, ast.Call) for b in n.args[:i] for m in ast.walk(b))):
                    feats.append("boolop-after-call-sibling")
    return sorted(set(feats))


def _work(chunk):
    drv = common.Driver()
    out = []
    for idx, src in chunk:
        rec = {"idx": idx, "src": src, "fails": [], "paths": 0, "refsem_mismatch": 0}
        fdef = ast.parse(src).body[0]
        ids = pysem.Ids()
        params, toks = pysem.abs_function(fdef, ids)
        try:
            t = AST2SCFGTransformer(src, prune=False)
            raw = t.transform_to_ASTCFG()
            raw_copy = {k: type(v)(v.name, list(v.instructions), list(v.jump_targets)) for k, v in raw.items()}
            t2 = AST2SCFGTransformer(src)
            cfg = t2.transform_to_ASTCFG()
            raw2 = AST2SCFGTransformer(src, prune=False)
        except Exception as e:  # noqa: BLE001
            rec["fails"].append("front-end raised " + type(e).__name__)
            out.append(rec)
            continue
        # NB: the transformer mutates the parsed tree; parse afresh for each use
        fdef2 = ast.parse(src).body[0]
        try:
            t3 = AST2SCFGTransformer([fdef2])
            t3.prune = False
            t3.transform()
            rawb = {k: type(v)(v.name, list(v.instructions), list(v.jump_targets)) for k, v in t3.blocks.items()}
            t3.blocks.prune_unreachable()
            t3.blocks.prune_noops()
            t3.blocks.prune_empty()
            for p in census(src, t3.blocks, rawb):
                rec["fails"].append("census: " + p)
        except Exception as e:  # noqa: BLE001
            rec["fails"].append("census raised " + type(e).__name__)
        try:
            ctoks = pysem.abs_cfg(cfg, ids)
        except pysem.Unsupported as e:
            rec["fails"].append("cfg not abstractable: " + str(e))
            out.append(rec)
            continue
        # correspondence: the Lean model of the front end (Scfg/Model/Ast2Cfg.lean), block for block
        mrep = drv.run(["FE " + " ".join(toks)])[0]
        hyp = None
        if mrep.startswith("ok hyp="):
            hyp, mrep = mrep[7], "ok " + mrep[9:]
        rec["fe_model_same"] = mrep == "ok " + " ".join(ctoks)
        rec["prune_hyp"] = hyp      # "1": hypotheses of front_end_prune_ok hold on the pre-pruning block list
        rep = drv.run(["PYA " + " ".join(toks), "PYCFGB " + " ".join(ctoks), "PYSIM"])
        if rep[0] != "ok" or rep[1] != "ok":
            rec["fails"].append("driver parse error")
            out.append(rec)
            continue
        lean_differs = False
        if rep[2].startswith("1"):
            rec["lean"] = "equal-for-all-decision-sequences"
        elif "search-limit" in rep[2]:
            rec["lean"] = "inconclusive(search limit)"
        else:
            rec["lean"] = "differs"
            lean_differs = True
            rec["fails"].append("lean-bisim: " + rep[2][:300])
        # CPython ground truth: original vs CFG interpretation, and RefSem vs CPython
        cfgruns = []
        if pyconc.is_concrete(src):
            f0 = pyconc.source_fn4(src)
            f1 = pyconc.cfg_fn4(cfg, params)
            for x, y in pyconc.GRID:
                rec["paths"] += 1
                a, b = pyconc.run_concrete(f0, x, y), pyconc.run_concrete(f1, x, y)
                if a != b:
                    rec["fails"].append(f"cpython: f({x}, {y}) gives {a[0]} / {len(a[1])} calls, the CFG {b[0]} / {len(b[1])} calls")
                    break
        else:
            fn = pysem.make_fn(src)
            cfn = pysem.make_cfg_fn(cfg, params)
            lines, exp = [], []
            for ds, segs, status in paths(fn, len(params) - 1, 7):
                rec["paths"] += 1
                csegs, cstatus = pysem.run_oracle(lambda o, *a: cfn(o, *a), len(params) - 1, ds)
                if status == "diverges" or cstatus == "diverges":
                    if status != cstatus:
                        rec["fails"].append(f"cpython: divergence differs on {ds}")
                    continue
                cfgruns.append((ds, csegs, cstatus))
                if pysem.canon_segments(segs) != pysem.canon_segments(csegs) or status != cstatus:
                    rec["fails"].append(f"cpython: trace differs on decisions {ds}: {status} vs {cstatus}")
                lines.append("PYRUN A " + ("".join(map(str, ds)) or "-"))
                exp.append((segs, status))
            if lines:
                outl = drv.run(["PYA " + " ".join(toks)] + lines)[1:]
                for (segs, status), line in zip(exp, outl):
                    lsegs, lstatus = pysem.lean_trace_to_segments(line)
                    if pysem.canon_segments(segs) != pysem.canon_segments(lsegs) or status != lstatus:
                        rec["refsem_mismatch"] += 1
        if pyconc.is_concrete(src) and rec["fails"] and all(x.startswith("lean-bisim") for x in rec["fails"]):
            # A concrete (integer) program: the Lean bisimulation also distinguishes decision sequences
            # no argument tuple realises and counts a truthiness test of a side-effect-free integer as
            # an event. Without a concrete witness on the argument grid that is no behaviour the
            # property speaks about: recorded in evidence, not a failure.
            rec["abstract_only"] = rec["fails"]
            rec["fails"] = []
        if rec["fails"]:
            # classify semantically: does the CFG equal the source under one of the known deviations?
            dev = "other"
            for name, fp, fh in (("for-target-preset", 1, 0), ("eager-hoisting", 0, 1), ("for-target-preset+eager-hoisting", 1, 1)):
                r2 = drv.run([f"PYAV {fp} {fh} " + " ".join(toks), "PYCFGB " + " ".join(ctoks), "PYSIM"])
                if r2[2].startswith("1"):
                    dev = name
                    break
                if "search-limit" in r2[2] and cfgruns:
                    # bounded fallback: the variant semantics against the CPython runs of the CFG
                    outl = drv.run([f"PYAV {fp} {fh} " + " ".join(toks)] + ["PYRUN A " + ("".join(map(str, ds)) or "-") for ds, _, _ in cfgruns])[1:]
                    same = True
                    for (ds, csegs, cstatus), line in zip(cfgruns, outl):
                        lsegs, lstatus = pysem.lean_trace_to_segments(line)
                        if pysem.canon_segments(csegs) != pysem.canon_segments(lsegs) or cstatus != lstatus:
                            same = False
                            break
                    if same:
                        dev = name
                        rec["classification"] = "bounded"
                        break
            rec["deviation"] = dev
        out.append(rec)
    return out


def programs(tier, seed):
    rng = random.Random(seed * 9176 + 8)
    n = 250 * common.boost() if tier == "quick" else 6000
    progs = list(pygen.HAND) + [p for p in pygen.corpus_programs() if p not in pygen.HAND]
    for _ in range(n):
        progs.append(pygen.gen_program(rng, rng.randint(3, 11), depth=rng.choice([2, 3, 3, 4])))
    for _ in range(n // 2):
        progs.append(pygen.gen_concrete(rng, rng.randint(3, 9), depth=rng.choice([2, 3])))
    sysp = pygen.systematic()
    progs += sysp if tier != "quick" else rng.sample(sysp, min(len(sysp), 220))
    return progs


def run(ctx):
    progs = programs(ctx["tier"], ctx["seed"])
    items = list(enumerate(progs))
    nproc = common.ncpu()
    size = max(5, len(items) // (nproc * 4) + 1)
    chunks = [items[i:i + size] for i in range(0, len(items), size)]
    with mp.get_context("fork").Pool(nproc) as pool:
        parts = pool.map(_work, chunks)
    recs = [r for p in parts for r in p]
    by = {}
    npaths = sum(r["paths"] for r in recs)
    refmm = sum(r["refsem_mismatch"] for r in recs)
    for r in recs:
        if r["fails"]:
            kinds = sorted({f.split(":")[0] for f in r["fails"]})
            kinds = sorted({"semantics-differ" if k in ("cpython", "lean-bisim") else k for k in kinds})
            key = ("+".join(kinds), r.get("deviation", "n/a"))
            by.setdefault(key, []).append(r)
    violations, broken = [], []
    for (kinds, feats), items_ in sorted(by.items(), key=lambda kv: -len(kv[1]))[:10]:
        r = min(items_, key=lambda r: len(r["src"]))
        violations.append({"signature": {"failure": kinds, "deviation": feats},
                           "what": f"front-end CFG differs from the source's meaning ({kinds}; matches known deviation: {feats}) on {len(items_)} generated functions",
                           "payload": {"source": r["src"], "failures": r["fails"][:4], "count": len(items_)}})
    femm = [r for r in recs if r.get("fe_model_same") is False]
    if femm:
        r = min(femm, key=lambda r: len(r["src"]))
        path = common.write_replay("C08", {"property": "C08", "kind": "correspondence-broken",
                                           "correspondence": "Scfg.Model.Ast2Cfg vs AST2SCFGTransformer (blocks, instructions, jump targets)",
                                           "source": r["src"], "mismatching_programs": len(femm)})
        broken.append({"signature": {"kind": "front-end-model"}, "replay": path, "nfi": True,
                       "what": f"front-end model differs from the implementation on {len(femm)} programs"})
    hypbad = [r for r in recs if r.get("prune_hyp") == "0"]
    if hypbad:
        r = min(hypbad, key=lambda r: len(r["src"]))
        path = common.write_replay("C08", {"property": "C08", "kind": "obligation-broken", "theorem": "Scfg.C08.front_end_prune_ok",
                                           "obligation": "pruneHypOK on the block list handed to prune_empty", "source": r["src"], "programs": len(hypbad)})
        broken.append({"signature": {"kind": "prune-hypotheses"}, "replay": path, "nfi": True,
                       "what": f"hypotheses of front_end_prune_ok fail on the pre-pruning CFG of {len(hypbad)} programs"})
    if refmm:
        path = common.write_replay("C08", {"property": "C08", "kind": "correspondence-broken",
                                           "correspondence": "Lean reference semantics (Scfg/Py/Micro.lean) vs CPython", "mismatching_paths": refmm})
        broken.append({"signature": {"kind": "refsem-vs-cpython"}, "replay": path, "nfi": True,
                       "what": f"reference semantics disagrees with CPython on {refmm} paths"})
    cov = {"programs": len(progs), "disagreements_checked": sum(len(v) for v in by.values()),
           "samples": [{"source": progs[len(pygen.HAND) + 1]}],
           "evaluations": npaths, "distinct_nontrivial": len(set(progs)),
           "rule": "hand-written corner cases + grammar-generated oracle functions + concrete integer functions (comparison chains, arithmetic, unary, subscript, attribute, "
                   "augmented assignment, logging calls; run on a 15-point argument grid instead of oracle paths) (assign, expression statement, return, pass, if/elif/else, while/else, "
                   "for/else, break, continue; and/or chains in assignments, tests, call arguments); each: Lean bisimulation of reference semantics vs. "
                   "front-end CFG semantics (all decision sequences), CPython runs of both on every decision sequence up to depth 7, census",
           "cpython_paths": npaths, "refsem_vs_cpython_mismatches": refmm,
           "front_end_model_compared": sum(1 for r in recs if "fe_model_same" in r), "front_end_model_mismatches": len(femm),
           "prune_theorem_hypotheses_hold": sum(1 for r in recs if r.get("prune_hyp") == "1"),
           "prune_theorem_hypotheses_fail": len(hypbad),
           "lean_verdicts": dict(Counter(r.get("lean", "not-run") for r in recs)),
           "concrete_programs_with_abstract_only_difference": sum(1 for r in recs if r.get("abstract_only")),
           "classified_by_bounded_fallback": sum(1 for r in recs if r.get("classification") == "bounded"),
           "failing_programs": sum(len(v) for v in by.values()),
           "failures_by_kind": {f"{k[0]} [{k[1]}]": len(v) for k, v in by.items()}}
    return {"level": LEVEL, "coverage": cov, "violations": violations, "broken": broken,
            "assumptions": ["abstract values are reaching definitions (site level); truthiness of one value is asked at most once until its site executes again — same policy in the Lean semantics and in the CPython oracle",
                            "atoms do not raise; exceptions are not modelled", "harness/pysem.py (abstraction of Python ast) is trusted glue, validated by the CPython runs"]}


def replay(path):
    d = json.load(open(path if os.path.isabs(path) else os.path.join(common.VERIF, path)))
    recs = _work([(0, d["source"])])
    print(d["source"])
    print(recs[0]["fails"])
    if recs[0]["fails"]:
        print(f"VIOLATION property=C08 replay={path}")
        return 1
    return 0
