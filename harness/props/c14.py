"""C14 — graph edit primitives reroute exactly the requested arcs.

(1) Correspondence: random edit histories on real SCFG objects vs. the Lean model
    (Scfg/Model/Edit.lean), exact dumps after every step, abort type and site included.
(2) Property: the Lean predicates of Scfg/Model/EditSpec.lean are evaluated on the real
    before/after pair of every completed real call; Scfg/Props/C14.lean proves the model
    satisfies them for all graphs.
"""
import json
import os
import random
from collections import Counter
from harness import common, edits, export

EXTRA_PROPS_FILES = ["Scfg/Props/C14Join.lean", "Scfg/Props/C14Ctl.lean", "Scfg/Props/C14Paths.lean", "Scfg/Props/C14Reroute.lean"]
LEVEL = "proof"


def valid_call(before_names, before_map, op):
    """The property's domain: the new name is fresh, P ⊆ level without duplicates."""
    if op[0] in ("insert_block", "insert_ctl"):
        new, p = (op[2], op[3]) if op[0] == "insert_block" else (op[1], op[2])
        return new not in before_names and all(x in before_names for x in p) and len(set(p)) == len(p)
    return True


def run_histories(n, seed):
    rng = random.Random(seed * 7919 + 5)
    drv = common.Driver()
    lines, plan, hist = [], [], []
    for h in range(n):
        kind, scfg, ops = edits.gen_history(rng)
        try:
            top, line = export.export(scfg)
        except export.ExportError:
            continue
        rec = {"kind": kind, "start": line, "ops": [], "top": top}
        lines.append(f"S {line} {edits.ng_line(scfg)}")
        plan.append(("S", len(hist), None))
        for op in ops:
            names_before = list(scfg.graph.keys())
            gtop, before = export.export(scfg)
            abort, ret = edits.apply_real(scfg, op)
            step = {"op": op, "before": before, "abort": abort, "ret": ret,
                    "valid": valid_call(names_before, None, op)}
            lines.append(edits.op_line(top, op))
            plan.append(("OP", len(hist), len(rec["ops"])))
            if abort is None:
                _, after = export.export(scfg)
                step["after"] = after
                step["ng"] = edits.ng_line(scfg)
                sl = edits.spec_line(top, op)
                if sl:
                    lines += [f"G {top} {before}", f"H {top} {after}", sl]
                    plan += [("x", None, None), ("x", None, None), ("SPEC", len(hist), len(rec["ops"]))]
            rec["ops"].append(step)
            if abort is not None:
                break
        hist.append(rec)
    replies = drv.run(lines)
    for (what, hi, oi), rep in zip(plan, replies):
        if what == "OP":
            hist[hi]["ops"][oi]["model"] = rep
        elif what == "SPEC":
            hist[hi]["ops"][oi]["spec"] = rep
    return hist


def compare_step(step):
    """None if model == implementation, else a description."""
    m = step.get("model", "")
    if step["abort"] is not None:
        return None if m == "abort " + step["abort"] else f"impl aborted {step['abort']}, model: {m[:80]}"
    if not m.startswith("ok "):
        return f"impl completed, model: {m[:80]}"
    parts = m.split(" ")
    if edits.canon(parts[1]) != edits.canon(step["after"]):
        return "hierarchies differ"
    if edits.canon_ng(parts[2]) != edits.canon_ng(step["ng"]):
        return "name generators differ"
    if step["op"][0] == "join_tails_exits" and tuple(parts[3:5]) != tuple(step["ret"]):
        return f"return value differs {parts[3:5]} vs {step['ret']}"
    return None


def classify_spec_failure(step):
    """Signature of a property failure on the real code, for known-findings matching."""
    op = step["op"]
    before = edits.canon(step["before"])
    lvl = {e.split("|")[1]: e.split("|") for es in before.values() for e in es}

    def jts(n):
        return [t for t in lvl.get(n, [""] * 5)[3].split(",") if t]

    def bes(n):
        return [t for t in lvl.get(n, [""] * 5)[4].split(",") if t]
    if op[0] == "join_returns":
        preds = [n for n in lvl if not [t for t in jts(n) if t not in bes(n)]]
        succs = []
    else:
        preds = op[3] if op[0] == "insert_block" else op[2]
        succs = op[4] if op[0] == "insert_block" else op[3]
    if any(len(set(jts(p))) != len(jts(p)) for p in preds):
        return {"op": op[0], "cause": "predecessor-has-duplicate-arcs"}
    if any(bes(p) for p in preds):
        return {"op": op[0], "cause": "predecessor-declares-back-edge"}
    if len(set(succs)) != len(succs):
        return {"op": op[0], "cause": "duplicate-successors-argument"}
    return {"op": op[0], "cause": "other"}


def run(ctx):
    n = 2500 * common.boost() if ctx["tier"] == "quick" else 60000
    hist = run_histories(n, ctx["seed"])
    steps = 0
    aborts = Counter()
    kinds = Counter()
    opsc = Counter()
    mism = []
    specfail = {}
    region_pred = branching_pred = 0
    distinct = set()
    for h in hist:
        kinds[h["kind"]] += 1
        for st in h["ops"]:
            steps += 1
            opsc[st["op"][0]] += 1
            distinct.add((h["start"], json.dumps(st["op"])))
            if st["abort"]:
                aborts[st["abort"]] += 1
            why = compare_step(st)
            if why:
                mism.append((why, h, st))
            if st["abort"] is None and st["valid"] and st.get("spec") == "0":
                sig = classify_spec_failure(st)
                specfail.setdefault(json.dumps(sig, sort_keys=True), []).append((h, st))
            elif st["abort"] is not None and st["valid"] and not (
                    st["op"][0] == "join_tails_exits" and (not st["op"][1] or not st["op"][2])):
                # an empty tail or exit list is outside the property's domain (nothing to join)
                sig = {"op": st["op"][0], "cause": "abort:" + st["abort"]}
                specfail.setdefault(json.dumps(sig, sort_keys=True), []).append((h, st))
    violations = []
    for key, items in specfail.items():
        sig = json.loads(key)
        h, st = min(items, key=lambda x: len(x[1]["before"]))
        violations.append({"signature": sig,
                           "what": f"real {st['op'][0]} violates its arc specification ({sig['cause']}), {len(items)} calls",
                           "payload": {"start_kind": h["kind"], "before": st["before"], "op": st["op"],
                                       "after": st.get("after"), "abort": st["abort"], "count": len(items)}})
    broken = []
    if mism:
        why, h, st = mism[0]
        path = common.write_replay("C14", {"property": "C14", "kind": "correspondence-broken",
                                           "correspondence": "Scfg.Model.Edit vs numba_scfg edit primitives",
                                           "why": why, "before": st["before"], "op": st["op"],
                                           "impl_after": st.get("after"), "impl_abort": st["abort"],
                                           "model": st.get("model"), "mismatches": len(mism)})
        if True:
            broken.append({"signature": {"kind": "correspondence"}, "replay": path, "nfi": True, "what": why})
    cov = {
        "obligations": 0, "discharged": 0,   # filled by check.py from the audited theorems
        "evaluations": steps, "distinct_nontrivial": len(distinct),
        "rule": "random edit histories (1–4 operations) on flat random graphs (dup/back-edge/self arcs), loop-restructured and "
                "fully restructured hierarchies (region and branching predecessors); a case = (start graph, operation); "
                "every step compared dump-for-dump with the Lean model and judged by the Lean arc specification",
        "samples": [{"start": h["kind"], "op": st["op"], "abort": st["abort"], "model": st.get("model", "")[:120]}
                    for h in hist[:3] for st in h["ops"][:1]],
        "histories": len(hist), "steps": steps, "ops": dict(opsc), "start_kinds": dict(kinds),
        "impl_aborts_by_site": dict(aborts), "model_mismatches": len(mism),
        "spec_failures_on_impl": {k: len(v) for k, v in specfail.items()},
        "traces_validated_against_impl": steps - len(mism),
    }
    del cov["obligations"], cov["discharged"]
    from harness import steps as _steps, gen as _gen
    cov["step_certificates"], _ = _steps.coverage("C14", ctx["tier"], [s for _, s in _gen.graph_inputs("quick", ctx["seed"])])
    return {"level": LEVEL, "coverage": cov, "violations": violations, "broken": broken,
            "assumptions": ["the hand-written model Scfg/Model/Edit.lean corresponds to the code as far as the random histories exercise it",
                            "exporter faithful"]}


def replay(path):
    d = json.load(open(path if os.path.isabs(path) else os.path.join(common.VERIF, path)))
    print(json.dumps(d, indent=1)[:3000])
    return 1
