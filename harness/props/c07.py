"""C07 — Python source round trip is observationally equivalent or refused.

For every generated function: source → AST2SCFG → restructure → SCFG2AST. The pipeline may
raise NotImplementedError (refusal) and nothing else. Otherwise the regenerated function must
compile, and it is compared with the original
 (1) in Lean: verified simulation check between the reference semantics of both (all decision
     sequences; Scfg.C08.pySim_sound), and
 (2) under CPython: both run natively on every decision sequence up to a depth bound (events =
     every oracle call with its arguments, truthiness decisions, iteration, returned value).
Differences are classified semantically by the variant semantics of the known front-end
deviations (see C08); anything else is a violation.
"""
import ast
import json
import os
import random
import multiprocessing as mp
from collections import Counter
from harness import common, pysem, pygen, pyconc
from harness.props import c08
common.import_repo()
from numba_scfg.core.datastructures.ast_transforms import AST2SCFG, SCFG2AST  # noqa: E402

LEVEL = "translation_validation"


def exc_sig(e):
    import traceback
    tb = [f for f in traceback.extract_tb(e.__traceback__) if "numba_scfg" in f.filename]
    return type(e).__name__ + "@" + (tb[-1].name if tb else "?")


def pipeline(src):
    """('ok', FunctionDef) | ('refused', msg) | ('crash', signature)"""
    try:
        scfg = AST2SCFG(src)
        scfg.restructure()
        out = SCFG2AST(src, scfg)
        return "ok", out
    except NotImplementedError as e:
        return "refused", str(e)[:80]
    except Exception as e:  # noqa: BLE001
        return "crash", exc_sig(e)


def crash_construct(src):
    """Precondition of a known crash class, read off the front end's own CFG (outside the
    closed-CFG domain of C01–C06, see DESIGN §9)."""
    try:
        scfg = AST2SCFG(src)
    except Exception:  # noqa: BLE001
        return "front-end-raised"
    feats = []
    names = list(scfg.graph)
    targets = [t for b in scfg.graph.values() for t in b._jump_targets]
    if names and names[0] in targets:
        feats.append("entry-block-has-predecessor")
    if any(len(b._jump_targets) == 2 and b._jump_targets[0] == b._jump_targets[1] for b in scfg.graph.values()):
        feats.append("two-way-block-with-identical-successors")
    return "+".join(feats) or "none"


def _work(chunk):
    drv = common.Driver()
    out = []
    for idx, src in chunk:
        rec = {"idx": idx, "src": src, "fails": [], "paths": 0, "outcome": None}
        status, res = pipeline(src)
        rec["outcome"] = status
        # correspondence: the Lean model of the whole round trip (front end → restructuring → code generation)
        try:
            ids0 = pysem.Ids()
            _, toks0 = pysem.abs_function(ast.parse(src).body[0], ids0)
            mrep = drv.run(["RT " + " ".join(toks0)])[0]
            if status == "ok":
                p2, nt = pysem.abs_function(ast.parse(ast.unparse(res)).body[0], ids0)
                real = "ok " + " ".join(nt[1 + len(p2):])
                rec["rt_model_same"] = mrep == real
            elif status == "refused":
                rec["rt_model_same"] = mrep.startswith("abort NotImplementedError")
            else:
                rec["rt_model_same"] = mrep.startswith("abort " + res.split("@")[0])
        except Exception:  # noqa: BLE001
            rec["rt_model_same"] = None
        if status == "refused":
            out.append(rec)
            continue
        if status == "crash":
            rec["fails"].append("internal-error: " + res)
            rec["crash"] = res
            out.append(rec)
            continue
        try:
            text = ast.unparse(res)
            compile(text, "<regenerated>", "exec")
            fdef_new = ast.parse(text).body[0]
        except Exception as e:  # noqa: BLE001
            rec["fails"].append("does-not-compile: " + type(e).__name__)
            out.append(rec)
            continue
        fdef = ast.parse(src).body[0]
        ids = pysem.Ids()
        params, toks = pysem.abs_function(fdef, ids)
        try:
            _, ntoks = pysem.abs_function(fdef_new, ids)
        except pysem.Unsupported as e:
            rec["fails"].append("regenerated code not abstractable: " + str(e))
            out.append(rec)
            continue
        rep = drv.run(["PYA " + " ".join(toks), "PYB " + " ".join(ntoks), "PYSIM"])
        if rep[0] != "ok" or rep[1] != "ok":
            rec["fails"].append("driver parse error")
            out.append(rec)
            continue
        if rep[2].startswith("1"):
            rec["lean"] = "equal-for-all-decision-sequences"
        elif "search-limit" in rep[2]:
            rec["lean"] = "inconclusive(search limit)"
        else:
            rec["lean"] = "differs"
            rec["fails"].append("lean-bisim: " + rep[2][:300])
        newruns = []
        if pyconc.is_concrete(src):
            f0 = pyconc.source_fn4(src)
            f1 = pyconc.source_fn4(text)
            for x, y in pyconc.GRID:
                rec["paths"] += 1
                a, b = pyconc.run_concrete(f0, x, y), pyconc.run_concrete(f1, x, y)
                if a != b:
                    rec["fails"].append(f"cpython: f({x}, {y}) gives {a[0]} / {len(a[1])} calls, the regenerated function {b[0]} / {len(b[1])} calls")
                    break
        else:
            fn = pysem.make_fn(src)
            nfn = pysem.make_fn(text)
            for ds, segs, status_ in c08.paths(fn, len(params) - 1, 7):
                rec["paths"] += 1
                nsegs, nstatus = pysem.run_oracle(nfn, len(params) - 1, ds)
                if status_ == "diverges" or nstatus == "diverges":
                    if status_ != nstatus:
                        rec["fails"].append(f"cpython: divergence differs on {ds}")
                    continue
                newruns.append((ds, nsegs, nstatus))
                if pysem.canon_segments(segs) != pysem.canon_segments(nsegs) or status_ != nstatus:
                    rec["fails"].append(f"cpython: behaviour differs on decisions {ds}: {status_} vs {nstatus}")
        if pyconc.is_concrete(src) and rec["fails"] and all(x.startswith("lean-bisim") for x in rec["fails"]):
            # A concrete (integer) program: the Lean bisimulation also distinguishes decision sequences
            # no argument tuple realises and counts a truthiness test of a side-effect-free integer as
            # an event. Without a concrete witness on the argument grid that is no behaviour the
            # property speaks about: recorded in evidence, not a failure.
            rec["abstract_only"] = rec["fails"]
            rec["fails"] = []
        if rec["fails"]:
            dev = "other"
            for name, fp, fh in (("for-target-preset", 1, 0), ("eager-hoisting", 0, 1), ("for-target-preset+eager-hoisting", 1, 1)):
                r2 = drv.run([f"PYAV {fp} {fh} " + " ".join(toks), "PYB " + " ".join(ntoks), "PYSIM"])
                if r2[2].startswith("1"):
                    dev = name
                    break
                if "search-limit" in r2[2] and newruns:
                    outl = drv.run([f"PYAV {fp} {fh} " + " ".join(toks)] + ["PYRUN A " + ("".join(map(str, ds)) or "-") for ds, _, _ in newruns])[1:]
                    same = True
                    for (ds, nsegs, nstatus), line in zip(newruns, outl):
                        lsegs, lstatus = pysem.lean_trace_to_segments(line)
                        if pysem.canon_segments(nsegs) != pysem.canon_segments(lsegs) or nstatus != lstatus:
                            same = False
                            break
                    if same:
                        dev = name
                        rec["classification"] = "bounded"
                        break
            rec["deviation"] = dev
        out.append(rec)
    return out


def programs(tier, seed):
    rng = random.Random(seed * 7121 + 7)
    n = 250 * common.boost() if tier == "quick" else 6000
    progs = list(pygen.HAND) + [p for p in pygen.corpus_programs() if p not in pygen.HAND]
    for _ in range(n):
        progs.append(pygen.gen_program(rng, rng.randint(3, 10), depth=rng.choice([2, 3, 3, 4]), start_simple=rng.random() < 0.9))
    for _ in range(n // 2):
        progs.append(pygen.gen_concrete(rng, rng.randint(3, 9), depth=rng.choice([2, 3])))
    sysp = pygen.systematic()
    progs += sysp if tier != "quick" else rng.sample(sysp, min(len(sysp), 220))
    return progs


def run(ctx):
    progs = programs(ctx["tier"], ctx["seed"])
    items = list(enumerate(progs))
    nproc = common.ncpu()
    size = max(5, len(items) // (nproc * 4) + 1)
    chunks = [items[i:i + size] for i in range(0, len(items), size)]
    with mp.get_context("fork").Pool(nproc) as pool:
        parts = pool.map(_work, chunks)
    recs = [r for p in parts for r in p]
    by = {}
    for r in recs:
        if not r["fails"]:
            continue
        if r["outcome"] == "crash":
            key = ("internal-error", r["crash"], crash_construct(r["src"]))
        else:
            kinds = sorted({"behaviour-differs" if f.split(":")[0] in ("cpython", "lean-bisim") else f.split(":")[0] for f in r["fails"]})
            dev = r.get("deviation", "n/a")
            key = ("+".join(kinds), dev, crash_construct(r["src"]) if dev == "other" else "")
        by.setdefault(key, []).append(r)
    violations = []
    for key, items_ in sorted(by.items(), key=lambda kv: -len(kv[1]))[:12]:
        r = min(items_, key=lambda r: len(r["src"]))
        if key[0] == "internal-error":
            sig = {"failure": "internal-error", "site": key[1], "construct": key[2]}
        elif key[2]:
            sig = {"failure": key[0], "deviation": key[1], "construct": key[2]}
        else:
            sig = {"failure": key[0], "deviation": key[1]}
        violations.append({"signature": sig,
                           "what": f"round trip: {key[0]} ({key[1]} {key[2]}) on {len(items_)} generated functions",
                           "payload": {"source": r["src"], "failures": r["fails"][:4], "count": len(items_)}})
    npaths = sum(r["paths"] for r in recs)
    rtmm = [r for r in recs if r.get("rt_model_same") is False]
    broken = []
    if rtmm:
        r = min(rtmm, key=lambda r: len(r["src"]))
        path = common.write_replay("C07", {"property": "C07", "kind": "correspondence-broken",
                                           "correspondence": "Scfg.Model.roundtrip (Ast2Cfg ∘ Pipeline ∘ Cfg2Ast) vs AST2SCFG → restructure → SCFG2AST",
                                           "source": r["src"], "mismatching_programs": len(rtmm)})
        broken.append({"signature": {"kind": "roundtrip-model"}, "replay": path, "nfi": True,
                       "what": f"round-trip model differs from the implementation on {len(rtmm)} programs"})
    cov = {"programs": len(progs), "disagreements_checked": sum(len(v) for v in by.values()),
           "samples": [{"source": progs[len(pygen.HAND) + 2]}],
           "evaluations": npaths, "distinct_nontrivial": len(set(progs)),
           "rule": "as C08 (10 % of the functions start with a compound statement); full pipeline AST2SCFG → restructure → SCFG2AST; "
                   "exception class, compile check, Lean bisimulation original vs regenerated, CPython runs of both on every decision sequence up to depth 7",
           "outcomes": dict(Counter(r["outcome"] for r in recs)),
           "lean_verdicts": dict(Counter(r.get("lean", "not-run") for r in recs)),
           "concrete_programs_with_abstract_only_difference": sum(1 for r in recs if r.get("abstract_only")),
           "cpython_paths": npaths,
           "roundtrip_model_compared": sum(1 for r in recs if r.get("rt_model_same") is not None), "roundtrip_model_mismatches": len(rtmm),
           "failures_by_kind": {" | ".join(k): len(v) for k, v in by.items()}}
    return {"level": LEVEL, "coverage": cov, "violations": violations, "broken": broken,
            "assumptions": ["as C08; additionally: atoms of the user program never read names in the reserved __scfg_ namespace (hygiene, C10)"]}


def replay(path):
    d = json.load(open(path if os.path.isabs(path) else os.path.join(common.VERIF, path)))
    recs = _work([(0, d["source"])])
    print(d["source"])
    print(recs[0]["outcome"], recs[0]["fails"][:4])
    if recs[0]["fails"]:
        print(f"VIOLATION property=C07 replay={path}")
        return 1
    return 0
