"""C15 — dictionary and YAML serialisation round-trips every graph.

Every stage output of the real pipeline (closed CFGs), bytecode-derived graphs and edited graphs
are written with to_dict / to_yaml and read back; the exported original and the exported
re-read graph are judged by the Lean decider `sameHier` (Scfg.C15.sameHier_sound), the second
dictionary must equal the first, and the chain write-read-write-read must be stable. The
pipeline is then continued on the re-read graph, so a graph that only *looks* the same fails
at the next stage.
"""
import json
import os
import random
import multiprocessing as mp
from collections import Counter
from harness import common, export, gen
common.import_repo()
from numba_scfg.core.datastructures.scfg import SCFG  # noqa: E402
from numba_scfg.core.datastructures.byte_flow import ByteFlow  # noqa: E402

LEVEL = "proof"
EXTRA_PROPS_FILES = ["Scfg/Props/C15IO.lean"]


def exc_sig(e):
    import traceback
    tb = [f for f in traceback.extract_tb(e.__traceback__) if "numba_scfg" in f.filename]
    return type(e).__name__ + "@" + (tb[-1].name if tb else "?")


def enc_dict(d):
    """real to_dict result -> the dictionary line of Scfg/Codec.lean (keys in insertion order)"""
    out = []
    for key, b in d["blocks"].items():
        t = b["type"]
        tbl = b.get("branch_value_table") or {}
        asg = b.get("variable_assignment") or {}
        pay = [b["begin"], b["end"]] if "begin" in b else []
        out.append("|".join([
            export._nm(key), t, b.get("kind") or ("" if t != "region" else "none"), ",".join(b.get("contains") or []),
            b.get("header") or "", b.get("exiting") or "", b.get("parent_region") or "",
            ",".join(f"{int(k)}={v}" for k, v in tbl.items()), b.get("variable") or "",
            ",".join(f"{k}={int(v)}" for k, v in asg.items()), ",".join(str(x) for x in pay),
            ",".join(d["edges"][key]), ",".join((d["backedges"] or {}).get(key) or [])]))
    return ";".join(out) if out else "-"


def model_lines(scfg, d, s2, tags=None):
    """driver requests + expected replies tying Scfg/Model/IO.lean to the real writer / reader"""
    t1, l1 = export.export(scfg, tags)
    t2, l2 = export.export(s2, tags)
    dl = enc_dict(d)
    return [(f"H {t1} {l1}", None), (f"IO to_dict {t1}", "ok " + dl),
            (f"IO from_dict {t2} {dl}", f"ok {t2} {l2}"),
            # hypothesis of Scfg.C15.io_roundtrip, evaluated on the real graph (a statistic: where it
            # is false the theorem does not apply and the per-instance comparison alone decides)
            (f"SPEC io_ready {t1}", "?")]


def roundtrip(scfg, tags=None):
    roundtrip.model = []
    """returns (reloaded scfg | None, [failure strings], [driver lines], [what each SPEC line checks])"""
    fails, lines, what = [], [], []
    try:
        d = scfg.to_dict()
    except Exception as e:  # noqa: BLE001
        return None, ["to_dict:" + exc_sig(e)], [], []
    import copy
    d_before = copy.deepcopy(d)
    try:
        s2, _ = SCFG.from_dict(d)
    except Exception as e:  # noqa: BLE001
        return None, ["from_dict:" + exc_sig(e)], [], []
    # writing twice gives the same dictionary; reading does not alter the dictionary it is given,
    # and reading the same dictionary twice gives the same graph
    try:
        if scfg.to_dict() != d_before:
            fails.append("second-to_dict-of-the-same-graph-differs")
        if d != d_before:
            fails.append("from_dict-altered-its-argument")
        s2b, _ = SCFG.from_dict(copy.deepcopy(d_before))
        if export.export(s2b, tags)[1].replace(s2b.region.name, "T") != export.export(s2, tags)[1].replace(s2.region.name, "T"):
            fails.append("second-from_dict-of-the-same-dictionary-differs")
    except Exception as e:  # noqa: BLE001
        fails.append("repeated-write-read:" + exc_sig(e))
    t1, l1 = export.export(scfg, tags)
    try:
        t2, l2 = export.export(s2, tags)
    except Exception as e:  # noqa: BLE001
        return None, ["reloaded-graph-not-exportable:" + type(e).__name__], [], []
    l2 = l2.replace(t2 + "|", t1 + "|") if t2 != t1 else l2
    lines += [f"G {t1} {l1}", f"H {t1} {_retop(l2, t2, t1)}", "SPEC same_hier"]
    what.append("dict")
    try:
        roundtrip.model = model_lines(scfg, d, s2, tags)
    except Exception as e:  # noqa: BLE001
        roundtrip.model = [("ECHO", "model-lines-not-encodable:" + type(e).__name__)]
    try:
        d2 = s2.to_dict()
        if d2 != d:
            fails.append("second-dict-differs")
    except Exception as e:  # noqa: BLE001
        fails.append("to_dict(reloaded):" + exc_sig(e))
    try:
        y = scfg.to_yaml()
        s3, _ = SCFG.from_yaml(y)
        t3, l3 = export.export(s3, tags)
        lines += [f"G {t1} {l1}", f"H {t1} {_retop(l3, t3, t1)}", "SPEC same_hier"]
        what.append("yaml")
        s4, _ = SCFG.from_yaml(s3.to_yaml())
        if s4.to_dict() != d:
            fails.append("write-read-write-read-differs")
    except Exception as e:  # noqa: BLE001
        fails.append("yaml:" + exc_sig(e))
    return s2, fails, lines, what


def _retop(line, old, new):
    """the meta region is created afresh on load; its name is not part of the graph"""
    if old == new:
        return line
    out = []
    for e in line.split(";"):
        f = e.split("|")
        if f[0] == old:
            f[0] = new
        if f[12] == old:
            f[12] = new
        out.append("|".join(f))
    return ";".join(out)


YAML_WORDS = ["yes", "no", "on", "off", "true", "false", "null", "y", "n", "Yes", "NO", "On", "1e3", "0x1F", "1_000", "007",
              "1.5", ".inf", "nan", "None", "True"]


def gfun(a, b):
    s = 0
    for i in range(a):
        if i == b:
            break
        s += i
    else:
        s = -1
    return s


def _work(chunk):
    drv = common.Driver()
    lines, meta, fails = [], [], []
    mlines, mmeta = [], []
    n = 0
    for tag, succ in chunk:
        if tag == "ast":
            from numba_scfg.core.datastructures.ast_transforms import AST2SCFG
            scfg = AST2SCFG("def f(a, b):\n    s = 0\n    for i in range(a):\n        if i == b:\n            break\n        s += i\n    return s\n")
            try:
                scfg.to_dict()
            except Exception as e:  # noqa: BLE001
                fails.append((None, "ast-front-end-graph", "to_dict:" + exc_sig(e)))
            n += 1
            continue
        if succ is None:
            scfg = ByteFlow.from_bytecode(gfun).scfg
        elif tag == "yaml-words":
            # block names that YAML 1.1 reads as booleans / null / numbers unless quoted
            scfg = export.mk_scfg(succ, YAML_WORDS[:len(succ)])
        elif tag == "any-digraph":
            # graphs as the dict/YAML front end accepts them: dead cycles, orphans, several heads
            scfg = export.mk_scfg(succ, payload="bytecode")
        else:
            scfg = export.mk_scfg(succ)
        stages = (("input", None),) if tag == "any-digraph" else \
            (("input", None), ("closed", "join_returns"), ("loop", "restructure_loop"), ("branch", "restructure_branch"))
        written = []          # (stage, dictionary as written, deep copy taken at that time)
        for stage, op in stages:
            if op is not None:
                try:
                    getattr(scfg, op)()
                except Exception as e:  # noqa: BLE001
                    fails.append((succ, stage, "pipeline-on-reloaded-graph:" + exc_sig(e)))
                    break
                # what was written out at an earlier stage is a value: working on the graph (or on a
                # graph read back from it) must not change it afterwards
                for st0, d0, snap0 in written:
                    if d0 != snap0:
                        fails.append((succ, stage, f"dictionary-written-at-stage-{st0}-changed-afterwards"))
                        written = []
                        break
            n += 1
            s2, fl, ln, what = roundtrip(scfg)
            try:
                import copy
                dd = scfg.to_dict()
                written.append((stage, dd, copy.deepcopy(dd)))
            except Exception:  # noqa: BLE001
                pass
            for f in fl:
                fails.append((succ, stage, f))
            for k, w in enumerate(what):
                lines += ln[3 * k:3 * k + 3]
                meta += [None, None, (succ, stage, w)]
            for req, exp in roundtrip.model:
                mlines.append(req)
                mmeta.append((succ, stage, exp))
            if s2 is None:
                break
            scfg = s2          # continue on the re-read graph
    rep = drv.run(lines) if lines else []
    for m, r in zip(meta, rep):
        if m is not None and r != "1":
            fails.append((m[0], m[1], m[2] + "-reread-graph-differs"))
    mism = []
    nmodel = 0
    ready = {}
    if mlines:
        for m, r in zip(mmeta, drv.run(mlines)):
            if m[2] is None:
                continue
            if m[2] == "?":
                ready[r] = ready.get(r, 0) + 1
                continue
            nmodel += 1
            if r != m[2]:
                mism.append((m[0], m[1], m[2][:300], r[:300]))
    return n, fails, nmodel, mism, ready


def run(ctx):
    inputs = [x for x in gen.graph_inputs(ctx["tier"], ctx["seed"]) if len(x[1]) <= 14]
    if ctx["tier"] == "quick":
        inputs = inputs[::2]
    # the same graphs with YAML-hostile block names (they become region headers, exiting blocks,
    # parents after restructuring), and arbitrary flat digraphs (not only closed CFGs)
    inputs += [("yaml-words", s) for _, s in inputs[::7] if 2 <= len(s) <= len(YAML_WORDS)]
    import random as _r
    rng = _r.Random(ctx["seed"] * 31 + 15)
    for _ in range(200 if ctx["tier"] == "quick" else 4000):
        n = rng.randint(1, 7)
        inputs.append(("any-digraph", tuple(tuple(sorted(rng.sample(range(n), rng.choice([0, 1, 1, 2, 2]) if n > 1 else rng.choice([0, 1])))) for _ in range(n))))
    inputs.append(("bytecode", None))
    inputs.append(("ast", None))
    nproc = common.ncpu()
    size = max(20, min(500, len(inputs) // (nproc * 4) + 1))
    chunks = [inputs[i:i + size] for i in range(0, len(inputs), size)]
    with mp.get_context("fork").Pool(nproc) as pool:
        parts = pool.map(_work, chunks)
    n = sum(p[0] for p in parts)
    fails = [f for p in parts for f in p[1]]
    nmodel = sum(p[2] for p in parts)
    mism = [m for p in parts for m in p[3]]
    ready = Counter()
    for p in parts:
        ready.update(p[4])
    broken = []
    if mism:
        m0 = min(mism, key=lambda m: (len(m[0]) if m[0] else 99, str(m[0])))
        path = common.write_replay("C15", {"property": "C15", "kind": "correspondence-broken",
                                           "what": "Lean model of to_dict / from_dict (Scfg/Model/IO.lean) disagrees with the code",
                                           "input_succ": [list(x) for x in m0[0]] if m0[0] else "bytecode:gfun", "stage": m0[1],
                                           "expected_from_code": m0[2], "model_reply": m0[3], "count": len(mism)})
        broken.append({"signature": {"kind": "correspondence"}, "replay": path, "nfi": True,
                       "what": f"IO model mismatch on {len(mism)} comparisons"})
    by = {}
    for succ, stage, why in fails:
        by.setdefault((stage, why), []).append(succ)
    violations = []
    for (stage, why), items in sorted(by.items(), key=lambda kv: -len(kv[1]))[:8]:
        succ = min((s for s in items if s is not None), key=lambda s: (len(s), s), default=None)
        violations.append({"signature": {"stage": stage, "failure": why},
                           "what": f"round trip of the graph after stage '{stage}' fails: {why} ({len(items)} graphs)",
                           "payload": {"input_succ": [list(s) for s in succ] if succ else ("source-front-end graph" if stage == "ast-front-end-graph" else "bytecode:gfun"),
                                       "stage": stage, "failure": why, "count": len(items)}})
    cov = {"programs": len(inputs), "disagreements_checked": len(fails),
           "samples": [{"input_succ": [list(s) for s in inputs[len(inputs) // 3][1]]}],
           "evaluations": n, "distinct_nontrivial": len(inputs),
           "rule": "closed CFGs as for C01 (≤14 nodes) + a bytecode function; at every stage prefix: to_dict→from_dict, to_yaml→from_yaml, "
                   "write-read-write-read; the pipeline continues on the re-read graph",
           "stage_graphs_round_tripped": n, "model_comparisons": nmodel, "model_mismatches": len(mism),
           "io_roundtrip_hypothesis": {"holds": ready.get("1", 0), "does_not_hold": ready.get("0", 0),
                                       "note": "Scfg.Spec.ioReady evaluated on every real stage graph; where it holds Scfg.C15.io_roundtrip applies to the model"},
           "traces_validated_against_impl": nmodel, "failures_by_kind": {f"{k[0]}:{k[1]}": len(v) for k, v in by.items()}}
    return {"level": LEVEL, "coverage": cov, "violations": violations, "broken": broken,
            "assumptions": ["exporter faithful; PyYAML trusted; dict insertion order of graphs is not part of the compared content"]}


def replay(path):
    d = json.load(open(path if os.path.isabs(path) else os.path.join(common.VERIF, path)))
    succ = d["input_succ"]
    n, fails, _, _, _ = _work([("replay", tuple(tuple(s) for s in succ) if isinstance(succ, list) else None)])
    print(fails[:5])
    if fails:
        print(f"VIOLATION property=C15 replay={path}")
        return 1
    return 0
