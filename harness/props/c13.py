"""C13 — graph queries return exactly what their definitions prescribe.

Every query of the real code is compared (a) with the Lean model of the algorithm
(Scfg/Model/Queries.lean; exact, abort sites included) and (b) with the Lean *reference
definitions* (Scfg/Spec/GraphDefs.lean: closure-based reachability, mutual-reachability
components, path-based dominance), on ALL directed graphs of a small scope (self loops,
duplicate and external targets) and on random larger ones.
"""
import itertools
import json
import os
import random
import multiprocessing as mp
from collections import Counter
from harness import common, export
common.import_repo()
from numba_scfg.core.datastructures import basic_block as bb  # noqa: E402
from numba_scfg.core.datastructures.scfg import SCFG  # noqa: E402
from numba_scfg.core import transformations as tr  # noqa: E402

EXTRA_PROPS_FILES = ["Scfg/Props/C13Doms.lean", "Scfg/Props/C13Sub.lean", "Scfg/Props/C13Scc.lean", "Scfg/Props/C13Reach.lean"]
LEVEL = "proof"
NAMES = ["a", "b", "c", "d", "e", "f", "g", "h", "i", "j", "k", "l", "m", "n"]


def all_graphs(n, maxdeg):
    syms = NAMES[:n] + ["x"]          # "x" is an external target
    opts = [t for k in range(maxdeg + 1) for t in itertools.product(syms, repeat=k)]
    return itertools.product(opts, repeat=n)


def rand_graph(rng, n, maxdeg):
    syms = NAMES[:n] + ["x"]
    return tuple(tuple(rng.choice(syms) for _ in range(rng.choice(range(maxdeg + 1)))) for _ in range(n))


def mk(g):
    return SCFG({NAMES[i]: bb.BasicBlock(name=NAMES[i], _jump_targets=tuple(ts)) for i, ts in enumerate(g)})


def exc(e):
    import traceback
    tb = [f for f in traceback.extract_tb(e.__traceback__) if "numba_scfg" in f.filename]
    return "abort " + type(e).__name__ + "@" + (tb[-1].name if tb else "?")


def cj(xs):
    xs = list(xs)
    return ",".join(xs) if xs else "-"


def fmt_setmap(d):
    return ";".join(f"{k}:{cj(sorted(v))}" for k, v in sorted(d.items())) if d else "-"


def canon_setmap(s):
    if not s.startswith("ok "):
        return s
    body = s[3:]
    return "ok " + (";".join(sorted(body.split(";"))) if body != "-" else "-")


def real_queries(scfg, n, subsets, pairs):
    """list of (query line suffix, real answer string, kind)"""
    out = []
    top = scfg.region.name

    def q(line, f, kind):
        try:
            first = "ok " + f()
        except Exception as e:  # noqa: BLE001
            first = exc(e)
        # a query is a function of the graph: asking again gives the same answer
        try:
            second = "ok " + f()
        except Exception as e:  # noqa: BLE001
            second = exc(e)
        out.append((line, first if second == first else f"abort second-call-differs@{kind}", kind))
    q(f"find_head {top}", lambda: scfg.find_head(), "head")
    q(f"scc {top}", lambda: (lambda r: ";".join(cj(sorted(s)) for s in r) if r else "-")(scfg.compute_scc()), "scc")
    for sub in subsets:
        q(f"headers_entries {top} {cj(sub)}", lambda: (lambda r: f"{cj(r[0])} {cj(r[1])}")(scfg.find_headers_and_entries(set(sub))), "he")
        q(f"exiting_exits {top} {cj(sub)}", lambda: (lambda r: f"{cj(r[0])} {cj(r[1])}")(scfg.find_exiting_and_exits(set(sub))), "ee")
    for a, b in pairs:
        q(f"reach {top} {a} {b}", lambda: "1" if scfg.is_reachable_dfs(a, b) else "0", "reach")
    q(f"doms {top}", lambda: fmt_setmap(tr._doms(scfg)), "doms")
    q(f"pdoms {top}", lambda: fmt_setmap(tr._post_doms(scfg)), "doms")
    q(f"imm {top}", lambda: (lambda d: ";".join(f"{k}:{v}" for k, v in sorted(d.items())) or "-")(tr._imm_doms(tr._doms(scfg))), "imm")
    q(f"immp {top}", lambda: (lambda d: ";".join(f"{k}:{v}" for k, v in sorted(d.items())) or "-")(tr._imm_doms(tr._post_doms(scfg))), "imm")
    # … and the answers do not depend on which other queries were asked in between
    q(f"find_head {top}", lambda: scfg.find_head(), "head")
    q(f"scc {top}", lambda: (lambda r: ";".join(cj(sorted(s)) for s in r) if r else "-")(scfg.compute_scc()), "scc")
    for a, b in pairs[:3]:
        q(f"reach {top} {a} {b}", lambda: "1" if scfg.is_reachable_dfs(a, b) else "0", "reach")
    return out


def compare(kind, line, real, model, ref, nodes_reachable_ok):
    """returns (model_mismatch, spec_failure)"""
    mm = sf = None
    rm, mo = real, model
    if kind in ("doms",):
        rm, mo = canon_setmap(real), canon_setmap(model)
    if kind == "imm" and real.startswith("ok") and model.startswith("ok"):
        rm = "ok " + ";".join(sorted(real[3:].split(";")))
        mo = "ok " + ";".join(sorted(model[3:].split(";")))
    if rm != mo:
        mm = f"{line}: impl {real!r} model {model!r}"
    # property: against the reference definitions
    if kind == "head":
        want = ref if ref.startswith("ok") else "abort AssertionError@find_head"
        if real != want:
            sf = f"{line}: impl {real!r} definition {ref!r}"
    elif kind == "scc":
        if real.startswith("ok") and sorted(real[3:].split(";")) != sorted(ref[3:].split(";")):
            sf = f"{line}: impl {real!r} definition {ref!r}"
        elif not real.startswith("ok"):
            sf = f"{line}: impl {real!r}"
    elif kind == "he":
        if real.startswith("ok"):
            rh, re_ = real[3:].split(" ")
            dh, de = ref[3:].split(" ")
            if dh != "-":
                if (rh, re_) != (dh, de):
                    sf = f"{line}: impl {real!r} definition {ref!r}"
            # no outside block jumps in: documented arm "the head of the graph" — accepted
        elif "find_head" not in real:
            sf = f"{line}: impl {real!r}"
    elif kind in ("ee", "reach"):
        if real != ref:
            sf = f"{line}: impl {real!r} definition {ref!r}"
    elif kind == "doms":
        if real.startswith("ok"):
            if canon_setmap(real) != canon_setmap(ref):
                sf = f"{line}: impl {real!r} definition {ref!r}"
        elif "RuntimeError" not in real:
            sf = f"{line}: impl {real!r}"
    elif kind == "imm":
        if real.startswith("ok"):
            if "ok " + ";".join(sorted(real[3:].split(";"))) != "ok " + ";".join(sorted(ref[3:].split(";"))):
                sf = f"{line}: impl {real!r} definition {ref!r}"
        # ValueError (node unreachable from every entry) / RuntimeError (no entry): the
        # definition prescribes no immediate dominator there either
        elif "ValueError" not in real and "RuntimeError" not in real:
            sf = f"{line}: impl {real!r}"
    return mm, sf


def _work(chunk):
    drv = common.Driver()
    lines, meta = [], []
    for g in chunk:
        n = len(g)
        scfg = mk(g)
        top, hl = export.export(scfg)
        names = NAMES[:n]
        subsets = [s for k in range(1, n + 1) for s in itertools.combinations(names, k)]
        pairs = [(a, b) for a in names for b in names + ["x"]]
        rq = real_queries(scfg, n, subsets, pairs)
        lines.append(f"H {top} {hl}")
        meta.append(None)
        for line, real, kind in rq:
            lines.append("Q " + line)
            lines.append("R " + line)
            meta.append((g, line, real, kind))
            meta.append("ref")
            if kind == "scc" and real.startswith("ok "):
                # the real answer is also judged by the verified validator (Scfg.C13.sccValid_sound)
                lines.append(f"SPEC scc {line.split(' ')[1]} {real[3:]}")
                meta.append("verdict")
    rep = drv.run(lines)
    mism, fails = [], []
    stats = Counter()
    i = 0
    while i < len(lines):
        m = meta[i]
        if m is None:
            i += 1
            continue
        g, line, real, kind = m
        model, ref = rep[i], rep[i + 1]
        stats[kind] += 1
        if not real.startswith("ok"):
            stats["abort:" + real.split(" ")[1]] += 1
        mm, sf = compare(kind, line, real, model, ref, None)
        i += 2
        if i < len(lines) and meta[i] == "verdict":
            stats["scc answers judged by the verified validator"] += 1
            if rep[i] != "1" and not sf:
                sf = f"{line}: impl {real!r} rejected by the verified SCC validator"
            i += 1
        if mm:
            mism.append((g, mm))
        if sf:
            fails.append((g, kind, sf))
    return mism, fails, stats, len(chunk)


def _doms_work(chunk):
    """larger graphs, whole-graph queries only (head, SCCs, dominators, post-dominators, immediate ones)"""
    drv = common.Driver()
    lines, meta = [], []
    for g in chunk:
        scfg = mk(g)
        top, hl = export.export(scfg)
        rq = real_queries(scfg, len(g), [], [])
        lines.append(f"H {top} {hl}")
        meta.append(None)
        for line, real, kind in rq:
            lines.append("Q " + line)
            lines.append("R " + line)
            meta.append((g, line, real, kind))
            meta.append("ref")
    rep = drv.run(lines)
    mism, fails = [], []
    stats = Counter()
    i = 0
    while i < len(lines):
        m = meta[i]
        if m is None:
            i += 1
            continue
        g, line, real, kind = m
        stats[kind] += 1
        mm, sf = compare(kind, line, real, rep[i], rep[i + 1], None)
        i += 2
        if mm:
            mism.append((g, mm))
        if sf:
            fails.append((g, kind, sf))
    return mism, fails, stats, len(chunk)


def doms_inputs(tier, seed):
    """6-12 nodes, out-degree <= 2 or 3, biased to cycles with several entries that feed each other"""
    rng = random.Random(seed * 7177 + 131)
    out = []
    count = 6000 * common.boost() if tier == "quick" else 150000
    for _ in range(count):
        n = rng.randint(6, 10 if rng.random() < 0.8 else 12)
        names = NAMES[:n]
        g = []
        for i in range(n):
            k = rng.choice([1, 2, 2, 2, 3]) if i < n - 1 or rng.random() < 0.5 else 0
            pool = names[1:] if rng.random() < 0.9 else names + ["x"]
            g.append(tuple(rng.choice(pool) for _ in range(k)))
        out.append(tuple(g))
    return out


def long_path_queries():
    """reachability along a long path: the answer is known by construction, the query has to give it"""
    fails = []
    for n in (1200, 3000):
        blocks = {f"b{i}": bb.BasicBlock(name=f"b{i}", _jump_targets=((f"b{i + 1}",) if i + 1 < n else ())) for i in range(n)}
        g = SCFG(blocks)
        for a, b, want in (("b0", f"b{n - 1}", True), (f"b{n - 1}", "b0", False), ("b0", "b1", True)):
            try:
                got = g.is_reachable_dfs(a, b)
                if got != want:
                    fails.append((n, a, b, f"is_reachable_dfs({a}, {b}) on a path of {n} blocks answers {got}"))
            except BaseException as e:  # noqa: BLE001
                fails.append((n, a, b, f"is_reachable_dfs({a}, {b}) on a path of {n} blocks raises {type(e).__name__}"))
    return fails


def inputs(tier, seed):
    rng = random.Random(seed * 31337 + 13)
    gs = []
    gs += list(all_graphs(1, 3)) + list(all_graphs(2, 3))
    if tier == "quick":
        gs += list(all_graphs(3, 2))
        gs += [rand_graph(rng, 3, 3) for _ in range(1500)]
        gs += [rand_graph(rng, 4, 2) for _ in range(2500)]
        gs += [rand_graph(rng, rng.randint(5, 7), 3) for _ in range(400)]
        exh = "all graphs with ≤2 nodes (out-degree ≤3) and with 3 nodes (out-degree ≤2)"
    else:
        gs += list(all_graphs(3, 3))
        gs += list(all_graphs(4, 2))
        gs += [rand_graph(rng, rng.randint(5, 8), 3) for _ in range(20000)]
        exh = "all graphs with ≤3 nodes (out-degree ≤3) and with 4 nodes (out-degree ≤2)"
    return gs, exh


def _sub_work(chunk):
    """queries asked on the sub-graphs of regions of (partly) restructured hierarchies - the graphs
    "whose edges leave the graph" that the library itself produces; the fallback of
    find_headers_and_entries through the parent region only exists there"""
    from harness import gen as _gen
    from numba_scfg.core.datastructures import basic_block as bb
    drv = common.Driver()
    lines, meta = [], []
    stale_skipped = [0]
    for succ in chunk:
        scfg = export.mk_scfg(succ)
        for op in ("join_returns", "restructure_loop", "restructure_branch"):
            try:
                getattr(scfg, op)()
            except Exception:  # noqa: BLE001
                break
            if op == "join_returns":
                continue
            top, hl = export.export(scfg)
            lines.append(f"H {top} {hl}")
            meta.append(None)

            def regions(g, owner, fresh):
                # `fresh`: every region object on the way down is the one its sub-graph points
                # back to and records the object that really contains it as its parent (the
                # library keeps older copies of region blocks alive in these back pointers; the
                # fall-back arm of find_headers_and_entries follows them)
                for b in g.graph.values():
                    if isinstance(b, bb.RegionBlock):
                        f = fresh and b.subregion.region is b and b.parent_region is owner and owner.subregion is g
                        yield b, f
                        yield from regions(b.subregion, b, f)
            for r, fresh in regions(scfg, scfg.region, True):
                sub, c = r.subregion, r.name
                names = list(sub.graph)
                outside = sorted({t for b in sub.graph.values() for t in b._jump_targets if t not in sub.graph})
                out = []

                def q(line, f, kind):
                    try:
                        first = "ok " + f()
                    except Exception as e:  # noqa: BLE001
                        first = exc(e)
                    out.append((line, first, kind))
                q(f"find_head {c}", lambda: sub.find_head(), "head")
                q(f"scc {c}", lambda: (lambda x: ";".join(cj(sorted(t)) for t in x) if x else "-")(sub.compute_scc()), "scc")
                subsets = [(n,) for n in names[:4]] + [tuple(names)] + ([tuple(names[:2])] if len(names) > 2 else [])
                for ss in subsets:
                    fallback = not any(t in ss for n_, b_ in sub.graph.items() if n_ not in ss for t in b_._jump_targets)
                    if fallback and not fresh:
                        stale_skipped[0] += 1       # answer depends on which old copies are still referenced
                        continue
                    q(f"headers_entries {c} {cj(ss)}", lambda: (lambda x: f"{cj(x[0])} {cj(x[1])}")(sub.find_headers_and_entries(set(ss))),
                      "he-fallback" if fallback else "he")
                    q(f"exiting_exits {c} {cj(ss)}", lambda: (lambda x: f"{cj(x[0])} {cj(x[1])}")(sub.find_exiting_and_exits(set(ss))), "ee")
                for a in names[:3]:
                    for b_ in names[:3] + outside[:2]:
                        q(f"reach {c} {a} {b_}", lambda: "1" if sub.is_reachable_dfs(a, b_) else "0", "reach")
                for line, real, kind in out:
                    lines.append("Q " + line)
                    lines.append("R " + line)
                    meta.append((succ, line, real, kind))
                    meta.append("ref")
    rep = drv.run(lines) if lines else []
    mism, fails = [], []
    n = 0
    i = 0
    while i < len(lines):
        m = meta[i]
        if m is None:
            i += 1
            continue
        succ, line, real, kind = m
        model, ref = rep[i], rep[i + 1]
        n += 1
        if kind == "he-fallback":
            # no block of the sub-graph jumps into the subset: the documented answer is the head of
            # the sub-graph and the entries of the enclosing region in its parent's graph - the
            # model computes exactly that on the exported hierarchy
            if real != model:
                fails.append((succ, "headers-entries-of-a-region-subgraph", f"{line}: impl {real!r}, by the documented fall-back {model!r}"))
            i += 2
            continue
        mm, sf = compare(kind, line, real, model, ref, None)
        if mm:
            mism.append((succ, mm))
        if sf and kind in ("reach", "ee", "scc"):
            fails.append((succ, kind + "-on-region-subgraph", sf))
        i += 2
    return mism, fails, n, stale_skipped[0]


def subgraph_queries(ctx):
    from harness import gen as _gen
    rng = random.Random(ctx["seed"] * 7 + 131)
    gs = [s for _, s in _gen.graph_inputs(ctx["tier"], ctx["seed"]) if 3 <= len(s) <= 10]
    rng.shuffle(gs)
    gs = gs[: (400 * common.boost() if ctx["tier"] == "quick" else 8000)]
    nproc = common.ncpu()
    size = max(10, len(gs) // (nproc * 2) + 1)
    chunks = [gs[i:i + size] for i in range(0, len(gs), size)]
    with mp.get_context("fork").Pool(nproc) as pool:
        parts = pool.map(_sub_work, chunks)
    return [m for p in parts for m in p[0]], [f for p in parts for f in p[1]], sum(p[2] for p in parts), sum(p[3] for p in parts)


def run(ctx):
    gs, exh = inputs(ctx["tier"], ctx["seed"])
    nproc = common.ncpu()
    size = max(20, min(400, len(gs) // (nproc * 4) + 1))
    chunks = [gs[i:i + size] for i in range(0, len(gs), size)]
    with mp.get_context("fork").Pool(nproc) as pool:
        parts = pool.map(_work, chunks)
    mism = [m for p in parts for m in p[0]]
    fails = [f for p in parts for f in p[1]]
    stats = Counter()
    for p in parts:
        stats.update(p[2])
    dgs = doms_inputs(ctx["tier"], ctx["seed"])
    dchunks = [dgs[i:i + 300] for i in range(0, len(dgs), 300)]
    with mp.get_context("fork").Pool(nproc) as pool:
        dparts = pool.map(_doms_work, dchunks)
    mism += [m for p in dparts for m in p[0]]
    fails += [f for p in dparts for f in p[1]]
    for p in dparts:
        stats.update(p[2])
    stats["larger graphs (6-12 nodes), whole-graph queries only"] = len(dgs)
    longfails = long_path_queries()
    stats["reachability queries along paths of 1200 and 3000 blocks"] = 6
    smism, sfails, nsub, nstale = subgraph_queries(ctx)
    mism += smism
    fails += sfails
    stats["queries on region sub-graphs of restructured hierarchies"] = nsub
    stats["fall-back queries skipped because a region back pointer is an older copy"] = nstale
    violations, broken = [], []
    bykind = {}
    for g, kind, sf in fails:
        bykind.setdefault(kind, []).append((g, sf))
    for kind, items in bykind.items():
        g, sf = min(items, key=lambda x: (len(x[0]), sum(len(t) for t in x[0] if not isinstance(t, int))))
        violations.append({"signature": {"query": kind}, "what": f"query '{kind}' disagrees with its definition on {len(items)} inputs: {sf}",
                           "payload": {"graph": [list(t) for t in g], "detail": sf, "count": len(items)}})
    if longfails:
        violations.append({"signature": {"query": "reach-long-path"},
                           "what": f"reachability on a long path: {longfails[0][3]} ({len(longfails)} of 6 queries)",
                           "payload": {"path_blocks": longfails[0][0], "begin": longfails[0][1], "end": longfails[0][2],
                                       "detail": longfails[0][3], "count": len(longfails)}})
    if mism:
        g, mm = mism[0]
        path = common.write_replay("C13", {"property": "C13", "kind": "correspondence-broken",
                                           "correspondence": "Scfg.Model.Queries vs numba_scfg queries",
                                           "graph": [list(t) for t in g], "detail": mm, "mismatches": len(mism)})
        broken.append({"signature": {"kind": "correspondence"}, "replay": path, "nfi": True, "what": mm})
    nq = sum(v for k, v in stats.items() if not k.startswith("abort"))
    cov = {"evaluations": nq, "distinct_nontrivial": len(gs),
           "rule": "directed graphs over named nodes plus one external target, ordered successor tuples with duplicates and self loops; "
                   "per graph: head, SCCs, dominators, post-dominators, immediate (post-)dominators, and for every non-empty subset "
                   "headers/entries, exiting/exits, and reachability for every (node, node-or-external) pair; each real answer compared "
                   "with the Lean model and with the Lean reference definition",
           "samples": [{"graph": [list(t) for t in gs[len(gs) // 2]]}], "exhaustive_scope": exh,
           "graphs": len(gs), "queries_by_kind": {k: v for k, v in stats.items() if not k.startswith("abort")},
           "impl_aborts": {k: v for k, v in stats.items() if k.startswith("abort")},
           "model_mismatches": len(mism), "definition_mismatches": len(fails),
           "traces_validated_against_impl": nq - len(mism)}
    return {"level": LEVEL, "coverage": cov, "violations": violations, "broken": broken,
            "assumptions": ["reference definitions in Scfg/Spec/GraphDefs.lean are the meaning of the queries; theorems relating them to path predicates in Scfg/Props/C13.lean"]}


def replay(path):
    d = json.load(open(path if os.path.isabs(path) else os.path.join(common.VERIF, path)))
    g = tuple(tuple(t) for t in d["graph"])
    mism, fails, stats, _ = _work([g])
    print(json.dumps({"model_mismatches": mism, "definition_mismatches": fails}, indent=1))
    if fails:
        print(f"VIOLATION property=C13 replay={path}")
        return 1
    return 0
