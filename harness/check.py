"""Entry point of every registered check: ./check <Cxx> [--tier quick|thorough] [--replay p].

Steps: (re)build the Lean development, audit the property's theorems (no sorry / own axioms,
`#print axioms` ⊆ the allowed three), run the property's module against the real code in
/repo, classify what failed against known_findings.json, write evidence, print VIOLATION /
KNOWN-FINDING lines. Exit 0 = held on everything explored, 1 = violation, 2 = could not run."""
import os
import sys
import json
import time
import argparse
import importlib
import traceback

from harness import common


def finding_matches(finding, prop, sig):
    if finding.get("property") != prop:
        return False
    m = finding.get("match", {})
    return all(str(sig.get(k)) == str(v) for k, v in m.items()) and bool(m)


def main(argv=None):
    ap = argparse.ArgumentParser()
    ap.add_argument("prop")
    ap.add_argument("--tier", default=os.environ.get("VERIF_TIER", "quick"), choices=["quick", "thorough"])
    ap.add_argument("--replay", default=None)
    args = ap.parse_args(argv)
    prop = args.prop.upper()
    seed = common.seed_of_env()
    t0 = time.time()
    try:
        mod = importlib.import_module(f"harness.props.{prop.lower()}")
    except ModuleNotFoundError:
        print(f"no check for {prop}", file=sys.stderr)
        return 2

    if args.replay:
        return mod.replay(args.replay)

    # source fingerprint: a changed function of the package enlarges the input budget of this run
    from harness import fingerprint
    try:
        changed_fns = fingerprint.changed()
    except Exception as e:  # noqa: BLE001
        changed_fns = [f"<fingerprint failed: {type(e).__name__}>"]
    if changed_fns and args.tier == "quick" and not os.environ.get("VERIF_BOOST"):
        os.environ["VERIF_BOOST"] = "4"
    ctx = {"prop": prop, "tier": args.tier, "seed": seed, "t0": t0, "changed_functions": changed_fns}
    lean = {"built": False, "theorems": {}, "stmt_hash": None, "failure": None, "leanchecker": None}
    props_file = getattr(mod, "PROPS_FILE", f"Scfg/Props/{prop}.lean")
    props_module = props_file[:-5].replace("/", ".")
    # ---- 1. translator (regenerated model parts), if the property has any
    try:
        if hasattr(mod, "regenerate"):
            mod.regenerate(ctx)
        # ---- 2. build + audit
        common.lake_build([props_module] if os.path.exists(os.path.join(common.LEAN, props_file)) else [])
        lean["built"] = True
        bad = common.source_audit()
        if bad:
            raise common.LeanFailure("escape hatch in Lean sources", "\n".join(bad))
        if os.path.exists(os.path.join(common.LEAN, props_file)):
            names = common.theorems_in(props_file)
            lean["theorems"] = common.axiom_audit(props_module, names)
            lean["stmt_hash"] = common.statement_hash(props_file)
            # further theorem files of the same property (audited the same way)
            extra = [f for f in getattr(mod, "EXTRA_PROPS_FILES", []) if os.path.exists(os.path.join(common.LEAN, f))]
            if len(extra) != len(getattr(mod, "EXTRA_PROPS_FILES", [])):
                raise common.LeanFailure("theorem file missing", str(getattr(mod, "EXTRA_PROPS_FILES", [])))
            for f in extra:
                m_ = f[:-5].replace("/", ".")
                common.lake_build([m_])
                lean["theorems"].update(common.axiom_audit(m_, common.theorems_in(f)))
                lean["stmt_hash"] += "+" + common.statement_hash(f)
            if args.tier == "thorough":
                lean["leanchecker"] = common.leanchecker([props_module] + [f[:-5].replace("/", ".") for f in extra])
    except common.LeanFailure as e:
        lean["failure"] = {"what": e.what, "log": (e.log or "")[-4000:]}
    ctx["lean"] = lean

    # ---- 3. the property's own run against /repo
    try:
        res = mod.run(ctx)
    except common.LeanFailure as e:
        lean["failure"] = lean["failure"] or {"what": e.what, "log": (e.log or "")[-4000:]}
        res = {"level": getattr(mod, "LEVEL", "other"), "coverage": {}, "violations": [], "assumptions": [],
               "could_not_run": True}
    except Exception:  # noqa: BLE001
        # The harness could not run against this tree (the code no longer has the shape the
        # translator / exporter / correspondence relies on): the property is no longer shown to
        # hold, and no failing input could be searched for.
        tb = traceback.format_exc()
        print(tb, file=sys.stderr)
        path = common.write_replay(prop, {"property": prop, "kind": "harness-could-not-run",
                                          "what": "the check's machinery raised while driving the code", "traceback": tb[-3000:]})
        print(f"VIOLATION property={prop} replay={path} no-failing-input-found")
        common.write_evidence(prop, args.tier, seed, getattr(mod, "LEVEL", "other"),
                              {"explanation": "harness raised: " + tb.strip().split("\n")[-1], "evaluations": 1, "distinct_nontrivial": 2,
                               "samples": [tb[-500:]], "programs": 1, "disagreements_checked": 1,
                               "obligations": 1, "discharged": 1, "checker_cmd": "n/a", "trusted_base": []},
                              time.time() - t0, 1, [])
        return 1

    known = common.load_known_findings()
    out_viol = []
    out_known = []
    for v in res.get("violations", []):
        kf = next((f for f in known.get("findings", []) if finding_matches(f, prop, v["signature"])), None)
        if kf:
            out_known.append((kf, v))
        else:
            out_viol.append(v)

    # a broken proof / correspondence is reported even when no failing input was found
    if lean["failure"] and not out_viol:
        payload = {"property": prop, "kind": "proof-or-correspondence-broken",
                   "what": lean["failure"]["what"], "log": lean["failure"]["log"],
                   "searched": res.get("coverage", {}).get("programs", res.get("coverage", {}).get("evaluations", 0)),
                   "note": "no failing input found by the search on the implementation"}
        path = common.write_replay(prop, payload)
        out_viol.append({"signature": {"kind": "lean-failure"}, "replay": path, "nfi": True,
                         "what": lean["failure"]["what"]})
    # correspondence / tie breaks reported by the module itself: only when no failing input of the
    # property was found (a found input is the better report)
    if not [v for v in out_viol if not v.get("nfi")]:
        for v in res.get("broken", []):
            out_viol.append(v)

    seen_k = set()
    for kf, v in out_known:
        if kf["id"] in seen_k:
            continue
        seen_k.add(kf["id"])
        print(f"KNOWN-FINDING: property={prop} {kf['id']}: {kf['what']}")
    for v in out_viol:
        if "replay" not in v:
            v["replay"] = common.write_replay(prop, {"property": prop, "tier": args.tier, "seed": seed, **v.get("payload", {}),
                                                    "signature": v["signature"], "what": v.get("what")})
        tail = " no-failing-input-found" if v.get("nfi") else ""
        print(f"VIOLATION property={prop} replay={v['replay']}{tail}")

    cov = dict(res.get("coverage", {}))
    nthm = len(lean["theorems"])
    cov.setdefault("obligations", nthm)
    cov.setdefault("discharged", nthm if not lean["failure"] else 0)
    cov.setdefault("checker_cmd", f"cd lean && lake build {props_module} && lake env lean <#print axioms of each theorem>")
    cov.setdefault("trusted_base", ["Lean 4.33.0 kernel", "axioms ⊆ {propext, Classical.choice, Quot.sound}",
                                    "harness/export.py (exporter)", "Lean compiler/runtime for the driver"])
    cov["theorems"] = lean["theorems"]
    cov["statement_hash"] = lean["stmt_hash"]
    cov["leanchecker"] = lean["leanchecker"]
    cov["lean_failure"] = lean["failure"]["what"] if lean["failure"] else None
    cov["known_findings_seen"] = sorted(seen_k)
    cov["source_fingerprint"] = {"changed_functions_vs_baseline": changed_fns[:40], "input_budget_factor": int(os.environ.get("VERIF_BOOST", "1"))}
    common.write_evidence(prop, args.tier, seed, res.get("level", "other"), cov, time.time() - t0,
                          len(out_viol), res.get("assumptions", []))
    if res.get("could_not_run") and not out_viol:
        return 2
    return 1 if out_viol else 0


if __name__ == "__main__":
    sys.exit(main())
