"""Greedy shrinking of a generated function while a predicate on its source keeps holding
(used to minimise replays of C07 / C08 / C10)."""
import ast
import copy


def _bodies(node):
    for f in ("body", "orelse"):
        b = getattr(node, f, None)
        if isinstance(b, list) and b and isinstance(b[0], ast.stmt):
            yield f, b


def _variants(tree):
    """yield modified deep copies of `tree`, smaller first"""
    nodes = list(ast.walk(tree))
    for idx, node in enumerate(nodes):
        for f, body in _bodies(node):
            for i, st in enumerate(body):
                if isinstance(node, ast.FunctionDef) and f == "body" and i == len(body) - 1 and isinstance(st, ast.Return):
                    continue
                # delete the statement
                t = copy.deepcopy(tree)
                b = getattr(list(ast.walk(t))[idx], f)
                del b[i]
                if not b and f == "body":
                    b.append(ast.Pass())
                yield t
                # replace a compound statement by one of its clauses
                for f2, inner in _bodies(st):
                    t = copy.deepcopy(tree)
                    b = getattr(list(ast.walk(t))[idx], f)
                    b[i:i + 1] = copy.deepcopy(inner)
                    yield t
        if isinstance(node, ast.BoolOp):
            for k in range(len(node.values)):
                t = copy.deepcopy(tree)
                n2 = list(ast.walk(t))[idx]
                keep = copy.deepcopy(node.values[k])
                for parent in ast.walk(t):
                    for fname, val in ast.iter_fields(parent):
                        if val is n2:
                            setattr(parent, fname, keep)
                        elif isinstance(val, list):
                            for j, v in enumerate(val):
                                if v is n2:
                                    val[j] = keep
                yield t
        if isinstance(node, ast.Call) and node.args:
            for k in range(len(node.args)):
                t = copy.deepcopy(tree)
                del list(ast.walk(t))[idx].args[k]
                yield t


def shrink(src, pred, budget=400):
    tree = ast.parse(src)
    improved = True
    while improved and budget > 0:
        improved = False
        for t in _variants(tree):
            budget -= 1
            if budget <= 0:
                break
            try:
                s = ast.unparse(ast.fix_missing_locations(t)) + "\n"
                compile(s, "<shrink>", "exec")
            except Exception:  # noqa: BLE001
                continue
            if len(s) < len(ast.unparse(tree)) + 1 and pred(s):
                tree = ast.parse(s)
                improved = True
                break
    return ast.unparse(tree) + "\n"
