"""Re-run checks against already confirmed seeded changes: seedrecheck.py <seed-id> <check ids...>"""
import json, os, subprocess, sys, time
sid, checks = sys.argv[1], sys.argv[2:]
out = os.path.join("/verif/seeded", sid)
meta = json.load(open(os.path.join(out, "meta.json")))
assert subprocess.run("git status --porcelain", shell=True, cwd="/repo", capture_output=True, text=True).stdout.strip() == ""
assert subprocess.run(f"git apply {out}/patch.diff", shell=True, cwd="/repo").returncode == 0
try:
    for c in checks:
        t = time.time()
        p = subprocess.run(f"./check {c} --tier quick", shell=True, cwd="/verif", capture_output=True, text=True)
        lines = [ln for ln in p.stdout.split("\n") if ln.startswith("VIOLATION")]
        meta["checks"][c] = {"exit": p.returncode, "lines": lines[:6], "secs": round(time.time() - t, 1)}
        print(c, p.returncode, lines[:1])
finally:
    subprocess.run("git checkout -- .", shell=True, cwd="/repo")
meta["caught_by"] = sorted(c for c, r in meta["checks"].items() if r["exit"] == 1)
json.dump(meta, open(os.path.join(out, "meta.json"), "w"), indent=1)
print("caught by:", meta["caught_by"])
