"""Python-subset semantics glue (C07 / C08 / C10).

* abstraction: Python `ast` → the wire form of Scfg/Py/Syntax.lean (function bodies, front-end
  CFG blocks, regenerated functions) — shared structural ids, so that the same expression has
  the same id in all three;
* oracle execution under CPython: programs whose atoms are calls into an oracle object are run
  natively for a given decision sequence and log the same events the Lean reference semantics
  emits (used to validate the reference semantics and as concrete ground truth);
* a CPython interpreter for front-end CFGs (run a block's statements, decide on its last
  expression).
"""
import ast
import re

SENT = "__scfg_sentinel__"


class _HoistNorm(ast.NodeTransformer):
    """and/or expressions and the temporaries the front end replaces them with look alike, so that
    an expression keeps its id when an and/or inside it is hoisted"""

    def visit_BoolOp(self, node):
        return ast.Constant("<and/or>")

    def visit_Name(self, node):
        if node.id.startswith("__scfg_bool_op_"):
            return ast.Constant("<and/or>")
        return node


def norm_dump(node):
    import copy
    return ast.dump(_HoistNorm().visit(copy.deepcopy(node)))


class Ids:
    def __init__(self):
        self.t = {}

    def of(self, node_or_text):
        text = node_or_text if isinstance(node_or_text, str) else norm_dump(node_or_text)
        if text not in self.t:
            self.t[text] = 500000 + len(self.t)
        return self.t[text]


class Unsupported(Exception):
    pass


def names_loaded(node):
    out = []
    for n in ast.walk(node):
        if isinstance(n, ast.Name) and isinstance(n.ctx, ast.Load) and n.id not in out:
            out.append(n.id)
    return out


def _cst(v):
    r = re.sub(r"\s+", "_", repr(v))
    try:
        t = bool(v)
    except Exception:  # noqa: BLE001
        t = True
    return ["c", r, "1" if t else "0"]


def is_oracle_call(node):
    return (isinstance(node, ast.Call) and isinstance(node.func, ast.Attribute) and isinstance(node.func.value, ast.Name)
            and node.func.value.id == "o" and node.func.attr == "a" and node.args
            and isinstance(node.args[0], ast.Constant) and isinstance(node.args[0].value, int) and not node.keywords)


def abs_expr(e, ids, env):
    """env: {'iters': {var: id}} — iterator variables of desugared for-loops seen so far"""
    if isinstance(e, ast.Name):
        return ["v", e.id]
    if isinstance(e, ast.Constant):
        return _cst(e.value)
    if isinstance(e, ast.UnaryOp) and isinstance(e.op, (ast.USub, ast.UAdd)) and isinstance(e.operand, ast.Constant) \
            and isinstance(e.operand.value, (int, float)) and not isinstance(e.operand.value, bool):
        return _cst(-e.operand.value if isinstance(e.op, ast.USub) else e.operand.value)
    if isinstance(e, ast.BoolOp):
        out = ["bo", "1" if isinstance(e.op, ast.And) else "0", str(len(e.values))]
        for v in e.values:
            out += abs_expr(v, ids, env)
        return out
    if isinstance(e, ast.BinOp):
        return ["bi", str(ids.of(e))] + abs_expr(e.left, ids, env) + abs_expr(e.right, ids, env)
    if isinstance(e, ast.Compare):
        # generated forms first
        if len(e.ops) == 1 and isinstance(e.ops[0], ast.NotEq) and isinstance(e.left, ast.Name) \
                and isinstance(e.comparators[0], ast.Constant) and e.comparators[0].value == SENT:
            return ["ns", e.left.id]
        if len(e.ops) == 1 and isinstance(e.ops[0], ast.In) and isinstance(e.left, ast.Name) and e.left.id.startswith("__scfg_") \
                and isinstance(e.comparators[0], ast.Tuple) and all(isinstance(x, ast.Constant) and isinstance(x.value, int) for x in e.comparators[0].elts):
            vals = [str(x.value) for x in e.comparators[0].elts]
            return ["in", e.left.id, str(len(vals))] + vals
        out = ["cm", str(ids.of(e))] + abs_expr(e.left, ids, env) + [str(len(e.comparators))]
        for c in e.comparators:
            out += abs_expr(c, ids, env)
        return out
    if isinstance(e, ast.UnaryOp) and isinstance(e.op, ast.Not):
        return ["no"] + abs_expr(e.operand, ids, env)
    if isinstance(e, ast.Call):
        if is_oracle_call(e):
            out = ["ca", str(e.args[0].value), "c", "o.a", "1", str(len(e.args) - 1)]
            for a in e.args[1:]:
                out += abs_expr(a, ids, env)
            return out
        if isinstance(e.func, ast.Name) and e.func.id == "iter" and len(e.args) == 1 and not e.keywords:
            return ["it", str(ids.of("for:" + norm_dump(e.args[0])))] + abs_expr(e.args[0], ids, env)
        if isinstance(e.func, ast.Name) and e.func.id == "next" and len(e.args) == 2 and isinstance(e.args[0], ast.Name) \
                and isinstance(e.args[1], ast.Constant) and e.args[1].value == SENT:
            it = e.args[0].id
            if it not in env["iters"]:
                raise Unsupported("next() on an unknown iterator variable")
            return ["nx", str(env["iters"][it]), it]
        if not e.keywords and not any(isinstance(a, ast.Starred) for a in e.args):
            out = ["ca", str(ids.of(e))] + abs_expr(e.func, ids, env) + [str(len(e.args))]
            for a in e.args:
                out += abs_expr(a, ids, env)
            return out
    rd = names_loaded(e)
    return ["l", str(ids.of(e)), str(len(rd))] + rd


def abs_stmt(s, ids, env):
    if isinstance(s, ast.Assign):
        if len(s.targets) == 1 and isinstance(s.targets[0], ast.Name):
            x = s.targets[0].id
            v = s.value
            if isinstance(v, ast.Call) and isinstance(v.func, ast.Name) and v.func.id == "iter" and len(v.args) == 1 and x.startswith("__scfg_iterator_"):
                env["iters"][x] = ids.of("for:" + norm_dump(v.args[0]))
            return ["as", x] + abs_expr(v, ids, env)
        rd = []
        for t in s.targets:
            for n in ast.walk(t):
                if isinstance(n, ast.Name) and n.id not in rd:
                    rd.append(n.id)
        return ["st", str(ids.of(s.targets[0])), str(len(rd))] + rd + abs_expr(s.value, ids, env)
    if isinstance(s, ast.AugAssign):
        if isinstance(s.target, ast.Name):
            fake = ast.BinOp(left=ast.Name(id=s.target.id, ctx=ast.Load()), op=s.op, right=s.value)
            return ["as", s.target.id, "bi", str(ids.of("aug:" + ast.dump(s.op) + norm_dump(s.value) + s.target.id)), "v", s.target.id] + abs_expr(s.value, ids, env)
        rd = names_loaded(s.target)
        return ["st", str(ids.of(s.target)), str(len(rd))] + rd + abs_expr(s.value, ids, env)
    if isinstance(s, ast.Expr):
        return ["ex"] + abs_expr(s.value, ids, env)
    if isinstance(s, ast.Return):
        return ["re"] + (abs_expr(s.value, ids, env) if s.value is not None else ["c", "None", "0"])
    if isinstance(s, ast.Pass):
        return ["pa"]
    if isinstance(s, ast.Break):
        return ["br"]
    if isinstance(s, ast.Continue):
        return ["co"]
    if isinstance(s, ast.If):
        return ["if"] + abs_expr(s.test, ids, env) + abs_stmts(s.body, ids, env) + abs_stmts(s.orelse, ids, env)
    if isinstance(s, ast.While):
        return ["wh"] + abs_expr(s.test, ids, env) + abs_stmts(s.body, ids, env) + abs_stmts(s.orelse, ids, env)
    if isinstance(s, ast.For):
        if not isinstance(s.target, ast.Name):
            return ["un", "for-target"]
        return ["fo", str(ids.of("for:" + norm_dump(s.iter))), s.target.id] + abs_expr(s.iter, ids, env) \
            + abs_stmts(s.body, ids, env) + abs_stmts(s.orelse, ids, env)
    if isinstance(s, ast.expr):          # a bare expression node inside a CFG block
        return ["ex"] + abs_expr(s, ids, env)
    return ["un", type(s).__name__]


def abs_stmts(ss, ids, env):
    out = [str(len(ss))]
    for s in ss:
        out += abs_stmt(s, ids, env)
    return out


def abs_function(fdef, ids):
    params = [a.arg for a in fdef.args.args]
    env = {"iters": {}}
    return params, [str(len(params))] + params + abs_stmts(fdef.body, ids, env)


def abs_cfg(astcfg, ids):
    """ASTCFG (dict name → WritableASTBlock) → PYCFGB payload; entry block first."""
    env = {"iters": {}}
    names = list(astcfg.keys())
    if "0" in names:
        names.remove("0")
        names.insert(0, "0")
    # iterator variables must be known before blocks that use next(): pre-scan
    for n in names:
        for ins in astcfg[n].instructions:
            if isinstance(ins, ast.Assign) and len(ins.targets) == 1 and isinstance(ins.targets[0], ast.Name) \
                    and ins.targets[0].id.startswith("__scfg_iterator_") and isinstance(ins.value, ast.Call) and ins.value.args:
                env["iters"][ins.targets[0].id] = ids.of("for:" + norm_dump(ins.value.args[0]))
    out = [str(len(names))]
    for n in names:
        b = astcfg[n]
        ins = list(b.instructions)
        test = None
        if len(b.jump_targets) == 2 and ins:
            last = ins.pop()
            test = last.value if isinstance(last, ast.Expr) else last
        out += [n] + abs_stmts(ins, ids, env)
        if test is not None:
            if isinstance(test, ast.stmt):
                raise Unsupported("two-way block whose last instruction is not an expression")
            out += ["1"] + abs_expr(test, ids, env)
        else:
            out += ["0"]
        out += [str(len(b.jump_targets))] + list(b.jump_targets)
    return out


# --------------------------------------------------------------------------- oracle execution
class NeedDecision(Exception):
    pass


class Oracle:
    """`o.a(K, *args)` atoms; truthiness and iteration of the values they return consume
    decisions (0 = true / has another item, 1 = false / exhausted)."""

    def __init__(self, decisions):
        self.ds = list(decisions)
        self.i = 0
        self.segs = [[]]
        self.memo = {}       # site → truthiness already decided for its current value

    def decide(self):
        if self.i >= len(self.ds):
            raise NeedDecision()
        d = self.ds[self.i]
        self.i += 1
        self.segs.append([])
        return d

    def log(self, ev):
        self.segs[-1].append(ev)

    def a(self, k, *args):
        self.log(f"e{k}.0(c:o.a," + ",".join(render(x) for x in args) + ")" if args else f"e{k}.0(c:o.a)")
        self.memo.pop(f"s{k}.0", None)
        return Sym(self, f"s{k}.0")


class Sym:
    def __init__(self, o, site):
        self.o = o
        self.site = site

    def __bool__(self):
        if self.site not in self.o.memo:
            self.o.memo[self.site] = self.o.decide() == 0
        return self.o.memo[self.site]

    def __iter__(self):
        self.o.log(f"iter({self.site})")
        return SymIter(self.o, f"it[{self.site}]")


class SymIter:
    def __init__(self, o, site):
        self.o = o
        self.site = site

    def __iter__(self):
        return self

    def __next__(self):
        d = self.o.decide()
        self.o.log(f"next({self.site})")
        if d == 0:
            self.o.memo.pop(f"nx[{self.site}]", None)
            return Sym(self.o, f"nx[{self.site}]")
        raise StopIteration


def render(x):
    if isinstance(x, (Sym, SymIter)):
        return x.site
    return "c:" + re.sub(r"\s+", "_", repr(x))


class Diverges(BaseException):
    pass


def _alarm(signum, frame):
    raise Diverges()


def run_oracle(fn, nparams, decisions, limit=0.25):
    """(segments, status) — status: 'return' | 'need-more' | 'diverges' | 'raise:<Type>'"""
    import signal
    o = Oracle(decisions)
    args = [Sym(o, f"p{i}") for i in range(nparams)]
    old = signal.signal(signal.SIGALRM, _alarm)
    signal.setitimer(signal.ITIMER_REAL, limit)
    try:
        r = fn(o, *args)
        signal.setitimer(signal.ITIMER_REAL, 0)
        o.log(f"ret({render(r)})")
        return o.segs, "return"
    except NeedDecision:
        return o.segs, "need-more"
    except Diverges:
        return o.segs, "diverges"
    except Exception as e:  # noqa: BLE001
        return o.segs, "raise:" + type(e).__name__
    finally:
        signal.setitimer(signal.ITIMER_REAL, 0)
        signal.signal(signal.SIGALRM, old)


def make_fn(fdef_or_src, name=None):
    """compile a FunctionDef (or source) whose first parameter is the oracle `o`"""
    if isinstance(fdef_or_src, str):
        mod = ast.parse(fdef_or_src)
    else:
        mod = ast.Module(body=[fdef_or_src], type_ignores=[])
        ast.fix_missing_locations(mod)
    ns = {}
    exec(compile(mod, "<pysem>", "exec"), ns)  # noqa: S102
    fns = [v for k, v in ns.items() if callable(v) and not k.startswith("__")]
    return fns[-1] if name is None else ns[name]


def make_cfg_fn(astcfg, params):
    """A Python callable interpreting the front-end CFG block by block under CPython."""
    compiled = {}
    for n, b in astcfg.items():
        ins = list(b.instructions)
        test = None
        if len(b.jump_targets) == 2 and ins:
            last = ins.pop()
            test = last.value if isinstance(last, ast.Expr) else last
        body = []
        ret = None
        for s in ins:
            if isinstance(s, ast.Return):
                ret = s.value if s.value is not None else ast.Constant(None)
                break
            body.append(s if isinstance(s, ast.stmt) else ast.Expr(value=s))
        mod = ast.Module(body=body, type_ignores=[])
        ast.fix_missing_locations(mod)

        def cexpr(e):
            if e is None:
                return None
            ex = ast.Expression(body=e)
            ast.fix_missing_locations(ex)
            return compile(ex, "<cfg>", "eval")
        compiled[n] = (compile(mod, "<cfg>", "exec"), cexpr(ret), cexpr(test), list(b.jump_targets))

    def fn(*args):  # noqa
        env = dict(zip(params, args))
        cur = "0" if "0" in compiled else next(iter(compiled))
        steps = 0
        while True:
            steps += 1          # non-termination is cut by the caller's timer
            code, ret, test, jts = compiled[cur]
            exec(code, {}, env)  # noqa: S102
            if ret is not None:
                return eval(ret, {}, env)  # noqa: S307
            if len(jts) == 2:
                cur = jts[0] if eval(test, {}, env) else jts[1]  # noqa: S307
            elif len(jts) == 1:
                cur = jts[0]
            else:
                raise RuntimeError("block without successor and without return")
    return fn


_TOK = re.compile(r"s\d+\.\d+|it\[[^\]]*\]+|nx\[[^\]]*\]+|p\d+")


def canon_segments(segs):
    """rename value identities by first occurrence, keep event heads"""
    m = {}

    def val(tok):
        if tok.startswith("c:") or tok == "unbound":
            return tok
        if tok not in m:
            m[tok] = f"v{len(m)}"
        return m[tok]
    out = []
    for seg in segs:
        o = []
        for ev in seg:
            head, _, rest = ev.partition("(")
            args = split_args(rest[:-1]) if rest.endswith(")") else []
            o.append(head + "(" + ",".join(val(a) for a in args) + ")")
        out.append(o)
    return out


def split_args(s):
    if not s:
        return []
    out, depth, cur = [], 0, ""
    for ch in s:
        if ch in "[(":
            depth += 1
        if ch in "])":
            depth -= 1
        if ch == "," and depth == 0:
            out.append(cur)
            cur = ""
        else:
            cur += ch
    out.append(cur)
    return out


def lean_trace_to_segments(line):
    """`evs#2 // evs#2 // evs|return#0` → segments of event strings with heads normalised to the
    oracle's (`e<K>.0` for atoms; `iter` / `next` / `ret`)"""
    segs = []
    status = "need-more"
    for part in line.split(" // "):
        body, _, ar = part.rpartition("#")
        if "|" in body:
            body, _, why = body.partition("|")
            status = why
        evs = []
        for ev in split_top(body):
            head, _, rest = ev.partition("(")
            m = re.match(r"e(\d+)\.(\d+)$", head)
            idn, k = int(m.group(1)), int(m.group(2))
            if idn == 0:
                head = "ret"
            elif idn >= 500000:
                head = "iter" if k == 0 else "next"
            evs.append(head + "(" + rest)
        segs.append(evs)
    return segs, status


def split_top(s):
    if not s:
        return []
    out, depth, cur = [], 0, ""
    for ch in s:
        if ch == "(":
            depth += 1
        if ch == ")":
            depth -= 1
        if ch == ";" and depth == 0:
            out.append(cur)
            cur = ""
        else:
            cur += ch
    out.append(cur)
    return out
