"""Step certificates: the real pipeline is run with `extract_region` and `SCFG.insert_block`
wrapped (from outside, nothing in /repo is touched); the whole hierarchy is exported before and after
every call and the Lean relations `wrappedB` / `splicedB` (Scfg/Spec/StepSpec.lean) judge the pair.
Where a relation holds, `Scfg.C01.wrapped_paths` / `Scfg.C14.spliced_paths` prove that this very step
left every path unchanged."""
from harness import common, export
common.import_repo()
from numba_scfg.core import transformations as tr  # noqa: E402
from numba_scfg.core.datastructures import scfg as scfg_mod  # noqa: E402
from numba_scfg.core.datastructures import basic_block as bb  # noqa: E402


def traced_pipeline(succ):
    """returns (events, aborted); event = (kind, before_line, after_line, a, b, top)"""
    scfg = export.mk_scfg(succ)
    events = []
    orig_extract = tr.extract_region
    orig_insert = scfg_mod.SCFG.insert_block

    def snap():
        try:
            return export.export(scfg)
        except Exception:  # noqa: BLE001
            return None

    depth = [0]

    def ex(sub, region_blocks, region_kind, parent_region, *a, **k):
        if depth[0]:
            return orig_extract(sub, region_blocks, region_kind, parent_region, *a, **k)
        before = snap()
        had = {n for n, b in sub.graph.items() if isinstance(b, bb.RegionBlock)}
        res = orig_extract(sub, region_blocks, region_kind, parent_region, *a, **k)
        after = snap()
        new = [b for n, b in sub.graph.items() if isinstance(b, bb.RegionBlock) and n not in had]
        if before and after and len(new) == 1 and new[0].header is not None:
            events.append(("wrapped", before[1], after[1], new[0].name, new[0].header, before[0]))
        else:
            events.append(("wrapped-unobservable", "", "", "", "", ""))
        return res

    def ins(self, new_name, predecessors, successors, block_type, *a, **k):
        if depth[0]:
            return orig_insert(self, new_name, predecessors, successors, block_type, *a, **k)
        before = snap()
        res = orig_insert(self, new_name, predecessors, successors, block_type, *a, **k)
        after = snap()
        succs = list(successors)
        if before and after and len(succs) == 1:
            events.append(("spliced", before[1], after[1], new_name, succs[0], before[0]))
        elif before and after and len(succs) == 0:
            events.append(("closed", before[1], after[1], new_name, "-", before[0]))
        else:
            events.append(("insert-other", "", "", "", "", ""))
        return res
    orig_ctl = scfg_mod.SCFG.insert_block_and_control_blocks
    orig_loop = tr.loop_restructure_helper

    def composite(kind, call):
        if depth[0]:
            return call()
        before = snap()
        depth[0] += 1
        try:
            res = call()
        finally:
            depth[0] -= 1
        after = snap()
        if before and after:
            events.append((kind, before[1], after[1], "", "", before[0]))
        else:
            events.append((kind + "-unobservable", "", "", "", "", ""))
        return res

    def ctl(self, *a, **k):
        return composite("rerouted-ctl", lambda: orig_ctl(self, *a, **k))

    def loop(sub, lp, *a, **k):
        return composite("rerouted-loop", lambda: orig_loop(sub, lp, *a, **k))
    tr.extract_region = ex
    scfg_mod.SCFG.insert_block = ins
    scfg_mod.SCFG.insert_block_and_control_blocks = ctl
    tr.loop_restructure_helper = loop
    aborted = False
    first = snap()
    try:
        marks = []
        scfg.join_returns()
        marks.append(len(events))
        scfg.restructure_loop()
        marks.append(len(events))
        scfg.restructure_branch()
    except Exception:  # noqa: BLE001
        aborted = True
    finally:
        tr.extract_region = orig_extract
        scfg_mod.SCFG.insert_block = orig_insert
        scfg_mod.SCFG.insert_block_and_control_blocks = orig_ctl
        tr.loop_restructure_helper = orig_loop
    last = snap()
    traced_pipeline.ends = (first, last)
    traced_pipeline.marks = marks if not aborted else []
    return events, aborted


def certify(inputs):
    """runs the traced pipeline on the inputs and judges every observed step; returns statistics and
    the extract_region steps that the relation rejects"""
    drv = common.Driver()
    lines, meta = [], []
    stats = {"graphs": 0, "extract_region_steps": 0, "extract_region_certified": 0, "extract_region_unobservable": 0,
             "insert_block_one_successor_steps": 0, "insert_block_certified": 0, "insert_block_other": 0,
             "control_block_insertions": 0, "control_block_insertions_certified": 0,
             "closing_steps": 0, "closing_steps_certified": 0,
             "loop_restructure_helper_calls": 0, "loop_restructure_helper_certified": 0, "composite_unobservable": 0}
    for succ in inputs:
        events, aborted = traced_pipeline(succ)
        stats["graphs"] += 1
        stats["pipelines_aborted"] = stats.get("pipelines_aborted", 0) + bool(aborted)
        for kind, before, after, a, b, top in events:
            if kind == "wrapped-unobservable":
                stats["extract_region_unobservable"] += 1
            elif kind == "insert-other":
                stats["insert_block_other"] += 1
            elif kind.endswith("-unobservable"):
                stats["composite_unobservable"] += 1
            elif kind.startswith("rerouted"):
                lines += [f"G {top} {before}", f"H {top} {after}", "SPEC rerouted"]
                meta.append((succ, kind, a, b))
            else:
                lines += [f"G {top} {before}", f"H {top} {after}", f"SPEC {kind} {a} {b}"]
                meta.append((succ, kind, a, b))
    rep = drv.run(lines) if lines else []
    rejected = []
    for k, (succ, kind, a, b) in enumerate(meta):
        ok = rep[3 * k + 2] == "1"
        if kind == "wrapped":
            stats["extract_region_steps"] += 1
            stats["extract_region_certified"] += ok
            if not ok:
                rejected.append((succ, a, b))
        elif kind == "closed":
            stats["closing_steps"] += 1
            stats["closing_steps_certified"] += ok
            if not ok:
                rejected.append((succ, kind, a))
        elif kind == "rerouted-ctl":
            stats["control_block_insertions"] += 1
            stats["control_block_insertions_certified"] += ok
            if not ok:
                rejected.append((succ, kind, ""))
        elif kind == "rerouted-loop":
            stats["loop_restructure_helper_calls"] += 1
            stats["loop_restructure_helper_certified"] += ok
            if not ok:
                rejected.append((succ, kind, ""))
        else:
            stats["insert_block_one_successor_steps"] += 1
            stats["insert_block_certified"] += ok
    return stats, rejected


def coverage(prop, tier, pool, seed=0):
    """the `step_certificates` evidence entry for a check, over a deterministic sub-sample of `pool`;
    for C01 also whole runs (`certified_runs`) and large inputs (`large_inputs`); returns (entry, violations)"""
    budget = (300 if tier == "quick" else 3000) * common.boost()
    pool = [s for s in pool if 3 <= len(s) <= 12]
    sub = pool[:: max(1, len(pool) // budget)][:budget]
    st, rejected = certify(sub)
    st["rejected_examples"] = [{"succ": [list(x) for x in s], "a": a, "b": b} for s, a, b in rejected[:5]]
    st["meaning"] = ("every real mutating call of the pipeline (closing insertion, loop_restructure_helper as one step, "
                     "insert_block_and_control_blocks, one-successor insert_block, extract_region), whole hierarchy before and "
                     "after, judged by the decidable relations closedB / reroutedB / splicedB / wrappedB; their soundness "
                     "theorems give the hypotheses of the step theorems (closed_step_paths, rerouted_paths, spliced_paths, "
                     "wrapped_paths and their converses in Props/C01Conv.lean): that step left every path unchanged and "
                     "introduced no error, for every decision sequence. A rejected step is not a violation (the relations "
                     "are sufficient, not necessary); the validators decide the property")
    nr = st["extract_region_steps"] - st["extract_region_certified"]
    ni = st["insert_block_one_successor_steps"] - st["insert_block_certified"]
    nc = st["control_block_insertions"] - st["control_block_insertions_certified"]
    nl = st["loop_restructure_helper_calls"] - st["loop_restructure_helper_certified"]
    if nr or ni or nc or nl:
        print(f"note: {prop}: {nr} extract_region, {ni} insert_block, {nc} insert_block_and_control_blocks and {nl} "
              "loop_restructure_helper steps are outside the certified relations; they are decided by the validators only")
    viol = []
    if prop == "C01":
        chains, unc = certify_chains(sub)
        chains["meaning"] = ("runs_certified_unconditionally: real runs for which Scfg.C01.certified_run_total applies - from "
                             "every block of the input, every decision sequence, the walk by name over the final hierarchy "
                             "shows exactly the input's trace and meets no error (decided by local checks, no state space)")
        chains["uncertified_examples"] = [{"succ": [list(x) for x in s], "first_uncertified_step": k} for s, k in unc[:3]]
        st["certified_runs"] = chains
        if chains["runs_certified_unconditionally"] < chains["runs"]:
            print(f"note: C01: {chains['runs'] - chains['runs_certified_unconditionally']} of {chains['runs']} traced runs are "
                  "not certified as chains; they are decided by the validators only")
        from harness import big
        bigstats, viol = big.run(tier, seed)
        st["large_inputs"] = bigstats
    return st, viol


TAG = {"wrapped": "wrapped", "spliced": "spliced", "rerouted-ctl": "rerouted", "rerouted-loop": "rerouted", "closed": "closed"}


def certify_chains(inputs):
    """whole runs: the hierarchy exported before the pipeline, before and after every mutating call, and at
    the end; the run is a certified chain if consecutive exports coincide (nothing changed the graph between
    two observed calls) and every step passes the Lean check of its kind (`chainOKc`, theorem
    Scfg.C01.certified_run_total)"""
    drv = common.Driver()
    lines, meta = [], []
    stats = {"runs": 0, "runs_fully_observed": 0, "runs_certified": 0, "runs_certified_unconditionally": 0,
             "steps_in_certified_runs": 0, "largest_certified_input": 0, "steps_by_kind": {},
             "input_not_flat": 0, "first_uncertified_step_kinds": {}, "unobserved_change_between_calls": 0}
    for succ in inputs:
        events, aborted = traced_pipeline(succ)
        first, last = traced_pipeline.ends
        stats["runs"] += 1
        if aborted or not first or not last:
            continue
        cur = first[1]
        ok = all(e[0] in TAG for e in events)
        if ok:
            for e in events:
                if e[1] != cur:
                    ok = False
                    break
                cur = e[2]
            ok = ok and cur == last[1]
        if not ok:
            stats["unobserved_change_between_calls"] += 1
            continue
        stats["runs_fully_observed"] += 1
        lines.append(f"CHAIN0 {first[0]} {first[1]}")
        prefix_idx = []
        marks = list(traced_pipeline.marks)
        for k, e in enumerate(events):
            while marks and marks[0] == k:          # a stage ended here: judge the chain so far
                marks.pop(0)
                lines.append("CHAINEND")
                prefix_idx.append(len(lines) - 1)
            lines.append(f"CHAINSTEP {TAG[e[0]]} {e[3] or '-'} {e[4] or '-'} {e[5]} {e[2]}")
        while marks:
            marks.pop(0)
            lines.append("CHAINEND")
            prefix_idx.append(len(lines) - 1)
        lines.append("CHAINEND")
        meta.append((succ, [e[0] for e in events], len(lines) - 1, prefix_idx))
    rep = drv.run(lines) if lines else []
    uncertified = []
    for succ, kinds, idx, prefix_idx in meta:
        out = dict(kv.split("=") for kv in rep[idx].split())
        for pi in prefix_idx:                       # after join_returns, after restructure_loop
            po = dict(kv.split("=") for kv in rep[pi].split())
            stats["stage_prefixes"] = stats.get("stage_prefixes", 0) + 1
            if po.get("flat") == "1" and po.get("total") == "1" and po.get("specfuel") == "1" and po.get("region") == "1":
                stats["stage_prefixes_certified_for_both_walks"] = stats.get("stage_prefixes_certified_for_both_walks", 0) + 1
        if out.get("flat") != "1":
            stats["input_not_flat"] += 1
        bits = out.get("bits", "-").rstrip("-")
        for kd, bt in zip(kinds, bits):
            d = stats["steps_by_kind"].setdefault(TAG[kd], [0, 0])
            d[0] += 1
            d[1] += bt == "1"
        if out.get("flat") == "1" and out.get("chain") == "1":
            stats["runs_certified"] += 1
            stats["steps_in_certified_runs"] += len(kinds)
            if out.get("total") == "1":
                stats["runs_certified_unconditionally"] += 1
                stats["largest_certified_input"] = max(stats["largest_certified_input"], len(succ))
                if out.get("specfuel") == "1":
                    stats["runs_certified_at_specification_fuel"] = stats.get("runs_certified_at_specification_fuel", 0) + 1
                    if out.get("region") == "1":
                        stats["runs_certified_for_both_walks"] = stats.get("runs_certified_for_both_walks", 0) + 1
        if not (out.get("flat") == "1" and out.get("total") == "1") and out.get("firstbad", "-") != "-":
            k = kinds[int(out["firstbad"])]
            stats["first_uncertified_step_kinds"][k] = stats["first_uncertified_step_kinds"].get(k, 0) + 1
            uncertified.append((succ, k))
    stats["steps_by_kind"] = {k: {"steps": v[0], "certified": v[1]} for k, v in stats["steps_by_kind"].items()}
    return stats, uncertified
