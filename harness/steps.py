"""Step certificates: the real pipeline is run with `extract_region` and `SCFG.insert_block`
wrapped (from outside, nothing in /repo is touched); the whole hierarchy is exported before and after
every call and the Lean relations `wrappedB` / `splicedB` (Scfg/Spec/StepSpec.lean) judge the pair.
Where a relation holds, `Scfg.C01.wrapped_paths` / `Scfg.C14.spliced_paths` prove that this very step
left every path unchanged."""
from harness import common, export
common.import_repo()
from numba_scfg.core import transformations as tr  # noqa: E402
from numba_scfg.core.datastructures import scfg as scfg_mod  # noqa: E402
from numba_scfg.core.datastructures import basic_block as bb  # noqa: E402


def traced_pipeline(succ):
    """returns (events, aborted); event = (kind, before_line, after_line, a, b, top)"""
    scfg = export.mk_scfg(succ)
    events = []
    orig_extract = tr.extract_region
    orig_insert = scfg_mod.SCFG.insert_block

    def snap():
        try:
            return export.export(scfg)
        except Exception:  # noqa: BLE001
            return None

    def ex(sub, region_blocks, region_kind, parent_region, *a, **k):
        before = snap()
        had = {n for n, b in sub.graph.items() if isinstance(b, bb.RegionBlock)}
        res = orig_extract(sub, region_blocks, region_kind, parent_region, *a, **k)
        after = snap()
        new = [b for n, b in sub.graph.items() if isinstance(b, bb.RegionBlock) and n not in had]
        if before and after and len(new) == 1 and new[0].header is not None:
            events.append(("wrapped", before[1], after[1], new[0].name, new[0].header, before[0]))
        else:
            events.append(("wrapped-unobservable", "", "", "", "", ""))
        return res

    def ins(self, new_name, predecessors, successors, block_type, *a, **k):
        before = snap()
        res = orig_insert(self, new_name, predecessors, successors, block_type, *a, **k)
        after = snap()
        succs = list(successors)
        if before and after and len(succs) == 1:
            events.append(("spliced", before[1], after[1], new_name, succs[0], before[0]))
        else:
            events.append(("insert-other", "", "", "", "", ""))
        return res
    tr.extract_region = ex
    scfg_mod.SCFG.insert_block = ins
    aborted = False
    try:
        scfg.join_returns()
        scfg.restructure_loop()
        scfg.restructure_branch()
    except Exception:  # noqa: BLE001
        aborted = True
    finally:
        tr.extract_region = orig_extract
        scfg_mod.SCFG.insert_block = orig_insert
    return events, aborted


def certify(inputs):
    """runs the traced pipeline on the inputs and judges every observed step; returns statistics and
    the extract_region steps that the relation rejects"""
    drv = common.Driver()
    lines, meta = [], []
    stats = {"graphs": 0, "extract_region_steps": 0, "extract_region_certified": 0, "extract_region_unobservable": 0,
             "insert_block_one_successor_steps": 0, "insert_block_certified": 0, "insert_block_other": 0}
    for succ in inputs:
        events, aborted = traced_pipeline(succ)
        stats["graphs"] += 1
        stats["pipelines_aborted"] = stats.get("pipelines_aborted", 0) + bool(aborted)
        for kind, before, after, a, b, top in events:
            if kind == "wrapped-unobservable":
                stats["extract_region_unobservable"] += 1
            elif kind == "insert-other":
                stats["insert_block_other"] += 1
            else:
                lines += [f"G {top} {before}", f"H {top} {after}", f"SPEC {kind} {a} {b}"]
                meta.append((succ, kind, a, b))
    rep = drv.run(lines) if lines else []
    rejected = []
    for k, (succ, kind, a, b) in enumerate(meta):
        ok = rep[3 * k + 2] == "1"
        if kind == "wrapped":
            stats["extract_region_steps"] += 1
            stats["extract_region_certified"] += ok
            if not ok:
                rejected.append((succ, a, b))
        else:
            stats["insert_block_one_successor_steps"] += 1
            stats["insert_block_certified"] += ok
    return stats, rejected


def coverage(prop, tier, pool):
    """the `step_certificates` evidence entry for a check, over a deterministic sub-sample of `pool`"""
    budget = (300 if tier == "quick" else 3000) * common.boost()
    pool = [s for s in pool if 3 <= len(s) <= 12]
    sub = pool[:: max(1, len(pool) // budget)][:budget]
    st, rejected = certify(sub)
    st["rejected_examples"] = [{"succ": [list(x) for x in s], "a": a, "b": b} for s, a, b in rejected[:5]]
    st["meaning"] = ("every real extract_region call and every one-successor insert_block call of the pipeline, whole "
                     "hierarchy before and after, judged by the decidable relations wrappedB / splicedB; their soundness "
                     "theorems (Scfg.C01.wrappedB_sound / Scfg.C14.splicedB_sound) give the hypothesis of "
                     "Scfg.C01.wrapped_paths / Scfg.C14.spliced_paths: that step left every path unchanged, for every "
                     "decision sequence and every fuel. A rejected step is not a violation (the relations are sufficient, "
                     "not necessary); the validators decide the property")
    nr = st["extract_region_steps"] - st["extract_region_certified"]
    ni = st["insert_block_one_successor_steps"] - st["insert_block_certified"]
    if nr or ni:
        print(f"note: {prop}: {nr} extract_region and {ni} insert_block steps are outside the certified relations; "
              "they are decided by the validators only")
    return st
