"""Exporter: a real `SCFG` object → the flat line format of `Scfg/Codec.lean`.

Walks `SCFG.graph` recursively through `RegionBlock.subregion`; never uses `SCFG.__iter__` or
the concealed view (those are under test). Trusted glue; `selfcheck` re-imports its own output.
"""
import re
from harness import common
common.import_repo()
from numba_scfg.core.datastructures import basic_block as bb  # noqa: E402
from numba_scfg.core.datastructures.scfg import SCFG  # noqa: E402

NAME_RE = re.compile(r"^[A-Za-z0-9_.]+$")

KIND = {
    bb.BasicBlock: "basic",
    bb.PythonBytecodeBlock: "python_bytecode",
    bb.PythonASTBlock: "python_ast",
    bb.SyntheticHead: "synth_head",
    bb.SyntheticBranch: "synth_branch",
    bb.SyntheticTail: "synth_tail",
    bb.SyntheticExit: "synth_exit",
    bb.SyntheticAssignment: "synth_asign",
    bb.SyntheticReturn: "synth_return",
    bb.SyntheticExitingLatch: "synth_exit_latch",
    bb.SyntheticExitBranch: "synth_exit_branch",
    bb.SyntheticFill: "synth_fill",
    bb.RegionBlock: "region",
}


class ExportError(Exception):
    pass


def _nm(s):
    if not isinstance(s, str) or not NAME_RE.match(s):
        raise ExportError(f"name outside the exporter's alphabet: {s!r}")
    return s


def export_entries(scfg, cont, tags=None, out=None):
    """List of 13-field tuples, container order then dict order (depth first)."""
    if out is None:
        out = []
    for key, b in scfg.graph.items():
        kind = KIND.get(type(b))
        if kind is None:
            raise ExportError(f"unknown block class {type(b).__name__}")
        if key != b.name:
            raise ExportError(f"dict key {key!r} != block name {b.name!r}")
        pay, asg, var, tbl = [], [], "", []
        rkind = header = exiting = parent = ""
        if type(b) is bb.PythonBytecodeBlock:
            pay = [b.begin, b.end]
        elif type(b) is bb.PythonASTBlock:
            pay = [(tags or {}).get(id(n), -1) for n in b.tree]
        if isinstance(b, bb.SyntheticAssignment):
            asg = [(_nm(k), int(v)) for k, v in b.variable_assignment.items()]
        if isinstance(b, bb.SyntheticBranch):
            var = _nm(b.variable) if b.variable else ""
            tbl = [(int(k), _nm(v)) for k, v in b.branch_value_table.items()]
        if isinstance(b, bb.RegionBlock):
            rkind = _nm(b.kind or "none")
            header = _nm(b.header) if b.header is not None else ""
            exiting = _nm(b.exiting) if b.exiting is not None else ""
            parent = _nm(b.parent_region.name) if b.parent_region is not None else ""
        out.append((cont, _nm(b.name), kind, [_nm(t) for t in b._jump_targets],
                    [_nm(t) for t in b.backedges], pay, asg, var, tbl, rkind, header, exiting, parent))
        if isinstance(b, bb.RegionBlock):
            if b.subregion is None:
                raise ExportError(f"region {b.name} without subregion")
            export_entries(b.subregion, b.name, tags, out)
    return out


def entry_to_str(e):
    cont, name, kind, jts, bes, pay, asg, var, tbl, rkind, header, exiting, parent = e
    return "|".join([
        cont, name, kind, ",".join(jts), ",".join(bes), ",".join(str(p) for p in pay),
        ",".join(f"{k}={v}" for k, v in asg), var, ",".join(f"{k}={v}" for k, v in tbl),
        rkind, header, exiting, parent])


def to_line(entries):
    return ";".join(entry_to_str(e) for e in entries) if entries else "-"


def export(scfg, tags=None):
    """(top container name, hierarchy line)"""
    top = _nm(scfg.region.name)
    return top, to_line(export_entries(scfg, top, tags))


def canonical_dump(scfg, tags=None):
    """Name-, order- and table-exact text dump of a hierarchy (for determinism / correspondence)."""
    top = scfg.region.name
    return "\n".join(entry_to_str(e) for e in export_entries(scfg, top, tags))


def dfs_backedges(succ):
    """Arcs of `succ` (index lists) that close a cycle in a depth-first walk from node 0 (and from
    every node not reached so far): the arcs a user of the YAML/dict front end would declare."""
    n, state, out = len(succ), {}, set()
    for root in range(n):
        if root in state:
            continue
        stack = [(root, iter(succ[root]))]
        state[root] = 1
        while stack:
            v, it = stack[-1]
            for w in it:
                if state.get(w) == 1:
                    out.add((v, w))
                elif w not in state:
                    state[w] = 1
                    stack.append((w, iter(succ[w])))
                    break
            else:
                state[v] = 2
                stack.pop()
    return out


def mk_scfg(succ, names=None, payload="basic", declare_backedges=False):
    """Flat SCFG from successor index lists; `payload="bytecode"` makes every block a
    PythonBytecodeBlock with a distinct [begin, end) range (C05: payload untouched);
    `declare_backedges` declares the depth-first back arcs, as the YAML/dict front end allows."""
    names = names or [str(i) for i in range(len(succ))]
    be = dfs_backedges(succ) if declare_backedges else set()
    g = {}
    for i, ss in enumerate(succ):
        kw = {"backedges": tuple(dict.fromkeys(names[s] for s in ss if (i, s) in be))}
        if payload == "bytecode":
            g[names[i]] = bb.PythonBytecodeBlock(name=names[i], _jump_targets=tuple(names[s] for s in ss),
                                                begin=10 * i, end=10 * i + 8, **kw)
        else:
            g[names[i]] = bb.BasicBlock(name=names[i], _jump_targets=tuple(names[s] for s in ss), **kw)
    return SCFG(g)
