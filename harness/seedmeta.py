"""Complete seeded/<id>/meta.json: what the change needs in order to manifest (taken from the
sub-agent's notes.md) and what was run to confirm it and to test the checks against it."""
import json, os, re, sys
ROOT = "/verif/seeded"
for sid in sorted(os.listdir(ROOT)):
    d = os.path.join(ROOT, sid)
    mp = os.path.join(d, "meta.json")
    if not os.path.exists(mp):
        continue
    m = json.load(open(mp))
    notes = open(os.path.join(d, "notes.md")).read() if os.path.exists(os.path.join(d, "notes.md")) else ""
    if not m.get("needs_to_manifest") and notes:
        paras = [p.strip() for p in re.split(r"\n\s*\n", notes) if p.strip() and not p.strip().startswith("#")]
        pick = [p for p in paras if re.search(r"manifest|needs|trigger|only when|only if|requires", p, re.I)]
        txt = " ".join((pick or paras)[:2])
        m["needs_to_manifest"] = re.sub(r"\s+", " ", txt)[:900]
    m.setdefault("ran", [
        "in a scratch worktree of /repo (removed afterwards): demo.py on the unchanged tree (must exit 0); git apply patch.diff; "
        "/venv/bin/python -m pytest -q -p no:cacheprovider (82 tests must pass); demo.py again (must exit non-zero); git checkout -- .",
        "git -C /repo apply seeded/%s/patch.diff; ./check <Cxx> --tier quick for the checks listed under 'checks'; git -C /repo checkout -- ." % sid,
    ])
    json.dump(m, open(mp, "w"), indent=1)
print("ok")
