"""Bytecode front-end worker. Runs under whatever interpreter invokes it (3.12 via /venv, 3.11 via
python3.11 with PYTHONPATH=/repo), imports only the core of numba_scfg, talks to the Lean driver
binary, prints one JSON document.

usage: bc_worker.py <repo> <driver> <tier> <seed>
"""
import sys
import os
import dis
import json
import types
import random
import importlib
import logging
import subprocess
import traceback

repo, driver, tier, seed = sys.argv[1], sys.argv[2], sys.argv[3], int(sys.argv[4])
sys.path.insert(0, repo)
logging.disable(logging.CRITICAL)
from numba_scfg.core import utils  # noqa: E402
from numba_scfg.core.datastructures.flow_info import FlowInfo  # noqa: E402
from numba_scfg.core.datastructures.scfg import SCFG  # noqa: E402
from numba_scfg.core.datastructures.byte_flow import ByteFlow  # noqa: E402
import numba_scfg  # noqa: E402
assert os.path.realpath(numba_scfg.__file__).startswith(os.path.realpath(repo)), numba_scfg.__file__

MODULES = """abc argparse ast base64 bisect calendar cmd codecs collections colorsys configparser contextlib copy csv
dataclasses datetime decimal difflib dis email.utils enum fnmatch fractions functools getopt glob gzip heapq hmac html
inspect ipaddress json.decoder json.encoder keyword linecache locale mimetypes numbers opcode operator optparse pathlib
pprint queue quopri random reprlib sched shlex shutil smtplib socket statistics string stringprep struct tabnanny tarfile
textwrap timeit token tokenize trace traceback types typing urllib.parse uuid warnings weakref zipfile""".split()

OUT_OF_DOMAIN = {"RAISE_VARARGS", "RERAISE", "YIELD_VALUE", "SEND", "END_SEND", "RETURN_GENERATOR", "PUSH_EXC_INFO",
                 "POP_EXCEPT", "CHECK_EXC_MATCH", "CHECK_EG_MATCH", "WITH_EXCEPT_START", "BEFORE_WITH", "BEFORE_ASYNC_WITH",
                 "SETUP_FINALLY", "SETUP_WITH", "SETUP_CLEANUP", "GET_AWAITABLE", "GET_AITER", "GET_ANEXT", "END_ASYNC_FOR",
                 "CLEANUP_THROW", "JUMP_BACKWARD_NO_INTERRUPT", "GEN_START", "ASYNC_GEN_WRAP", "PREP_RERAISE_STAR",
                 "JUMP_NO_INTERRUPT", "JUMP"}
JUMPS = set(dis.hasjrel) | set(dis.hasjabs)
RETURNS = {"RETURN_VALUE", "RETURN_CONST"}


def truth_class(inst):
    if inst.opcode in JUMPS:
        return "u" if inst.opname.startswith("JUMP") and "_IF_" not in inst.opname else "c"
    if inst.opname in RETURNS:
        return "r"
    return "o"


def lib_class(opname):
    if utils.is_conditional_jump(opname):
        return "c"
    if utils.is_unconditional_jump(opname):
        return "u"
    if utils.is_exiting(opname):
        return "r"
    return "o"


def table_offenders():
    """Opcodes of this interpreter, inside the domain, that the library classifies differently
    from the interpreter's own metadata (the decidable hypothesis `TablesAgree`, as data)."""
    out = []
    for name, code in sorted(dis.opmap.items()):
        if name in OUT_OF_DOMAIN or name.startswith("INSTRUMENTED_") or code >= 256:
            continue
        fake = types.SimpleNamespace(opcode=code, opname=name)
        t, l = truth_class(fake), lib_class(name)
        if t != l:
            out.append({"opname": name, "interpreter": t, "library": l})
    return out


def code_objects():
    seen = set()
    for m in MODULES:
        try:
            mod = importlib.import_module(m)
        except Exception:  # noqa: BLE001
            continue
        objs = list(vars(mod).values())
        for o in list(objs):
            if isinstance(o, type) and getattr(o, "__module__", None) == m:
                objs += [v for v in vars(o).values()]
        for o in objs:
            f = getattr(o, "__func__", o)
            co = getattr(f, "__code__", None)
            if co is None or not isinstance(co, types.CodeType) or id(co) in seen:
                continue
            if getattr(f, "__module__", None) != m:
                continue
            seen.add(id(co))
            yield f"{m}.{getattr(f, '__qualname__', co.co_name)}", co


GEN_SRC = '''
def g_and(a, b): return a and b
def g_or(a, b): return a or b
def g_none(a):
    if a is None: return 1
    return 2
def g_notnone(a):
    if a is not None: return 1
    return 2
def g_for(xs):
    s = 0
    for x in xs: s += x
    return s
def g_for_break(xs):
    for x in xs:
        if x: break
    else:
        return 1
    return 2
def g_while(n):
    while n > 0:
        n -= 1
        if n == 3: continue
    return n
def g_const(): return 5
def g_ifexp(a): return 1 if a else 2
def g_chain(a, b, c): return a < b < c
def g_while_true(n):
    while True:
        n += 1
        if n > 9: return n
def g_nested(a, xs):
    for x in xs:
        while a:
            a -= 1
            if a == x: break
        else:
            continue
        return a
    return None
def g_not(a):
    if not a: return 0
    return 1
'''


# long bodies: jumps over more than 255 code units need EXTENDED_ARG prefixes
GEN_LONG = ("def g_long_if(a):\n    if a:\n" + "        a = a + 1\n" * 150 + "    return a\n"
            "def g_long_for(xs, a):\n    for x in xs:\n" + "        a = a + x\n" * 150 + "    return a\n"
            "def g_long_while(a):\n    while a:\n" + "        a = a - 1\n" * 150 + "    else:\n        return 0\n    return a\n")


def generated_codes():
    ns = {}
    exec(compile(GEN_SRC + GEN_LONG, "<generated>", "exec"), ns)  # noqa: S102
    for k, v in ns.items():
        if isinstance(v, types.FunctionType):
            yield "generated." + k, v.__code__


def in_domain(co, insts):
    if getattr(co, "co_exceptiontable", b""):
        return False
    if co.co_flags & 0x2A0:      # generator / coroutine / async generator
        return False
    return not any(i.opname in OUT_OF_DOMAIN for i in insts)


def cache_entries(inst):
    try:
        return dis._inline_cache_entries[inst.opcode]
    except Exception:  # noqa: BLE001
        return 0


def main():
    rng = random.Random(seed)
    tabs = ";".join(",".join(sorted(t)) or "-" for t in (utils._cond_jump, utils._uncond_jump, utils._terminating))
    cases = []
    for name, co in list(generated_codes()) + list(code_objects()):
        insts = list(dis.get_instructions(co))
        if not insts or not in_domain(co, insts):
            continue
        cases.append((name, co, insts))
    if tier == "quick" and len(cases) > 700:
        gen_cases = [c for c in cases if c[0].startswith("generated.")]
        rest = [c for c in cases if not c[0].startswith("generated.")]
        cases = gen_cases + rng.sample(rest, 700)
    lines, meta = [], []
    last_classified = []
    history_viol = []
    for name, co, insts in cases:
        # --- real
        try:
            fi = FlowInfo.from_bytecode(dis.Bytecode(co))
            scfg = fi.build_basicblocks()
            real = [(b.name, b.begin, b.end, list(b._jump_targets)) for b in scfg.graph.values()]
            real_abort = None
            # instruction retrieval: what each block hands out through get_instructions
            bcmap = SCFG.bcmap_from_bytecode(dis.Bytecode(co))
            got_insts = {b.name: [i.offset for i in b.get_instructions(bcmap)] for b in scfg.graph.values()}
        except Exception as e:  # noqa: BLE001
            tb = [f for f in traceback.extract_tb(e.__traceback__) if "numba_scfg" in f.filename]
            real, real_abort = None, type(e).__name__ + "@" + (tb[-1].name if tb else "?")
            got_insts = None
        # the public entry point, with a history: build, restructure the graph that was built, build
        # again - the second graph must again be the bytecode's control flow (nothing of the first
        # build may be handed out again)
        if real is not None and len(meta) % 4 == 0:
            try:
                bf1 = ByteFlow.from_bytecode(co)
                d1 = [(b.name, getattr(b, "begin", None), getattr(b, "end", None), list(b._jump_targets)) for b in bf1.scfg.graph.values()]
                try:
                    bf1.scfg.restructure()
                except Exception:  # noqa: BLE001
                    pass
                bf2 = ByteFlow.from_bytecode(co)
                d2 = [(type(b).__name__, b.name, getattr(b, "begin", None), getattr(b, "end", None), list(b._jump_targets)) for b in bf2.scfg.graph.values()]
                if d1 != real:
                    history_viol.append({"function": name, "what": "ByteFlow.from_bytecode differs from FlowInfo.from_bytecode + build_basicblocks", "ops": []})
                elif d2 != [("PythonBytecodeBlock",) + tuple(x) for x in real]:
                    history_viol.append({"function": name, "what": "a second ByteFlow.from_bytecode of the same function, after the first graph was restructured, "
                                         "is not the bytecode's control flow any more: " + str(d2[:3])[:200], "ops": []})
            except Exception as e:  # noqa: BLE001
                history_viol.append({"function": name, "what": "ByteFlow.from_bytecode raises " + type(e).__name__, "ops": []})
        offs = [i.offset for i in insts]
        tins = []
        for k, i in enumerate(insts):
            size = (offs[k + 1] - i.offset) if k + 1 < len(insts) else 2 * (1 + cache_entries(i))
            cls = truth_class(i)
            tgt = i.argval if cls in "cu" and isinstance(i.argval, int) else 0
            tins.append(f"{i.offset}:{size}:{cls}:{tgt}")
        mins = ",".join(f"{i.offset}:{i.opname}:{i.argval if isinstance(i.argval, int) and i.opcode in JUMPS else 0}:{1 if i.is_jump_target else 0}" for i in insts)
        lines.append(f"BC {tabs} {mins}")
        lines.append("BCSPEC " + ",".join(tins))
        lines.append("GI " + ",".join(map(str, offs)) + " " + (",".join(f"{b}:{e}" for _, b, e, _ in real) if real else "-"))
        meta.append((name, real, real_abort, offs, sorted({i.opname for i in insts if truth_class(i) != "o"}), got_insts))
        # hypothesis of Scfg.C09.buildBlocks_total: the tables classify the stream's last instruction
        last_classified.append(insts[-1].opname in (utils._cond_jump | utils._uncond_jump | utils._terminating)
                               if isinstance(utils._cond_jump, (set, frozenset)) else
                               insts[-1].opname in set(utils._cond_jump) | set(utils._uncond_jump) | set(utils._terminating))
    p = subprocess.run([driver], input="\n".join(lines) + "\n", capture_output=True, text=True)
    rep = p.stdout.split("\n")
    mism, viol = [], []
    ops_seen = set()
    nontrivial = 0
    for k, (name, real, real_abort, offs, jops, got_insts) in enumerate(meta):
        model, spec, gi = rep[3 * k], rep[3 * k + 1], rep[3 * k + 2]
        if real_abort is None:
            mgi = [[int(x) for x in r.split(",") if x not in ("", "-")] for r in gi.split(";")]
            rgi = [got_insts[nm] for nm, _, _, _ in real]
            if mgi != rgi:
                mism.append({"function": name, "what": "get_instructions", "impl": str(rgi)[:200], "model": gi[:200]})
        ops_seen.update(jops)
        # correspondence with the model
        if real_abort is not None:
            if model != "abort " + real_abort:
                mism.append({"function": name, "impl": real_abort, "model": model[:200]})
        else:
            m = []
            if model.startswith("ok "):
                for e in model[3:].split(";"):
                    f = e.split("|")
                    b, en = f[5].split(",")
                    m.append((f[1], int(b), int(en), [t for t in f[3].split(",") if t]))
            if m != real:
                mism.append({"function": name, "impl": str(real)[:300], "model": model[:300]})
        # property: against the interpreter's own control flow
        want = []
        for blk in spec[3:].split(";"):
            l, mem, suc = blk.split(":")
            want.append((int(l), tuple(int(x) for x in mem.split("+") if x), tuple(int(x) for x in suc.split("+") if x)))
        if len(want) > 1:
            nontrivial += 1
        if real_abort is not None:
            viol.append({"function": name, "what": "abort " + real_abort, "ops": jops})
            continue
        begin_of = {nm: b for nm, b, e, t in real}
        got = []
        for nm, b, e, ts in real:
            mem = tuple(o for o in offs if b <= o < e)
            first_of = []
            for t in ts:
                tb_ = begin_of[t]
                nxt = [o for o in offs if o >= tb_]
                first_of.append(nxt[0] if nxt else -1)
            got.append((mem[0] if mem else -1, mem, tuple(first_of)))
        # every instruction of the stream is handed out by exactly one block, in order
        # (Lean: Scfg.C09.getInstrs_spec -- the retrieval loop returns exactly the offsets of the range)
        bad_gi = [nm for nm, b, e, ts in real if got_insts[nm] != [o for o in offs if b <= o < e]]
        if bad_gi:
            nm = bad_gi[0]
            viol.append({"function": name, "what": f"get_instructions of block {nm} returns offsets {got_insts[nm][:6]}… instead of the instructions of its range",
                         "ops": jops})
            continue
        if sorted(got) != sorted(want):
            diff = [g for g in got if g not in want][:2]
            viol.append({"function": name, "what": "blocks/successors differ from the interpreter's control flow",
                         "impl_blocks": [list(map(str, g)) for g in diff], "ops": jops})
    viol = history_viol + viol
    print(json.dumps({"version": list(sys.version_info[:3]), "functions": len(meta), "nontrivial": nontrivial,
                      "model_mismatches": mism[:5], "n_model_mismatches": len(mism),
                      "violations": viol[:200], "n_violations": len(viol),
                      "table_offenders": table_offenders(), "jump_ops_seen": sorted(ops_seen),
                      "tables": tabs, "sample": meta[0][0] if meta else None,
                      "last_instruction_classified": [sum(1 for x in last_classified if x), len(last_classified)],
                      "driver_rc": p.returncode}))


main()
