"""G5: grammar-directed generator of functions in the supported subset whose atoms are oracle
calls `o.a(K, …)` (every K unique), so that CPython can be driven path-exhaustively."""
import random

VARS = ["x", "y", "z"]


class Gen:
    def __init__(self, rng, size, feats=None):
        self.rng = rng
        self.k = 0
        self.budget = size
        self.feats = feats or {}

    def atom(self, depth, call_args=True):
        self.k += 1
        k = self.k
        args = []
        if call_args and depth > 0 and self.rng.random() < 0.45:
            for _ in range(self.rng.randint(1, 2)):
                args.append(self.expr(depth - 1))
        return f"o.a({k}" + "".join(", " + a for a in args) + ")"

    def expr(self, depth):
        r = self.rng.random()
        if depth <= 0 or r < 0.3:
            c = self.rng.random()
            if c < 0.5:
                return self.rng.choice(VARS)
            if c < 0.6:
                return self.rng.choice(["None", "0", "1", "True"])
            return self.atom(0)
        if r < 0.6:
            return self.atom(depth)
        op = self.rng.choice(["and", "or"])
        n = 2 if self.rng.random() < 0.75 else 3
        return "(" + f" {op} ".join(self.expr(depth - 1) for _ in range(n)) + ")"

    def test(self, depth):
        # never a bare constant (a loop on a constant test never asks the oracle)
        for _ in range(20):
            e = self.expr(depth)
            if e not in ("None", "0", "1", "True"):
                return e
        return self.atom(0)

    def block(self, depth, in_loop, indent):
        n = self.rng.randint(1, 3)
        out = []
        for _ in range(n):
            if self.budget <= 0:
                break
            out += self.stmt(depth, in_loop, indent)
        if not out:
            out = [indent + "pass"]
        return out

    def stmt(self, depth, in_loop, indent):
        self.budget -= 1
        r = self.rng.random()
        if depth <= 0 or r < 0.35:
            c = self.rng.random()
            if c < 0.55:
                return [f"{indent}{self.rng.choice(VARS)} = {self.expr(2)}"]
            if c < 0.7:
                return [f"{indent}{self.atom(1)}"]
            if c < 0.8 and in_loop:
                return [indent + self.rng.choice(["break", "continue"])]
            if c < 0.9:
                return [f"{indent}return {self.expr(2)}"]
            return [indent + "pass"]
        if r < 0.65:
            out = [f"{indent}if {self.test(2)}:"] + self.block(depth - 1, in_loop, indent + "    ")
            while self.rng.random() < 0.25 and self.budget > 0:
                out += [f"{indent}elif {self.test(1)}:"] + self.block(depth - 1, in_loop, indent + "    ")
            if self.rng.random() < 0.5:
                out += [f"{indent}else:"] + self.block(depth - 1, in_loop, indent + "    ")
            return out
        if r < 0.83:
            out = [f"{indent}while {self.test(2)}:"] + self.block(depth - 1, True, indent + "    ")
            if self.rng.random() < 0.3:
                out += [f"{indent}else:"] + self.block(depth - 1, in_loop, indent + "    ")
            return out
        out = [f"{indent}for {self.rng.choice(VARS)} in {self.atom(0)}:"] + self.block(depth - 1, True, indent + "    ")
        if self.rng.random() < 0.3:
            out += [f"{indent}else:"] + self.block(depth - 1, in_loop, indent + "    ")
        return out


def gen_program(rng, size=8, depth=3, start_simple=True):
    g = Gen(rng, size)
    body = []
    if start_simple:
        # initialise every variable (no unbound reads) and do not start with a loop
        body += ["    z = None"]
    while g.budget > 0:
        body += g.stmt(depth, False, "    ")
    body.append(f"    return {g.expr(1)}")
    src = "def f(o, x, y):\n" + "\n".join(body) + "\n"
    if not start_simple:
        # no initialisation statement in front of the first compound statement: use the parameters
        # only, so that no path reads an unbound local (UnboundLocalError is outside the Lean
        # semantics, which would make the bounded classification fallback disagree with CPython)
        import re
        src = re.sub(r"\bz\b", "y", src)
    return src


HAND = [
    "def f(o, x, y):\n    z = o.a(1, x) and o.a(2, y)\n    return z\n",
    "def f(o, x, y):\n    z = None\n    if x and y or o.a(1):\n        z = o.a(2)\n    return z\n",
    "def f(o, x, y):\n    z = 0\n    for x in o.a(1):\n        if o.a(2, x):\n            break\n        z = o.a(3, z)\n    else:\n        z = o.a(4)\n    return z\n",
    "def f(o, x, y):\n    z = None\n    while o.a(1, x):\n        x = o.a(2, x)\n        if o.a(3):\n            continue\n        if o.a(4):\n            break\n    else:\n        z = o.a(5)\n    return z\n",
    "def f(o, x, y):\n    z = 7\n    for z in o.a(1):\n        pass\n    return z\n",
    "def f(o, x, y):\n    z = o.a(1, x and o.a(2))\n    return o.a(3, z, y or o.a(4))\n",
    "def f(o, x, y):\n    z = None\n    if x:\n        if y:\n            return o.a(1)\n        else:\n            z = o.a(2)\n    return z\n",
    "def f(o, x, y):\n    z = None\n    if x:\n        pass\n    else:\n        pass\n    return z\n",
    "def f(o, x, y):\n    while x:\n        x = o.a(1)\n    return x\n",
    "def f(o, x, y):\n    z = None\n    if o.a(1):\n        z = 1\n    return z\n",
    "def f(o, x, y):\n    z = x and (o.a(1) or 5)\n    return z\n",
    "def f(o, x, y):\n    z = o.a(1, o.a(2), x and o.a(3))\n    return z\n",
]


# --------------------------------------------------------------------------- concrete programs (G5b)
class CGen:
    """functions over small integers using comparisons (incl. chains), arithmetic, unary
    operators, subscripts, attributes and logging calls `ext(k, v)` — run natively by CPython"""

    def __init__(self, rng, size):
        self.rng = rng
        self.k = 0
        self.budget = size

    def call(self, depth):
        self.k += 1
        return f"ext({self.k}, {self.expr(depth - 1)})"

    def expr(self, depth):
        r = self.rng.random()
        v = self.rng.choice(VARS)
        if depth <= 0 or r < 0.25:
            return self.rng.choice([v, v, str(self.rng.randint(0, 3))])
        if r < 0.40:
            return f"({self.expr(depth - 1)} {self.rng.choice(['+', '-', '*'])} {self.expr(depth - 1)})"
        if r < 0.55:
            ops = self.rng.choice([["<"], [">"], ["=="], ["<", "<"], ["<=", "<"], ["!="]])
            parts = [self.expr(depth - 1)]
            for op in ops:
                parts += [op, self.expr(depth - 1)]
            return "(" + " ".join(parts) + ")"
        if r < 0.68:
            return self.call(depth)
        if r < 0.74:
            return f"tab[{self.expr(depth - 1)} % 3]"
        if r < 0.78:
            return "box.v"
        if r < 0.84:
            return f"(not {self.expr(depth - 1)})"
        if r < 0.88:
            return f"(-{self.expr(depth - 1)})"
        op = self.rng.choice(["and", "or"])
        return "(" + f" {op} ".join(self.expr(depth - 1) for _ in range(self.rng.choice([2, 2, 3]))) + ")"

    def block(self, depth, in_loop, indent):
        out = []
        for _ in range(self.rng.randint(1, 3)):
            if self.budget <= 0:
                break
            out += self.stmt(depth, in_loop, indent)
        return out or [indent + "pass"]

    def stmt(self, depth, in_loop, indent):
        self.budget -= 1
        r = self.rng.random()
        v = self.rng.choice(VARS)
        if depth <= 0 or r < 0.4:
            c = self.rng.random()
            if c < 0.5:
                return [f"{indent}{v} = {self.expr(2)}"]
            if c < 0.62:
                return [f"{indent}{v} {self.rng.choice(['+=', '-='])} {self.expr(1)}"]
            if c < 0.72:
                return [f"{indent}{self.call(2)}"]
            if c < 0.8 and in_loop:
                return [indent + self.rng.choice(["break", "continue"])]
            if c < 0.9:
                return [f"{indent}return {self.expr(2)}"]
            return [f"{indent}tab[{self.expr(1)} % 3] = {self.expr(1)}"]
        if r < 0.68:
            out = [f"{indent}if {self.expr(2)}:"] + self.block(depth - 1, in_loop, indent + "    ")
            if self.rng.random() < 0.5:
                out += [f"{indent}else:"] + self.block(depth - 1, in_loop, indent + "    ")
            return out
        if r < 0.84:
            w = self.rng.choice(VARS)
            out = [f"{indent}while {w} > 0 and ({self.expr(1)} or True):", f"{indent}    {w} -= 1"] \
                + self.block(depth - 1, True, indent + "    ")
            if self.rng.random() < 0.3:
                out += [f"{indent}else:"] + self.block(depth - 1, in_loop, indent + "    ")
            return out
        out = [f"{indent}for {v} in range({self.expr(1)} % 4):"] + self.block(depth - 1, True, indent + "    ")
        if self.rng.random() < 0.3:
            out += [f"{indent}else:"] + self.block(depth - 1, in_loop, indent + "    ")
        return out


def gen_concrete(rng, size=8, depth=3):
    g = CGen(rng, size)
    body = ["    z = 0", "    tab = [1, 0, 2]"]
    while g.budget > 0:
        body += g.stmt(depth, False, "    ")
    body.append(f"    return {g.expr(2)}")
    return "def f(x, y, box):\n" + "\n".join(body) + "\n"


# --------------------------------------------------------------------------- systematic nesting (G5c)
def systematic():
    """Every combination of an outer compound statement, an inner compound statement placed in
    the outer's body or else clause, and a jump statement (break / continue / return / none)
    placed in the inner's body, in its else clause, or inside an `if` in its else clause.
    Atoms are oracle calls; programs that would be syntactically invalid (break outside a
    loop) are skipped."""
    import itertools
    import ast as _ast
    outers = ["if", "ifelse", "while", "whileelse", "for", "forelse"]
    places = ["body", "else"]
    jumps = ["break", "continue", "return o.a(90)", None]
    spots = ["body", "else", "if-in-else", "if-in-body"]
    out = []

    def compound(kind, k, body, orelse, ind):
        pad = " " * ind
        head = {"if": f"{pad}if o.a({k}):", "ifelse": f"{pad}if o.a({k}):", "while": f"{pad}while o.a({k}):",
                "whileelse": f"{pad}while o.a({k}):", "for": f"{pad}for y in o.a({k}):", "forelse": f"{pad}for y in o.a({k}):"}[kind]
        lines = [head] + body
        if kind in ("ifelse", "whileelse", "forelse"):
            lines += [f"{pad}else:"] + orelse
        return lines
    for outer, place, inner, jump, spot in itertools.product(outers, places, outers, jumps, spots):
        if place == "else" and outer in ("if", "while", "for"):
            continue
        if spot in ("else", "if-in-else") and inner in ("if", "while", "for"):
            continue
        ind = 12
        pad = " " * ind
        jl = [] if jump is None else [f"{pad}{jump}"]
        ib = [f"{pad}z = o.a(30, z)"]
        ie = [f"{pad}z = o.a(31, z)"]
        if spot == "body":
            ib = ib + jl
        elif spot == "else":
            ie = ie + jl
        elif spot == "if-in-else":
            ie = [f"{pad}if o.a(32):"] + ([f"    {j}" for j in jl] or [f"{pad}    pass"]) + ie
        else:
            ib = [f"{pad}if o.a(33):"] + ([f"    {j}" for j in jl] or [f"{pad}    pass"]) + ib
        inner_lines = compound(inner, 20, ib, ie, 8)
        filler = ["        z = o.a(10, z)"]
        if place == "body":
            ob, oe = inner_lines + filler, ["        z = o.a(11)"]
        else:
            ob, oe = ["        z = o.a(12, z)"], inner_lines + filler
        prog = ["def f(o, x, y):", "    z = None"] + compound(outer, 1, ob, oe, 4) + ["    return o.a(99, z)"]
        src = "\n".join(prog) + "\n"
        try:
            compile(src, "<sys>", "exec")
        except SyntaxError:
            continue
        out.append(src)
    return out


def corpus_programs():
    """Minimised programs on which a seeded change once failed (corpus/programs.json, committed;
    only ever read here)."""
    import json
    import os
    p = os.path.join(os.path.dirname(os.path.dirname(os.path.abspath(__file__))), "corpus", "programs.json")
    if not os.path.exists(p):
        return []
    return [e["source"] for e in json.load(open(p))]
