"""Structural fingerprint of /repo's package source, per function.

`fingerprints.json` (committed) holds, for the tree the models were written against, a hash of the
normalised AST (docstrings and comments removed) of every function and method of the package. On
every run the current tree is fingerprinted again: a changed, added or removed function does not
fail anything by itself - it is reported in the evidence, and it makes the run use a larger input
budget (VERIF_BOOST), because a hand-written model corresponds to the code only as far as the
correspondence is exercised, and a change is where a difference would be.

    python -m harness.fingerprint --update     rewrite fingerprints.json from /repo (after a fix: commit)
"""
import ast
import hashlib
import json
import os
import sys

from harness import common

BASE = os.path.join(common.VERIF, "fingerprints.json")
SKIP_DIRS = ("tests", "__pycache__")


def _strip_doc(node):
    for n in ast.walk(node):
        if isinstance(n, (ast.FunctionDef, ast.AsyncFunctionDef, ast.ClassDef, ast.Module)) and n.body \
                and isinstance(n.body[0], ast.Expr) and isinstance(getattr(n.body[0], "value", None), ast.Constant) \
                and isinstance(n.body[0].value.value, str):
            n.body = n.body[1:] or [ast.Pass()]
    return node


def current():
    out = {}
    root = os.path.join(common.REPO, "numba_scfg")
    for d, dirs, files in os.walk(root):
        dirs[:] = [x for x in dirs if x not in SKIP_DIRS]
        for f in sorted(files):
            if not f.endswith(".py"):
                continue
            rel = os.path.relpath(os.path.join(d, f), common.REPO)
            try:
                tree = ast.parse(open(os.path.join(d, f)).read())
            except SyntaxError:
                out[rel + "::<unparsable>"] = "syntax-error"
                continue

            def visit(node, prefix):
                for c in ast.iter_child_nodes(node):
                    if isinstance(c, (ast.FunctionDef, ast.AsyncFunctionDef)):
                        q = prefix + c.name
                        out[f"{rel}::{q}"] = hashlib.sha256(ast.dump(_strip_doc(c)).encode()).hexdigest()[:16]
                        visit(c, q + ".")
                    elif isinstance(c, ast.ClassDef):
                        visit(c, prefix + c.name + ".")
            visit(tree, "")
            # module-level statements (tables, registries) as one entry
            mod = [n for n in tree.body if not isinstance(n, (ast.FunctionDef, ast.AsyncFunctionDef, ast.ClassDef, ast.Import, ast.ImportFrom))]
            out[f"{rel}::<module>"] = hashlib.sha256("".join(ast.dump(_strip_doc(n)) for n in mod).encode()).hexdigest()[:16]
            # class-level statements (dataclass fields and defaults)
            for c in tree.body:
                if isinstance(c, ast.ClassDef):
                    fields = [n for n in c.body if not isinstance(n, (ast.FunctionDef, ast.AsyncFunctionDef))]
                    out[f"{rel}::{c.name}.<fields>"] = hashlib.sha256(
                        ("".join(ast.dump(_strip_doc(n)) for n in fields) + ast.dump(ast.Tuple(elts=c.bases, ctx=ast.Load()))).encode()).hexdigest()[:16]
    return out


def changed():
    """sorted list of 'file::function' whose fingerprint differs from the committed baseline"""
    if not os.path.exists(BASE):
        return ["<no baseline>"]
    base = json.load(open(BASE))
    cur = current()
    return sorted(k for k in set(base) | set(cur) if base.get(k) != cur.get(k))


if __name__ == "__main__":
    if "--update" in sys.argv:
        json.dump(current(), open(BASE, "w"), indent=0, sort_keys=True)
        print("written", BASE)
    else:
        print(json.dumps(changed(), indent=1))
