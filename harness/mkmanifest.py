"""Writes MANIFEST.json from the table below (kept in code so that it stays consistent)."""
import json
import os

VERIF = os.path.dirname(os.path.dirname(os.path.abspath(__file__)))

TV_NOTE = ("Trusted: Lean 4.33.0 kernel (theorems audited to depend on ⊆ {propext, Classical.choice, Quot.sound}; "
           "no sorry/native_decide/own axioms), Lean's compiler for the driver, harness/export.py. "
           "The quantifier over input graphs is carried by exhaustive enumeration of all closed CFGs with ≤4 (quick) / ≤5 (thorough) "
           "nodes plus seeded samples; the quantifiers over decision sequences, paths and levels by kernel-checked theorems.")

CHECKS = {
    "C01": dict(cat="translation_validation", tech="Lean 4: verified simulation checker (verifySim_sound) run on real outputs of every stage",
                text="Every stage output of the real pipeline is exported and a Lean decider checks a simulation between the input graph and the "
                     "hierarchy for both walks; Scfg.C01.name_walk_sound / region_walk_sound (kernel-checked) turn one successful check into "
                     "trace equality for ALL decision sequences of any length. For the first stage the property is also a theorem about the model (Props/C01Join.lean): Scfg.C01.joinReturns_preserves_paths - for EVERY flat graph of original blocks with unique names and no dangling target, the hierarchy the model of join_returns produces shows, from every block, the input graph's trace under every decision sequence (closed_paths: 'same block, empty valuation' is a simulation; the pipeline model is compared stage by stage with the code in C02). Scfg.C04.walks_coincide links the two walks for every self-consistent hierarchy.", ref="§7 C01"),
    "C02": dict(cat="translation_validation", tech="Lean 4 executable model of the whole restructuring pipeline (abort sites included) compared dump-for-dump with the real result of every stage; exhaustive small-scope runs of the real pipeline under a timer",
                text="The real pipeline is run on every closed CFG of the exhaustive scope and on seeded larger ones under a per-stage timer; any exception or time-out is a violation with the graph as replay. "
                     "Scfg/Model/Pipeline.lean models join_returns, loop_restructure_helper, extract_region, update_exiting, restructure_branch and their helpers on the flat hierarchy including every assertion / KeyError site; after every stage the real hierarchy (names, dict order per container, tables, assignments, name-generator counters) must equal the model's.", ref="§7 C02",
                note="Trusted: Lean compiler for the model, exporter. No a-priori theorem that the model never aborts on closed CFGs (false before the repair 6bdd8e3); the quantifier over graphs is by enumeration (all closed CFGs ≤4 / ≤5 nodes + seeded larger ones)."),
    "C03": dict(cat="translation_validation", tech="Lean 4: verified structuredness decider (ranks_acyclic, s2_sound, s3_sound) on real outputs",
                text="The final hierarchy is judged by the Lean decider `structured`; Scfg.C03.s1_acyclic / s2_sound / s3_sound prove what a true answer means "
                     "(no cycle of any length at any level, latch/back-edge shape, head/branch/tail shape).", ref="§7 C03"),
    "C04": dict(cat="translation_validation", tech="Lean 4: wf decider proved equivalent to the quantified predicate WF (wf_iff) on real outputs",
                text="Every stage output is judged by `wf`; Scfg.C04.wf_iff proves wf H = true ↔ WF H (six quantified clauses). The property's conclusion is a theorem for every hierarchy (Props/C04Walks.lean, Scfg.C04.walks_coincide): WF H and back edges belonging to loop latches (s2) imply that whenever the walk region by region (declared header / exiting / region targets) meets no lookup error, the walk by block-level targets shows the identical trace under every decision sequence of any length (leave_fwd, leave_back, enter_resolve: going up through exiting blocks and down through headers ends at the block the name resolves to).", ref="§7 C04"),
    "C05": dict(cat="translation_validation", tech="Lean 4: conserved decider with soundness theorem (conserved_sound) on real outputs",
                text="Every stage output is compared with the input by `conserved`; Scfg.C05.conserved_sound unfolds it into the property.", ref="§7 C05"),
    "C06": dict(cat="translation_validation", tech="Lean 4: verified closed-set check (invOK_sound) over the reachable configurations with consuming latches ⇒ no control-variable error on any path (no_ctl_error) + tablesOK",
                text="Every stage output is checked by `ctlOK`; Scfg.C06.no_ctl_error proves that then no path of any length reads an unset or out-of-range "
                     "control variable (latches consume their variable), tables_sound gives the static table property. 'After every renaming' is also a-priori for the model of SyntheticBranch.replace_jump_targets (Props/C06Tables.lean, all blocks, tables and new tuples of equal length): replaceJts_pos_values / _covers / _keys / _lookup / _tableOK - the rewritten table names only new successors, names every new successor, keeps every key (an in-range variable stays in range) and renames each key's entry positionally; that model is compared dump-for-dump with the code in C14's edit histories and C02's pipeline correspondence.", ref="§7 C06"),
    "C14": dict(cat="proof", tech="Lean 4: a-priori theorems about the model of the rewiring loop, of whole insert_block calls (plain predecessors) and of join_returns + exact-dump correspondence of the edit-primitive model with the code + Lean arc-specification decider on real before/after pairs",
                text="Scfg/Model/Edit.lean models insert_block, insert_block_and_control_blocks, join_returns, join_tails_and_exits, table maintenance and region renaming including abort sites; "
                     "Scfg.C14.rewire_frame/rewire_rerouted/rewire_new_once/rewire_id are proved for all target lists and all S; random edit histories on real SCFG objects are compared dump-for-dump with the model after every step, "
                     "and Scfg.Model.insertSpecOK/insertCtlSpecOK/joinReturnsSpecOK judge every completed real call.", ref="§7 C14",
                note="Trusted: Lean kernel + the three standard axioms; the hand-written model corresponds to the code only as far as the random histories exercise it (thousands of steps per run, 0 mismatches required); "
                     "Scfg.C14.insertBlock_plain_spec lifts the rewire theorems to whole insert_block calls with any number of distinct plain predecessors (pointwise: new block with successors exactly S, each predecessor rewritten by rewire, every other entry unchanged), "
                     "joinReturns_spec / joinReturns_one_exit prove that closing the graph leaves exactly one exit reached from every former exit and is the identity with at most one exit; for region or branching predecessors and for insert_block_and_control_blocks the lifting is by the decider on real outputs."),
    "C18": dict(cat="proof", tech="Lean 4: theorems requests_fresh / render_inj / names_fresh / fresh_vs_existing for any request sequence; prefix-table hypothesis evaluated on kinds regenerated from source; NameGenerator correspondence; clobber runs on the real pipeline",
                text="Scfg.C18.requests_fresh proves by induction over arbitrary request sequences that no (kind, index) is handed out twice; render_inj/names_fresh lift this to the rendered strings for any kind table passing the decidable check prefixesOK, "
                     "which is evaluated on the (namespace, kind) table the translator extracts from /repo's source on every run; fresh_vs_existing covers names present before (what NameGenerator.reserve establishes). "
                     "The real NameGenerator is compared with the model on random request sequences, and the real pipeline is run on closed CFGs whose block names lie in the generator's namespace and across dict write/read round trips.", ref="§7 C18",
                note="Trusted: Lean kernel + standard axioms; translator harness/translate.py (kinds it cannot resolve are reported as a broken tie); str(int) = Nat.repr on naturals (exercised). "
                     "`reserve`'s regular-expression parsing is exercised by the clobber runs, not modelled in Lean. Reload histories: every stage prefix with a dict write/read in between, the outermost loops first (transformations.restructure_loop on the region) then write/read then the stages, and the whole pipeline, write/read, restructuring once more."),
    "C13": dict(cat="proof", tech="Lean 4: a-priori correctness theorems for the models of _doms/_post_doms (doms_correct: table = path dominance, all graphs), is_reachable_dfs (reachDfs_spec), find_head, find_exiting_and_exits, find_headers_and_entries; verified validator for every real compute_scc answer (sccValid_sound); real queries compared with the models and with reference definitions on all graphs of a small scope",
                text="Scfg/Spec/GraphDefs.lean defines reachability, SCCs, dominance, head, headers/entries, exiting/exits by closure / by definition; Scfg.C13.reachRef_sound, reachRef_complete_bounded, headRef_spec, findHead_eq_ref, exitingRef_spec relate them to path predicates. "
                     "Props/C13Doms.lean proves for the work-list model of _find_dominators_internal (two loop invariants) that a returned table contains a at n iff every entry-to-n path passes a; C13Sub.lean proves the subset queries equal their membership specifications; C13Scc.lean proves what a true verdict of the SCC validator means (partition, mutual reachability inside, certified non-reachability across). "
                     "Every answer of the real find_head, compute_scc, find_headers_and_entries, find_exiting_and_exits, is_reachable_dfs, _doms, _post_doms, _imm_doms is compared with the definition and with the Lean model of the algorithm (Tarjan, dominator fix-point) on ALL directed graphs of the scope.", ref="§7 C13",
                note="Trusted: Lean kernel + standard axioms. The theorems are about the Lean models, tied to the code by exact comparison on ALL graphs of the scope plus random larger ones (0 mismatches required); Tarjan's algorithm and _imm_doms are not proved a priori: SCC answers are validated per instance by the verified validator, immediate dominators are compared with the definition immRef on top of the proved dominator tables. For the dominator model the fuel provably suffices (doms_total / postDoms_total); the other theorems are up to the models' fuel (that it suffices is observed, not proved)."),
    "C16": dict(cat="proof", tech="Lean 4: model of both iterators compared order-exactly with the code; specification predicates with soundness theorems judged on every real enumeration",
                text="Scfg/Model/Iter.lean models SCFG.__iter__ and region_view_iterator; for every (sub)graph at every depth, before and after every stage, the real enumerations are compared with the model and judged by iterSpecOK / viewSpecOK, whose meaning Scfg.C16.iterSpecOK_sound / viewSpecOK_sound prove.", ref="§7 C16",
                note="Trusted: Lean kernel + standard axioms; exporter. Scfg.C16.viewIter_closed is a-priori (every hierarchy): whenever the view model answers, the answer is duplicate-free, contains members only, contains the head and is closed under the view's successors, hence holds every member reachable from the head; Scfg.C16.iterAll_exact (Props/C16Iter.lean) is the same a-priori for __iter__ at every nesting depth: whenever the model answers it yields exactly the covered names (head, members reached from it, and recursively everything covered below each reached region) - nothing foreign, nothing reachable missed. That every member is reachable from its level's head is judged per instance by the specification deciders on the real enumerations."),
    "C09": dict(cat="proof", tech="Lean 4: theorems about the block-cutting model for all streams and tables (contiguous, non-overlapping, gap-free); tables regenerated from source; model and interpreter-metadata specification compared with the real front end on a stdlib corpus under 3.12 and 3.11",
                text="Scfg.C09.getInstructions_spec / getInstrs_sorted prove that the model of get_instructions returns exactly the known offsets of [begin, end), each once (compared with the real method for every block). "
                     "Scfg.C09.ranges_chain / ranges_cover / fromBytecode_nodup / blockRanges_strict prove, for every instruction stream and every opcode table, that the model of build_basicblocks cuts the stream into contiguous, non-overlapping, gap-free ranges. "
                     "Scfg.C09.buildBlocks_total (Props/C09Total.lean) proves 'building the graph never fails' for the model: for every stream and every table whose last instruction is classified (return or jump - evaluated per function in the evidence), every name lookup of build_basicblocks succeeds (invariant: every recorded jump target is a block start). "
                     "The opcode tables are regenerated from /repo on every run and passed to the model; real FlowInfo/build_basicblocks output is compared with the model exactly and with Lean specBlocks (leaders and successors from the interpreter's own opcode metadata) on ~1 900 functions per interpreter.", ref="§7 C09",
                note="Trusted: Lean kernel + standard axioms; dis (is_jump_target, argval); the opcode truth-class rule; successor exactness against the interpreter's metadata is per-function on the corpus, not an a-priori theorem."),
    "C11": dict(cat="proof", tech="Lean 4: theorem transform_refuses for all programs and any dispatcher data satisfying the decidable dispatchOK, evaluated on data regenerated from handle_ast_node/handle_function_def and the interpreter's ast classes; every unsupported class × position through the real AST2SCFG",
                text="Scfg.C11.transform_refuses is proved by mutual structural induction over arbitrary statement trees: any unsupported statement at any depth makes the model of the transformer raise not-implemented, for ANY dispatcher data passing dispatchOK. "
                     "The translator regenerates that data (isinstance chain, fallback arm, nested-definition guard, statement classes and MROs of the running interpreter) on every run; dispatchOK and its offender list are evaluated on it, "
                     "and every statement class outside the supported set is placed at 9 structural positions and pushed through the real front end, whose outcome must equal the model's.", ref="§7 C11",
                note="Trusted: Lean kernel + standard axioms; the translator's recognition of the dispatcher's shape (unrecognised arms are reported); ast.parse."),
    "C12": dict(cat="proof", tech="Lean 4: sortNames_perm (sorting erases set iteration order) + regenerated audit of every order-exposing set use in the source + multi-process runs under many PYTHONHASHSEED values",
                text="Scfg.C12.sortNames_perm / sorted_perm_eq / length_mem_perm / singleton_perm prove that the consumers the code applies to its sets (sorted, len, membership, the element of a singleton) are independent of iteration order. "
                     "The translator lists every syntactic site where a set is iterated, popped, unpacked or converted (22 today) on every run; each must be in the audited table with its justification, so removing a sorted() or adding a set iteration leaves the proof no longer covering the code. "
                     "The real pipeline is run in separate processes under 4 (quick) / 32 (thorough) hash seeds on closed CFGs with hash-sensitive names, source programs (incl. regenerated text) and bytecode functions; digests of exact canonical dumps must coincide.", ref="§7 C12",
                note="Trusted: Lean kernel + standard axioms; the audit's type inference (a missed set use is only visible to the multi-seed runs); justifications of non-sorted sites are arguments except where a theorem is named (work-list fix-point confluence is not proved; its result is compared with an order-free definition in C13)."),
    "C15": dict(cat="proof", tech="Lean 4: round-trip theorem io_roundtrip about the model of SCFGIO.to_dict / from_dict for every hierarchy meeting the decidable hypothesis ioReady (evaluated on every real stage graph) + exact-dump correspondence of that model with the code + verified comparison decider sameHier on real re-read graphs (dict and YAML)",
                text="Scfg/Model/IO.lean models the writer (work-list over blocks and sub-regions, per-type fields) and the reader (outer-graph discovery, breadth-first make_scfg that stops at the exiting block, recursive region construction, recorded name of the outermost region). Scfg.C15.io_roundtrip proves for EVERY hierarchy satisfying IOReady (unique names, normal-form blocks, region headers inside, only exiting blocks naming anything outside their level, every member reachable from its header): whenever writer and reader answer, the graph read back holds exactly the original blocks - container, type, ordered successors, back edges, payload, value table, variable, assignments, kind, header, exiting, parent - under the same container name (with blk_roundtrip, toDict_sound/complete/keys_nodup, makeScfg_exact for all hierarchies / dictionaries). ioReady_sound ties the Boolean the harness evaluates on every real stage graph to that hypothesis. The model is compared with the real to_dict (entry order included) and from_dict on every stage graph; in addition the real re-read graphs (dict and YAML, chains, pipeline continued on the re-read graph) are judged by sameHier (sameHier_sound).", ref="§0.3 C15",
                note="Trusted: Lean kernel + standard axioms; exporter and the dictionary encoder in harness/props/c15.py; PyYAML (YAML text is checked per instance, not modelled). The theorem is about the model; it does not show that the reader never aborts (abort sites are part of the compared dump). Dictionaries with keys that do not belong to a block's type, and graphs with PythonASTBlock payloads (known finding), are outside the modelled domain."),
    "C17": dict(cat="proof", tech="Lean 4: a-priori theorems about the model of the renderer's control flow (renderNodes_exact, renderEdges_exact, renderEdges_eq_spec, drawn_in_spec) + order-exact correspondence of that model with the drawing parsed from the real DOT source + verified drawing specification (drawingOK_sound) judged on every real drawing",
                text="Scfg/Model/Render.lean models render_block's dispatch with recursive cluster rendering and render_edges with find_base_header over dict(scfg). Props/C17Render.lean proves for EVERY hierarchy: whenever the model answers, the nodes and clusters drawn are exactly `Drawn` (one node per non-region block in its enclosing cluster, one cluster per region, recursively at any depth; renderNodes_exact), every one of them is a node / cluster of the specification (drawn_in_spec), the edges are exactly one solid edge per jump target and one dashed edge per back edge of every non-region block the iterator yields, drawn to the block find_base_header reaches (renderEdges_exact), and - when the iterator yields every block (C16) and names are unique (C04) - exactly the edges of specDrawing (renderEdges_eq_spec). The model's nodes, clusters and edges are compared, in emission order, with the drawing parsed from the real DOT source of SCFGRenderer / ByteFlowRenderer for every stage of every generated graph; that parsed drawing is also judged by Scfg.Spec.drawingOK (drawingOK_sound, spec_nodes, spec_clusters: nodes, nested clusters and solid/dashed edges with header-resolved destinations equal the specification as multisets); labels are checked field by field per instance.", ref="§0.3 C17",
                note="Trusted: Lean kernel + standard axioms; exporter; the graphviz package's DOT printer; harness/dot.py. Labels (name, payload summary, variable, table, assignments) are checked per drawing, not modelled. 'Never fails' is by exact comparison of abort sites on the enumerated graphs, not a theorem."),
    "C08": dict(cat="translation_validation", tech="Lean 4: reference semantics of the Python subset by compilation to micro-code (validated path-exhaustively against CPython) + verified simulation checker (pySim_sound) between the function and the real front end's CFG; CPython runs of both; census",
                text="Scfg/Py/Micro.lean gives the supported subset (incl. and/or, comparison chains, call arguments, for/while/else, break/continue/return) a reference semantics whose abstract values are reaching definitions, so the state space is finite and Scfg.C08.pySim_sound turns one successful certificate check into equal event traces for ALL decision sequences. "
                     "For every generated function the real front end's CFG is abstracted and compared with the function this way; both are also executed natively by CPython (the CFG through a block-by-block interpreter) on every decision sequence up to depth 7, which also validates the Lean semantics; pruning is censused by statement identity. "
                     "Failing programs are classified semantically by variant semantics reproducing the known deviations (eager and/or hoisting, for-target preset). "
                     "Scfg/Model/Ast2Cfg.lean is an executable model of the front end itself (handle_expression, handle_bool_op, if/while/for lowering, sealing, the three pruning passes); its blocks must equal the abstraction of the real ASTCFG block for block. Scfg.C08.front_end_prune_ok / pruneEmpty_distinct / pruneEmpty_closed prove a priori that the model of prune_empty never aborts, leaves no dangling successor and never makes the two targets of a branch coincide, under decidable hypotheses evaluated on every program's pre-pruning block list.", ref="§7 C08",
                note="Trusted: Lean kernel + standard axioms; harness/pysem.py (abstraction of ast); the reaching-definition abstraction and the truthiness-memo policy (identical in the CPython oracle); atoms do not raise. "
                     "When the product exceeds 200 000 pairs the Lean verdict is 'inconclusive' and the bounded CPython comparison decides (counted in evidence)."),
    "C07": dict(cat="translation_validation", tech="Lean 4: verified simulation checker (pySim_sound) between the reference semantics of the original and of the regenerated function; CPython runs of both on every decision sequence up to a bound; exception class and compile check of the real pipeline",
                text="Every generated function goes through the real AST2SCFG → restructure → SCFG2AST. The pipeline may raise NotImplementedError and nothing else; the regenerated source must compile; original and regenerated function are abstracted and compared by the Lean certificate checker (equal traces for ALL decision sequences, Scfg.C08.pySim_sound) and executed natively by CPython on every decision sequence up to depth 7. "
                     "Differences are classified semantically against the variant semantics of the known front-end deviations; crashes by the precondition they need in the front end's own CFG. "
                     "Scfg.Model.roundtrip chains the Lean models of the front end, of restructuring and of code generation (Scfg/Model/Cfg2Ast.lean); its output (or abort class) must equal the real regenerated function token for token.", ref="§7 C07",
                note="As C08. Arguments are symbolic (oracle values), so 'for every argument tuple' is covered up to the oracle's adversarial truthiness/iteration decisions; exceptions raised by atoms are not modelled."),
    "C10": dict(cat="translation_validation", tech="Lean 4: multiset census decider with soundness theorem (census_sound) on tags collected by object identity from the restructured graph and from the generated tree; compile and hygiene of the unparsed text; two routes (source pipeline, arbitrary restructured closed CFGs with AST payloads)",
                text="For every accepted function and for every restructured closed CFG with synthetic AST payloads, the statements, tests and control-variable assignments of the graph and those present in the generated tree are collected by object identity and compared by the Lean predicate sameMultiset (Scfg.C10.census_sound: equal multiplicity of every tag — nothing dropped, duplicated or foreign); the unparsed text must compile and bind no new name outside the reserved __scfg_…__ namespace.", ref="§7 C10",
                note="Trusted: Lean kernel + standard axioms; the tag collection in harness/props/c10.py; ast.unparse/compile. No Lean model of the code generator yet (the conditional theorem codegen_census of the design is not proved); the quantifier over graphs/programs is by enumeration."),
}

NOT_YET = {}


def main():
    checks = []
    for pid, c in sorted(CHECKS.items()):
        checks.append({
            "property_id": pid,
            "quick_cmd": f"./check {pid} --tier quick",
            "thorough_cmd": f"./check {pid} --tier thorough",
            "evidence_file": f"evidence/{pid}.json",
            "replay_cmd_template": f"./check {pid} --replay {{path}}",
            "engine": "lean-scfg",
            "level_claimed": {"category": c["cat"], "text": c["text"], "design_ref": c["ref"]},
            "level_note": c.get("note", TV_NOTE),
            "technique": c["tech"],
        })
    all_ids = [f"C{i:02d}" for i in range(1, 19)]
    na = [{"property_id": p, "reason": NOT_YET.get(p, "check not built yet in this session (planned, see DESIGN §11); not claimed until it runs")}
          for p in all_ids if p not in CHECKS]
    man = {
        "version": 1,
        "setup_cmd": "cd lean && lake build",
        "hooks": {
            "guard": "NUMBA_SCFG_VERIF",
            "enable": "no hooks are needed: every observation point is reachable through the public API; the guard name is reserved",
            "baseline_off_cmd": "cd /repo && /venv/bin/python -m pytest -ra -q -p no:cacheprovider --timeout=900 --continue-on-collection-errors",
            "source_commits": [],
            "add_only": True,
        },
        "engines": [{
            "name": "lean-scfg", "path": "lean/",
            "serves_properties": sorted(CHECKS),
            "kind_free_text": "Lean 4 development: specification-level semantics and deciders with kernel-checked soundness theorems, "
                              "hand-written executable models of the implementation, a compiled line-protocol driver; Python harness drives the real code",
        }],
        "checks": checks,
        "not_applicable": na,
        "notes": "Fix commits in /repo: 6bdd8e3 (C02), c78baed (C04/C16/C10); see known_findings.json and DESIGN.md.",
    }
    with open(os.path.join(VERIF, "MANIFEST.json"), "w") as f:
        json.dump(man, f, indent=1, ensure_ascii=False)


if __name__ == "__main__":
    main()
