"""G3: random edit histories on real SCFG objects, mirrored on the Lean model."""
import random
import traceback
from harness import common, export, gen
common.import_repo()
from numba_scfg.core.datastructures import basic_block as bb  # noqa: E402
from numba_scfg.core.datastructures.scfg import SCFG  # noqa: E402

KINDS = {"synth_exit": "insert_SyntheticExit", "synth_tail": "insert_SyntheticTail",
         "synth_return": "insert_SyntheticReturn", "synth_fill": "insert_SyntheticFill"}


def site_of(e):
    tb = traceback.extract_tb(e.__traceback__)
    fr = [f for f in tb if "numba_scfg" in f.filename]
    return type(e).__name__ + "@" + (fr[-1].name if fr else "?")


def ng_line(scfg):
    k = scfg.name_gen.kinds
    return ",".join(f"{a}={b}" for a, b in k.items()) if k else "-"


def lst(xs):
    return ",".join(xs) if xs else "-"


def base_graph(rng):
    """(description, SCFG)"""
    mode = rng.random()
    if mode < 0.45:
        n = rng.randint(2, 7)
        names = [chr(ord("a") + i) for i in range(n)]
        g = {}
        for nm in names:
            k = rng.choice([0, 1, 1, 2, 2, 2, 3])
            ts = tuple(rng.choice(names) for _ in range(k)) if rng.random() < 0.1 else tuple(rng.sample(names, min(k, n)))
            blk = bb.BasicBlock(name=nm, _jump_targets=ts)
            if ts and rng.random() < 0.12:
                blk = blk.declare_backedge(rng.choice(ts))
            g[nm] = blk
        return "flat", SCFG(g)
    n = rng.randint(3, 9)
    succ = gen.rand_template(rng, n) if rng.random() < 0.5 else gen.rand_closed(rng, n)
    scfg = export.mk_scfg(succ)
    try:
        scfg.join_returns()
        scfg.restructure_loop()
        if mode > 0.75:
            scfg.restructure_branch()
            return "restructured", scfg
        return "loop-restructured", scfg
    except Exception:  # noqa: BLE001
        return "closed", export.mk_scfg(succ)


def gen_history(rng):
    kind, scfg = base_graph(rng)
    ops = []
    level = list(scfg.graph.keys())
    fresh = 0
    for _ in range(rng.randint(1, 4)):
        r = rng.random()
        names = list(level)

        def pick_p():
            k = rng.choice([0, 1, 1, 1, 2, 2, 3])
            p = rng.sample(names, min(k, len(names)))
            if rng.random() < 0.03:
                p.append("nosuch")
            return p

        def pick_s(p):
            cand = []
            for x in p:
                if x in scfg.graph:
                    cand += list(scfg.graph[x]._jump_targets)
            k = rng.choice([0, 1, 1, 2, 2, 3])
            if cand and rng.random() < 0.7:
                s = []
                for t in rng.sample(cand, min(k, len(cand))):
                    if t not in s:
                        s.append(t)
                return s
            return rng.sample(names, min(k, len(names)))
        if r < 0.45:
            p = pick_p()
            s = pick_s(p)
            new = f"n{fresh}"
            fresh += 1
            ops.append(("insert_block", rng.choice(list(KINDS)), new, p, s))
            level.append(new)
        elif r < 0.8:
            p = pick_p()
            s = pick_s(p)
            new = f"n{fresh}"
            fresh += 1
            ops.append(("insert_ctl", new, p, s))
            level.append(new)
        elif r < 0.9:
            ops.append(("join_returns",))
        else:
            t = rng.sample(names, min(rng.choice([0, 1, 1, 2, 2, 3]), len(names)))
            e = rng.sample(names, min(rng.choice([0, 1, 1, 2, 2, 3]), len(names)))
            ops.append(("join_tails_exits", t, e))
    return kind, scfg, ops


def apply_real(scfg, op):
    """Returns None or abort string."""
    try:
        if op[0] == "insert_block":
            getattr(scfg, KINDS[op[1]])(op[2], list(op[3]), list(op[4]))
        elif op[0] == "insert_ctl":
            scfg.insert_block_and_control_blocks(op[1], list(op[2]), list(op[3]))
        elif op[0] == "join_returns":
            scfg.join_returns()
        elif op[0] == "join_tails_exits":
            return None, scfg.join_tails_and_exits(list(op[1]), list(op[2]))
    except Exception as e:  # noqa: BLE001
        return site_of(e), None
    return None, None


def op_line(top, op):
    if op[0] == "insert_block":
        return f"OP insert_block {top} {op[1]} {op[2]} {lst(op[3])} {lst(op[4])}"
    if op[0] == "insert_ctl":
        return f"OP insert_ctl {top} {op[1]} {lst(op[2])} {lst(op[3])}"
    if op[0] == "join_returns":
        return f"OP join_returns {top}"
    return f"OP join_tails_exits {top} {lst(op[1])} {lst(op[2])}"


def spec_line(top, op):
    if op[0] == "insert_block":
        return f"SPEC insert_block {top} {op[2]} {lst(op[3])} {lst(op[4])}"
    if op[0] == "insert_ctl":
        return f"SPEC insert_ctl {top} {op[1]} {lst(op[2])} {lst(op[3])}"
    if op[0] == "join_returns":
        return f"SPEC join_returns {top}"
    return None


def canon(line):
    """hierarchy line → {container: [entry strings in order]}"""
    d = {}
    if line == "-":
        return d
    for e in line.split(";"):
        d.setdefault(e.split("|", 1)[0], []).append(e)
    return d


def canon_ng(s):
    return dict(kv.split("=") for kv in s.split(",")) if s != "-" else {}
