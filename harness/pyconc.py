"""Concrete differential execution (G5b): original function, regenerated function and the
CPython interpretation of the front-end CFG on a grid of small integer arguments; compares the
returned value or exception class and the ordered log of external calls."""
import signal
from harness import pysem


class Box:
    def __init__(self, v):
        self.v = v


def run_concrete(fn4, x, y, limit=0.25):
    """fn4(x, y, box, ext) → ((status, value), call log)"""
    log = []

    def ext(k, v):
        log.append((k, repr(v)))
        return v + k if isinstance(v, int) and not isinstance(v, bool) else k
    old = signal.signal(signal.SIGALRM, pysem._alarm)
    signal.setitimer(signal.ITIMER_REAL, limit)
    try:
        r = fn4(x, y, Box(x - y), ext)
        out = ("return", repr(r))
    except pysem.Diverges:
        out = ("diverges", "")
        log = []
    except Exception as e:  # noqa: BLE001
        out = ("raise", type(e).__name__)
    finally:
        signal.setitimer(signal.ITIMER_REAL, 0)
        signal.signal(signal.SIGALRM, old)
    return out, tuple(log)


GRID = [(x, y) for x in (-1, 0, 1, 2, 3) for y in (0, 1, 2)]


def source_fn4(src_or_text):
    fn = pysem.make_fn(src_or_text)

    def fn4(x, y, box, ext):
        fn.__globals__["ext"] = ext
        return fn(x, y, box)
    return fn4


def cfg_fn4(astcfg, params):
    return pysem.make_cfg_fn(astcfg, list(params) + ["ext"])


def is_concrete(src):
    return src.startswith("def f(x, y, box)")
