"""Runs the real code on a fixed input set under the PYTHONHASHSEED of this process and prints
one digest per input. usage: seed_worker.py <repo> <tier> <seed>"""
import sys
import os
import ast
import json
import hashlib
import logging
import random

repo, tier, seed = sys.argv[1], sys.argv[2], int(sys.argv[3])
sys.path.insert(0, "/verif")
os.environ["VERIF_REPO"] = repo
logging.disable(logging.CRITICAL)
from harness import common, export, gen  # noqa: E402
common.import_repo()
from numba_scfg.core.datastructures.ast_transforms import AST2SCFG, SCFG2AST  # noqa: E402
from numba_scfg.core.datastructures.byte_flow import ByteFlow  # noqa: E402
from numba_scfg.core.datastructures.scfg import SCFG  # noqa: E402

PROGRAMS = [
    "def f(a, b):\n    if a and b or not_used(a):\n        return 1\n    return 2",
    "def f(n):\n    s = 0\n    for i in range(n):\n        if i % 2 == 1:\n            continue\n        s += i\n    else:\n        s += 1\n    return s",
    "def f(n):\n    m = n\n    while n > 0:\n        n -= 1\n        if n == 5:\n            break\n    else:\n        n = 42\n    return n",
    "def f(a, b):\n    c = a or b\n    while c:\n        c = c - 1\n        if c and b:\n            b = b - 1\n    return c",
    "def f(xs, ys):\n    t = 0\n    for x in xs:\n        for y in ys:\n            if x == y:\n                break\n            t += 1\n        else:\n            t += 10\n    return t",
    "def f(a):\n    if a:\n        if a > 1:\n            return 1\n        else:\n            a = 3\n    return a",
]


def h(s):
    return hashlib.sha256(s.encode()).hexdigest()[:16]


def gfun1(a, b):
    while a:
        a -= 1
        if a == b:
            break
    return a


def gfun2(xs):
    s = 0
    for x in xs:
        if x:
            s += x
        else:
            continue
    return s


def main():
    rng = random.Random(seed * 7 + 1)          # the SAME inputs in every process
    inputs = [s for n in (2, 3, 4) for s in gen.all_closed(n)]
    inputs = inputs[:: 3 if tier == "quick" else 1]
    for _ in range(300 if tier == "quick" else 3000):
        n = rng.randint(5, 14)
        inputs.append(gen.rand_template(rng, n) if rng.random() < 0.5 else gen.rand_closed(rng, n))
    out = {}
    for i, succ in enumerate(inputs):
        # names whose hash order varies with the seed
        # (several shapes: a common prefix; distinct prefixes sharing a numeric suffix; one common
        # suffix; doubled letters - orderings keyed on a part of the name tie on some of them)
        L = "abcdefghijklmnopqrstuvwxyz"
        names = [[f"blk{j}" for j in range(len(succ))],
                 [f"{L[j % 26]}{j // 26}_{j % 3}" for j in range(len(succ))],
                 [f"n{L[(j * 7) % 26]}{j}_1" for j in range(len(succ))],
                 [f"{L[(j * 5) % 26] * 2}{(j * 7) % 4}x{j}" for j in range(len(succ))]][i % 4]
        blocks = dict(export.mk_scfg(succ, names).graph)
        scfg = SCFG(dict(blocks))
        try:
            scfg.restructure()
            out[f"g{i}"] = h(export.canonical_dump(scfg))
        except Exception as e:  # noqa: BLE001
            out[f"g{i}"] = "abort:" + type(e).__name__
        # the same input again in the same process (fresh objects, after everything that ran before):
        # "always yields the identical result" also means not depending on what the process did earlier
        if i % 3 == 0:
            try:
                # every sixth input: a second graph over the very same block objects
                again = SCFG(dict(blocks)) if i % 6 == 0 else export.mk_scfg(succ, names)
                again.restructure()
                d2 = h(export.canonical_dump(again))
            except Exception as e:  # noqa: BLE001
                d2 = "abort:" + type(e).__name__
            if d2 != out[f"g{i}"]:
                out[f"g{i}"] = f"differs-within-one-process:{out[f'g{i}']}/{d2}"
    for i, succ in enumerate(inputs[:60]):
        L = "abcdefghijklmnopqrstuvwxyz"
        names = [[f"blk{j}" for j in range(len(succ))],
                 [f"{L[j % 26]}{j // 26}_{j % 3}" for j in range(len(succ))],
                 [f"n{L[(j * 7) % 26]}{j}_1" for j in range(len(succ))],
                 [f"{L[(j * 5) % 26] * 2}{(j * 7) % 4}x{j}" for j in range(len(succ))]][i % 4]
        try:
            late = export.mk_scfg(succ, names)
            late.restructure()
            d3 = h(export.canonical_dump(late))
        except Exception as e:  # noqa: BLE001
            d3 = "abort:" + type(e).__name__
        if d3 != out[f"g{i}"] and not out[f"g{i}"].startswith("differs"):
            out[f"g{i}"] = f"differs-at-the-end-of-the-process:{out[f'g{i}']}/{d3}"
    # staged with a write-out / read-back in between: loops, dictionary, read back, branches (every fourth
    # input); what is read back and what is then built must not depend on the hash seed either
    for i, succ in enumerate(inputs[::4]):
        try:
            st = export.mk_scfg(succ, [f"blk{j}" for j in range(len(succ))])
            st.join_returns()
            st.restructure_loop()
            back, _ = SCFG.from_dict(st.to_dict())
            d0 = h(export.canonical_dump(back))
            back.restructure_branch()
            out[f"r{i}"] = d0 + "/" + h(export.canonical_dump(back))
        except Exception as e:  # noqa: BLE001
            out[f"r{i}"] = "abort:" + type(e).__name__
    for i, src in enumerate(PROGRAMS):
        try:
            scfg = AST2SCFG(src)
            tags = {}
            d0 = h(json.dumps({k: (type(b).__name__, [ast.dump(t) for t in b.tree], list(b._jump_targets)) for k, b in scfg.graph.items()}))
            scfg.restructure()
            d1 = h(export.canonical_dump(scfg, tags))
            d2 = h(ast.unparse(SCFG2AST(src, scfg)))
            out[f"p{i}"] = f"{d0}/{d1}/{d2}"
        except Exception as e:  # noqa: BLE001
            out[f"p{i}"] = "abort:" + type(e).__name__
    for i, fn in enumerate((gfun1, gfun2)):
        try:
            bf = ByteFlow.from_bytecode(fn)
            d0 = h(export.canonical_dump(bf.scfg))
            bf.scfg.restructure()
            out[f"b{i}"] = d0 + "/" + h(export.canonical_dump(bf.scfg))
        except Exception as e:  # noqa: BLE001
            out[f"b{i}"] = "abort:" + type(e).__name__
    print(json.dumps({"hashseed": os.environ.get("PYTHONHASHSEED"), "digests": out,
                      "set_order_probe": list({"blk0", "blk1", "blk2", "blk3", "blk4"})}))


main()
