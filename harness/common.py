"""Shared plumbing for the /verif checks: paths, the real package, the Lean build, the driver,
the axiom audit, evidence and replay files."""
import os
import sys
import re
import json
import time
import fcntl
import hashlib
import logging
import subprocess

VERIF = os.path.dirname(os.path.dirname(os.path.abspath(__file__)))
REPO = os.environ.get("VERIF_REPO", "/repo")
LEAN = os.path.join(VERIF, "lean")
DRIVER = os.path.join(LEAN, ".lake", "build", "bin", "driver")
EVIDENCE = os.path.join(VERIF, "evidence")
REPLAYS = os.path.join(VERIF, "replays")
GUARD = "NUMBA_SCFG_VERIF"
ALLOWED_AXIOMS = {"propext", "Classical.choice", "Quot.sound"}

# the real package, from the working tree of /repo
if REPO not in sys.path:
    sys.path.insert(0, REPO)
os.environ.setdefault(GUARD, "1")
logging.disable(logging.CRITICAL)


def import_repo():
    import numba_scfg
    here = os.path.realpath(os.path.dirname(numba_scfg.__file__))
    want = os.path.realpath(os.path.join(REPO, "numba_scfg"))
    assert here == want, f"numba_scfg imported from {here}, expected {want}"
    return numba_scfg


def seed_of_env():
    try:
        return int(os.environ.get("VERIF_SEED", "0"))
    except ValueError:
        return 0


def ncpu():
    try:
        return max(1, min(16, len(os.sched_getaffinity(0))))
    except Exception:
        return 4


# --------------------------------------------------------------------------- Lean
class LeanFailure(Exception):
    def __init__(self, what, log):
        super().__init__(what)
        self.what = what
        self.log = log


def _locked(fn):
    os.makedirs(os.path.join(LEAN, ".lake"), exist_ok=True)
    with open(os.path.join(LEAN, ".lake", "verif.lock"), "w") as lk:
        fcntl.flock(lk, fcntl.LOCK_EX)
        try:
            return fn()
        finally:
            fcntl.flock(lk, fcntl.LOCK_UN)


def lake_build(targets=()):
    """Incremental build of the library, the driver and the given extra targets."""
    def go():
        cmd = ["lake", "build", "Scfg", "driver", *targets]
        p = subprocess.run(cmd, cwd=LEAN, capture_output=True, text=True)
        if p.returncode != 0:
            raise LeanFailure("lake build failed: " + " ".join(cmd), p.stdout + p.stderr)
        return p.stdout
    return _locked(go)


_SRC_BAD = re.compile(
    r"\bsorry\b|\badmit\b|^\s*axiom\s|native_decide|bv_decide|implemented_by|\bunsafe\s|maxHeartbeats\s+0")


def strip_lean_comments(text):
    out, i, depth = [], 0, 0
    while i < len(text):
        if text.startswith("/-", i):
            depth += 1
            i += 2
        elif depth and text.startswith("-/", i):
            depth -= 1
            i += 2
        elif depth:
            if text[i] == "\n":
                out.append("\n")
            i += 1
        elif text.startswith("--", i):
            j = text.find("\n", i)
            i = len(text) if j < 0 else j
        else:
            out.append(text[i])
            i += 1
    return "".join(out)


def source_audit():
    """grep the Lean sources (comments stripped) for escape hatches; returns offending lines."""
    bad = []
    for root, _, files in os.walk(LEAN):
        if ".lake" in root:
            continue
        for f in files:
            if not f.endswith(".lean"):
                continue
            p = os.path.join(root, f)
            body = strip_lean_comments(open(p, encoding="utf-8").read())
            for n, line in enumerate(body.split("\n"), 1):
                if _SRC_BAD.search(line):
                    bad.append(f"{os.path.relpath(p, LEAN)}:{n}: {line.strip()}")
    return bad


def theorems_in(module_file):
    """Names of the theorems declared in a Props file, qualified by its namespace."""
    text = strip_lean_comments(open(os.path.join(LEAN, module_file), encoding="utf-8").read())
    ns = []
    out = []
    for line in text.split("\n"):
        m = re.match(r"\s*namespace\s+(\S+)", line)
        if m:
            ns.append(m.group(1))
            continue
        m = re.match(r"\s*end\s+(\S+)", line)
        if m and ns and ns[-1] == m.group(1):
            ns.pop()
            continue
        m = re.match(r"\s*(?:@\[[^\]]*\]\s*)?(?:private\s+|protected\s+)?theorem\s+([^\s:({\[]+)", line)
        if m:
            out.append(".".join(ns + [m.group(1)]))
    return out


def axiom_audit(module, theorem_names):
    """`#print axioms` for each theorem; returns {theorem: [axioms]}; raises LeanFailure when a
    theorem is missing or depends on anything outside the allowed three."""
    if not theorem_names:
        return {}
    src = f"import {module}\n" + "".join(f"#print axioms {t}\n" for t in theorem_names)
    path = os.path.join(LEAN, ".lake", f"audit_{module.replace('.', '_')}_{os.getpid()}.lean")

    def go():
        with open(path, "w") as f:
            f.write(src)
        try:
            return subprocess.run(["lake", "env", "lean", path], cwd=LEAN, capture_output=True, text=True)
        finally:
            os.unlink(path)
    p = _locked(go)
    text = p.stdout + p.stderr
    if p.returncode != 0:
        raise LeanFailure(f"axiom audit of {module} failed", text)
    res = {}
    # names may end in primes: the report is `'<name>' depends on …` with the name between the
    # first quote of the line and the last quote before ` depends` / ` does not depend`
    for m in re.finditer(r"^'(.+?)' (does not depend on any axioms|depends on axioms: \[([^\]]*)\])", text, re.M):
        name = m.group(1)
        axs = [a.strip() for a in (m.group(3) or "").replace("\n", " ").split(",") if a.strip()]
        res[name] = axs
    missing = [t for t in theorem_names if t not in res]
    if missing:
        raise LeanFailure(f"axiom audit: no report for {missing}", text)
    bad = {t: a for t, a in res.items() if not set(a) <= ALLOWED_AXIOMS}
    if bad:
        raise LeanFailure(f"theorems depend on disallowed axioms: {bad}", text)
    return res


def leanchecker(modules):
    def go():
        return subprocess.run(["lake", "env", "leanchecker", *modules], cwd=LEAN, capture_output=True, text=True)
    p = _locked(go)
    if p.returncode != 0:
        raise LeanFailure("leanchecker failed on " + " ".join(modules), p.stdout + p.stderr)
    return True


def statement_hash(module_file):
    """Hash of the theorem statements (text up to ':=') of a Props file; recorded in evidence so
    that a weakened statement is visible."""
    text = strip_lean_comments(open(os.path.join(LEAN, module_file), encoding="utf-8").read())
    stmts = re.findall(r"theorem\s+.*?:=", text, flags=re.S)
    norm = "\n".join(re.sub(r"\s+", " ", s) for s in stmts)
    return hashlib.sha256(norm.encode()).hexdigest()[:16]


class Driver:
    """Batch use of the Lean driver: send request lines, get one reply line per request."""

    def __init__(self):
        if not os.path.exists(DRIVER):
            raise LeanFailure("driver binary missing", DRIVER)

    def run(self, lines):
        data = "\n".join(lines) + "\n"
        p = subprocess.run([DRIVER], input=data, capture_output=True, text=True)
        if p.returncode != 0:
            raise LeanFailure("driver crashed", p.stderr[-2000:])
        out = p.stdout.split("\n")
        if out and out[-1] == "":
            out.pop()
        if len(out) != len(lines):
            raise LeanFailure(f"driver returned {len(out)} replies for {len(lines)} requests", p.stderr[-2000:])
        return out


# --------------------------------------------------------------------------- results
def repo_fingerprint():
    h = hashlib.sha256()
    for root, dirs, files in os.walk(os.path.join(REPO, "numba_scfg")):
        dirs.sort()
        if "__pycache__" in root:
            continue
        for f in sorted(files):
            if f.endswith(".py"):
                p = os.path.join(root, f)
                h.update(os.path.relpath(p, REPO).encode())
                h.update(open(p, "rb").read())
    return h.hexdigest()[:16]


def write_replay(prop, payload):
    os.makedirs(REPLAYS, exist_ok=True)
    blob = json.dumps(payload, sort_keys=True, default=str)
    name = f"{prop}-{hashlib.sha256(blob.encode()).hexdigest()[:12]}.json"
    path = os.path.join(REPLAYS, name)
    with open(path, "w") as f:
        json.dump(payload, f, indent=1, sort_keys=True, default=str)
    return os.path.relpath(path, VERIF)


def write_evidence(prop, tier, seed, level, coverage, wall_s, violations, assumptions):
    os.makedirs(EVIDENCE, exist_ok=True)
    ev = {
        "property_id": prop, "tier": tier, "seed": seed, "level": level,
        "coverage": coverage, "assumptions": assumptions,
        "wall_s": round(wall_s, 2), "violations": violations,
        "repo_fingerprint": repo_fingerprint(),
    }
    with open(os.path.join(EVIDENCE, f"{prop}.json"), "w") as f:
        json.dump(ev, f, indent=1, default=str)
    return ev


def load_known_findings():
    p = os.path.join(VERIF, "known_findings.json")
    if not os.path.exists(p):
        return {"findings": [], "fixed": []}
    return json.load(open(p))


def boost():
    """factor by which quick-tier input counts are multiplied (set when the package source differs
    from the fingerprinted baseline, see harness/fingerprint.py)"""
    try:
        return max(1, int(os.environ.get("VERIF_BOOST", "1")))
    except ValueError:
        return 1
