"""Translator: regenerates model *data* from /repo's current source on every run (stdlib `ast`
only). Hand-written Lean proves theorems that hold for any such data; verdicts come from
evaluating decidable checks on the regenerated data."""
import ast
import os
from harness import common

PKG = os.path.join(common.REPO, "numba_scfg")


def parse(rel):
    p = os.path.join(PKG, rel)
    return ast.parse(open(p, encoding="utf-8").read(), filename=p)


def module_str_constants(rel):
    """NAME = "literal" assignments at module level."""
    out = {}
    for node in parse(rel).body:
        if isinstance(node, ast.Assign) and len(node.targets) == 1 and isinstance(node.targets[0], ast.Name) \
                and isinstance(node.value, ast.Constant) and isinstance(node.value.value, str):
            out[node.targets[0].id] = node.value.value
    return out


def module_str_sets(rel):
    """NAME = {"a", "b"} assignments at module level (set literals of string constants or of
    names bound to string constants in the same module)."""
    consts = module_str_constants(rel)
    out = {}
    for node in parse(rel).body:
        if isinstance(node, ast.Assign) and len(node.targets) == 1 and isinstance(node.targets[0], ast.Name) \
                and isinstance(node.value, ast.Set):
            vals = []
            for e in node.value.elts:
                if isinstance(e, ast.Constant) and isinstance(e.value, str):
                    vals.append(e.value)
                elif isinstance(e, ast.Name) and e.id in consts:
                    vals.append(consts[e.id])
                else:
                    vals.append("?unresolved:" + ast.unparse(e))
            out[node.targets[0].id] = vals
    return out


SOURCES = ["core/datastructures/scfg.py", "core/transformations.py", "core/datastructures/flow_info.py",
           "core/datastructures/ast_transforms.py", "core/datastructures/byte_flow.py"]


def name_requests():
    """Every (namespace, kind) the library can ask its name generator for: the literal or
    block_names constant passed to new_block_name / new_region_name / new_var_name, with one
    level of parameter resolution through the call sites of the enclosing function."""
    consts = module_str_constants("core/datastructures/block_names.py")
    ns_of = {"new_block_name": "b", "new_region_name": "r", "new_var_name": "v"}
    trees = {rel: parse(rel) for rel in SOURCES}
    # function name → (arg names, [call sites' argument expr lists])
    calls = {}
    for rel, tree in trees.items():
        for node in ast.walk(tree):
            if isinstance(node, ast.Call):
                fn = node.func.attr if isinstance(node.func, ast.Attribute) else (node.func.id if isinstance(node.func, ast.Name) else None)
                if fn:
                    calls.setdefault(fn, []).append(node)
    out, unresolved = [], []

    def resolve(expr, func, depth=0):
        if isinstance(expr, ast.Constant) and isinstance(expr.value, str):
            return [expr.value]
        if isinstance(expr, ast.Attribute) and isinstance(expr.value, ast.Name) and expr.value.id == "block_names" \
                and expr.attr in consts:
            return [consts[expr.attr]]
        if isinstance(expr, ast.Name) and expr.id in consts:
            return [consts[expr.id]]
        if isinstance(expr, ast.Name) and func is not None and depth < 2:
            params = [a.arg for a in func.args.args]
            if expr.id in params:
                idx = params.index(expr.id)
                vals = []
                for c in calls.get(func.name, []):
                    arg = None
                    if idx < len(c.args):
                        arg = c.args[idx]
                    else:
                        for kw in c.keywords:
                            if kw.arg == expr.id:
                                arg = kw.value
                    if arg is None:
                        continue
                    vals += resolve(arg, None, depth + 1)
                if vals:
                    return vals
        return ["?unresolved:" + ast.unparse(expr)]

    for rel, tree in trees.items():
        for func in [n for n in ast.walk(tree) if isinstance(n, (ast.FunctionDef,))]:
            for node in ast.walk(func):
                if isinstance(node, ast.Call) and isinstance(node.func, ast.Attribute) and node.func.attr in ns_of and node.args:
                    for k in resolve(node.args[0], func):
                        item = (ns_of[node.func.attr], k, f"{rel}:{node.lineno}")
                        (unresolved if k.startswith("?unresolved") else out).append(item)
    uniq = sorted({(a, b) for a, b, _ in out})
    return uniq, unresolved, out


# --------------------------------------------------------------------------- C11: dispatch data
def _isinstance_classes(test):
    """`isinstance(node, ast.X)` / `isinstance(node, (ast.X, ast.Y))` → ['X', 'Y'] or None"""
    if not (isinstance(test, ast.Call) and isinstance(test.func, ast.Name) and test.func.id == "isinstance"
            and len(test.args) == 2):
        return None
    spec = test.args[1]
    elts = spec.elts if isinstance(spec, ast.Tuple) else [spec]
    out = []
    for e in elts:
        if isinstance(e, ast.Attribute) and isinstance(e.value, ast.Name) and e.value.id == "ast":
            out.append(e.attr)
        elif isinstance(e, ast.Name):
            out.append(e.id)
        else:
            return None
    return out


def _arm_of_body(body):
    """Classify what an arm of handle_ast_node does."""
    src = "\n".join(ast.unparse(s) for s in body)
    if any(isinstance(s, ast.Raise) for s in body) and "NotImplementedError" in src:
        return "refuse"
    calls = [n.func.attr for s in body for n in ast.walk(s) if isinstance(n, ast.Call) and isinstance(n.func, ast.Attribute)]
    if "handle_function_def" in calls:
        return "funcDef"
    if "handle_if" in calls:
        return "ifS"
    if "handle_while" in calls:
        return "whileS"
    if "handle_for" in calls:
        return "forS"
    if "handle_expression" in calls and "append" in calls:
        return "simple"
    if calls == ["append"]:
        return "noop"
    return "unknown"


def dispatch_data():
    """chain / fallback / nested-def refusal from the source + statement classes of this interpreter."""
    tree = parse("core/datastructures/ast_transforms.py")
    cls = next(n for n in tree.body if isinstance(n, ast.ClassDef) and n.name == "AST2SCFGTransformer")
    fn = next(n for n in cls.body if isinstance(n, ast.FunctionDef) and n.name == "handle_ast_node")
    chain, fallback = [], "unknown"
    node = next((s for s in fn.body if isinstance(s, ast.If)), None)
    while node is not None:
        classes = _isinstance_classes(node.test)
        chain.append((classes or ["?" + ast.unparse(node.test)], _arm_of_body(node.body) if classes else "unknown"))
        if len(node.orelse) == 1 and isinstance(node.orelse[0], ast.If):
            node = node.orelse[0]
        else:
            fallback = _arm_of_body(node.orelse) if node.orelse else "noop"
            node = None
    # does handle_function_def refuse a definition that is not the outermost statement?
    hfd = next(n for n in cls.body if isinstance(n, ast.FunctionDef) and n.name == "handle_function_def")
    nested = False
    for s in hfd.body:
        if isinstance(s, ast.If) and "self.tree[0]" in ast.unparse(s.test) and "is not" in ast.unparse(s.test) \
                and any(isinstance(x, ast.Raise) and "NotImplementedError" in ast.unparse(x) for x in s.body):
            nested = True
    kinds = []
    import ast as _ast
    for name in sorted(dir(_ast)):
        obj = getattr(_ast, name)
        if isinstance(obj, type) and issubclass(obj, _ast.stmt) and obj is not _ast.stmt:
            kinds.append((name, [c.__name__ for c in obj.__mro__ if c is not object]))
    return {"chain": chain, "fallback": fallback, "nested": nested, "kinds": kinds}


def dispatch_wire(d):
    ch = ",".join("+".join(c) + ":" + a for c, a in d["chain"]) or "-"
    ks = ",".join(n + ":" + "+".join(m) for n, m in d["kinds"]) or "-"
    return f"{ch};{d['fallback']};{'1' if d['nested'] else '0'};{ks}"
