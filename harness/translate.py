"""Translator: regenerates model *data* from /repo's current source on every run (stdlib `ast`
only). Hand-written Lean proves theorems that hold for any such data; verdicts come from
evaluating decidable checks on the regenerated data."""
import ast
import os
from harness import common

PKG = os.path.join(common.REPO, "numba_scfg")


def parse(rel):
    p = os.path.join(PKG, rel)
    return ast.parse(open(p, encoding="utf-8").read(), filename=p)


def module_str_constants(rel):
    """NAME = "literal" assignments at module level."""
    out = {}
    for node in parse(rel).body:
        if isinstance(node, ast.Assign) and len(node.targets) == 1 and isinstance(node.targets[0], ast.Name) \
                and isinstance(node.value, ast.Constant) and isinstance(node.value.value, str):
            out[node.targets[0].id] = node.value.value
    return out


def module_str_sets(rel):
    """NAME = {"a", "b"} assignments at module level (set literals of string constants or of
    names bound to string constants in the same module)."""
    consts = module_str_constants(rel)
    out = {}
    for node in parse(rel).body:
        if isinstance(node, ast.Assign) and len(node.targets) == 1 and isinstance(node.targets[0], ast.Name) \
                and isinstance(node.value, ast.Set):
            vals = []
            for e in node.value.elts:
                if isinstance(e, ast.Constant) and isinstance(e.value, str):
                    vals.append(e.value)
                elif isinstance(e, ast.Name) and e.id in consts:
                    vals.append(consts[e.id])
                else:
                    vals.append("?unresolved:" + ast.unparse(e))
            out[node.targets[0].id] = vals
    return out


SOURCES = ["core/datastructures/scfg.py", "core/transformations.py", "core/datastructures/flow_info.py",
           "core/datastructures/ast_transforms.py", "core/datastructures/byte_flow.py"]


def name_requests():
    """Every (namespace, kind) the library can ask its name generator for: the literal or
    block_names constant passed to new_block_name / new_region_name / new_var_name, with one
    level of parameter resolution through the call sites of the enclosing function."""
    consts = module_str_constants("core/datastructures/block_names.py")
    ns_of = {"new_block_name": "b", "new_region_name": "r", "new_var_name": "v"}
    trees = {rel: parse(rel) for rel in SOURCES}
    # function name → (arg names, [call sites' argument expr lists])
    calls = {}
    for rel, tree in trees.items():
        for node in ast.walk(tree):
            if isinstance(node, ast.Call):
                fn = node.func.attr if isinstance(node.func, ast.Attribute) else (node.func.id if isinstance(node.func, ast.Name) else None)
                if fn:
                    calls.setdefault(fn, []).append(node)
    out, unresolved = [], []

    def resolve(expr, func, depth=0):
        if isinstance(expr, ast.Constant) and isinstance(expr.value, str):
            return [expr.value]
        if isinstance(expr, ast.Attribute) and isinstance(expr.value, ast.Name) and expr.value.id == "block_names" \
                and expr.attr in consts:
            return [consts[expr.attr]]
        if isinstance(expr, ast.Name) and expr.id in consts:
            return [consts[expr.id]]
        if isinstance(expr, ast.Name) and func is not None and depth < 2:
            params = [a.arg for a in func.args.args]
            if expr.id in params:
                idx = params.index(expr.id)
                vals = []
                for c in calls.get(func.name, []):
                    arg = None
                    if idx < len(c.args):
                        arg = c.args[idx]
                    else:
                        for kw in c.keywords:
                            if kw.arg == expr.id:
                                arg = kw.value
                    if arg is None:
                        continue
                    vals += resolve(arg, None, depth + 1)
                if vals:
                    return vals
        return ["?unresolved:" + ast.unparse(expr)]

    for rel, tree in trees.items():
        for func in [n for n in ast.walk(tree) if isinstance(n, (ast.FunctionDef,))]:
            for node in ast.walk(func):
                if isinstance(node, ast.Call) and isinstance(node.func, ast.Attribute) and node.func.attr in ns_of and node.args:
                    for k in resolve(node.args[0], func):
                        item = (ns_of[node.func.attr], k, f"{rel}:{node.lineno}")
                        (unresolved if k.startswith("?unresolved") else out).append(item)
    uniq = sorted({(a, b) for a, b, _ in out})
    return uniq, unresolved, out


# --------------------------------------------------------------------------- C11: dispatch data
def _isinstance_classes(test):
    """`isinstance(node, ast.X)` / `isinstance(node, (ast.X, ast.Y))` → ['X', 'Y'] or None"""
    if not (isinstance(test, ast.Call) and isinstance(test.func, ast.Name) and test.func.id == "isinstance"
            and len(test.args) == 2):
        return None
    spec = test.args[1]
    elts = spec.elts if isinstance(spec, ast.Tuple) else [spec]
    out = []
    for e in elts:
        if isinstance(e, ast.Attribute) and isinstance(e.value, ast.Name) and e.value.id == "ast":
            out.append(e.attr)
        elif isinstance(e, ast.Name):
            out.append(e.id)
        else:
            return None
    return out


def _arm_of_body(body):
    """Classify what an arm of handle_ast_node does."""
    src = "\n".join(ast.unparse(s) for s in body)
    if any(isinstance(s, ast.Raise) for s in body) and "NotImplementedError" in src:
        return "refuse"
    calls = [n.func.attr for s in body for n in ast.walk(s) if isinstance(n, ast.Call) and isinstance(n.func, ast.Attribute)]
    if "handle_function_def" in calls:
        return "funcDef"
    if "handle_if" in calls:
        return "ifS"
    if "handle_while" in calls:
        return "whileS"
    if "handle_for" in calls:
        return "forS"
    if "handle_expression" in calls and "append" in calls:
        return "simple"
    if calls == ["append"]:
        return "noop"
    return "unknown"


def dispatch_data():
    """chain / fallback / nested-def refusal from the source + statement classes of this interpreter."""
    tree = parse("core/datastructures/ast_transforms.py")
    cls = next(n for n in tree.body if isinstance(n, ast.ClassDef) and n.name == "AST2SCFGTransformer")
    fn = next(n for n in cls.body if isinstance(n, ast.FunctionDef) and n.name == "handle_ast_node")
    chain, fallback = [], "unknown"
    node = next((s for s in fn.body if isinstance(s, ast.If)), None)
    while node is not None:
        classes = _isinstance_classes(node.test)
        chain.append((classes or ["?unrecognised-test"], _arm_of_body(node.body) if classes else "unknown"))
        if len(node.orelse) == 1 and isinstance(node.orelse[0], ast.If):
            node = node.orelse[0]
        else:
            fallback = _arm_of_body(node.orelse) if node.orelse else "noop"
            node = None
    # does handle_function_def refuse a definition that is not the outermost statement?
    hfd = next(n for n in cls.body if isinstance(n, ast.FunctionDef) and n.name == "handle_function_def")
    nested = False
    for s in hfd.body:
        if isinstance(s, ast.If) and "self.tree[0]" in ast.unparse(s.test) and "is not" in ast.unparse(s.test) \
                and any(isinstance(x, ast.Raise) and "NotImplementedError" in ast.unparse(x) for x in s.body):
            nested = True
    kinds = []
    import ast as _ast
    for name in sorted(dir(_ast)):
        obj = getattr(_ast, name)
        if isinstance(obj, type) and issubclass(obj, _ast.stmt) and obj is not _ast.stmt:
            kinds.append((name, [c.__name__ for c in obj.__mro__ if c is not object]))
    return {"chain": chain, "fallback": fallback, "nested": nested, "kinds": kinds}


def dispatch_wire(d):
    ch = ",".join("+".join(c) + ":" + a for c, a in d["chain"]) or "-"
    ks = ",".join(n + ":" + "+".join(m) for n, m in d["kinds"]) or "-"
    return f"{ch};{d['fallback']};{'1' if d['nested'] else '0'};{ks}"


# --------------------------------------------------------------------------- C12: set-iteration audit
SET_SOURCES = ["core/datastructures/scfg.py", "core/transformations.py", "core/datastructures/basic_block.py",
               "core/datastructures/flow_info.py", "core/datastructures/ast_transforms.py", "networkx_vendored/scc.py"]
SET_METHODS = {"intersection", "difference", "union", "symmetric_difference", "copy"}


def _ann_is_set(ann):
    if ann is None:
        return False
    s = ast.unparse(ann)
    return s.startswith("Set[") or s.startswith("set[") or s in ("set", "Set")


def _ann_is_setmap(ann):
    if ann is None:
        return False
    s = ast.unparse(ann)
    return "Dict[str, Set[" in s or "dict[str, set[" in s


class _SetSites(ast.NodeVisitor):
    """Per function: infer set-typed names, then list every order-exposing use of a set."""

    def __init__(self, rel):
        self.rel = rel
        self.sites = []

    def visit_FunctionDef(self, fn):
        sets, maps = set(), set()
        for a in fn.args.args:
            if _ann_is_set(a.annotation):
                sets.add(a.arg)
            if _ann_is_setmap(a.annotation):
                maps.add(a.arg)

        def is_set(e):
            if isinstance(e, (ast.Set, ast.SetComp)):
                return True
            if isinstance(e, ast.Name):
                return e.id in sets
            if isinstance(e, ast.Call):
                f = e.func
                if isinstance(f, ast.Name) and f.id in ("set", "frozenset"):
                    return True
                if isinstance(f, ast.Attribute) and f.attr in SET_METHODS and is_set(f.value):
                    return True
                if isinstance(f, ast.Attribute) and f.attr == "reduce":      # functools.reduce(set.intersection, …)
                    return "set." in ast.unparse(e)
            if isinstance(e, ast.BinOp) and isinstance(e.op, (ast.BitAnd, ast.BitOr, ast.Sub)):
                return is_set(e.left) or is_set(e.right)
            if isinstance(e, ast.Subscript) and isinstance(e.value, ast.Name) and e.value.id in maps:
                return True
            return False
        # two passes of name inference (assignments, annotated assignments, defaultdict(set))
        for _ in range(3):
            for n in ast.walk(fn):
                if isinstance(n, ast.Assign) and len(n.targets) == 1 and isinstance(n.targets[0], ast.Tuple) \
                        and isinstance(n.value, ast.Tuple) and len(n.value.elts) == len(n.targets[0].elts):
                    for t, v in zip(n.targets[0].elts, n.value.elts):
                        if isinstance(t, ast.Name) and is_set(v):
                            sets.add(t.id)
                if isinstance(n, ast.Assign) and len(n.targets) == 1 and isinstance(n.targets[0], ast.Tuple) \
                        and isinstance(n.value, ast.Name) and any("Set[" in ast.unparse(a.annotation) for a in fn.args.args if a.annotation):
                    # unpacking an element of a parameter that carries sets: the last target is the set
                    last = n.targets[0].elts[-1]
                    if isinstance(last, ast.Name):
                        sets.add(last.id)
                if isinstance(n, ast.Assign) and len(n.targets) == 1 and isinstance(n.targets[0], ast.Name):
                    if is_set(n.value):
                        sets.add(n.targets[0].id)
                    if isinstance(n.value, ast.Call) and ast.unparse(n.value) == "defaultdict(set)":
                        maps.add(n.targets[0].id)
                    if isinstance(n.value, ast.DictComp) and is_set(n.value.value):
                        maps.add(n.targets[0].id)
                    if isinstance(n.value, ast.Dict) and n.value.values and all(is_set(v) for v in n.value.values):
                        maps.add(n.targets[0].id)
                if isinstance(n, ast.AnnAssign) and isinstance(n.target, ast.Name):
                    if _ann_is_set(n.annotation) or (n.value is not None and is_set(n.value)):
                        sets.add(n.target.id)
                    if _ann_is_setmap(n.annotation):
                        maps.add(n.target.id)
                if isinstance(n, ast.AugAssign) and isinstance(n.target, ast.Name) and is_set(n.value):
                    sets.add(n.target.id)
                # `for k, vs in m.items()` over a set map → vs is a set
                if isinstance(n, (ast.For, ast.comprehension)) and isinstance(n.iter, ast.Call) \
                        and isinstance(n.iter.func, ast.Attribute) and n.iter.func.attr == "items" \
                        and isinstance(n.iter.func.value, ast.Name) and n.iter.func.value.id in maps \
                        and isinstance(n.target, ast.Tuple) and len(n.target.elts) == 2 and isinstance(n.target.elts[1], ast.Name):
                    sets.add(n.target.elts[1].id)
                # `for nodes in <List[Set]>`-style: names annotated List[Set[...]]
                if isinstance(n, ast.AnnAssign) and isinstance(n.target, ast.Name) and "List[Set[" in ast.unparse(n.annotation):
                    maps.add("@listofsets:" + n.target.id)
        listofsets = {m.split(":", 1)[1] for m in maps if m.startswith("@listofsets:")}
        for n in ast.walk(fn):
            if isinstance(n, (ast.For, ast.comprehension)) and isinstance(n.iter, ast.Name) and n.iter.id in listofsets \
                    and isinstance(n.target, ast.Name):
                sets.add(n.target.id)

        def add(node, expr, how):
            self.sites.append({"file": self.rel, "function": fn.name, "line": node.lineno if hasattr(node, "lineno") else 0,
                               "expr": ast.unparse(expr), "use": how})
        parents = {}
        for n in ast.walk(fn):
            for c in ast.iter_child_nodes(n):
                parents[id(c)] = n
        for n in ast.walk(fn):
            if isinstance(n, ast.For) and is_set(n.iter):
                add(n, n.iter, "for")
            if isinstance(n, (ast.ListComp, ast.SetComp, ast.DictComp, ast.GeneratorExp)):
                for g in n.generators:
                    if is_set(g.iter):
                        par = parents.get(id(n))
                        wrapper = "comprehension"
                        if isinstance(n, ast.SetComp):
                            wrapper = "comprehension->set"
                        if isinstance(par, ast.Call) and isinstance(par.func, ast.Name) and par.func.id in ("sorted", "set", "len", "any", "all", "min", "max"):
                            wrapper = "comprehension->" + par.func.id
                            if par.func.id == "sorted" and any(k.arg in ("key", None) for k in par.keywords):
                                wrapper = "comprehension->sorted(key=)"
                        add(g.iter, g.iter, wrapper)
            if isinstance(n, ast.Call):
                f = n.func
                if isinstance(f, ast.Name) and f.id in ("list", "tuple", "sorted", "iter", "enumerate", "deque") and n.args and is_set(n.args[0]):
                    how = f.id
                    if f.id == "sorted" and any(k.arg in ("key", None) for k in n.keywords):
                        # a sort key that is not injective leaves ties in set-iteration order:
                        # `sortNames_perm` speaks about the plain sort only
                        how = "sorted(key=)"
                    par = parents.get(id(n))
                    if f.id == "iter" and isinstance(par, ast.Call) and isinstance(par.func, ast.Name) and par.func.id == "next":
                        how = "next(iter())"
                    add(n, n.args[0], how)
                if isinstance(f, ast.Attribute) and f.attr == "pop" and not n.args and is_set(f.value):
                    add(n, f.value, "pop")
                if isinstance(f, ast.Attribute) and f.attr in ("extend",) and n.args and is_set(n.args[0]):
                    add(n, n.args[0], "extend")
            if isinstance(n, ast.Assign) and isinstance(n.targets[0], (ast.List, ast.Tuple)) and is_set(n.value):
                add(n, n.value, "unpack")
        # nested functions are visited by ast.walk above as part of this function; do not recurse


def set_sites():
    out = []
    for rel in SET_SOURCES:
        v = _SetSites(rel)
        tree = parse(rel)
        for node in ast.walk(tree):
            if isinstance(node, ast.FunctionDef):
                # only outermost functions/methods (nested ones are walked with their parent)
                v.visit_FunctionDef(node)
        seen = set()
        for s in v.sites:
            key = (s["file"], s["line"], s["expr"], s["use"])
            if key not in seen:
                seen.add(key)
                out.append(s)
    return out
