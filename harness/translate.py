"""Translator: regenerates model *data* from /repo's current source on every run (stdlib `ast`
only). Hand-written Lean proves theorems that hold for any such data; verdicts come from
evaluating decidable checks on the regenerated data."""
import ast
import os
from harness import common

PKG = os.path.join(common.REPO, "numba_scfg")


def parse(rel):
    p = os.path.join(PKG, rel)
    return ast.parse(open(p, encoding="utf-8").read(), filename=p)


def module_str_constants(rel):
    """NAME = "literal" assignments at module level."""
    out = {}
    for node in parse(rel).body:
        if isinstance(node, ast.Assign) and len(node.targets) == 1 and isinstance(node.targets[0], ast.Name) \
                and isinstance(node.value, ast.Constant) and isinstance(node.value.value, str):
            out[node.targets[0].id] = node.value.value
    return out


def module_str_sets(rel):
    """NAME = {"a", "b"} assignments at module level (set literals of string constants or of
    names bound to string constants in the same module)."""
    consts = module_str_constants(rel)
    out = {}
    for node in parse(rel).body:
        if isinstance(node, ast.Assign) and len(node.targets) == 1 and isinstance(node.targets[0], ast.Name) \
                and isinstance(node.value, ast.Set):
            vals = []
            for e in node.value.elts:
                if isinstance(e, ast.Constant) and isinstance(e.value, str):
                    vals.append(e.value)
                elif isinstance(e, ast.Name) and e.id in consts:
                    vals.append(consts[e.id])
                else:
                    vals.append("?unresolved:" + ast.unparse(e))
            out[node.targets[0].id] = vals
    return out


SOURCES = ["core/datastructures/scfg.py", "core/transformations.py", "core/datastructures/flow_info.py",
           "core/datastructures/ast_transforms.py", "core/datastructures/byte_flow.py"]


def name_requests():
    """Every (namespace, kind) the library can ask its name generator for: the literal or
    block_names constant passed to new_block_name / new_region_name / new_var_name, with one
    level of parameter resolution through the call sites of the enclosing function."""
    consts = module_str_constants("core/datastructures/block_names.py")
    ns_of = {"new_block_name": "b", "new_region_name": "r", "new_var_name": "v"}
    trees = {rel: parse(rel) for rel in SOURCES}
    # function name → (arg names, [call sites' argument expr lists])
    calls = {}
    for rel, tree in trees.items():
        for node in ast.walk(tree):
            if isinstance(node, ast.Call):
                fn = node.func.attr if isinstance(node.func, ast.Attribute) else (node.func.id if isinstance(node.func, ast.Name) else None)
                if fn:
                    calls.setdefault(fn, []).append(node)
    out, unresolved = [], []

    def resolve(expr, func, depth=0):
        if isinstance(expr, ast.Constant) and isinstance(expr.value, str):
            return [expr.value]
        if isinstance(expr, ast.Attribute) and isinstance(expr.value, ast.Name) and expr.value.id == "block_names" \
                and expr.attr in consts:
            return [consts[expr.attr]]
        if isinstance(expr, ast.Name) and expr.id in consts:
            return [consts[expr.id]]
        if isinstance(expr, ast.Name) and func is not None and depth < 2:
            params = [a.arg for a in func.args.args]
            if expr.id in params:
                idx = params.index(expr.id)
                vals = []
                for c in calls.get(func.name, []):
                    arg = None
                    if idx < len(c.args):
                        arg = c.args[idx]
                    else:
                        for kw in c.keywords:
                            if kw.arg == expr.id:
                                arg = kw.value
                    if arg is None:
                        continue
                    vals += resolve(arg, None, depth + 1)
                if vals:
                    return vals
        return ["?unresolved:" + ast.unparse(expr)]

    for rel, tree in trees.items():
        for func in [n for n in ast.walk(tree) if isinstance(n, (ast.FunctionDef,))]:
            for node in ast.walk(func):
                if isinstance(node, ast.Call) and isinstance(node.func, ast.Attribute) and node.func.attr in ns_of and node.args:
                    for k in resolve(node.args[0], func):
                        item = (ns_of[node.func.attr], k, f"{rel}:{node.lineno}")
                        (unresolved if k.startswith("?unresolved") else out).append(item)
    uniq = sorted({(a, b) for a, b, _ in out})
    return uniq, unresolved, out
