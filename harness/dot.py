"""A parser for the subset of DOT that the `graphviz` Python package emits (no `dot` binary)."""


def tokenize(src):
    toks, i, n = [], 0, len(src)
    while i < n:
        c = src[i]
        if c.isspace():
            i += 1
        elif c == '"':
            j = i + 1
            buf = []
            while j < n and src[j] != '"':
                if src[j] == "\\" and j + 1 < n:
                    buf.append(src[j:j + 2])
                    j += 2
                else:
                    buf.append(src[j])
                    j += 1
            toks.append(("str", "".join(buf)))
            i = j + 1
        elif c in "{}[]=":
            toks.append((c, c))
            i += 1
        elif src.startswith("->", i):
            toks.append(("->", "->"))
            i += 2
        else:
            j = i
            while j < n and not src[j].isspace() and src[j] not in '{}[]="' and not src.startswith("->", j):
                j += 1
            toks.append(("id", src[i:j]))
            i = j
    return toks


def parse(src):
    """returns nodes {name: (cluster, attrs)}, clusters {name: (parent, attrs)}, edges [(src, dst, attrs)]"""
    toks = tokenize(src)
    nodes, clusters, edges = {}, {}, []
    dup_nodes = []
    stack = []
    i = 0
    assert toks[0][1] == "digraph"
    i = 1
    if toks[i][0] != "{":
        i += 1
    i += 1

    def attrs_at(k):
        d = {}
        if k < len(toks) and toks[k][0] == "[":
            k += 1
            while toks[k][0] != "]":
                key = toks[k][1]
                assert toks[k + 1][0] == "="
                d[key] = toks[k + 2][1]
                k += 3
            k += 1
        return d, k
    while i < len(toks):
        t, v = toks[i]
        if t == "}":
            if stack:
                stack.pop()
            i += 1
        elif v == "subgraph" and t == "id":
            name = toks[i + 1][1]
            assert toks[i + 2][0] == "{"
            cname = name[len("cluster_"):] if name.startswith("cluster_") else name
            clusters[cname] = [stack[-1] if stack else "", {}]
            stack.append(cname)
            i += 3
        elif i + 1 < len(toks) and toks[i + 1][0] == "=":
            if stack:
                clusters[stack[-1]][1][v] = toks[i + 2][1]
            i += 3
        elif i + 1 < len(toks) and toks[i + 1][0] == "->":
            dst = toks[i + 2][1]
            a, i = attrs_at(i + 3)
            edges.append((v, dst, a))
        else:
            a, i = attrs_at(i + 1)
            if v in nodes:
                dup_nodes.append(v)
            nodes[v] = (stack[-1] if stack else "", a)
    return nodes, {k: tuple(v) for k, v in clusters.items()}, edges, dup_nodes
