"""Collect the concrete failing inputs found while checking seeded changes (replays/) into the
committed corpus (corpus/graphs.json, corpus/programs.json). Run by hand after seeding rounds;
checks only ever *read* the corpus (it runs first in every check that takes graphs / programs)."""
import glob
import re
import json
import os
import sys
sys.path.insert(0, os.path.dirname(os.path.dirname(os.path.abspath(__file__))))
from harness import gen  # noqa: E402

V = os.path.dirname(os.path.dirname(os.path.abspath(__file__)))
graphs, progs = {}, {}
for f in sorted(glob.glob(os.path.join(V, "replays", "*.json"))):
    try:
        d = json.load(open(f))
    except Exception:  # noqa: BLE001
        continue
    s = d.get("input_succ")
    if isinstance(s, list) and s and all(isinstance(x, list) for x in s) and len(s) <= 14:
        try:
            if gen.closed(s):
                graphs.setdefault(json.dumps(s), d.get("property"))
        except Exception:  # noqa: BLE001
            pass
    src = d.get("source")
    if isinstance(src, str) and (src.startswith("def f(o, x, y)") or src.startswith("def f(x, y, box)")) and len(src) < 1500 and not (re.search(r"\bz\b", src) and src.startswith("def f(o, x, y)") and not src.split("\n")[1].strip().startswith("z =")) and d.get("property") in ("C07", "C08", "C10"):
        progs.setdefault(src, d.get("property"))
os.makedirs(os.path.join(V, "corpus"), exist_ok=True)
old_g = {json.dumps(x["succ"]): x["first_seen_by"] for x in json.load(open(os.path.join(V, "corpus", "graphs.json")))} if os.path.exists(os.path.join(V, "corpus", "graphs.json")) else {}
old_p = {x["source"]: x["first_seen_by"] for x in json.load(open(os.path.join(V, "corpus", "programs.json")))} if os.path.exists(os.path.join(V, "corpus", "programs.json")) else {}
for k, v in graphs.items():
    old_g.setdefault(k, v)
for k, v in progs.items():
    old_p.setdefault(k, v)
json.dump([{"succ": json.loads(k), "first_seen_by": v} for k, v in sorted(old_g.items())], open(os.path.join(V, "corpus", "graphs.json"), "w"), indent=0)
json.dump([{"source": k, "first_seen_by": v} for k, v in sorted(old_p.items())], open(os.path.join(V, "corpus", "programs.json"), "w"), indent=0)
print(len(old_g), "graphs", len(old_p), "programs")
