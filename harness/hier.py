"""Closed-CFG pipeline runs: drive the real join_returns / restructure_loop /
restructure_branch, export every stage, let the verified Lean deciders judge the real outputs."""
import time
import traceback
import multiprocessing as mp
from harness import common, export, gen

STAGES = ("closed", "loop", "branch")


def abort_site(e):
    tb = traceback.extract_tb(e.__traceback__)
    fr = [f for f in tb if "numba_scfg" in f.filename]
    return type(e).__name__ + "@" + ">".join(f"{f.name}" for f in fr[-3:])


class TimeoutAbort(Exception):
    pass


def run_stages(scfg, tags=None, time_limit=20.0):
    """Returns list of (stage, top, line | None, abort | None). Stops at the first abort."""
    import signal

    def on_alarm(signum, frame):
        raise TimeoutAbort("stage exceeded the time limit")
    res = []
    ops = (("closed", scfg.join_returns), ("loop", scfg.restructure_loop), ("branch", scfg.restructure_branch))
    old = signal.signal(signal.SIGALRM, on_alarm)
    try:
        for stage, op in ops:
            signal.setitimer(signal.ITIMER_REAL, time_limit)
            try:
                op()
            except TimeoutAbort:
                res.append((stage, None, None, "Timeout@" + stage))
                break
            except Exception as e:  # noqa: BLE001 - every exception is an abort of the pipeline
                res.append((stage, None, None, abort_site(e)))
                break
            finally:
                signal.setitimer(signal.ITIMER_REAL, 0)
            try:
                top, line = export.export(scfg, tags)
            except export.ExportError as e:
                res.append((stage, None, None, "ExportError:" + str(e)))
                break
            res.append((stage, top, line, None))
    finally:
        signal.signal(signal.SIGALRM, old)
    return res


def parse_chk(reply):
    d = {}
    for kv in reply.split(" "):
        if "=" in kv:
            k, v = kv.split("=", 1)
            d[k] = v
    return d


GENERATED_LOOKING = ["synth_fill_block_0", "synth_asign_block_0", "synth_asign_block_1", "synth_head_block_0",
                     "synth_exit_block_0", "synth_exit_latch_block_0", "synth_tail_block_0", "synth_return_block_0",
                     "loop_region_0", "head_region_0", "branch_region_0", "branch_region_1", "tail_region_0",
                     "synth_fill_block_1", "synth_exiting_latch_block_0"]


def _work(chunk):
    """chunk: list of (idx, tag, succ). Returns list of per-case dicts."""
    drv = common.Driver()
    lines = []
    plan = []   # (case idx, stage) per CHK line index
    cases = []
    for idx, tag, succ in chunk:
        names = None
        if idx % 11 == 5 and len(succ) >= 2:
            # input blocks whose names have the shape of generated names (must be conserved, never
            # overwritten by a block the pipeline inserts)
            names = [str(i) for i in range(len(succ))]
            names[(idx // 11) % len(succ)] = GENERATED_LOOKING[(idx // 11) % len(GENERATED_LOOKING)]
            names[-1 - (idx // 121) % (len(succ) - 1)] = GENERATED_LOOKING[(idx // 7 + 3) % len(GENERATED_LOOKING)]
            if len(set(names)) != len(names):
                names = None
        scfg = export.mk_scfg(succ, names=names, payload="bytecode" if idx % 3 == 1 else "basic")
        gtop, gline = export.export(scfg)
        t0 = time.perf_counter()
        st = run_stages(scfg)
        dt = time.perf_counter() - t0
        case = {"idx": idx, "tag": tag, "succ": succ, "stages": {}, "abort": None, "secs": dt,
                "nblocks": {}}
        lines.append(f"G {gtop} {gline}")
        plan.append(None)
        for stage, top, line, abort in st:
            if abort:
                case["abort"] = (stage, abort)
                break
            lines.append(f"H {top} {line}")
            plan.append(None)
            lines.append("CHK")
            plan.append((len(cases), stage))
            case["nblocks"][stage] = line.count(";") + 1
        cases.append(case)
    replies = drv.run(lines)
    for pl, rep in zip(plan, replies):
        if pl is None:
            if rep != "ok":
                raise common.LeanFailure("driver refused an exported hierarchy", rep)
            continue
        ci, stage = pl
        cases[ci]["stages"][stage] = parse_chk(rep)
    return cases


def run_graphs(inputs, nproc=None):
    """inputs: list of (tag, succ). Returns per-case dicts in input order."""
    nproc = nproc or common.ncpu()
    items = [(i, tag, succ) for i, (tag, succ) in enumerate(inputs)]
    if len(items) < 400 or nproc == 1:
        return _work(items)
    size = max(50, min(2000, len(items) // (nproc * 4) + 1))
    chunks = [items[i:i + size] for i in range(0, len(items), size)]
    with mp.get_context("fork").Pool(nproc) as pool:
        parts = pool.map(_work, chunks)
    out = [c for p in parts for c in p]
    out.sort(key=lambda c: c["idx"])
    return out


def derived_inputs(tier, seed):
    """G4 / G5: closed CFGs derived from real bytecode (standard-library functions) and from
    source (generated functions through the AST front end), as successor-index tuples."""
    import dis
    import random
    import types
    import importlib
    from harness import pygen
    common.import_repo()
    from numba_scfg.core.datastructures.flow_info import FlowInfo
    from numba_scfg.core.datastructures.ast_transforms import AST2SCFG
    rng = random.Random(seed * 613 + 4)
    out = []

    def add(tag, scfg):
        names = list(scfg.graph)
        idx = {n: i for i, n in enumerate(names)}
        try:
            succ = tuple(tuple(idx[t] for t in scfg.graph[n]._jump_targets) for n in names)
        except KeyError:
            return
        if 2 <= len(succ) <= (24 if tier == "quick" else 40) and gen.closed(succ):
            out.append((tag, succ))
    mods = "argparse ast bisect calendar cmd codecs collections copy csv difflib fnmatch fractions heapq inspect json.decoder " \
           "keyword linecache numbers operator pprint random shlex statistics string textwrap tokenize types".split()
    codes = []
    for m in mods:
        try:
            mod = importlib.import_module(m)
        except Exception:  # noqa: BLE001
            continue
        for o in list(vars(mod).values()):
            co = getattr(getattr(o, "__func__", o), "__code__", None)
            if isinstance(co, types.CodeType) and getattr(o, "__module__", None) == m and not getattr(co, "co_exceptiontable", b""):
                codes.append(co)
    rng.shuffle(codes)
    for co in codes[: (250 if tier == "quick" else 2000)]:
        try:
            add("G4-bytecode", FlowInfo.from_bytecode(dis.Bytecode(co)).build_basicblocks())
        except Exception:  # noqa: BLE001
            continue
    for _ in range(250 if tier == "quick" else 3000):
        src = pygen.gen_program(rng, rng.randint(3, 10), depth=rng.choice([2, 3, 4]))
        try:
            add("G5-source", AST2SCFG(src))
        except Exception:  # noqa: BLE001
            continue
    return out


def diag(succ, upto_stage):
    """Re-run one graph and ask the driver for diagnostics at `upto_stage`."""
    drv = common.Driver()
    scfg = export.mk_scfg(succ)
    gtop, gline = export.export(scfg)
    st = run_stages(scfg)
    for stage, top, line, abort in st:
        if stage == upto_stage and line is not None:
            rep = drv.run([f"G {gtop} {gline}", f"H {top} {line}", "CHK", "DIAG"])
            return {"stage": stage, "original": gline, "hierarchy": line, "chk": rep[2], "diag": rep[3]}
        if abort:
            return {"stage": stage, "abort": abort, "original": gline}
    return {}


def shrink(succ, still_fails, budget=300):
    """Greedy delta debugging on a closed CFG: drop an edge or merge away a node while the
    failure persists and the graph stays closed."""
    cur = tuple(tuple(s) for s in succ)
    steps = 0
    improved = True
    while improved and steps < budget:
        improved = False
        n = len(cur)
        cands = []
        # remove node v (redirect nothing; just delete it and its arcs)
        for v in range(1, n):
            new = []
            for u in range(n):
                if u == v:
                    continue
                ss = tuple((t if t < v else t - 1) for t in cur[u] if t != v)
                new.append(ss)
            cands.append(tuple(new))
        for u in range(n):
            for k in range(len(cur[u])):
                ss = cur[u][:k] + cur[u][k + 1:]
                cands.append(cur[:u] + (ss,) + cur[u + 1:])
        for c in cands:
            steps += 1
            if steps > budget:
                break
            if gen.closed(c) and still_fails(c):
                cur = c
                improved = True
                break
    return cur
