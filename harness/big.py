"""Large inputs (beyond the simulation validator's reach): the real pipeline on template-biased random
closed CFGs with 30-120 blocks; every run is (a) judged as a chain of certified steps
(Scfg.C01.certified_run_paths) and (b) searched for a failing input by pseudo-random walks that compare the
trace of the input graph with the walk by name over the final hierarchy, observation by observation.
A differing trace is a concrete counterexample to C01 (replayable); an uncertified chain alone is a note."""
import random
from harness import common, export, gen, steps


def graphs(tier, seed):
    rng = random.Random(seed * 7919 + 5)
    plan = [(30, 8), (50, 5), (80, 3)] if tier == "quick" else [(30, 120), (50, 80), (80, 40), (120, 15)]
    k = common.boost() if tier == "quick" else 1
    out = []
    for n, cnt in plan:
        for _ in range(cnt * k):
            out.append(gen.rand_template(rng, n, fallback=False))
    return out


def real_world(tier, seed):
    """closed CFGs of standard-library functions (bytecode front end) with 25-250 blocks"""
    import dis
    import importlib
    import types
    common.import_repo()
    from numba_scfg.core.datastructures.flow_info import FlowInfo
    mods = "argparse ast calendar cmd codecs collections copy csv difflib fnmatch fractions inspect json.decoder " \
           "linecache pprint random shlex statistics string textwrap tokenize types".split()
    out = []
    for m in mods:
        try:
            mod = importlib.import_module(m)
        except Exception:  # noqa: BLE001
            continue
        objs = list(vars(mod).values())
        for o in list(objs):
            if isinstance(o, type):
                objs += list(vars(o).values())
        for o in objs:
            co = getattr(getattr(o, "__func__", o), "__code__", None)
            if not isinstance(co, types.CodeType) or getattr(co, "co_exceptiontable", b""):
                continue
            try:
                scfg = FlowInfo.from_bytecode(dis.Bytecode(co)).build_basicblocks()
                names = list(scfg.graph)
                idx = {n: i for i, n in enumerate(names)}
                succ = tuple(tuple(idx[t] for t in scfg.graph[n]._jump_targets) for n in names)
            except Exception:  # noqa: BLE001
                continue
            if 25 <= len(succ) <= 250 and gen.closed(succ):
                out.append(succ)
    out = sorted(set(out), key=lambda s: (len(s), s))
    rng = random.Random(seed * 31 + 9)
    rng.shuffle(out)
    return out[: (6 * common.boost() if tier == "quick" else 400)]


def walk_check(succ, walks=(40, 400, 1)):
    """returns (status, detail): status in ok / diff / abort"""
    scfg = export.mk_scfg(succ)
    try:
        top0, line0 = export.export(scfg)
        scfg.join_returns()
        scfg.restructure_loop()
        scfg.restructure_branch()
        top, line = export.export(scfg)
    except Exception as e:  # noqa: BLE001
        return "abort", f"{type(e).__name__}: {e}"
    drv = common.Driver()
    rep = drv.run([f"G {top0} {line0}", f"H {top} {line}", "WALKS %d %d %d" % walks])
    if rep[2] == "ok":
        return "ok", None
    return "diff", rep[2]


def run(tier, seed):
    gs = graphs(tier, seed)
    rw = real_world(tier, seed)
    gs += rw
    stats, uncertified = steps.certify_chains(gs)
    stats["standard_library_functions"] = {"count": len(rw), "blocks": sorted(len(g) for g in rw)}
    viol = []
    nwalk = {"ok": 0, "diff": 0, "abort": 0}
    for g in gs:
        st, detail = walk_check(g)
        nwalk[st] += 1
        if st == "diff":
            first_bad = dict((tuple(s), k) for s, k in uncertified).get(tuple(g))
            viol.append({"succ": [list(s) for s in g], "decisions": detail, "walks": [40, 400, 1],
                         "first_uncertified_step": first_bad})
    stats["sizes"] = sorted({len(g) for g in gs})
    stats["walk_comparisons"] = nwalk
    stats["walks_per_graph"] = 40
    stats["uncertified_examples"] = [{"succ": [list(x) for x in s], "first_uncertified_step": k} for s, k in uncertified[:3]]
    return stats, viol
