"""Input generators. Every random choice derives from one `random.Random(seed)`."""
import itertools
import random


def closed(succ):
    """Closed CFG: node 0 is the only node without predecessors, everything reachable from it,
    every node reaches an exit, at most two distinct ordered successors."""
    n = len(succ)
    preds = [0] * n
    for ss in succ:
        if len(ss) > 2 or len(set(ss)) != len(ss):
            return False
        for v in ss:
            preds[v] += 1
    if [i for i in range(n) if preds[i] == 0] != [0]:
        return False
    seen = {0}
    st = [0]
    while st:
        u = st.pop()
        for v in succ[u]:
            if v not in seen:
                seen.add(v)
                st.append(v)
    if len(seen) != n:
        return False
    exits = [i for i in range(n) if not succ[i]]
    if not exits:
        return False
    rev = [[] for _ in range(n)]
    for u, ss in enumerate(succ):
        for v in ss:
            rev[v].append(u)
    seen = set(exits)
    st = list(exits)
    while st:
        u = st.pop()
        for v in rev[u]:
            if v not in seen:
                seen.add(v)
                st.append(v)
    return len(seen) == n


def node_options(n):
    """All successor tuples of one node: none, one, or two distinct ordered, never node 0
    (node 0 is the entry and has no predecessor)."""
    tgt = range(1, n)
    return [()] + [(a,) for a in tgt] + [(a, b) for a in tgt for b in tgt if a != b]


def all_closed(n, first_options=None):
    """Every labelled closed CFG with n nodes (entry = node 0). `first_options` restricts the
    successor tuples of node 0 (used to shard the enumeration)."""
    opts = node_options(n)
    firsts = first_options if first_options is not None else opts
    for f in firsts:
        for rest in itertools.product(opts, repeat=n - 1):
            succ = (f,) + rest
            if closed(succ):
                yield succ


def rand_closed(rng, n):
    while True:
        succ = []
        for i in range(n):
            k = rng.choice([0, 1, 1, 2, 2, 2]) if i > 0 else rng.choice([1, 2, 2])
            pool = list(range(1, n))
            ts = rng.sample(pool, k) if k <= len(pool) else []
            succ.append(tuple(ts))
        succ = tuple(succ)
        if closed(succ):
            return succ


def rand_template(rng, n, fallback=True):
    """Random closed CFG biased towards shapes that are rare by chance: several entries / exits /
    latches per SCC, irreducible cores, exits landing inside sibling arms, nested loops, self
    loops."""
    for _ in range(200 if fallback else 10 ** 6):
        succ = [list() for _ in range(n)]
        order = list(range(1, n))
        # a spine so that everything is reachable and reaches the last node
        prev = 0
        for v in order:
            succ[prev].append(v)
            prev = v
        extra = rng.randint(n // 2, n + 2)
        for _ in range(extra):
            u = rng.randrange(0, n - 1)
            if len(succ[u]) >= 2:
                continue
            kind = rng.random()
            if kind < 0.15:
                v = u if u != 0 else rng.randrange(1, n)          # self loop
            elif kind < 0.55:
                v = rng.randrange(1, max(2, u + 1))              # backward
            else:
                v = rng.randrange(1, n)                          # anywhere (cross / forward)
            if v == 0 or v in succ[u]:
                continue
            succ[u].append(v)
        for u in range(n):
            if len(succ[u]) == 2 and rng.random() < 0.5:
                succ[u].reverse()
        # sometimes add more exits
        for u in range(1, n - 1):
            if rng.random() < 0.08:
                succ[u] = []
        t = tuple(tuple(s) for s in succ)
        if closed(t):
            return t
    return rand_closed(rng, n)


def sample_closed(rng, n, count):
    seen = set()
    out = []
    tries = 0
    while len(out) < count and tries < count * 50:
        tries += 1
        s = rand_closed(rng, n)
        if s not in seen:
            seen.add(s)
            out.append(s)
    return out


def corpus_graphs():
    """Minimised inputs on which a seeded change once failed (corpus/graphs.json, committed; only
    ever read here). They run first, whatever the seed."""
    import json
    import os
    p = os.path.join(os.path.dirname(os.path.dirname(os.path.abspath(__file__))), "corpus", "graphs.json")
    if not os.path.exists(p):
        return []
    return [tuple(tuple(x) for x in e["succ"]) for e in json.load(open(p)) if closed(e["succ"])]


def many_exit_loop(m, shared_exit=False):
    """entry -> a loop of m blocks, each with its own way out (m exits: value tables with m rows)"""
    succ = [(1,)]
    for i in range(1, m + 1):
        succ.append(((i + 1) if i < m else 1, m + i))
    for _ in range(m):
        succ.append((2 * m + 1,) if shared_exit else ())
    if shared_exit:
        succ.append(())
    return tuple(succ)


def wide_graphs():
    """shapes with wide value tables (9-14 rows), beyond what the random generators reach"""
    return [many_exit_loop(m, sh) for m in (9, 10, 11, 12, 13, 14) for sh in (False, True)]


def graph_inputs(tier, seed):
    """The closed-CFG inputs of one run: list of (generator tag, succ)."""
    rng = random.Random(seed * 1000003 + 17)
    out = [("G0-corpus", s) for s in corpus_graphs()]
    out += [("G0-wide-tables", s) for s in wide_graphs() if closed(s)]
    for n in (1, 2, 3, 4):
        out += [("G1-exhaustive-n%d" % n, s) for s in all_closed(n)]
    if tier == "quick":
        from harness import common
        k = common.boost()
        out += [("G1-sample-n5", s) for s in sample_closed(rng, 5, 3000 * k)]
        out += [("G1-sample-n6", s) for s in sample_closed(rng, 6, 800 * k)]
        for _ in range(1200 * k):
            n = rng.randint(6, 14)
            out.append(("G2-random", rand_closed(rng, n)))
        for _ in range(1200 * k):
            n = rng.randint(6, 24)
            out.append(("G2-template", rand_template(rng, n)))
    else:
        out += [("G1-exhaustive-n5", s) for s in all_closed(5)]
        out += [("G1-sample-n6", s) for s in sample_closed(rng, 6, 20000)]
        for _ in range(10000):
            n = rng.randint(6, 16)
            out.append(("G2-random", rand_closed(rng, n)))
        for _ in range(10000):
            n = rng.randint(6, 28)
            out.append(("G2-template", rand_template(rng, n)))
    return out
