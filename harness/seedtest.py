"""Confirm a seeded change in a scratch worktree and run the registered checks against it.

usage: seedtest.py <seed-id> <property> <worktree> <diff> <demo> [check ids...]
Copies diff+demo into /verif/seeded/<seed-id>/, confirms (tests pass with the change, demo
fails with it and passes without it) inside the worktree, applies the diff to /repo, runs the
given checks (default: all in MANIFEST), reverts /repo, writes meta.json.
"""
import json
import os
import shutil
import subprocess
import sys
import time

VERIF = "/verif"


def sh(cmd, cwd=None, env=None, timeout=3000):
    p = subprocess.run(cmd, shell=True, cwd=cwd, env=env, capture_output=True, text=True, timeout=timeout)
    return p.returncode, (p.stdout + p.stderr)


def main():
    sid, prop, wt, diff, demo = sys.argv[1:6]
    checks = sys.argv[6:]
    if not checks:
        man = json.load(open(os.path.join(VERIF, "MANIFEST.json")))
        checks = [c["property_id"] for c in man["checks"]]
    out = os.path.join(VERIF, "seeded", sid)
    os.makedirs(out, exist_ok=True)
    shutil.copy(diff, os.path.join(out, "patch.diff"))
    shutil.copy(demo, os.path.join(out, "demo.py"))
    env = dict(os.environ, PYTHONPATH=wt)
    meta = {"id": sid, "breaks_property": prop, "confirmed": {}, "checks": {}}
    # --- confirm in the worktree
    sh("git checkout -- .", cwd=wt)
    rc0, o0 = sh(f"/venv/bin/python {demo}", cwd=wt, env=env)
    meta["confirmed"]["demo_passes_without_change"] = rc0 == 0
    rc, o = sh(f"git apply {diff}", cwd=wt)
    assert rc == 0, o
    rct, ot = sh("/venv/bin/python -m pytest -q -p no:cacheprovider -x 2>&1 | tail -3", cwd=wt, env=env)
    meta["confirmed"]["tests_pass_with_change"] = " passed" in ot and "failed" not in ot
    meta["confirmed"]["pytest_tail"] = ot.strip().split("\n")[-1]
    rc1, o1 = sh(f"/venv/bin/python {demo}", cwd=wt, env=env)
    meta["confirmed"]["demo_fails_with_change"] = rc1 != 0
    sh("git checkout -- .", cwd=wt)
    # --- run the checks against /repo with the change
    rc, o = sh("git status --porcelain", cwd="/repo")
    assert o.strip() == "", "/repo not clean: " + o
    rc, o = sh(f"git apply {os.path.join(out, 'patch.diff')}", cwd="/repo")
    assert rc == 0, o
    try:
        for c in checks:
            t = time.time()
            rc, o = sh(f"./check {c} --tier quick", cwd=VERIF)
            lines = [ln for ln in o.split("\n") if ln.startswith("VIOLATION") or ln.startswith("KNOWN-FINDING")]
            meta["checks"][c] = {"exit": rc, "lines": lines[:6], "secs": round(time.time() - t, 1)}
            print(c, rc, lines[:2], flush=True)
    finally:
        sh("git checkout -- .", cwd="/repo")
    meta["caught_by"] = [c for c, r in meta["checks"].items() if r["exit"] == 1]
    json.dump(meta, open(os.path.join(out, "meta.json"), "w"), indent=1)
    print("confirmed:", meta["confirmed"])
    print("caught by:", meta["caught_by"])


main()
