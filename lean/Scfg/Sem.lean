import Scfg.Sim
/-!
# Execution semantics of graphs and region hierarchies (specification level)

* `sysOrig G` — the input graph: states are block names, the i-th decision takes the i-th
  successor.
* `sysName H` — a (partially) restructured hierarchy walked **by name**: take the i-th
  `_jump_targets` entry of the current original block, resolve region names through their
  header chain, run through synthetic blocks (assignments update the valuation, branching
  blocks look their variable up in their value table) until the next original block.
* `sysRegion H` — the same hierarchy walked **region by region**: a target is looked up in the
  block's own level only; a block that names something outside its level must be the declared
  `exiting` block of its region and control continues at the region's *own* target in the same
  position; taking a back edge propagates up to the owning `loop` region, which is re-entered
  at its declared `header`.

Every way of going wrong is an `err` state with a message; nothing is defaulted.
-/
namespace Scfg

/-- State of a walk over a hierarchy. -/
inductive WState
  | at (b : Name) (val : Val)
  | halt
  | err (ctl : Bool) (msg : String)
  deriving DecidableEq, Repr, Inhabited, Hashable

/-! ## The original graph -/

/-- States: `some n` = at block `n`; `none` = fell off the graph (never reached in a run). -/
def sysOrig (G : Hier) : Sys (Option Name) where
  obs := fun s => match s with
    | none => .err false "orig:no-such-block"
    | some n => match G.get? n with
      | none => .err false "orig:no-such-block"
      | some b => .blk n b.jts.length
  step := fun s i => match s with
    | none => none
    | some n => match G.get? n with
      | none => none
      | some b => b.jts[i]?

/-- The unique entry of a flat graph: the block no block names. -/
def findHeadOf (lvl : List Blk) : Option Name :=
  match lvl.filter (fun b => !(lvl.any fun a => a.jt.contains b.name)) with
  | [h] => some h.name
  | _ => none

/-! ## Walking by name -/

/-- Descend from a name through region headers to a non-region block (hierarchy-wide lookup). -/
def resolve (H : Hier) : Nat → Name → Option Blk
  | 0, _ => none
  | f + 1, n => match H.get? n with
    | none => none
    | some b => if b.isRegion then resolve H f b.header else some b

/-- Control-variable part of executing a synthetic block: the new valuation and the index of
    the `_jump_targets` entry taken (`Except.ok none` = block has no successor: halt). -/
def synthExec (consume : Bool) (b : Blk) (val : Val) : Except (Bool × String) (Val × Option Nat) :=
  if b.kind.isBranching then
    match val.get? b.var with
    | none => .error (true, s!"ctl:unset {b.name} {b.var}")
    | some x =>
      match (b.tbl.find? (fun p => p.1 == x)).map (·.2) with
      | none => .error (true, s!"ctl:not-a-key {b.name} {b.var}={x}")
      | some t =>
        match idxOf b.jts t with
        | none => .error (true, s!"ctl:table-entry-not-a-successor {b.name} {t}")
        | some i =>
          let val' := if consume && b.kind == .synthLatch then val.erase b.var else val
          .ok (val', some i)
  else
    let val' := if b.kind == .synthAssign then val.setAll b.asg else val
    match b.jts with
    | [] => .ok (val', none)
    | [_] => .ok (val', some 0)
    | _ => .error (false, s!"synthetic-block-with-several-successors {b.name}")

/-- Run through synthetic blocks, by name, until an original block or a halt. -/
def advanceName (H : Hier) (consume : Bool) : Nat → Name → Val → WState
  | 0, n, _ => .err false s!"out-of-fuel at {n}"
  | f + 1, n, val =>
    match resolve H (H.length + 1) n with
    | none => .err false s!"dangling {n}"
    | some b =>
      if b.isOrig then .at b.name val
      else match synthExec consume b val with
        | .error e => .err e.1 e.2
        | .ok (_, none) => .halt
        | .ok (val', some i) =>
          match b.jts[i]? with
          | none => .err false s!"bad-index {b.name}"
          | some t => advanceName H consume f t val'

def walkFuel (H : Hier) : Nat := 4 * H.length + 16

/-- Number of decisions an original block offers in the hierarchy: its successor count, except
    that a block whose single continuation halts without meeting another original block offers
    none (an exit of the input may have gained the edge to the common synthetic return). -/
def arityIn (next : Nat → WState) (b : Blk) : Nat :=
  match b.jts with
  | [_] => if next 0 == .halt then 0 else 1
  | js => js.length

def obsOf (H : Hier) (next : Blk → Val → Nat → WState) : WState → Obs
  | .halt => .halt
  | .err c m => .err c m
  | .at n val => match H.get? n with
    | none => .err false s!"no-such-block {n}"
    | some b => .blk n (arityIn (next b val) b)

def stepName (H : Hier) (consume : Bool) (b : Blk) (val : Val) (i : Nat) : WState :=
  match b.jts[i]? with
  | none => .err false s!"bad-index {b.name}"
  | some t => advanceName H consume (walkFuel H) t val

def sysName (H : Hier) (consume : Bool) : Sys WState where
  obs := obsOf H (stepName H consume)
  step := fun s i => match s with
    | .at n val => match H.get? n with
      | none => .err false s!"no-such-block {n}"
      | some b => stepName H consume b val i
    | s => s

/-- Start state of a walk by name: enter at the head of the top level. -/
def initName (H : Hier) (top : Name) (consume : Bool) : WState :=
  match findHeadOf (H.level top) with
  | none => .err false "no-unique-head"
  | some h => advanceName H consume (walkFuel H) h []

/-! ## Walking region by region -/

/-- Enter a block of level `c`: descend the declared headers, each looked up inside the region
    it belongs to. -/
def enter (H : Hier) : Nat → Name → Name → Except String Blk
  | 0, _, n => .error s!"header-chain-too-deep {n}"
  | f + 1, c, n => match H.getIn? c n with
    | none => .error s!"not-in-level {c} {n}"
    | some b => if b.isRegion then enter H f b.name b.header else .ok b

/-- `cur` (a block or region of level `cur.cont`) continues at target `t`
    (`isBe`: through a declared back edge). -/
def leave (H : Hier) : Nat → Blk → Name → Bool → Except String Blk
  | 0, cur, _, _ => .error s!"nesting-too-deep {cur.name}"
  | f + 1, cur, t, isBe =>
    if !isBe && (H.getIn? cur.cont t).isSome then enter H (H.length + 1) cur.cont t
    else match H.get? cur.cont with
      | none => .error (if isBe then s!"backedge-at-top {cur.name}" else s!"dangling-at-top {cur.name} {t}")
      | some R =>
        if !R.isRegion then .error s!"container-not-a-region {R.name}"
        else if R.exiting != cur.name then .error s!"leaves-but-not-exiting {R.name} {cur.name} {t}"
        else if isBe then
          if R.rkind == "loop" then enter H (H.length + 1) R.name R.header
          else leave H f R t true
        else match idxOf cur.jt t with
          | none => .error s!"target-not-among-jump-targets {cur.name} {t}"
          | some pos =>
            if R.jt.length != cur.jt.length then .error s!"region-target-arity {R.name}"
            else match R.jt[pos]? with
              | none => .error s!"region-target-arity {R.name}"
              | some t' => leave H f R t' false

/-- Leaf `b` takes its i-th `_jump_targets` entry, region by region. -/
def regionStep (H : Hier) (b : Blk) (i : Nat) : Except String Blk :=
  match b.jts[i]? with
  | none => .error s!"bad-index {b.name}"
  | some t => leave H (H.length + 1) b t (b.bes.contains t)

def advanceRegion (H : Hier) (consume : Bool) : Nat → Blk → Val → WState
  | 0, b, _ => .err false s!"out-of-fuel at {b.name}"
  | f + 1, b, val =>
    if b.isOrig then .at b.name val
    else match synthExec consume b val with
      | .error e => .err e.1 e.2
      | .ok (_, none) => .halt
      | .ok (val', some i) =>
        match regionStep H b i with
        | .error e => .err false e
        | .ok b' => advanceRegion H consume f b' val'

def stepRegion (H : Hier) (consume : Bool) (b : Blk) (val : Val) (i : Nat) : WState :=
  match regionStep H b i with
  | .error e => .err false e
  | .ok b' => advanceRegion H consume (walkFuel H) b' val

def sysRegion (H : Hier) (consume : Bool) : Sys WState where
  obs := obsOf H (stepRegion H consume)
  step := fun s i => match s with
    | .at n val => match H.get? n with
      | none => .err false s!"no-such-block {n}"
      | some b => stepRegion H consume b val i
    | s => s

def initRegion (H : Hier) (top : Name) (consume : Bool) : WState :=
  match findHeadOf (H.level top) with
  | none => .err false "no-unique-head"
  | some h => match enter H (H.length + 1) top h with
    | .error e => .err false e
    | .ok b => advanceRegion H consume (walkFuel H) b []

/-! ## The deciders used for C01 / C06 -/

def simFuel (G H : Hier) : Nat := 64 * (G.length + 1) * (H.length + 1) + 1024

/-- Entry of the original graph. -/
def initOrig (G : Hier) (top : Name) : Option Name := findHeadOf (G.level top)

def simNameOK (G H : Hier) (gtop htop : Name) (consume : Bool) : Bool :=
  simOKc (sysOrig G) (sysName H consume) (initOrig G gtop) (initName H htop consume) (simFuel G H)

def simRegionOK (G H : Hier) (gtop htop : Name) (consume : Bool) : Bool :=
  simOKc (sysOrig G) (sysRegion H consume) (initOrig G gtop) (initRegion H htop consume)
    (simFuel G H)

end Scfg
