import Scfg.Basic
/-!
# Decision-driven transition systems, traces, and a verified simulation checker

`verifySim` only *checks* that a candidate relation `R` contains the start pair and is closed
under every decision with equal observations. `verifySim_sound` turns one successful check
into trace equality for **all** decision sequences of any length. `R` may come from any
(unverified) search.
-/
namespace Scfg

/-- What an observer sees in a state. `blk n k`: original block `n` is executing and offers
    `k` decisions. Only `blk` states can be continued. -/
inductive Obs
  | blk (n : Name) (arity : Nat)
  | halt
  | err (ctl : Bool) (msg : String)
  deriving DecidableEq, Repr, Inhabited

def Obs.arity : Obs → Nat
  | .blk _ k => k
  | _ => 0

def Obs.isErr : Obs → Bool
  | .err _ _ => true
  | _ => false

/-- A control-variable error: a branching block read an unset variable, a value that is not a
    key of its table, or a table entry that is not one of its successors. -/
def Obs.isCtlErr : Obs → Bool
  | .err ctl _ => ctl
  | _ => false

structure Sys (σ : Type) where
  obs : σ → Obs
  /-- successor under the `i`-th decision; only consulted for `i < (obs s).arity` -/
  step : σ → Nat → σ

/-- The trace under a decision sequence. A decision outside the offered range ends the run
    (so does arity 0): "execution stops exactly where the original stops". -/
def run {σ : Type} (S : Sys σ) : σ → List Nat → List Obs
  | s, [] => [S.obs s]
  | s, d :: ds => S.obs s :: (if d < (S.obs s).arity then run S (S.step s d) ds else [])

/-- The pair is locally fine and all its successor pairs are again in `R`. -/
def pairOk {α β : Type} [BEq α] [BEq β] (A : Sys α) (B : Sys β) (R : List (α × β))
    (p : α × β) : Bool :=
  A.obs p.1 == B.obs p.2 &&
  (List.range (A.obs p.1).arity).all fun i => R.contains (A.step p.1 i, B.step p.2 i)

def verifySim {α β : Type} [BEq α] [BEq β] (A : Sys α) (B : Sys β) (R : List (α × β))
    (a0 : α) (b0 : β) : Bool :=
  R.contains (a0, b0) && R.all (pairOk A B R)

theorem run_eq_of_mem {α β : Type} [BEq α] [BEq β] [LawfulBEq α] [LawfulBEq β]
    (A : Sys α) (B : Sys β) (R : List (α × β))
    (hR : R.all (pairOk A B R) = true) :
    ∀ (ds : List Nat) (a : α) (b : β), (a, b) ∈ R → run A a ds = run B b ds := by
  intro ds
  induction ds with
  | nil =>
    intro a b hab
    have h := List.all_eq_true.mp hR (a, b) hab
    simp only [pairOk, Bool.and_eq_true, beq_iff_eq] at h
    simp [run, h.1]
  | cons d ds ih =>
    intro a b hab
    have h := List.all_eq_true.mp hR (a, b) hab
    simp only [pairOk, Bool.and_eq_true, beq_iff_eq, List.all_eq_true, List.mem_range] at h
    obtain ⟨ho, hs⟩ := h
    simp only [run, ← ho]
    by_cases hd : d < (A.obs a).arity
    · have hm := hs d hd
      have hm' : (A.step a d, B.step b d) ∈ R := by
        simpa [List.contains_iff_mem] using hm
      simp [hd, ih _ _ hm']
    · simp [hd]

/-- One successful closure check ⇒ equal traces under every decision sequence. -/
theorem verifySim_sound {α β : Type} [BEq α] [BEq β] [LawfulBEq α] [LawfulBEq β]
    (A : Sys α) (B : Sys β) (R : List (α × β)) (a0 : α) (b0 : β)
    (h : verifySim A B R a0 b0 = true) : ∀ ds, run A a0 ds = run B b0 ds := by
  simp only [verifySim, Bool.and_eq_true] at h
  intro ds
  exact run_eq_of_mem A B R h.2 ds a0 b0 (by simpa [List.contains_iff_mem] using h.1)

/-- Untrusted worklist search for a candidate relation: explores the product from the start
    pair, following the decisions the *left* system offers. -/
def buildSim {α β : Type} [BEq α] [BEq β] (A : Sys α) (B : Sys β) :
    Nat → List (α × β) → List (α × β) → List (α × β)
  | 0, _, seen => seen
  | _ + 1, [], seen => seen
  | f + 1, p :: todo, seen =>
    if seen.contains p then buildSim A B f todo seen
    else
      let succs := (List.range (A.obs p.1).arity).map fun i => (A.step p.1 i, B.step p.2 i)
      buildSim A B f (succs ++ todo) (p :: seen)

/-- Search, then verify. Only the verification matters for soundness. -/
def simOK {α β : Type} [BEq α] [BEq β] (A : Sys α) (B : Sys β) (a0 : α) (b0 : β)
    (fuel : Nat) : Bool :=
  verifySim A B (buildSim A B fuel [(a0, b0)] []) a0 b0

theorem simOK_sound {α β : Type} [BEq α] [BEq β] [LawfulBEq α] [LawfulBEq β]
    (A : Sys α) (B : Sys β) (a0 : α) (b0 : β) (fuel : Nat)
    (h : simOK A B a0 b0 fuel = true) : ∀ ds, run A a0 ds = run B b0 ds :=
  verifySim_sound A B _ a0 b0 h

/-! ## Invariants of one system: a verified closed-set check -/

/-- `R` contains the start state, no state of `R` shows a `bad` observation, and `R` is closed
    under every decision its states offer. -/
def invOK {σ : Type} [BEq σ] (S : Sys σ) (bad : Obs → Bool) (R : List σ) (s0 : σ) : Bool :=
  R.contains s0 &&
  R.all fun s => !bad (S.obs s) && (List.range (S.obs s).arity).all fun i => R.contains (S.step s i)

theorem invOK_mem {σ : Type} [BEq σ] [LawfulBEq σ] (S : Sys σ) (bad : Obs → Bool) (R : List σ)
    (hR : (R.all fun s => !bad (S.obs s) &&
      (List.range (S.obs s).arity).all fun i => R.contains (S.step s i)) = true) :
    ∀ (ds : List Nat) (s : σ), s ∈ R → ∀ o ∈ run S s ds, bad o = false := by
  intro ds
  induction ds with
  | nil =>
    intro s hs o ho
    have h := List.all_eq_true.mp hR s hs
    simp only [Bool.and_eq_true, Bool.not_eq_true'] at h
    simp only [run, List.mem_singleton] at ho
    rw [ho]; exact h.1
  | cons d ds ih =>
    intro s hs o ho
    have h := List.all_eq_true.mp hR s hs
    simp only [Bool.and_eq_true, Bool.not_eq_true', List.all_eq_true, List.mem_range] at h
    simp only [run, List.mem_cons] at ho
    rcases ho with ho | ho
    · rw [ho]; exact h.1
    · split at ho
      · next hd =>
        have hm : S.step s d ∈ R := by simpa [List.contains_iff_mem] using h.2 d hd
        exact ih _ hm o ho
      · simp at ho

/-- One successful closed-set check ⇒ no `bad` observation on any run, of any length. -/
theorem invOK_sound {σ : Type} [BEq σ] [LawfulBEq σ] (S : Sys σ) (bad : Obs → Bool) (R : List σ)
    (s0 : σ) (h : invOK S bad R s0 = true) : ∀ ds, ∀ o ∈ run S s0 ds, bad o = false := by
  simp only [invOK, Bool.and_eq_true] at h
  intro ds
  exact invOK_mem S bad R h.2 ds s0 (by simpa [List.contains_iff_mem] using h.1)

/-- Untrusted worklist search for the reachable states. -/
def buildReach {σ : Type} [BEq σ] (S : Sys σ) : Nat → List σ → List σ → List σ
  | 0, _, seen => seen
  | _ + 1, [], seen => seen
  | f + 1, s :: todo, seen =>
    if seen.contains s then buildReach S f todo seen
    else buildReach S f ((List.range (S.obs s).arity).map (S.step s) ++ todo) (s :: seen)

def reachOK {σ : Type} [BEq σ] (S : Sys σ) (bad : Obs → Bool) (s0 : σ) (fuel : Nat) : Bool :=
  invOK S bad (buildReach S fuel [s0] []) s0

theorem reachOK_sound {σ : Type} [BEq σ] [LawfulBEq σ] (S : Sys σ) (bad : Obs → Bool) (s0 : σ)
    (fuel : Nat) (h : reachOK S bad s0 fuel = true) : ∀ ds, ∀ o ∈ run S s0 ds, bad o = false :=
  invOK_sound S bad _ s0 h

/-- The first pair of the candidate relation that is not locally fine (diagnostics only). -/
def firstBad {α β : Type} [BEq α] [BEq β] (A : Sys α) (B : Sys β) (R : List (α × β)) :
    Option (α × β) :=
  R.find? (fun p => !(A.obs p.1 == B.obs p.2))

end Scfg
