import Scfg.Basic
import Std.Data.HashMap
/-!
# Decision-driven transition systems, traces, and a verified simulation checker

`verifySim` only *checks* that a candidate relation `R` contains the start pair and is closed
under every decision with equal observations. `verifySim_sound` turns one successful check
into trace equality for **all** decision sequences of any length. `R` may come from any
(unverified) search.
-/
namespace Scfg

/-- What an observer sees in a state. `blk n k`: original block `n` is executing and offers
    `k` decisions. Only `blk` states can be continued. -/
inductive Obs
  | blk (n : Name) (arity : Nat)
  | halt
  | err (ctl : Bool) (msg : String)
  deriving DecidableEq, Repr, Inhabited

def Obs.arity : Obs → Nat
  | .blk _ k => k
  | _ => 0

def Obs.isErr : Obs → Bool
  | .err _ _ => true
  | _ => false

/-- A control-variable error: a branching block read an unset variable, a value that is not a
    key of its table, or a table entry that is not one of its successors. -/
def Obs.isCtlErr : Obs → Bool
  | .err ctl _ => ctl
  | _ => false

structure Sys (σ : Type) where
  obs : σ → Obs
  /-- successor under the `i`-th decision; only consulted for `i < (obs s).arity` -/
  step : σ → Nat → σ

/-- The trace under a decision sequence. A decision outside the offered range ends the run
    (so does arity 0): "execution stops exactly where the original stops". -/
def run {σ : Type} (S : Sys σ) : σ → List Nat → List Obs
  | s, [] => [S.obs s]
  | s, d :: ds => S.obs s :: (if d < (S.obs s).arity then run S (S.step s d) ds else [])

/-- The pair is locally fine and all its successor pairs are again in `R`. -/
def pairOk {α β : Type} [BEq α] [BEq β] (A : Sys α) (B : Sys β) (R : List (α × β))
    (p : α × β) : Bool :=
  A.obs p.1 == B.obs p.2 &&
  (List.range (A.obs p.1).arity).all fun i => R.contains (A.step p.1 i, B.step p.2 i)

def verifySim {α β : Type} [BEq α] [BEq β] (A : Sys α) (B : Sys β) (R : List (α × β))
    (a0 : α) (b0 : β) : Bool :=
  R.contains (a0, b0) && R.all (pairOk A B R)

theorem run_eq_of_mem {α β : Type} [BEq α] [BEq β] [LawfulBEq α] [LawfulBEq β]
    (A : Sys α) (B : Sys β) (R : List (α × β))
    (hR : R.all (pairOk A B R) = true) :
    ∀ (ds : List Nat) (a : α) (b : β), (a, b) ∈ R → run A a ds = run B b ds := by
  intro ds
  induction ds with
  | nil =>
    intro a b hab
    have h := List.all_eq_true.mp hR (a, b) hab
    simp only [pairOk, Bool.and_eq_true, beq_iff_eq] at h
    simp [run, h.1]
  | cons d ds ih =>
    intro a b hab
    have h := List.all_eq_true.mp hR (a, b) hab
    simp only [pairOk, Bool.and_eq_true, beq_iff_eq, List.all_eq_true, List.mem_range] at h
    obtain ⟨ho, hs⟩ := h
    simp only [run, ← ho]
    by_cases hd : d < (A.obs a).arity
    · have hm := hs d hd
      have hm' : (A.step a d, B.step b d) ∈ R := by
        simpa [List.contains_iff_mem] using hm
      simp [hd, ih _ _ hm']
    · simp [hd]

/-- One successful closure check ⇒ equal traces under every decision sequence. -/
theorem verifySim_sound {α β : Type} [BEq α] [BEq β] [LawfulBEq α] [LawfulBEq β]
    (A : Sys α) (B : Sys β) (R : List (α × β)) (a0 : α) (b0 : β)
    (h : verifySim A B R a0 b0 = true) : ∀ ds, run A a0 ds = run B b0 ds := by
  simp only [verifySim, Bool.and_eq_true] at h
  intro ds
  exact run_eq_of_mem A B R h.2 ds a0 b0 (by simpa [List.contains_iff_mem] using h.1)

/-! ## The same check with a certificate: `R` as an array plus, for every pair and decision, the
index of the successor pair. Checking is linear in the size of `R`; the certificate comes from
an untrusted hash-based search. -/

theorem run_eq_of_closed {α β : Type} (A : Sys α) (B : Sys β) (P : α × β → Prop)
    (hobs : ∀ p, P p → A.obs p.1 = B.obs p.2)
    (hstep : ∀ p, P p → ∀ i, i < (A.obs p.1).arity → P (A.step p.1 i, B.step p.2 i)) :
    ∀ (ds : List Nat) (a : α) (b : β), P (a, b) → run A a ds = run B b ds := by
  intro ds
  induction ds with
  | nil => intro a b h; simp [run, hobs _ h]
  | cons d ds ih =>
    intro a b h
    have ho := hobs _ h
    simp only [run, ← ho]
    by_cases hd : d < (A.obs a).arity
    · simp [hd, ih _ _ (hstep _ h d hd)]
    · simp [hd]

def verifyCert {α β : Type} [BEq α] [BEq β] (A : Sys α) (B : Sys β) (R : Array (α × β))
    (cert : Array (List Nat)) (a0 : α) (b0 : β) : Bool :=
  (R[0]? == some (a0, b0)) &&
  (List.range R.size).all fun k =>
    match R[k]?, cert[k]? with
    | some p, some js =>
      A.obs p.1 == B.obs p.2 &&
      (List.range (A.obs p.1).arity).all fun i =>
        match js[i]? with
        | some j => R[j]? == some (A.step p.1 i, B.step p.2 i)
        | none => false
    | _, _ => false

theorem verifyCert_sound {α β : Type} [BEq α] [BEq β] [LawfulBEq α] [LawfulBEq β]
    (A : Sys α) (B : Sys β) (R : Array (α × β)) (cert : Array (List Nat)) (a0 : α) (b0 : β)
    (h : verifyCert A B R cert a0 b0 = true) : ∀ ds, run A a0 ds = run B b0 ds := by
  simp only [verifyCert, Bool.and_eq_true, beq_iff_eq, List.all_eq_true, List.mem_range] at h
  obtain ⟨h0, hall⟩ := h
  intro ds
  refine run_eq_of_closed A B (fun p => ∃ k, R[k]? = some p) ?_ ?_ ds a0 b0 ⟨0, h0⟩
  · rintro p ⟨k, hk⟩
    have hlt : k < R.size := by
      rcases Nat.lt_or_ge k R.size with h | h
      · exact h
      · rw [Array.getElem?_eq_none h] at hk; cases hk
    have := hall k hlt
    rw [hk] at this
    split at this
    · next p' js hp hj =>
      simp only [Option.some.injEq] at hp
      subst hp
      simp only [Bool.and_eq_true, beq_iff_eq] at this
      exact this.1
    · simp at this
  · rintro p ⟨k, hk⟩ i hi
    have hlt : k < R.size := by
      rcases Nat.lt_or_ge k R.size with h | h
      · exact h
      · rw [Array.getElem?_eq_none h] at hk; cases hk
    have := hall k hlt
    rw [hk] at this
    split at this
    · next p' js hp hj =>
      simp only [Option.some.injEq] at hp
      subst hp
      simp only [Bool.and_eq_true, beq_iff_eq, List.all_eq_true, List.mem_range] at this
      have h2 := this.2 i hi
      split at h2
      · next j hjj => exact ⟨j, by simpa using h2⟩
      · simp at h2
    · simp at this

/-- Untrusted hash-based search: breadth-first over the product, recording successor indices. -/
def buildCert {α β : Type} [BEq α] [BEq β] [Hashable α] [Hashable β] (A : Sys α) (B : Sys β)
    (a0 : α) (b0 : β) (limit : Nat) : Array (α × β) × Array (List Nat) := Id.run do
  let mut R : Array (α × β) := #[(a0, b0)]
  let mut idx : Std.HashMap (α × β) Nat := Std.HashMap.emptyWithCapacity 64 |>.insert (a0, b0) 0
  let mut cert : Array (List Nat) := #[]
  let mut k := 0
  while k < R.size && k < limit do
    match R[k]? with
    | none => pure ()
    | some p =>
      let mut js : List Nat := []
      for i in List.range (A.obs p.1).arity do
        let q := (A.step p.1 i, B.step p.2 i)
        match idx[q]? with
        | some j => js := js ++ [j]
        | none =>
          let j := R.size
          R := R.push q
          idx := idx.insert q j
          js := js ++ [j]
      cert := cert.push js
    k := k + 1
  return (R, cert)

def simOKc {α β : Type} [BEq α] [BEq β] [Hashable α] [Hashable β] (A : Sys α) (B : Sys β)
    (a0 : α) (b0 : β) (limit : Nat) : Bool :=
  let (R, cert) := buildCert A B a0 b0 limit
  verifyCert A B R cert a0 b0

theorem simOKc_sound {α β : Type} [BEq α] [BEq β] [LawfulBEq α] [LawfulBEq β] [Hashable α]
    [Hashable β] (A : Sys α) (B : Sys β) (a0 : α) (b0 : β) (limit : Nat)
    (h : simOKc A B a0 b0 limit = true) : ∀ ds, run A a0 ds = run B b0 ds := by
  unfold simOKc at h
  exact verifyCert_sound A B _ _ a0 b0 h

/-- Untrusted worklist search for a candidate relation: explores the product from the start
    pair, following the decisions the *left* system offers. -/
def buildSim {α β : Type} [BEq α] [BEq β] (A : Sys α) (B : Sys β) :
    Nat → List (α × β) → List (α × β) → List (α × β)
  | 0, _, seen => seen
  | _ + 1, [], seen => seen
  | f + 1, p :: todo, seen =>
    if seen.contains p then buildSim A B f todo seen
    else
      let succs := (List.range (A.obs p.1).arity).map fun i => (A.step p.1 i, B.step p.2 i)
      buildSim A B f (succs ++ todo) (p :: seen)

/-- Search, then verify. Only the verification matters for soundness. -/
def simOK {α β : Type} [BEq α] [BEq β] (A : Sys α) (B : Sys β) (a0 : α) (b0 : β)
    (fuel : Nat) : Bool :=
  verifySim A B (buildSim A B fuel [(a0, b0)] []) a0 b0

theorem simOK_sound {α β : Type} [BEq α] [BEq β] [LawfulBEq α] [LawfulBEq β]
    (A : Sys α) (B : Sys β) (a0 : α) (b0 : β) (fuel : Nat)
    (h : simOK A B a0 b0 fuel = true) : ∀ ds, run A a0 ds = run B b0 ds :=
  verifySim_sound A B _ a0 b0 h

/-! ## Invariants of one system: a verified closed-set check -/

/-- `R` contains the start state, no state of `R` shows a `bad` observation, and `R` is closed
    under every decision its states offer. -/
def invOK {σ : Type} [BEq σ] (S : Sys σ) (bad : Obs → Bool) (R : List σ) (s0 : σ) : Bool :=
  R.contains s0 &&
  R.all fun s => !bad (S.obs s) && (List.range (S.obs s).arity).all fun i => R.contains (S.step s i)

theorem invOK_mem {σ : Type} [BEq σ] [LawfulBEq σ] (S : Sys σ) (bad : Obs → Bool) (R : List σ)
    (hR : (R.all fun s => !bad (S.obs s) &&
      (List.range (S.obs s).arity).all fun i => R.contains (S.step s i)) = true) :
    ∀ (ds : List Nat) (s : σ), s ∈ R → ∀ o ∈ run S s ds, bad o = false := by
  intro ds
  induction ds with
  | nil =>
    intro s hs o ho
    have h := List.all_eq_true.mp hR s hs
    simp only [Bool.and_eq_true, Bool.not_eq_true'] at h
    simp only [run, List.mem_singleton] at ho
    rw [ho]; exact h.1
  | cons d ds ih =>
    intro s hs o ho
    have h := List.all_eq_true.mp hR s hs
    simp only [Bool.and_eq_true, Bool.not_eq_true', List.all_eq_true, List.mem_range] at h
    simp only [run, List.mem_cons] at ho
    rcases ho with ho | ho
    · rw [ho]; exact h.1
    · split at ho
      · next hd =>
        have hm : S.step s d ∈ R := by simpa [List.contains_iff_mem] using h.2 d hd
        exact ih _ hm o ho
      · simp at ho

/-- One successful closed-set check ⇒ no `bad` observation on any run, of any length. -/
theorem invOK_sound {σ : Type} [BEq σ] [LawfulBEq σ] (S : Sys σ) (bad : Obs → Bool) (R : List σ)
    (s0 : σ) (h : invOK S bad R s0 = true) : ∀ ds, ∀ o ∈ run S s0 ds, bad o = false := by
  simp only [invOK, Bool.and_eq_true] at h
  intro ds
  exact invOK_mem S bad R h.2 ds s0 (by simpa [List.contains_iff_mem] using h.1)

/-- Untrusted worklist search for the reachable states. -/
def buildReach {σ : Type} [BEq σ] (S : Sys σ) : Nat → List σ → List σ → List σ
  | 0, _, seen => seen
  | _ + 1, [], seen => seen
  | f + 1, s :: todo, seen =>
    if seen.contains s then buildReach S f todo seen
    else buildReach S f ((List.range (S.obs s).arity).map (S.step s) ++ todo) (s :: seen)

def reachOK {σ : Type} [BEq σ] (S : Sys σ) (bad : Obs → Bool) (s0 : σ) (fuel : Nat) : Bool :=
  invOK S bad (buildReach S fuel [s0] []) s0

theorem reachOK_sound {σ : Type} [BEq σ] [LawfulBEq σ] (S : Sys σ) (bad : Obs → Bool) (s0 : σ)
    (fuel : Nat) (h : reachOK S bad s0 fuel = true) : ∀ ds, ∀ o ∈ run S s0 ds, bad o = false :=
  invOK_sound S bad _ s0 h

/-! ## Invariant check with a certificate -/

theorem inv_of_closed {σ : Type} (S : Sys σ) (bad : Obs → Bool) (P : σ → Prop)
    (hbad : ∀ s, P s → bad (S.obs s) = false)
    (hstep : ∀ s, P s → ∀ i, i < (S.obs s).arity → P (S.step s i)) :
    ∀ (ds : List Nat) (s : σ), P s → ∀ o ∈ run S s ds, bad o = false := by
  intro ds
  induction ds with
  | nil =>
    intro s hs o ho
    simp only [run, List.mem_singleton] at ho
    rw [ho]; exact hbad s hs
  | cons d ds ih =>
    intro s hs o ho
    simp only [run, List.mem_cons] at ho
    rcases ho with ho | ho
    · rw [ho]; exact hbad s hs
    · split at ho
      · next hd => exact ih _ (hstep s hs d hd) o ho
      · simp at ho

def verifyInvCert {σ : Type} [BEq σ] (S : Sys σ) (bad : Obs → Bool) (R : Array σ)
    (cert : Array (List Nat)) (s0 : σ) : Bool :=
  (R[0]? == some s0) &&
  (List.range R.size).all fun k =>
    match R[k]?, cert[k]? with
    | some s, some js =>
      !bad (S.obs s) &&
      (List.range (S.obs s).arity).all fun i =>
        match js[i]? with
        | some j => R[j]? == some (S.step s i)
        | none => false
    | _, _ => false

theorem verifyInvCert_sound {σ : Type} [BEq σ] [LawfulBEq σ] (S : Sys σ) (bad : Obs → Bool)
    (R : Array σ) (cert : Array (List Nat)) (s0 : σ) (h : verifyInvCert S bad R cert s0 = true) :
    ∀ ds, ∀ o ∈ run S s0 ds, bad o = false := by
  simp only [verifyInvCert, Bool.and_eq_true, beq_iff_eq, List.all_eq_true, List.mem_range] at h
  obtain ⟨h0, hall⟩ := h
  intro ds
  refine inv_of_closed S bad (fun s => ∃ k, R[k]? = some s) ?_ ?_ ds s0 ⟨0, h0⟩
  · rintro s ⟨k, hk⟩
    have hlt : k < R.size := by
      rcases Nat.lt_or_ge k R.size with h | h
      · exact h
      · rw [Array.getElem?_eq_none h] at hk; cases hk
    have := hall k hlt
    rw [hk] at this
    split at this
    · next s' js hp hj =>
      simp only [Option.some.injEq] at hp
      subst hp
      simp only [Bool.and_eq_true, Bool.not_eq_true'] at this
      exact this.1
    · simp at this
  · rintro s ⟨k, hk⟩ i hi
    have hlt : k < R.size := by
      rcases Nat.lt_or_ge k R.size with h | h
      · exact h
      · rw [Array.getElem?_eq_none h] at hk; cases hk
    have := hall k hlt
    rw [hk] at this
    split at this
    · next s' js hp hj =>
      simp only [Option.some.injEq] at hp
      subst hp
      simp only [Bool.and_eq_true, List.all_eq_true, List.mem_range] at this
      have h2 := this.2 i hi
      split at h2
      · next j hjj => exact ⟨j, by simpa using h2⟩
      · simp at h2
    · simp at this

def buildReachCert {σ : Type} [BEq σ] [Hashable σ] (S : Sys σ) (s0 : σ) (limit : Nat) :
    Array σ × Array (List Nat) := Id.run do
  let mut R : Array σ := #[s0]
  let mut idx : Std.HashMap σ Nat := Std.HashMap.emptyWithCapacity 64 |>.insert s0 0
  let mut cert : Array (List Nat) := #[]
  let mut k := 0
  while k < R.size && k < limit do
    match R[k]? with
    | none => pure ()
    | some s =>
      let mut js : List Nat := []
      for i in List.range (S.obs s).arity do
        let q := S.step s i
        match idx[q]? with
        | some j => js := js ++ [j]
        | none =>
          let j := R.size
          R := R.push q
          idx := idx.insert q j
          js := js ++ [j]
      cert := cert.push js
    k := k + 1
  return (R, cert)

def reachOKc {σ : Type} [BEq σ] [Hashable σ] (S : Sys σ) (bad : Obs → Bool) (s0 : σ)
    (limit : Nat) : Bool :=
  let (R, cert) := buildReachCert S s0 limit
  verifyInvCert S bad R cert s0

theorem reachOKc_sound {σ : Type} [BEq σ] [LawfulBEq σ] [Hashable σ] (S : Sys σ)
    (bad : Obs → Bool) (s0 : σ) (limit : Nat) (h : reachOKc S bad s0 limit = true) :
    ∀ ds, ∀ o ∈ run S s0 ds, bad o = false := by
  unfold reachOKc at h
  exact verifyInvCert_sound S bad _ _ s0 h

/-- The first pair of the candidate relation that is not locally fine (diagnostics only). -/
def firstBad {α β : Type} [BEq α] [BEq β] (A : Sys α) (B : Sys β) (R : List (α × β)) :
    Option (α × β) :=
  R.find? (fun p => !(A.obs p.1 == B.obs p.2))

end Scfg
