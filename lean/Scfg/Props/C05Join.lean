import Scfg.Props.C01Join
/-!
# C05, first stage — closing the graph conserves the original blocks (model, a priori)

`joinReturns_conserves`: for every flat input of original blocks (unique names, fresh return name),
in the hierarchy the model of `join_returns` produces

* every input block is found under its name with every field untouched — payload, kind, successor
  tuple — except that a block without successors may have gained the single edge to the common
  return (`kept`), and
* everything found under any name is such an input block or the one synthetic return block
  (`nothing_else`): nothing is duplicated under another name, nothing but a synthetic block is added.
-/
namespace Scfg.C05
open Scfg Scfg.Model Scfg.C14 Scfg.C01

theorem joinReturns_conserves (G : Hier) (c : Name) (ng : NameGen) (st' : St) (hG : FlatInput G c)
    (hfresh : (ng.newBlockName "synth_return").1 ∉ G.names)
    (h : joinReturns { H := G, ng := ng } c = .ok st') :
    let ret := (ng.newBlockName "synth_return").1
    (∀ n g, G.get? n = some g →
      st'.H.get? n = some g ∨ (g.jts = [] ∧ st'.H.get? n = some { g with jts := [ret] })) ∧
    (∀ n x, st'.H.get? n = some x →
      (∃ g, G.get? n = some g ∧ (x = g ∨ (g.jts = [] ∧ x = { g with jts := [ret] }))) ∨
      x = retBlk c ret) := by
  intro ret
  have hC := joinReturns_closed G c ng st' hG hfresh h
  refine ⟨?_, ?_⟩
  · intro n g hg
    by_cases hj : g.jts = []
    · rcases hC.exit n g hg hj with e | e
      · exact Or.inl e
      · exact Or.inr ⟨hj, e.1⟩
    · exact Or.inl (hC.keep n g hg hj)
  · intro n x hx
    -- the name is an input block's name, or it is not
    cases hg : G.get? n with
    | some g =>
      left
      refine ⟨g, rfl, ?_⟩
      by_cases hj : g.jts = []
      · rcases hC.exit n g hg hj with e | e
        · rw [e] at hx; simp only [Option.some.injEq] at hx; exact Or.inl hx.symm
        · rw [e.1] at hx; simp only [Option.some.injEq] at hx; exact Or.inr ⟨hj, hx.symm⟩
      · have := hC.keep n g hg hj
        rw [this] at hx; simp only [Option.some.injEq] at hx; exact Or.inl hx.symm
    | none =>
      right
      -- a name the input does not have: only the return block can be there
      have hnd : (exitsOf G c).Nodup := by
        unfold exitsOf
        have : ((G.level c).filter fun b => b.jt.isEmpty).Sublist G :=
          (List.filter_sublist).trans (List.filter_sublist)
        exact (this.map _).nodup hG.unique
      have hplain : ∀ p ∈ exitsOf G c, ∃ b, G.getIn? c p = some b ∧ b.isRegion = false ∧
          b.kind.isBranching = false := by
        intro p hp
        obtain ⟨g, hg', _⟩ := (exitsOf_flat G c hG p).mp hp
        obtain ⟨hgm, _⟩ := get?_mem' G p g hg'
        have := isOrig_not g (hG.orig g hgm)
        exact ⟨g, by rw [← get?_flat G c p hG.flat]; exact hg', this.1, this.2⟩
      have hfr : ∀ p ∈ exitsOf G c, p ≠ ret := by
        intro p hp e
        obtain ⟨g, hg', _⟩ := (exitsOf_flat G c hG p).mp hp
        obtain ⟨hgm, hgn⟩ := get?_mem' G p g hg'
        exact hfresh (List.mem_map.mpr ⟨g, hgm, by rw [hgn, e]⟩)
      have hspec := joinReturns_spec { H := G, ng := ng } st' c hnd hplain hfr h
      by_cases hlen : (exitsOf G c).length > 1
      · simp only [hlen, if_true] at hspec
        rw [get?_flat st'.H c n hC.flat, hspec] at hx
        have hgIn : G.getIn? c n = none := by rw [← get?_flat G c n hG.flat]; exact hg
        simp only [appendTo, getIn?_putIn] at hx
        by_cases hn : n = ret
        · have hnot : ret ∉ exitsOf G c := fun hp => hfr _ hp rfl
          subst hn
          have hk : c = (retBlk c ret).cont ∧ ret = (retBlk c ret).name := ⟨rfl, rfl⟩
          rw [if_pos hk] at hx
          simp only [hnot, and_false, if_false, Option.some.injEq] at hx
          exact hx.symm
        · have hk : ¬ (c = (retBlk c ret).cont ∧ n = (retBlk c ret).name) := fun hh => hn hh.2
          rw [if_neg hk, hgIn] at hx
          cases hx
      · simp only [hlen, if_false] at hspec
        subst hspec
        rw [hg] at hx
        cases hx

end Scfg.C05
