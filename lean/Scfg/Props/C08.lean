import Scfg.Py.Micro
import Scfg.Model.Ast2Cfg
/-!
# C08 / C07 — semantic equivalence of Python-subset programs, decided by simulation

`pySimOK a b params` runs the verified certificate checker on the reference semantics of two
micro-programs (the function itself, the front end's CFG, the regenerated function).
`pySim_sound`: a `true` answer means equal observation traces — every atom evaluation in order
with the reaching definitions it reads, every decision point, the returned value, and
termination — for **all** decision sequences of any length.
-/
namespace Scfg.C08
open Scfg Scfg.Py

/-- Observational equivalence of two micro-programs on parameters `params`. -/
def ObsEquiv (a b : MProg) (params : List Name) : Prop :=
  ∀ ds : List Nat,
    run (sysOf a) (initOfParams a params) ds = run (sysOf b) (initOfParams b params) ds

theorem pySim_sound (a b : MProg) (params : List Name) (h : pySimOK a b params = true) :
    ObsEquiv a b params :=
  simOKc_sound _ _ _ _ _ h

/-- Equivalence is symmetric and transitive, so the three-way comparison
    source ≈ CFG ≈ regenerated source composes. -/
theorem ObsEquiv.symm {a b : MProg} {ps : List Name} (h : ObsEquiv a b ps) : ObsEquiv b a ps :=
  fun ds => (h ds).symm

theorem ObsEquiv.trans {a b c : MProg} {ps : List Name} (h1 : ObsEquiv a b ps)
    (h2 : ObsEquiv b c ps) : ObsEquiv a c ps :=
  fun ds => (h1 ds).trans (h2 ds)

/-- A decision point offers exactly two continuations; a stopped program none. -/
theorem sysOf_arity (p : MProg) (st : MSt) :
    ((sysOf p).obs st).arity = if st.done.isSome then 0 else 2 := by
  cases h : st.done <;> simp [sysOf, h, Obs.arity]

/-! Non-vacuity (kernel evaluation): `x and y` evaluated natively vs. through a temporary and
a test, as the front end lowers it; and a program that evaluates the second operand eagerly is
rejected. -/
def progA : List S := [.ret (.boolop true [.leaf 1 ["x"], .leaf 2 ["y"]])]
def progB : List S := [
  .assign "t" (.leaf 1 ["x"]),
  .ifS (.var "t") [.assign "t" (.leaf 2 ["y"])] [],
  .ret (.var "t")]
def progBad : List S := [
  .assign "t" (.leaf 1 ["x"]),
  .assign "u" (.leaf 2 ["y"]),
  .ifS (.var "t") [.assign "t" (.var "u")] [],
  .ret (.var "t")]

example : simOK (sysOf (compileFn progA)) (sysOf (compileFn progB))
    (initOfParams (compileFn progA) ["x", "y"]) (initOfParams (compileFn progB) ["x", "y"]) 64 = true := by
  decide +kernel
example : simOK (sysOf (compileFn progA)) (sysOf (compileFn progBad))
    (initOfParams (compileFn progA) ["x", "y"]) (initOfParams (compileFn progBad) ["x", "y"]) 64 = false := by
  decide +kernel


/-! ## Pruning of empty blocks (model `Scfg.Model.pruneEmpty`, exact correspondence with
`ASTCFG.prune_empty`): what it can never do, for every block list.

* `pruneEmpty_distinct` — it never makes the two targets of a branching block coincide
  (the defect repaired by bd9279f; a two-way block with identical successors is what
  `extract_region` / `find_head` assert against and what code generation emits twice).
* `pruneEmpty_closed` — "only … empty blocks are pruned" without leaving a dangling successor:
  if every target named a block before, every target names a block afterwards. The hypothesis
  `EmptyRanked` (chains of empty blocks are acyclic) is needed: with a cycle of empty blocks the
  code itself leaves a dangling name; every loop the front end builds has a test in its header.
-/
section Prune
open Scfg.Model

/-- The two targets of every two-way block differ. -/
def distinctTargets (bs : List WBlock) : Prop :=
  ∀ x ∈ bs, ∀ t u, x.jts = [t, u] → t ≠ u

/-- Every target names a block of the list. -/
def closedB (bs : List WBlock) : Prop :=
  ∀ x ∈ bs, ∀ t ∈ x.jts, ∃ y ∈ bs, y.name = t

/-- At most two targets per block (what `prune_empty` knows how to rewire). -/
def arity2 (bs : List WBlock) : Prop := ∀ x ∈ bs, x.jts.length ≤ 2

/-- Chains of empty blocks are acyclic: `r` strictly decreases from an empty block to its first
    target whenever that target is (the name of) an empty block too. -/
def EmptyRanked (r : Nat → Nat) (bs : List WBlock) : Prop :=
  ∀ x ∈ bs, x.instrs = [] → ∀ it rest, x.jts = it :: rest →
    (∃ y ∈ bs, y.name = it ∧ y.instrs = []) → r it < r x.name

theorem foldlM_inv {α β : Type} (P : β → Prop) (f : β → α → Except String β) :
    ∀ (l : List α) (init out : β), P init →
      (∀ b a b', P b → f b a = .ok b' → P b') → l.foldlM f init = .ok out → P out := by
  intro l
  induction l with
  | nil => intro init out h0 _ h; simp [List.foldlM, pure, Except.pure] at h; exact h ▸ h0
  | cons a l ih =>
    intro init out h0 hs h
    simp only [List.foldlM_cons, bind, Except.bind] at h
    cases hfa : f init a with
    | error e => rw [hfa] at h; simp at h
    | ok b' => rw [hfa] at h; exact ih b' out (hs _ _ _ h0 hfa) hs h

/-- One step of the pruning loop, as a function (the body of the `foldlM` in `pruneEmpty`). -/
def pruneStep (entry : Nat) (cur : List WBlock) (name : Nat) : Except String (List WBlock) :=
  match cur.find? (·.name == name) with
  | none => .ok cur
  | some b =>
    if !b.instrs.isEmpty then .ok cur
    else match b.jts with
      | [] => .error "IndexError:prune_empty"
      | it :: _ =>
        if name == entry && cur.any (fun x => x.name != name && x.jts.contains it) then .ok cur
        else if cur.any (fun x => match x.jts with
            | [t, u] => t != u && ((t == name && u == it) || (t == it && u == name))
            | _ => false) then .ok cur
        else
        let rest := cur.filter (·.name != name)
        .ok (rest.map fun x =>
          match x.jts with
          | [t] => if t == name then { x with jts := [it] } else x
          | [t, u] => { x with jts := [if t == name then it else t, if u == name then it else u] }
          | _ => x)

theorem pruneEmpty_eq (bs : List WBlock) :
    pruneEmpty bs = (bs.map (·.name)).foldlM (pruneStep ((bs.head?.map (·.name)).getD 0)) bs := rfl

/-- The rewiring of one block. -/
def rew (name it : Nat) (x : WBlock) : WBlock :=
  match x.jts with
  | [t] => if t == name then { x with jts := [it] } else x
  | [t, u] => { x with jts := [if t == name then it else t, if u == name then it else u] }
  | _ => x

theorem rew_name (name it : Nat) (x : WBlock) : (rew name it x).name = x.name := by
  unfold rew; split <;> (try split) <;> rfl

theorem rew_instrs (name it : Nat) (x : WBlock) : (rew name it x).instrs = x.instrs := by
  unfold rew; split <;> (try split) <;> rfl

/-- What a successful, effective step looks like. -/
theorem pruneStep_cases (entry : Nat) (cur : List WBlock) (name : Nat) (out : List WBlock)
    (h : pruneStep entry cur name = .ok out) :
    out = cur ∨ ∃ b it rest, b ∈ cur ∧ b.name = name ∧ b.instrs = [] ∧ b.jts = it :: rest ∧
      (¬ ∃ x ∈ cur, ∃ t u, x.jts = [t, u] ∧ t ≠ u ∧ ((t = name ∧ u = it) ∨ (t = it ∧ u = name))) ∧
      out = (cur.filter (·.name != name)).map (rew name it) := by
  unfold pruneStep at h
  split at h
  · left; cases h; rfl
  · rename_i b hb
    split at h
    · left; cases h; rfl
    · rename_i hemp
      split at h
      · cases h
      · rename_i it rest hj
        split at h
        · left; cases h; rfl
        · split at h
          · left; cases h; rfl
          · rename_i hg
            right
            refine ⟨b, it, rest, List.mem_of_find?_eq_some hb, ?_, ?_, hj, ?_, ?_⟩
            · have := List.find?_some hb; simpa using this
            · simpa using hemp
            · intro ⟨x, hx, t, u, hxj, hne, hor⟩
              apply hg
              rw [List.any_eq_true]
              refine ⟨x, hx, ?_⟩
              rw [hxj]
              rcases hor with ⟨h1, h2⟩ | ⟨h1, h2⟩ <;> subst h1 <;> subst h2 <;> simp [hne]
            · cases h; rfl

theorem mem_rest {cur : List WBlock} {name it : Nat} {z : WBlock}
    (hz : z ∈ (cur.filter (·.name != name)).map (rew name it)) :
    ∃ x ∈ cur, x.name ≠ name ∧ z = rew name it x := by
  rw [List.mem_map] at hz
  obtain ⟨x, hx, rfl⟩ := hz
  rw [List.mem_filter] at hx
  exact ⟨x, hx.1, by simpa using hx.2, rfl⟩

theorem pruneStep_distinct (entry : Nat) (cur : List WBlock) (name : Nat) (out : List WBlock)
    (hd : distinctTargets cur) (h : pruneStep entry cur name = .ok out) : distinctTargets out := by
  rcases pruneStep_cases entry cur name out h with rfl | ⟨b, it, rest, _, _, _, _, hg, rfl⟩
  · exact hd
  · intro z hz t' u' hzj
    obtain ⟨x, hx, _, rfl⟩ := mem_rest hz
    unfold rew at hzj
    split at hzj
    · split at hzj <;> simp_all
    · rename_i t u hxj
      have htu := hd x hx t u hxj
      simp only [WBlock.mk.injEq, List.cons.injEq, and_true, true_and] at hzj
      obtain ⟨rfl, rfl⟩ := hzj
      intro heq
      apply hg
      refine ⟨x, hx, t, u, hxj, htu, ?_⟩
      by_cases h1 : t = name <;> by_cases h2 : u = name
      · exact absurd (h1.trans h2.symm) htu
      · left; refine ⟨h1, ?_⟩; simp [h1, h2] at heq; exact heq.symm
      · right; refine ⟨?_, h2⟩; simp [h1, h2] at heq; exact heq
      · simp [h1, h2] at heq; exact absurd heq htu
    · rename_i h1 h2
      exact hd x hx t' u' hzj

/-- **`prune_empty` never makes the two targets of a branching block coincide.** -/
theorem pruneEmpty_distinct (bs out : List WBlock) (hd : distinctTargets bs)
    (h : pruneEmpty bs = .ok out) : distinctTargets out := by
  rw [pruneEmpty_eq] at h
  exact foldlM_inv distinctTargets _ _ _ _ hd
    (fun b a b' hb hs => pruneStep_distinct _ b a b' hb hs) h


theorem rew_length (name it : Nat) (x : WBlock) : (rew name it x).jts.length = x.jts.length := by
  unfold rew; split
  · rename_i t h; split <;> simp [h]
  · rename_i t u h; simp [h]
  · rfl

/-- With at most two targets, every target of the rewired block is an old target other than the
    removed name, or the removed block's own target. -/
theorem rew_targets (name it : Nat) (x : WBlock) (hl : x.jts.length ≤ 2) (t' : Nat)
    (h : t' ∈ (rew name it x).jts) : (t' ∈ x.jts ∧ t' ≠ name) ∨ t' = it := by
  unfold rew at h
  split at h
  · rename_i t hj
    split at h
    · right; simpa using h
    · rename_i hne; left; rw [hj] at h ⊢; simp at h; subst h; simp; simpa using hne
  · rename_i t u hj
    simp at h
    rcases h with h | h
    · by_cases ht : t = name
      · right; simpa [ht] using h
      · left; simp [ht] at h; subst h; simp [hj, ht]
    · by_cases hu : u = name
      · right; simpa [hu] using h
      · left; simp [hu] at h; subst h; simp [hj, hu]
  · rename_i h1 h2
    match hj : x.jts, hl with
    | [], _ => rw [hj] at h; simp at h
    | [t], _ => exact absurd hj (h1 t)
    | [t, u], _ => exact absurd hj (h2 t u)
    | _ :: _ :: _ :: _, hl => simp at hl

/-- The first target of the rewired block. -/
theorem rew_head (name it : Nat) (x : WBlock) (hl : x.jts.length ≤ 2) (it' : Nat) (rest' : List Nat)
    (h : (rew name it x).jts = it' :: rest') :
    ∃ hd rest0, x.jts = hd :: rest0 ∧ it' = if hd = name then it else hd := by
  unfold rew at h
  split at h
  · rename_i t hj
    split at h
    · rename_i ht; simp at h; exact ⟨t, [], hj, by simp at ht; simp [ht, h.1]⟩
    · rename_i ht; rw [hj] at h; simp at h ht; exact ⟨t, [], hj, by rw [if_neg ht]; exact h.1.symm⟩
  · rename_i t u hj
    simp at h
    refine ⟨t, [u], hj, ?_⟩
    by_cases ht : t = name <;> simp [ht] at h ⊢ <;> exact h.1.symm
  · rename_i h1 h2
    match hj : x.jts, hl with
    | [], _ => rw [hj] at h; simp at h
    | [t], _ => exact absurd hj (h1 t)
    | [t, u], _ => exact absurd hj (h2 t u)
    | _ :: _ :: _ :: _, hl => simp at hl

/-- The invariant carried through the pruning loop. -/
def PruneInv (r : Nat → Nat) (bs : List WBlock) : Prop :=
  closedB bs ∧ arity2 bs ∧ EmptyRanked r bs

theorem pruneStep_inv (r : Nat → Nat) (entry : Nat) (cur : List WBlock) (name : Nat)
    (out : List WBlock) (hi : PruneInv r cur) (h : pruneStep entry cur name = .ok out) :
    PruneInv r out := by
  rcases pruneStep_cases entry cur name out h with rfl | ⟨b, it, rest, hb, hbn, hbe, hbj, _, rfl⟩
  · exact hi
  obtain ⟨hc, ha, hr⟩ := hi
  -- the removed block does not target itself
  have hne : it ≠ name := by
    intro heq
    have := hr b hb hbe it rest hbj ⟨b, hb, by rw [hbn, heq], hbe⟩
    rw [hbn, heq] at this; exact Nat.lt_irrefl _ this
  -- a block of `cur` with a name other than `name` survives, rewired
  have surv : ∀ y ∈ cur, y.name ≠ name →
      rew name it y ∈ (cur.filter (·.name != name)).map (rew name it) := by
    intro y hy hyn
    exact List.mem_map.2 ⟨y, List.mem_filter.2 ⟨hy, by simpa using hyn⟩, rfl⟩
  have hit : ∃ y ∈ cur, y.name = it := hc b hb it (by rw [hbj]; simp)
  refine ⟨?_, ?_, ?_⟩
  · intro z hz t' ht'
    obtain ⟨x, hx, _, rfl⟩ := mem_rest hz
    rcases rew_targets name it x (ha x hx) t' ht' with ⟨hm, hn⟩ | heq
    · obtain ⟨y, hy, hyn⟩ := hc x hx t' hm
      exact ⟨rew name it y, surv y hy (by rw [hyn]; exact hn), by rw [rew_name, hyn]⟩
    · obtain ⟨y, hy, hyn⟩ := hit
      exact ⟨rew name it y, surv y hy (by rw [hyn]; exact hne), by rw [rew_name, hyn, heq]⟩
  · intro z hz
    obtain ⟨x, hx, _, rfl⟩ := mem_rest hz
    rw [rew_length]; exact ha x hx
  · intro z hz hze it' rest' hzj ⟨y', hy', hy'n, hy'e⟩
    obtain ⟨x, hx, _, rfl⟩ := mem_rest hz
    obtain ⟨y, hy, _, rfl⟩ := mem_rest hy'
    rw [rew_instrs] at hze hy'e
    rw [rew_name] at hy'n ⊢
    obtain ⟨hd, rest0, hxj, hit'⟩ := rew_head name it x (ha x hx) it' rest' hzj
    by_cases hh : hd = name
    · -- x → name → it : two strict decreases
      rw [if_pos hh] at hit'
      have h1 : r name < r x.name := by
        have := hr x hx hze hd rest0 hxj ⟨b, hb, by rw [hbn, hh], hbe⟩
        rwa [hh] at this
      have h2 : r it < r name := by
        have := hr b hb hbe it rest hbj ⟨y, hy, by rw [hy'n, hit'], hy'e⟩
        rwa [hbn] at this
      rw [hit']; exact Nat.lt_trans h2 h1
    · rw [if_neg hh] at hit'
      rw [hit']
      exact hr x hx hze hd rest0 hxj ⟨y, hy, by rw [hy'n, hit'], hy'e⟩

/-- **No dangling successor after pruning**: if every target named a block, blocks have at most
    two targets and chains of empty blocks are acyclic, then after `prune_empty` every target still
    names a block (and the other two facts persist). -/
theorem pruneEmpty_closed (r : Nat → Nat) (bs out : List WBlock) (hi : PruneInv r bs)
    (h : pruneEmpty bs = .ok out) : closedB out ∧ arity2 out := by
  rw [pruneEmpty_eq] at h
  have := foldlM_inv (PruneInv r) _ _ _ _ hi
    (fun b a b' hb hs => pruneStep_inv r _ b a b' hb hs) h
  exact ⟨this.1, this.2.1⟩

/-- It never raises `IndexError` either when every empty block has a target. -/
theorem pruneStep_ok_of_targets (entry : Nat) (cur : List WBlock) (name : Nat)
    (ht : ∀ x ∈ cur, x.instrs = [] → x.jts ≠ []) : ∃ out, pruneStep entry cur name = .ok out := by
  unfold pruneStep
  split
  · exact ⟨_, rfl⟩
  · rename_i b hb
    split
    · exact ⟨_, rfl⟩
    · rename_i hemp
      split
      · rename_i hj
        exact absurd hj (ht b (List.mem_of_find?_eq_some hb) (by simpa using hemp))
      · split
        · exact ⟨_, rfl⟩
        · split <;> exact ⟨_, rfl⟩

/-! Non-vacuity: `if x: pass else: pass; return` as the front end builds it (test block 0, two
empty arms 1 and 2, join 3). The hypotheses hold, the branch keeps two distinct targets and every
target names a block. -/
def pruneDemo : List WBlock :=
  [{ name := 0, instrs := [.e (.leaf 1 ["x"])], jts := [1, 2] }, { name := 1, jts := [3] },
   { name := 2, jts := [3] }, { name := 3, instrs := [.s (.ret (.cst Cst.none))] }]

example : (pruneEmpty pruneDemo).toOption.map (·.map fun b => (b.name, b.jts))
    = some [(0, [3, 2]), (2, [3]), (3, [])] := by decide +kernel


example : PruneInv (fun n => 10 - n) pruneDemo ∧ distinctTargets pruneDemo := by
  refine ⟨⟨?_, ?_, ?_⟩, ?_⟩ <;> simp [closedB, arity2, EmptyRanked, distinctTargets, pruneDemo]


/-! ### Decidable hypotheses and the corollary used per generated program -/

def HasTargets (bs : List WBlock) : Prop := ∀ x ∈ bs, x.instrs = [] → x.jts ≠ []

theorem isEmpty_false_of_ne {α} {l : List α} (h : (!l.isEmpty) = false) : l = [] := by
  cases l <;> simp_all

theorem distinctTargetsB_sound (bs : List WBlock) (h : distinctTargetsB bs = true) :
    distinctTargets bs := by
  intro x hx t u hj
  have := List.all_eq_true.1 h x hx
  rw [hj] at this
  simpa using this

theorem closedBB_sound (bs : List WBlock) (h : closedBB bs = true) : closedB bs := by
  intro x hx t ht
  have := List.all_eq_true.1 (List.all_eq_true.1 h x hx) t ht
  obtain ⟨y, hy, hyn⟩ := List.any_eq_true.1 this
  exact ⟨y, hy, by simpa using hyn⟩

theorem arity2B_sound (bs : List WBlock) (h : arity2B bs = true) : arity2 bs := by
  intro x hx
  simpa using List.all_eq_true.1 h x hx

theorem emptyRankedB_sound (r : Nat → Nat) (bs : List WBlock) (h : emptyRankedB r bs = true) :
    EmptyRanked r bs := by
  intro x hx hxe it rest hj ⟨y, hy, hyn, hye⟩
  have := List.all_eq_true.1 h x hx
  rw [hj, hxe] at this
  simp only [List.isEmpty_nil, Bool.not_true, Bool.false_or, Bool.or_eq_true, Bool.not_eq_true',
    decide_eq_true_eq] at this
  rcases this with hno | hlt
  · have hany : (bs.any fun y => y.name == it && y.instrs.isEmpty) = true :=
      List.any_eq_true.2 ⟨y, hy, by simp [hyn, hye]⟩
    rw [hany] at hno; cases hno
  · exact hlt

theorem emptiesHaveTargetB_sound (bs : List WBlock) (h : emptiesHaveTargetB bs = true) :
    HasTargets bs := by
  intro x hx hxe hj
  have := List.all_eq_true.1 h x hx
  rw [hxe, hj] at this
  simp at this

theorem pruneStep_hasTargets (entry : Nat) (cur : List WBlock) (name : Nat) (out : List WBlock)
    (ht : HasTargets cur) (h : pruneStep entry cur name = .ok out) : HasTargets out := by
  rcases pruneStep_cases entry cur name out h with rfl | ⟨b, it, rest, _, _, _, _, _, rfl⟩
  · exact ht
  · intro z hz hze hzj
    obtain ⟨x, hx, _, rfl⟩ := mem_rest hz
    rw [rew_instrs] at hze
    have hl := rew_length name it x
    rw [hzj] at hl
    exact ht x hx hze (List.eq_nil_of_length_eq_zero hl.symm)

theorem foldlM_ok {α β : Type} (P : β → Prop) (f : β → α → Except String β)
    (hs : ∀ b a, P b → ∃ b', f b a = .ok b' ∧ P b') :
    ∀ (l : List α) (init : β), P init → ∃ out, l.foldlM f init = .ok out ∧ P out := by
  intro l
  induction l with
  | nil => intro init h0; exact ⟨init, rfl, h0⟩
  | cons a l ih =>
    intro init h0
    obtain ⟨b', hb', hp⟩ := hs init a h0
    obtain ⟨out, ho, hpo⟩ := ih b' hp
    exact ⟨out, by simp only [List.foldlM_cons, bind, Except.bind, hb']; exact ho, hpo⟩

/-- **Pruning of empty blocks, for every block list that passes the (decidable) hypotheses**:
    it does not abort, leaves no dangling successor, keeps at most two targets per block and never
    makes the two targets of a branching block coincide. The harness evaluates `pruneHypOK` on the
    block list the model hands to `pruneEmpty` for every generated program, and the model's result
    is compared with `prune_empty`'s block for block. -/
theorem front_end_prune_ok (bs : List WBlock) (h : pruneHypOK bs = true) :
    ∃ out, pruneEmpty bs = .ok out ∧ closedB out ∧ arity2 out ∧ distinctTargets out := by
  simp only [pruneHypOK, Bool.and_eq_true] at h
  obtain ⟨⟨⟨⟨hd, hc⟩, ha⟩, hr⟩, ht⟩ := h
  have hinv : PruneInv (rankOf bs) bs ∧ distinctTargets bs ∧ HasTargets bs :=
    ⟨⟨closedBB_sound _ hc, arity2B_sound _ ha, emptyRankedB_sound _ _ hr⟩,
      distinctTargetsB_sound _ hd, emptiesHaveTargetB_sound _ ht⟩
  rw [pruneEmpty_eq]
  obtain ⟨out, ho, hp⟩ := foldlM_ok
    (fun cur => PruneInv (rankOf bs) cur ∧ distinctTargets cur ∧ HasTargets cur)
    (pruneStep ((bs.head?.map (·.name)).getD 0))
    (fun b a hb => by
      obtain ⟨b', hb'⟩ := pruneStep_ok_of_targets ((bs.head?.map (·.name)).getD 0) b a hb.2.2
      exact ⟨b', hb', pruneStep_inv _ _ _ _ _ hb.1 hb', pruneStep_distinct _ _ _ _ hb.2.1 hb',
        pruneStep_hasTargets _ _ _ _ hb.2.2 hb'⟩)
    (bs.map (·.name)) bs hinv
  exact ⟨out, ho, hp.1.1, hp.1.2.1, hp.2.1⟩

example : pruneHypOK pruneDemo = true := by decide +kernel

end Prune

end Scfg.C08
