import Scfg.Py.Micro
/-!
# C08 / C07 — semantic equivalence of Python-subset programs, decided by simulation

`pySimOK a b params` runs the verified certificate checker on the reference semantics of two
micro-programs (the function itself, the front end's CFG, the regenerated function).
`pySim_sound`: a `true` answer means equal observation traces — every atom evaluation in order
with the reaching definitions it reads, every decision point, the returned value, and
termination — for **all** decision sequences of any length.
-/
namespace Scfg.C08
open Scfg Scfg.Py

/-- Observational equivalence of two micro-programs on parameters `params`. -/
def ObsEquiv (a b : MProg) (params : List Name) : Prop :=
  ∀ ds : List Nat,
    run (sysOf a) (initOfParams a params) ds = run (sysOf b) (initOfParams b params) ds

theorem pySim_sound (a b : MProg) (params : List Name) (h : pySimOK a b params = true) :
    ObsEquiv a b params :=
  simOKc_sound _ _ _ _ _ h

/-- Equivalence is symmetric and transitive, so the three-way comparison
    source ≈ CFG ≈ regenerated source composes. -/
theorem ObsEquiv.symm {a b : MProg} {ps : List Name} (h : ObsEquiv a b ps) : ObsEquiv b a ps :=
  fun ds => (h ds).symm

theorem ObsEquiv.trans {a b c : MProg} {ps : List Name} (h1 : ObsEquiv a b ps)
    (h2 : ObsEquiv b c ps) : ObsEquiv a c ps :=
  fun ds => (h1 ds).trans (h2 ds)

/-- A decision point offers exactly two continuations; a stopped program none. -/
theorem sysOf_arity (p : MProg) (st : MSt) :
    ((sysOf p).obs st).arity = if st.done.isSome then 0 else 2 := by
  cases h : st.done <;> simp [sysOf, h, Obs.arity]

/-! Non-vacuity (kernel evaluation): `x and y` evaluated natively vs. through a temporary and
a test, as the front end lowers it; and a program that evaluates the second operand eagerly is
rejected. -/
def progA : List S := [.ret (.boolop true [.leaf 1 ["x"], .leaf 2 ["y"]])]
def progB : List S := [
  .assign "t" (.leaf 1 ["x"]),
  .ifS (.var "t") [.assign "t" (.leaf 2 ["y"])] [],
  .ret (.var "t")]
def progBad : List S := [
  .assign "t" (.leaf 1 ["x"]),
  .assign "u" (.leaf 2 ["y"]),
  .ifS (.var "t") [.assign "t" (.var "u")] [],
  .ret (.var "t")]

example : simOK (sysOf (compileFn progA)) (sysOf (compileFn progB))
    (initOfParams (compileFn progA) ["x", "y"]) (initOfParams (compileFn progB) ["x", "y"]) 64 = true := by
  decide +kernel
example : simOK (sysOf (compileFn progA)) (sysOf (compileFn progBad))
    (initOfParams (compileFn progA) ["x", "y"]) (initOfParams (compileFn progBad) ["x", "y"]) 64 = false := by
  decide +kernel

end Scfg.C08
