import Scfg.Model.Queries
/-!
# C12 — results are deterministic across processes and hash seeds

The model is a pure function, so determinism *of the model* is reflexivity; the content is that
the model may ignore the iteration order of Python `set`s. Every place where the code turns a
set into a sequence goes through `sorted(...)` (audited on every run by the translator, see
`harness/props/c12.py`); `sortNames_perm` is the theorem that makes that sound: sorting any two
enumerations of the same set gives the same list. The remaining order-exposing uses (singleton
extraction, commutative accumulation, fix-point worklists) are listed with their
justification in the audit table and exercised by the multi-seed runs.
-/
namespace Scfg.C12
open Scfg Scfg.Model

theorem insertSorted_perm (x : Name) (ys : List Name) : (insertSorted x ys).Perm (x :: ys) := by
  induction ys with
  | nil => simp [insertSorted]
  | cons y ys ih =>
    simp only [insertSorted]
    split
    · exact List.Perm.refl _
    · exact (List.Perm.cons y ih).trans (List.Perm.swap x y ys)

theorem sortNames_perm_self (xs : List Name) : (sortNames xs).Perm xs := by
  induction xs with
  | nil => simp [sortNames]
  | cons x xs ih =>
    simp only [sortNames, List.foldr_cons] at ih ⊢
    exact (insertSorted_perm x _).trans (List.Perm.cons x ih)

/-- sorted w.r.t. `≤` on names -/
abbrev Sorted (xs : List Name) : Prop := xs.Pairwise (· ≤ ·)

theorem insertSorted_sorted (x : Name) (ys : List Name) (h : Sorted ys) :
    Sorted (insertSorted x ys) := by
  induction ys with
  | nil => simp [insertSorted, Sorted]
  | cons y ys ih =>
    simp only [insertSorted]
    rw [Sorted, List.pairwise_cons] at h
    split
    · next hle =>
      rw [Sorted, List.pairwise_cons]
      refine ⟨?_, List.pairwise_cons.mpr h⟩
      intro z hz
      rcases List.mem_cons.mp hz with e | e
      · exact e ▸ hle
      · exact String.le_trans hle (h.1 z e)
    · next hnle =>
      have hyx : y ≤ x := by
        rcases String.le_total x y with h1 | h1
        · exact absurd h1 hnle
        · exact h1
      rw [Sorted, List.pairwise_cons]
      refine ⟨?_, ih h.2⟩
      intro z hz
      have := (insertSorted_perm x ys).mem_iff.mp hz
      rcases List.mem_cons.mp this with e | e
      · exact e ▸ hyx
      · exact h.1 z e

theorem sortNames_sorted (xs : List Name) : Sorted (sortNames xs) := by
  induction xs with
  | nil => simp [sortNames, Sorted]
  | cons x xs ih =>
    simp only [sortNames, List.foldr_cons] at ih ⊢
    exact insertSorted_sorted x _ ih

/-- Two sorted lists with the same elements (as multisets) are equal. -/
theorem sorted_perm_eq : ∀ (xs ys : List Name), Sorted xs → Sorted ys → xs.Perm ys → xs = ys
  | [], ys, _, _, h => by simpa using h.symm.eq_nil
  | x :: xs, [], _, _, h => by simpa using h.eq_nil
  | x :: xs, y :: ys, hx, hy, h => by
    rw [Sorted, List.pairwise_cons] at hx hy
    have hxy : x = y := by
      have h1 : x ∈ y :: ys := h.mem_iff.mp (by simp)
      have h2 : y ∈ x :: xs := h.mem_iff.mpr (by simp)
      rcases List.mem_cons.mp h1 with e | e
      · exact e
      · rcases List.mem_cons.mp h2 with e2 | e2
        · exact e2.symm
        · exact String.le_antisymm (hx.1 y e2) (hy.1 x e)
    subst hxy
    have := sorted_perm_eq xs ys hx.2 hy.2 (List.Perm.cons_inv h)
    rw [this]

/-- **`sorted()` erases iteration order.** Sorting two enumerations of the same collection —
    in whatever order a hash seed made the set iterate — gives the same list. -/
theorem sortNames_perm (xs ys : List Name) (h : xs.Perm ys) : sortNames xs = sortNames ys :=
  sorted_perm_eq _ _ (sortNames_sorted xs) (sortNames_sorted ys)
    ((sortNames_perm_self xs).trans (h.trans (sortNames_perm_self ys).symm))

/-- Length and membership — the only other things the code asks of some sets — are order-free. -/
theorem length_mem_perm (xs ys : List Name) (h : xs.Perm ys) :
    xs.length = ys.length ∧ ∀ x, x ∈ xs ↔ x ∈ ys :=
  ⟨h.length_eq, fun _ => h.mem_iff⟩

/-- "The element when there is exactly one" is order-free as well. -/
theorem singleton_perm (xs ys : List Name) (h : xs.Perm ys) (a : Name) (hx : xs = [a]) : ys = [a] := by
  subst hx
  exact List.perm_singleton.mp h.symm

example : sortNames ["c", "a", "b"] = sortNames ["b", "c", "a"] := by decide

end Scfg.C12
