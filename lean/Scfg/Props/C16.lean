import Scfg.Spec.IterSpec
/-!
# C16 — iteration and the region-concealing view enumerate exactly the graph

`iterSpecOK` / `viewSpecOK` are evaluated on the names the real iterators yield for every
(sub)graph of every stage output; the theorems unfold what a `true` answer means.
(The model of the iterators, `Scfg/Model/Iter.lean`, is compared with the code order-exactly.)
-/
namespace Scfg.C16
open Scfg Scfg.Model Scfg.Spec

theorem nodupL_iff (xs : List Name) : nodupL xs = true ↔ xs.Nodup := by
  induction xs with
  | nil => simp [nodupL]
  | cons x xs ih => simp [nodupL, ih]

theorem sameSet_iff (xs ys : List Name) : sameSet xs ys = true ↔ ∀ x, x ∈ xs ↔ x ∈ ys := by
  simp only [sameSet, Bool.and_eq_true, List.all_eq_true, List.contains_iff_mem]
  constructor
  · rintro ⟨h1, h2⟩ x; exact ⟨h1 x, h2 x⟩
  · intro h; exact ⟨fun x hx => (h x).mp hx, fun x hx => (h x).mpr hx⟩

/-- **Hierarchy iteration.** Every block and region below the container is yielded exactly once
    (no repetition, nothing missing, nothing foreign), and the head comes first. -/
theorem iterSpecOK_sound (H : Hier) (c : Name) (out : List Name) (h : iterSpecOK H c out = true) :
    out.Nodup ∧ (∀ x, x ∈ out ↔ x ∈ below H (H.length + 1) c) ∧
    (∀ hd tl, out = hd :: tl → headRef (H.level c) = some hd) := by
  simp only [iterSpecOK, Bool.and_eq_true] at h
  obtain ⟨⟨h1, h2⟩, h3⟩ := h
  refine ⟨(nodupL_iff _).mp h1, (sameSet_iff _ _).mp h2, ?_⟩
  intro hd tl hout
  subst hout
  cases hr : headRef (H.level c) with
  | none => simp [hr] at h3
  | some h' =>
    simp only [hr, beq_iff_eq] at h3
    rw [h3]

/-- **Concealed view.** Exactly the level's own blocks and regions, each once, the head first,
    and every later item is a (view-)successor of some earlier item. -/
theorem viewSpecOK_sound (H : Hier) (c : Name) (out : List Name) (h : viewSpecOK H c out = true) :
    out.Nodup ∧ (∀ x, x ∈ out ↔ ∃ b ∈ H.level c, b.name = x) ∧
    (∃ hd tl, out = hd :: tl ∧ headRef (H.level c) = some hd) ∧
    ∀ i (hi : i < out.length), 0 < i →
      ∃ p ∈ out.take i, ∃ pb, H.getIn? c p = some pb ∧ out[i] ∈ viewSucc H pb := by
  simp only [viewSpecOK, Bool.and_eq_true] at h
  obtain ⟨⟨⟨h1, h2⟩, h3⟩, h4⟩ := h
  refine ⟨(nodupL_iff _).mp h1, ?_, ?_, ?_⟩
  · intro x
    rw [(sameSet_iff _ _).mp h2 x, List.mem_map]
  · cases out with
    | nil => simp at h3
    | cons hd tl =>
      cases hr : headRef (H.level c) with
      | none => simp [hr] at h3
      | some h' =>
        simp only [hr, beq_iff_eq] at h3
        exact ⟨hd, tl, rfl, by rw [h3]⟩
  · intro i hi hpos
    have := List.all_eq_true.mp h4 i (List.mem_range.mpr hi)
    simp only [Bool.or_eq_true, beq_iff_eq] at this
    rcases this with h0 | hrest
    · omega
    · rw [List.getElem?_eq_getElem hi] at hrest
      simp only [List.any_eq_true] at hrest
      obtain ⟨p, hp, hpb⟩ := hrest
      split at hpb
      · next pb hpbeq =>
        exact ⟨p, hp, pb, hpbeq, by simpa [List.contains_iff_mem] using hpb⟩
      · simp at hpb

/-! ## The model of `region_view_iterator` itself (all hierarchies) -/

/-- Invariant of the FIFO loop: the emitted names are exactly the seen names that are members
    of the level, each once; and every view-successor of an emitted item is seen or queued. -/
structure ViewInv (H : Hier) (c : Name) (queue seen out : List Name) : Prop where
  nodup : out.Nodup
  outSeen : ∀ x ∈ out, x ∈ seen ∧ (H.getIn? c x).isSome
  seenOut : ∀ x ∈ seen, (H.getIn? c x).isSome → x ∈ out
  closed : ∀ x ∈ out, ∀ b, H.getIn? c x = some b → ∀ ts, viewTargets H b = .ok ts →
    ∀ t ∈ ts, t ∈ seen ∨ t ∈ queue

theorem viewGo_inv (H : Hier) (c : Name) :
    ∀ (g : Nat) (queue seen out result : List Name), ViewInv H c queue seen out →
      viewGo H c g queue seen out = .ok result →
      ∃ seen', ViewInv H c [] seen' result ∧ (∀ x ∈ seen, x ∈ seen') ∧ (∀ x ∈ queue, x ∈ seen') := by
  intro g
  induction g with
  | zero => intro q s o r _ h; simp [viewGo] at h
  | succ g ih =>
    intro queue seen out result hinv h
    cases queue with
    | nil =>
      simp only [viewGo, Except.ok.injEq] at h
      subst h
      exact ⟨seen, hinv, fun x hx => hx, by simp⟩
    | cons name rest =>
      simp only [viewGo] at h
      split at h
      · next hs =>
        have hsm : name ∈ seen := by simpa [mem, List.contains_iff_mem] using hs
        obtain ⟨s', h1, h2, h3⟩ := ih rest seen out result
          ⟨hinv.nodup, hinv.outSeen, hinv.seenOut, by
            intro x hx b hb ts hts t ht
            rcases hinv.closed x hx b hb ts hts t ht with e | e
            · exact Or.inl e
            · rcases List.mem_cons.mp e with e2 | e2
              · exact Or.inl (e2 ▸ hsm)
              · exact Or.inr e2⟩ h
        refine ⟨s', h1, h2, ?_⟩
        intro x hx
        rcases List.mem_cons.mp hx with e | e
        · exact e ▸ h2 name hsm
        · exact h3 x e
      · next hs =>
        have hns : name ∉ seen := by simpa [mem, List.contains_iff_mem] using hs
        split at h
        · next hnone =>
          -- not a member of this level: skipped, only marked as seen
          obtain ⟨s', h1, h2, h3⟩ := ih rest (name :: seen) out result
            ⟨hinv.nodup,
             fun x hx => ⟨by simp [(hinv.outSeen x hx).1], (hinv.outSeen x hx).2⟩,
             by
               intro x hx hmem
               rcases List.mem_cons.mp hx with e | e
               · subst e; simp [hnone] at hmem
               · exact hinv.seenOut x e hmem,
             by
               intro x hx b hb ts hts t ht
               rcases hinv.closed x hx b hb ts hts t ht with e | e
               · exact Or.inl (by simp [e])
               · rcases List.mem_cons.mp e with e2 | e2
                 · exact Or.inl (by simp [e2])
                 · exact Or.inr e2⟩ h
          exact ⟨s', h1, fun x hx => h2 x (by simp [hx]), by
            intro x hx
            rcases List.mem_cons.mp hx with e | e
            · exact h2 x (by simp [e])
            · exact h3 x e⟩
        · next b hb =>
          split at h
          · simp at h
          · next ts hts =>
            have hno : name ∉ out := fun hm => hns (hinv.outSeen name hm).1
            obtain ⟨s', h1, h2, h3⟩ := ih (rest ++ ts) (name :: seen) (out ++ [name]) result
              ⟨by
                 rw [List.nodup_append]
                 exact ⟨hinv.nodup, by simp, by
                   intro a ha b' hb' e
                   simp only [List.mem_singleton] at hb'
                   exact hno (hb' ▸ e ▸ ha)⟩,
               by
                 intro x hx
                 rcases List.mem_append.mp hx with e | e
                 · exact ⟨by simp [(hinv.outSeen x e).1], (hinv.outSeen x e).2⟩
                 · simp only [List.mem_singleton] at e
                   subst e
                   exact ⟨by simp, by simp [hb]⟩,
               by
                 intro x hx hmem
                 rcases List.mem_cons.mp hx with e | e
                 · subst e; simp
                 · exact List.mem_append.mpr (Or.inl (hinv.seenOut x e hmem)),
               by
                 intro x hx b' hb' ts' hts' t ht
                 rcases List.mem_append.mp hx with e | e
                 · rcases hinv.closed x e b' hb' ts' hts' t ht with e2 | e2
                   · exact Or.inl (by simp [e2])
                   · rcases List.mem_cons.mp e2 with e3 | e3
                     · exact Or.inl (by simp [e3])
                     · exact Or.inr (List.mem_append.mpr (Or.inl e3))
                 · simp only [List.mem_singleton] at e
                   subst e
                   rw [hb] at hb'
                   simp only [Option.some.injEq] at hb'
                   subst hb'
                   rw [hts] at hts'
                   simp only [Except.ok.injEq] at hts'
                   subst hts'
                   exact Or.inr (List.mem_append.mpr (Or.inr ht))⟩ h
            exact ⟨s', h1, fun x hx => h2 x (by simp [hx]), by
              intro x hx
              rcases List.mem_cons.mp hx with e | e
              · exact h2 x (by simp [e])
              · exact h3 x (List.mem_append.mpr (Or.inl e))⟩

/-- **The concealed view, a-priori, for every hierarchy.** Whenever the model of
    `region_view_iterator` answers, the answer has no repetition, consists of members of the
    level only, contains the head if it is a member, and is closed under the view's successor
    relation inside the level — hence contains every member reachable from the head through
    regions-as-single-nodes. (Under C04/C03 every member is so reachable; that is what the
    per-instance check `viewSpecOK` confirms on real outputs.) -/
theorem viewIter_closed (H : Hier) (c : Name) (out : List Name) (h : viewIter H c = .ok out) :
    out.Nodup ∧ (∀ x ∈ out, (H.getIn? c x).isSome) ∧
    (∀ hd, findHead H c = .ok hd → (H.getIn? c hd).isSome → hd ∈ out) ∧
    ∀ x ∈ out, ∀ b, H.getIn? c x = some b → ∀ ts, viewTargets H b = .ok ts →
      ∀ t ∈ ts, (H.getIn? c t).isSome → t ∈ out := by
  unfold viewIter at h
  cases hh : findHead H c with
  | error e => simp [hh, bind, Except.bind] at h
  | ok hd =>
    simp only [hh, bind, Except.bind] at h
    obtain ⟨s', hinv, _, hq⟩ := viewGo_inv H c _ [hd] [] [] out
      ⟨by simp, by simp, by simp, by simp⟩ h
    refine ⟨hinv.nodup, fun x hx => (hinv.outSeen x hx).2, ?_, ?_⟩
    · intro hd' hhd' hmem
      simp only [Except.ok.injEq] at hhd'
      subst hhd'
      exact hinv.seenOut hd (hq hd (by simp)) hmem
    · intro x hx b hb ts hts t ht hmem
      rcases hinv.closed x hx b hb ts hts t ht with e | e
      · exact hinv.seenOut t e hmem
      · simp at e

/-! Non-vacuity, and the pinned-tree defect as a rejected enumeration: in `staleH` (finding O3,
before commit c78baed) the view of `branch_region_3`'s level continued at a stale name and never
yielded `tail_region_1`. -/
def okH : Hier := [
  { cont := "m", name := "0", jts := ["loop_region_0"] },
  { cont := "m", name := "2" },
  { cont := "m", name := "loop_region_0", kind := .region, jts := ["2"], rkind := "loop",
    header := "1", exiting := "1", parent := "m" },
  { cont := "loop_region_0", name := "1", jts := ["1", "2"], bes := ["1"] }]
example : viewSpecOK okH "m" ["0", "loop_region_0", "2"] = true := by decide
example : iterSpecOK okH "m" ["0", "loop_region_0", "1", "2"] = true := by decide
example : viewSpecOK okH "m" ["0", "2"] = false := by decide
example : (match viewIter okH "m" with | .ok r => r | .error _ => []) = ["0", "loop_region_0", "2"] := by
  decide

end Scfg.C16
