import Scfg.Spec.IterSpec
/-!
# C16 — iteration and the region-concealing view enumerate exactly the graph

`iterSpecOK` / `viewSpecOK` are evaluated on the names the real iterators yield for every
(sub)graph of every stage output; the theorems unfold what a `true` answer means.
(The model of the iterators, `Scfg/Model/Iter.lean`, is compared with the code order-exactly.)
-/
namespace Scfg.C16
open Scfg Scfg.Model Scfg.Spec

theorem nodupL_iff (xs : List Name) : nodupL xs = true ↔ xs.Nodup := by
  induction xs with
  | nil => simp [nodupL]
  | cons x xs ih => simp [nodupL, ih]

theorem sameSet_iff (xs ys : List Name) : sameSet xs ys = true ↔ ∀ x, x ∈ xs ↔ x ∈ ys := by
  simp only [sameSet, Bool.and_eq_true, List.all_eq_true, List.contains_iff_mem]
  constructor
  · rintro ⟨h1, h2⟩ x; exact ⟨h1 x, h2 x⟩
  · intro h; exact ⟨fun x hx => (h x).mp hx, fun x hx => (h x).mpr hx⟩

/-- **Hierarchy iteration.** Every block and region below the container is yielded exactly once
    (no repetition, nothing missing, nothing foreign), and the head comes first. -/
theorem iterSpecOK_sound (H : Hier) (c : Name) (out : List Name) (h : iterSpecOK H c out = true) :
    out.Nodup ∧ (∀ x, x ∈ out ↔ x ∈ below H (H.length + 1) c) ∧
    (∀ hd tl, out = hd :: tl → headRef (H.level c) = some hd) := by
  simp only [iterSpecOK, Bool.and_eq_true] at h
  obtain ⟨⟨h1, h2⟩, h3⟩ := h
  refine ⟨(nodupL_iff _).mp h1, (sameSet_iff _ _).mp h2, ?_⟩
  intro hd tl hout
  subst hout
  cases hr : headRef (H.level c) with
  | none => simp [hr] at h3
  | some h' =>
    simp only [hr, beq_iff_eq] at h3
    rw [h3]

/-- **Concealed view.** Exactly the level's own blocks and regions, each once, the head first,
    and every later item is a (view-)successor of some earlier item. -/
theorem viewSpecOK_sound (H : Hier) (c : Name) (out : List Name) (h : viewSpecOK H c out = true) :
    out.Nodup ∧ (∀ x, x ∈ out ↔ ∃ b ∈ H.level c, b.name = x) ∧
    (∃ hd tl, out = hd :: tl ∧ headRef (H.level c) = some hd) ∧
    ∀ i (hi : i < out.length), 0 < i →
      ∃ p ∈ out.take i, ∃ pb, H.getIn? c p = some pb ∧ out[i] ∈ viewSucc H pb := by
  simp only [viewSpecOK, Bool.and_eq_true] at h
  obtain ⟨⟨⟨h1, h2⟩, h3⟩, h4⟩ := h
  refine ⟨(nodupL_iff _).mp h1, ?_, ?_, ?_⟩
  · intro x
    rw [(sameSet_iff _ _).mp h2 x, List.mem_map]
  · cases out with
    | nil => simp at h3
    | cons hd tl =>
      cases hr : headRef (H.level c) with
      | none => simp [hr] at h3
      | some h' =>
        simp only [hr, beq_iff_eq] at h3
        exact ⟨hd, tl, rfl, by rw [h3]⟩
  · intro i hi hpos
    have := List.all_eq_true.mp h4 i (List.mem_range.mpr hi)
    simp only [Bool.or_eq_true, beq_iff_eq] at this
    rcases this with h0 | hrest
    · omega
    · rw [List.getElem?_eq_getElem hi] at hrest
      simp only [List.any_eq_true] at hrest
      obtain ⟨p, hp, hpb⟩ := hrest
      split at hpb
      · next pb hpbeq =>
        exact ⟨p, hp, pb, hpbeq, by simpa [List.contains_iff_mem] using hpb⟩
      · simp at hpb

/-! Non-vacuity, and the pinned-tree defect as a rejected enumeration: in `staleH` (finding O3,
before commit c78baed) the view of `branch_region_3`'s level continued at a stale name and never
yielded `tail_region_1`. -/
def okH : Hier := [
  { cont := "m", name := "0", jts := ["loop_region_0"] },
  { cont := "m", name := "2" },
  { cont := "m", name := "loop_region_0", kind := .region, jts := ["2"], rkind := "loop",
    header := "1", exiting := "1", parent := "m" },
  { cont := "loop_region_0", name := "1", jts := ["1", "2"], bes := ["1"] }]
example : viewSpecOK okH "m" ["0", "loop_region_0", "2"] = true := by decide
example : iterSpecOK okH "m" ["0", "loop_region_0", "1", "2"] = true := by decide
example : viewSpecOK okH "m" ["0", "2"] = false := by decide
example : (match viewIter okH "m" with | .ok r => r | .error _ => []) = ["0", "loop_region_0", "2"] := by
  decide

end Scfg.C16
