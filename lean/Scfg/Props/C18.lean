import Scfg.Model.Names
import Std.Data.String.ToNat
/-!
# C18 — generated names are fresh

* `requests_fresh`: for **any** sequence of requests (any interleaving of block / region /
  variable requests, any kinds), the `(kind, index)` pairs handed out are pairwise distinct and
  lie at or above the counters the generator started with — so they also differ from
  everything handed out earlier by the same generator (a graph and its extracted sub-graphs
  share one generator by reference).
* `render_inj`: the strings are distinct as well, provided the table of prefixes the kinds in
  use give rise to passes the decidable check `prefixesOK` (no prefix continues another one
  with a digit) — the check is evaluated on the kinds found in the source on every run.
-/
namespace Scfg.C18
open Scfg Scfg.Model

/-- The current counter of a kind. -/
def ctr (ng : NameGen) (k : String) : Nat :=
  match ng.find? (·.1 == k) with
  | some p => p.2
  | none => 0

/-- Run a request sequence; record kind and index of every name handed out. -/
def runIdx : NameGen → List Req → List (String × Nat)
  | _, [] => []
  | ng, r :: rs => (r.2, (ng.next r.2).1) :: runIdx (ng.next r.2).2 rs

theorem request_snd (ng : NameGen) (r : Req) : (request ng r).2 = (ng.next r.2).2 := by
  unfold request
  cases r.1 <;> simp [NameGen.newBlockName, NameGen.newRegionName, NameGen.newVarName]

theorem next_fst (ng : NameGen) (k : String) : (ng.next k).1 = ctr ng k := by
  unfold NameGen.next ctr
  cases h : List.find? (fun x => x.1 == k) ng with
  | none => rfl
  | some p => rfl

theorem find_map_update (ng : NameGen) (k k' : String) (i : Nat) :
    (ng.map fun p => if p.1 == k then (k, i) else p).find? (·.1 == k') =
      if k' = k then (ng.find? (·.1 == k)).map (fun _ => (k, i)) else ng.find? (·.1 == k') := by
  induction ng with
  | nil => simp
  | cons p ps ih =>
    rw [List.map_cons, List.find?_cons, ih]
    by_cases hp : p.1 = k
    · have hpk : (p.1 == k) = true := by simpa using hp
      rw [if_pos hpk]
      by_cases hk : k' = k
      · have h2 : (k == k') = true := by simpa using hk.symm
        subst hk
        simp [hp]
      · have h2 : (k == k') = false := by simpa using fun e => hk e.symm
        have h3 : (p.1 == k') = false := by simpa [hp] using fun e => hk e.symm
        simp only [h2, hk, if_false, List.find?_cons, h3]
    · have hpk : (p.1 == k) = false := by simpa using hp
      rw [if_neg (by simp [hpk])]
      by_cases hk : k' = k
      · have h3 : (p.1 == k') = false := by simpa [hk] using hp
        simp only [hk, if_true, List.find?_cons, hpk]
      · by_cases hpk' : p.1 = k'
        · have h3 : (p.1 == k') = true := by simpa using hpk'
          simp only [hk, if_false, List.find?_cons, h3]
        · have h3 : (p.1 == k') = false := by simpa using hpk'
          simp only [hk, if_false, List.find?_cons, h3]

theorem ctr_next (ng : NameGen) (k k' : String) :
    ctr (ng.next k).2 k' = if k' = k then ctr ng k + 1 else ctr ng k' := by
  unfold NameGen.next
  split
  · next p i hf =>
    have hk : p = k := by
      have := List.find?_some hf; simpa using this
    subst hk
    simp only [ctr, find_map_update]
    by_cases h : k' = p
    · subst h; simp [hf]
    · simp [h]
  · next hf =>
    simp only [ctr, List.find?_append, hf]
    by_cases h : k' = k
    · subst h; simp [hf]
    · have h2 : (k == k') = false := by simpa using fun e => h e.symm
      simp [h, h2]

/-- Every index handed out for kind `k` is at or above `k`'s starting counter. -/
theorem runIdx_ge (ng : NameGen) (rs : List Req) :
    ∀ p ∈ runIdx ng rs, ctr ng p.1 ≤ p.2 := by
  induction rs generalizing ng with
  | nil => simp [runIdx]
  | cons r rs ih =>
    intro p hp
    simp only [runIdx, List.mem_cons] at hp
    rcases hp with h | h
    · subst h; simp [next_fst]
    · have := ih _ p h
      rw [ctr_next] at this
      split at this
      · next hk => rw [hk]; omega
      · omega

/-- **Freshness, structurally.** For any request sequence, from any generator state, no
    `(kind, index)` pair is handed out twice. -/
theorem requests_fresh (ng : NameGen) (rs : List Req) : (runIdx ng rs).Nodup := by
  induction rs generalizing ng with
  | nil => simp [runIdx]
  | cons r rs ih =>
    simp only [runIdx, List.nodup_cons]
    refine ⟨?_, ih _⟩
    intro hmem
    have := runIdx_ge _ rs _ hmem
    simp only [ctr_next, if_true, next_fst] at this
    omega

/-! ## From indices to strings -/

/-- The characters of the name the model (and the code) renders for request `r`, index `i`. -/
def renderL (r : Req) (i : Nat) : List Char := pre r.1 r.2 ++ Nat.toDigits 10 i ++ suf r.1

theorem request_toList (ng : NameGen) (r : Req) :
    (request ng r).1.toList = renderL r (ng.next r.2).1 := by
  obtain ⟨ns, k⟩ := r
  cases ns
  · show (ng.newBlockName k).1.toList =
      (k.toList ++ "_block_".toList) ++ Nat.toDigits 10 (ng.next k).1 ++ []
    simp only [NameGen.newBlockName, String.toList_append, Nat.toString_eq_ofList_toDigits,
      String.toList_ofList, List.append_nil]
  · show (ng.newRegionName k).1.toList =
      (k.toList ++ "_region_".toList) ++ Nat.toDigits 10 (ng.next k).1 ++ []
    simp only [NameGen.newRegionName, String.toList_append, Nat.toString_eq_ofList_toDigits,
      String.toList_ofList, List.append_nil]
  · show (ng.newVarName k).1.toList =
      ("__scfg_".toList ++ k.toList ++ "_var_".toList) ++ Nat.toDigits 10 (ng.next k).1 ++ "__".toList
    simp only [NameGen.newVarName, String.toList_append, Nat.toString_eq_ofList_toDigits,
      String.toList_ofList]

theorem toDigits_inj {i j : Nat} (h : Nat.toDigits 10 i = Nat.toDigits 10 j) : i = j := by
  have hi := Nat.ofDigitChars_toDigits (b := 10) (n := i) (by omega) (by omega)
  have hj := Nat.ofDigitChars_toDigits (b := 10) (n := j) (by omega) (by omega)
  rw [h] at hi
  omega

theorem head_digit (i : Nat) (rest : List Char) :
    ∃ c t, Nat.toDigits 10 i ++ rest = c :: t ∧ c.isDigit = true := by
  cases hd : Nat.toDigits 10 i with
  | nil => exact absurd hd Nat.toDigits_ne_nil
  | cons c t =>
    refine ⟨c, t ++ rest, by simp, ?_⟩
    exact Nat.isDigit_of_mem_toDigits (b := 10) (n := i) (by omega) (by omega) (by simp [hd])

theorem sep_ne (p q : List Char) (i j : Nat) (x y : List Char) (h : sepOK p q = true)
    (hpq : p ≠ q) : p ++ Nat.toDigits 10 i ++ x ≠ q ++ Nat.toDigits 10 j ++ y := by
  intro heq
  simp only [List.append_assoc] at heq
  simp only [sepOK, Bool.and_eq_true, Bool.or_eq_true, Bool.not_eq_true', ] at h
  rcases List.append_eq_append_iff.mp heq with ⟨a, hq, hx⟩ | ⟨a, hp, hy⟩
  · -- q = p ++ a
    have hpre : p.isPrefixOf q = true := by
      rw [List.isPrefixOf_iff_prefix]; exact ⟨a, hq.symm⟩
    rcases h.1 with h1 | h1
    · rw [hpre] at h1; cases h1
    · have hd : q.drop p.length = a := by rw [hq]; simp
      rw [hd] at h1
      cases a with
      | nil => simp at h1
      | cons c t =>
        obtain ⟨c', t', he, hdig⟩ := head_digit i x
        rw [he] at hx
        simp only [List.cons_append, List.cons.injEq] at hx
        simp only [Bool.not_eq_true'] at h1
        rw [← hx.1, hdig] at h1
        cases h1
  · have hpre : q.isPrefixOf p = true := by
      rw [List.isPrefixOf_iff_prefix]; exact ⟨a, hp.symm⟩
    rcases h.2 with h1 | h1
    · rw [hpre] at h1; cases h1
    · have hd : p.drop q.length = a := by rw [hp]; simp
      rw [hd] at h1
      cases a with
      | nil => exact hpq (by simpa using hp)
      | cons c t =>
        obtain ⟨c', t', he, hdig⟩ := head_digit j y
        rw [he] at hy
        simp only [List.cons_append, List.cons.injEq] at hy
        simp only [Bool.not_eq_true'] at h1
        rw [← hy.1, hdig] at h1
        cases h1

/-- **Freshness of the strings.** Over a request table that passes `prefixesOK`, rendering is
    injective: equal names come from equal requests with equal indices. -/
theorem render_inj (T : List Req) (hT : prefixesOK T = true) (a b : Req) (ha : a ∈ T) (hb : b ∈ T)
    (i j : Nat) (h : renderL a i = renderL b j) : a = b ∧ i = j := by
  have hab := List.all_eq_true.mp (List.all_eq_true.mp hT a ha) b hb
  simp only [Bool.or_eq_true, beq_iff_eq] at hab
  by_cases he : a = b
  · subst he
    refine ⟨rfl, ?_⟩
    unfold renderL at h
    simp only [List.append_assoc] at h
    have h1 := List.append_cancel_left h
    exact toDigits_inj (List.append_cancel_right h1)
  · rcases hab with hab | hab
    · exact absurd hab he
    · exfalso
      by_cases hp : pre a.1 a.2 = pre b.1 b.2
      · -- equal prefixes would make sepOK false (a prefix of itself, nothing left to drop)
        have hself : (pre b.1 b.2).isPrefixOf (pre b.1 b.2) = true := by
          rw [List.isPrefixOf_iff_prefix]; exact List.prefix_refl _
        simp [sepOK, hp, hself] at hab
      · exact sep_ne _ _ i j _ _ hab hp h

/-- Names handed out by one generator over any request sequence drawn from a good table are
    pairwise distinct strings. -/
theorem names_fresh (T : List Req) (hT : prefixesOK T = true) (ng : NameGen) (rs : List Req)
    (hrs : ∀ r ∈ rs, r ∈ T) :
    (runNames ng rs).Nodup := by
  induction rs generalizing ng with
  | nil => simp [runNames]
  | cons r rs ih =>
    simp only [runNames, List.nodup_cons]
    refine ⟨?_, ih _ fun r' hr' => hrs r' (by simp [hr'])⟩
    intro hmem
    -- a later name equal to the first one
    have key : ∀ (ng' : NameGen) (rs' : List Req), (∀ r' ∈ rs', r' ∈ T) →
        ∀ n ∈ runNames ng' rs', ∃ r' ∈ rs', ∃ i, (r'.2, i) ∈ runIdx ng' rs' ∧ n.toList = renderL r' i := by
      intro ng' rs'
      induction rs' generalizing ng' with
      | nil => simp [runNames]
      | cons q qs ihq =>
        intro hq n hn
        simp only [runNames, List.mem_cons] at hn
        rcases hn with hn | hn
        · exact ⟨q, by simp, (ng'.next q.2).1, by simp [runIdx], hn ▸ request_toList ng' q⟩
        · obtain ⟨r', hr', i, hi, hr⟩ := ihq _ (fun r' h' => hq r' (by simp [h'])) n hn
          rw [request_snd] at hi
          exact ⟨r', by simp [hr'], i, by simp [runIdx, hi], hr⟩
    obtain ⟨r', hr', i, hi, hr⟩ := key _ rs (fun r' h' => hrs r' (by simp [h'])) _ hmem
    rw [request_toList] at hr
    obtain ⟨hrr, hii⟩ := render_inj T hT r r' (hrs r (by simp)) (hrs r' (by simp [hr'])) _ _ hr
    subst hrr
    rw [request_snd] at hi
    have := runIdx_ge _ rs _ hi
    simp only [ctr_next, if_true] at this
    rw [next_fst] at hii
    omega

/-- **Never clobbering an existing name.** If an existing name has the shape `renderL r i` and
    the generator's counter for `r`'s kind is already past `i` (what `NameGenerator.reserve`
    establishes for every name present when a graph object is created), then no name handed
    out later — for any request sequence over a good table — equals it. -/
theorem fresh_vs_existing (T : List Req) (hT : prefixesOK T = true) (ng : NameGen) (rs : List Req)
    (hrs : ∀ r ∈ rs, r ∈ T) (r : Req) (hr : r ∈ T) (i : Nat) (hres : i < ctr ng r.2) :
    ∀ n ∈ runNames ng rs, n.toList ≠ renderL r i := by
  induction rs generalizing ng with
  | nil => simp [runNames]
  | cons q qs ih =>
    intro n hn
    simp only [runNames, List.mem_cons] at hn
    rcases hn with hn | hn
    · subst hn
      rw [request_toList]
      intro heq
      obtain ⟨hq, hi⟩ := render_inj T hT q r (hrs q (by simp)) hr _ _ heq
      subst hq
      rw [next_fst] at hi
      omega
    · refine ih _ (fun r' h' => hrs r' (by simp [h'])) ?_ n hn
      rw [request_snd, ctr_next]
      split
      · next h => rw [← h]; omega
      · omega

/-! Non-vacuity: the kinds the library uses (block kinds of `block_names.py`, region kinds and
variable kinds that appear as literals in the source) pass the check; a table with a kind that
continues another one with a digit does not. -/
def libReqs : List Req :=
  (["basic", "python_bytecode", "synth_head", "synth_branch", "synth_tail", "synth_exit",
    "synth_asign", "synth_return", "synth_exit_latch", "synth_exit_branch", "synth_fill",
    "region"].map fun k => (Ns.block, k)) ++
  (["meta", "loop", "head", "branch", "tail"].map fun k => (Ns.region, k)) ++
  (["control", "exit", "backedge"].map fun k => (Ns.var, k))
example : prefixesOK libReqs = true := by decide
example : prefixesOK [(Ns.block, "a"), (Ns.block, "a_block_1")] = false := by decide

end Scfg.C18
