import Scfg.Model.Iter
/-!
# C16 — the model of `SCFG.__iter__`, a priori, for every hierarchy

`iterAll_exact`: whenever the model of the breadth-first hierarchy iterator answers, the set of
names it yields is *exactly* the set `Covered` — the head of the level, every member of the level
reachable from it through `jump_targets`, and (recursively) the same below every region that was
reached. Nothing foreign is yielded (soundness) and nothing reachable is missed (completeness),
whatever the nesting depth. Duplicate-freedom of the yielded list (`iterAll_nodup`,
`iterAll_enumerates`) is in Props/C16Nodup.lean.
-/
namespace Scfg.C16
open Scfg Scfg.Model

/-- members of level `c` the FIFO loop of `__iter__` gets to: the head, and every member that is a
    `jump_targets` successor of a member it got to -/
inductive IterReach (H : Hier) (c : Name) : Name → Prop
  | head {hd} : findHead H c = .ok hd → (H.getIn? c hd).isSome → IterReach H c hd
  | succ {x b t} : IterReach H c x → H.getIn? c x = some b → t ∈ b.jt → (H.getIn? c t).isSome →
      IterReach H c t

/-- everything below `c` the iterator is meant to yield: what it reaches on the level, and what is
    covered below every region it reaches -/
inductive Covered (H : Hier) : Name → Name → Prop
  | here {c x} : IterReach H c x → Covered H c x
  | inside {c r b x} : IterReach H c r → H.getIn? c r = some b → b.isRegion = true →
      Covered H b.name x → Covered H c x

/-- loop invariant of `iterAll.go` -/
structure GoInv (H : Hier) (c : Name) (queue seen out : List Name) : Prop where
  sound : ∀ x ∈ out, Covered H c x
  qreach : ∀ x ∈ queue, (H.getIn? c x).isSome → IterReach H c x
  done : ∀ x ∈ seen, ∀ b, H.getIn? c x = some b →
    x ∈ out ∧ (∀ t ∈ b.jt, t ∈ seen ∨ t ∈ queue) ∧
    (b.isRegion = true → ∀ y, Covered H b.name y → y ∈ out)

theorem go_inv (H : Hier) (f : Nat) (c : Name)
    (ih : ∀ c' out', iterAll H f c' = .ok out' →
      (∀ x, Covered H c' x → x ∈ out') ∧ (∀ x ∈ out', Covered H c' x)) :
    ∀ (g : Nat) (queue seen out result : List Name), GoInv H c queue seen out →
      iterAll.go H f c g queue seen out = .ok result →
      ∃ seen', GoInv H c [] seen' result ∧ (∀ x ∈ seen, x ∈ seen') ∧ (∀ x ∈ queue, x ∈ seen') := by
  intro g
  induction g with
  | zero => intro q s o r _ h; simp [iterAll.go] at h
  | succ g ihg =>
    intro queue seen out result hinv h
    cases queue with
    | nil =>
      simp only [iterAll.go, Except.ok.injEq] at h
      subst h
      exact ⟨seen, hinv, fun x hx => hx, by simp⟩
    | cons name rest =>
      simp only [iterAll.go] at h
      split at h
      · next hs =>
        have hsm : name ∈ seen := by simpa [mem, List.contains_iff_mem] using hs
        obtain ⟨s', h1, h2, h3⟩ := ihg rest seen out result
          ⟨hinv.sound, fun x hx => hinv.qreach x (List.mem_cons_of_mem _ hx), by
            intro x hx b hb
            obtain ⟨d1, d2, d3⟩ := hinv.done x hx b hb
            refine ⟨d1, ?_, d3⟩
            intro t ht
            rcases d2 t ht with e | e
            · exact Or.inl e
            · rcases List.mem_cons.mp e with e2 | e2
              · exact Or.inl (e2 ▸ hsm)
              · exact Or.inr e2⟩ h
        refine ⟨s', h1, h2, ?_⟩
        intro x hx
        rcases List.mem_cons.mp hx with e | e
        · exact e ▸ h2 name hsm
        · exact h3 x e
      · next hs =>
        have hns : name ∉ seen := by simpa [mem, List.contains_iff_mem] using hs
        split at h
        · next hnone =>
          obtain ⟨s', h1, h2, h3⟩ := ihg rest (name :: seen) out result
            ⟨hinv.sound, fun x hx => hinv.qreach x (List.mem_cons_of_mem _ hx), by
              intro x hx b hb
              rcases List.mem_cons.mp hx with e | e
              · subst e; simp [hnone] at hb
              · obtain ⟨d1, d2, d3⟩ := hinv.done x e b hb
                refine ⟨d1, ?_, d3⟩
                intro t ht
                rcases d2 t ht with e1 | e1
                · exact Or.inl (List.mem_cons_of_mem _ e1)
                · rcases List.mem_cons.mp e1 with e2 | e2
                  · exact Or.inl (by simp [e2])
                  · exact Or.inr e2⟩ h
          exact ⟨s', h1, fun x hx => h2 x (List.mem_cons_of_mem _ hx), by
            intro x hx
            rcases List.mem_cons.mp hx with e | e
            · exact h2 x (by simp [e])
            · exact h3 x e⟩
        · next b hb =>
          have hreach : IterReach H c name := hinv.qreach name (by simp) (by simp [hb])
          -- the nested iteration of a region
          have key : ∃ inner, (if b.isRegion = true then iterAll H f b.name else pure []) = .ok inner ∧
              iterAll.go H f c g (rest ++ b.jt) (name :: seen) (out ++ [name] ++ inner) = .ok result := by
            cases hreg : b.isRegion with
            | false =>
              simp only [hreg, Bool.false_eq_true, if_false, bind, Except.bind, pure, Except.pure] at h
              exact ⟨[], by simp [pure, Except.pure], by simpa using h⟩
            | true =>
              simp only [hreg, if_true, bind, Except.bind] at h
              cases hin : iterAll H f b.name with
              | error e => simp [hin] at h
              | ok inner => exact ⟨inner, by simp, by simpa [hin] using h⟩
          obtain ⟨inner, hinner, hgo⟩ := key
          have hinSound : ∀ y ∈ inner, Covered H c y := by
            intro y hy
            cases hreg : b.isRegion with
            | false => simp [hreg, pure, Except.pure] at hinner; subst hinner; simp at hy
            | true =>
              simp only [hreg, if_true] at hinner
              exact Covered.inside hreach hb hreg ((ih _ _ hinner).2 y hy)
          have hinComplete : b.isRegion = true → ∀ y, Covered H b.name y → y ∈ inner := by
            intro hreg y hy
            simp only [hreg, if_true] at hinner
            exact (ih _ _ hinner).1 y hy
          obtain ⟨s', h1, h2, h3⟩ := ihg (rest ++ b.jt) (name :: seen) (out ++ [name] ++ inner) result
            ⟨by
               intro x hx
               rcases List.mem_append.mp hx with e | e
               · rcases List.mem_append.mp e with e1 | e1
                 · exact hinv.sound x e1
                 · simp only [List.mem_singleton] at e1
                   exact e1 ▸ Covered.here hreach
               · exact hinSound x e,
             by
               intro x hx hmem
               rcases List.mem_append.mp hx with e | e
               · exact hinv.qreach x (List.mem_cons_of_mem _ e) hmem
               · exact IterReach.succ hreach hb e hmem,
             by
               intro x hx b' hb'
               rcases List.mem_cons.mp hx with e | e
               · subst e
                 rw [hb] at hb'
                 simp only [Option.some.injEq] at hb'
                 subst hb'
                 refine ⟨by simp, ?_, ?_⟩
                 · intro t ht
                   exact Or.inr (List.mem_append.mpr (Or.inr ht))
                 · intro hreg y hy
                   exact List.mem_append.mpr (Or.inr (hinComplete hreg y hy))
               · obtain ⟨d1, d2, d3⟩ := hinv.done x e b' hb'
                 refine ⟨by simp [d1], ?_, ?_⟩
                 · intro t ht
                   rcases d2 t ht with e1 | e1
                   · exact Or.inl (List.mem_cons_of_mem _ e1)
                   · rcases List.mem_cons.mp e1 with e2 | e2
                     · exact Or.inl (by simp [e2])
                     · exact Or.inr (List.mem_append.mpr (Or.inl e2))
                 · intro hreg y hy
                   have := d3 hreg y hy
                   simp [this]⟩ hgo
          exact ⟨s', h1, fun x hx => h2 x (List.mem_cons_of_mem _ hx), by
            intro x hx
            rcases List.mem_cons.mp hx with e | e
            · exact h2 x (by simp [e])
            · exact h3 x (List.mem_append.mpr (Or.inl e))⟩

/-- **`SCFG.__iter__`, a-priori, for every hierarchy and every nesting depth.** Whenever the model
    answers, it yields exactly the covered names: every name it yields is the head of its level, a
    member reached from it, or covered below a reached region; and every such name is yielded. -/
theorem iterAll_exact (H : Hier) : ∀ (f : Nat) (c : Name) (out : List Name),
    iterAll H f c = .ok out →
    (∀ x, Covered H c x → x ∈ out) ∧ (∀ x ∈ out, Covered H c x) := by
  intro f
  induction f with
  | zero => intro c out h; simp [iterAll] at h
  | succ f ih =>
    intro c out h
    rw [iterAll] at h
    cases hh : findHead H c with
    | error e => simp [hh, bind, Except.bind] at h
    | ok hd =>
      simp only [hh, bind, Except.bind] at h
      obtain ⟨s', hinv, _, hq⟩ := go_inv H f c ih _ [hd] [] [] out
        ⟨by simp, by
          intro x hx hmem
          simp only [List.mem_singleton] at hx
          subst hx
          exact IterReach.head hh hmem, by simp⟩ h
      have reachSeen : ∀ x, IterReach H c x → x ∈ s' := by
        intro x hx
        induction hx with
        | head h1 _ =>
          rw [hh] at h1
          simp only [Except.ok.injEq] at h1
          subst h1
          exact hq _ (by simp)
        | succ _ hb ht _ ihx =>
          rcases (hinv.done _ ihx _ hb).2.1 _ ht with e | e
          · exact e
          · simp at e
      refine ⟨?_, hinv.sound⟩
      intro x hx
      cases hx with
      | here hr =>
        have hm := reachSeen x hr
        have : (H.getIn? c x).isSome := by
          cases hr with
          | head _ h2 => exact h2
          | succ _ _ _ h4 => exact h4
        obtain ⟨b, hb⟩ := Option.isSome_iff_exists.mp this
        exact (hinv.done x hm b hb).1
      | inside hr hb hreg hcov =>
        exact (hinv.done _ (reachSeen _ hr) _ hb).2.2 hreg _ hcov

/-! ## `__iter__` starts with the head -/

theorem go_prefix (H : Hier) (f : Nat) (c : Name) :
    ∀ (g : Nat) (queue seen out result : List Name),
      iterAll.go H f c g queue seen out = .ok result → ∃ suffix, result = out ++ suffix := by
  intro g
  induction g with
  | zero => intro q s o r h; simp [iterAll.go] at h
  | succ g ih =>
    intro queue seen out result h
    cases queue with
    | nil =>
      simp only [iterAll.go, Except.ok.injEq] at h
      exact ⟨[], by simp [h]⟩
    | cons name rest =>
      simp only [iterAll.go] at h
      split at h
      · exact ih _ _ _ _ h
      · split at h
        · exact ih _ _ _ _ h
        · next b hb =>
          cases hreg : b.isRegion with
          | false =>
            simp only [hreg, Bool.false_eq_true, if_false, bind, Except.bind, pure, Except.pure] at h
            obtain ⟨suf, hs⟩ := ih _ _ _ _ h
            exact ⟨[name] ++ suf, by simp [hs]⟩
          | true =>
            simp only [hreg, if_true, bind, Except.bind] at h
            cases hin : iterAll H f b.name with
            | error e => simp [hin] at h
            | ok inner =>
              simp only [hin] at h
              obtain ⟨suf, hs⟩ := ih _ _ _ _ h
              exact ⟨[name] ++ inner ++ suf, by simp [hs]⟩

/-- **`SCFG.__iter__` starts with the head**: whenever the model answers and the head is a member of
    the level, it is the first name yielded. -/
theorem iterAll_head_first (H : Hier) (f : Nat) (c : Name) (out : List Name) (hd : Name)
    (h : iterAll H f c = .ok out) (hh : findHead H c = .ok hd) (hm : (H.getIn? c hd).isSome) :
    out.head? = some hd := by
  cases f with
  | zero => simp [iterAll] at h
  | succ f =>
    rw [iterAll] at h
    simp only [hh, bind, Except.bind] at h
    obtain ⟨b, hb⟩ := Option.isSome_iff_exists.mp hm
    -- the first round of the loop yields the head
    rw [show (H.level c).length + List.foldl (fun n x => n + x.jts.length) 0 (H.level c) + 4 =
        ((H.level c).length + List.foldl (fun n x => n + x.jts.length) 0 (H.level c) + 3) + 1 by omega] at h
    simp only [iterAll.go, mem, List.contains_nil, Bool.false_eq_true, if_false, hb] at h
    cases hreg : b.isRegion with
    | false =>
      simp only [hreg, Bool.false_eq_true, if_false, bind, Except.bind, pure, Except.pure] at h
      obtain ⟨suf, hs⟩ := go_prefix H f c _ _ _ _ _ h
      simp [hs]
    | true =>
      simp only [hreg, if_true, bind, Except.bind] at h
      cases hin : iterAll H f b.name with
      | error e => simp [hin] at h
      | ok inner =>
        simp only [hin] at h
        obtain ⟨suf, hs⟩ := go_prefix H f c _ _ _ _ _ h
        simp [hs]

/-! ## The concealed view: exactly the members reachable through regions-as-single-nodes -/

/-- members of level `c` the concealed view gets to: the head, and every member that is a view
    successor (a region continues at its exiting block's targets) of a member it got to -/
inductive ViewReach (H : Hier) (c : Name) : Name → Prop
  | head {hd} : findHead H c = .ok hd → (H.getIn? c hd).isSome → ViewReach H c hd
  | succ {x b ts t} : ViewReach H c x → H.getIn? c x = some b → viewTargets H b = .ok ts → t ∈ ts →
      (H.getIn? c t).isSome → ViewReach H c t

structure ViewInv2 (H : Hier) (c : Name) (queue seen out : List Name) : Prop where
  sound : ∀ x ∈ out, ViewReach H c x
  qreach : ∀ x ∈ queue, (H.getIn? c x).isSome → ViewReach H c x
  done : ∀ x ∈ seen, ∀ b, H.getIn? c x = some b →
    x ∈ out ∧ ∀ ts, viewTargets H b = .ok ts → ∀ t ∈ ts, t ∈ seen ∨ t ∈ queue

theorem viewGo_inv2 (H : Hier) (c : Name) :
    ∀ (g : Nat) (queue seen out result : List Name), ViewInv2 H c queue seen out →
      viewGo H c g queue seen out = .ok result →
      ∃ seen', ViewInv2 H c [] seen' result ∧ (∀ x ∈ seen, x ∈ seen') ∧ (∀ x ∈ queue, x ∈ seen') := by
  intro g
  induction g with
  | zero => intro q s o r _ h; simp [viewGo] at h
  | succ g ih =>
    intro queue seen out result hinv h
    cases queue with
    | nil =>
      simp only [viewGo, Except.ok.injEq] at h
      subst h
      exact ⟨seen, hinv, fun x hx => hx, by simp⟩
    | cons name rest =>
      simp only [viewGo] at h
      split at h
      · next hs =>
        have hsm : name ∈ seen := by simpa [mem, List.contains_iff_mem] using hs
        obtain ⟨s', h1, h2, h3⟩ := ih rest seen out result
          ⟨hinv.sound, fun x hx => hinv.qreach x (List.mem_cons_of_mem _ hx), by
            intro x hx b hb
            obtain ⟨d1, d2⟩ := hinv.done x hx b hb
            refine ⟨d1, fun ts hts t ht => ?_⟩
            rcases d2 ts hts t ht with e | e
            · exact Or.inl e
            · rcases List.mem_cons.mp e with e2 | e2
              · exact Or.inl (e2 ▸ hsm)
              · exact Or.inr e2⟩ h
        exact ⟨s', h1, h2, fun x hx => by
          rcases List.mem_cons.mp hx with e | e
          · exact e ▸ h2 name hsm
          · exact h3 x e⟩
      · next hs =>
        have hns : name ∉ seen := by simpa [mem, List.contains_iff_mem] using hs
        split at h
        · next hnone =>
          obtain ⟨s', h1, h2, h3⟩ := ih rest (name :: seen) out result
            ⟨hinv.sound, fun x hx => hinv.qreach x (List.mem_cons_of_mem _ hx), by
              intro x hx b hb
              rcases List.mem_cons.mp hx with e | e
              · subst e; simp [hnone] at hb
              · obtain ⟨d1, d2⟩ := hinv.done x e b hb
                refine ⟨d1, fun ts hts t ht => ?_⟩
                rcases d2 ts hts t ht with e1 | e1
                · exact Or.inl (List.mem_cons_of_mem _ e1)
                · rcases List.mem_cons.mp e1 with e2 | e2
                  · exact Or.inl (by simp [e2])
                  · exact Or.inr e2⟩ h
          exact ⟨s', h1, fun x hx => h2 x (List.mem_cons_of_mem _ hx), fun x hx => by
            rcases List.mem_cons.mp hx with e | e
            · exact h2 x (by simp [e])
            · exact h3 x e⟩
        · next b hb =>
          have hreach : ViewReach H c name := hinv.qreach name (by simp) (by simp [hb])
          split at h
          · simp at h
          · next ts hts =>
            obtain ⟨s', h1, h2, h3⟩ := ih (rest ++ ts) (name :: seen) (out ++ [name]) result
              ⟨by
                 intro x hx
                 rcases List.mem_append.mp hx with e | e
                 · exact hinv.sound x e
                 · simp only [List.mem_singleton] at e
                   exact e ▸ hreach,
               by
                 intro x hx hmem
                 rcases List.mem_append.mp hx with e | e
                 · exact hinv.qreach x (List.mem_cons_of_mem _ e) hmem
                 · exact ViewReach.succ hreach hb hts e hmem,
               by
                 intro x hx b' hb'
                 rcases List.mem_cons.mp hx with e | e
                 · subst e
                   rw [hb] at hb'
                   simp only [Option.some.injEq] at hb'
                   subst hb'
                   refine ⟨by simp, fun ts' hts' t ht => ?_⟩
                   rw [hts] at hts'
                   simp only [Except.ok.injEq] at hts'
                   subst hts'
                   exact Or.inr (List.mem_append.mpr (Or.inr ht))
                 · obtain ⟨d1, d2⟩ := hinv.done x e b' hb'
                   refine ⟨by simp [d1], fun ts' hts' t ht => ?_⟩
                   rcases d2 ts' hts' t ht with e1 | e1
                   · exact Or.inl (List.mem_cons_of_mem _ e1)
                   · rcases List.mem_cons.mp e1 with e2 | e2
                     · exact Or.inl (by simp [e2])
                     · exact Or.inr (List.mem_append.mpr (Or.inl e2))⟩ h
            exact ⟨s', h1, fun x hx => h2 x (List.mem_cons_of_mem _ hx), fun x hx => by
              rcases List.mem_cons.mp hx with e | e
              · exact h2 x (by simp [e])
              · exact h3 x (List.mem_append.mpr (Or.inl e))⟩

/-- **The concealed view, exactly** (every hierarchy): whenever the model of
    `region_view_iterator` answers it yields exactly the members of the level reachable from the
    head with regions as single nodes — every yielded item is the head or a view successor of a
    yielded item, and nothing so reachable is missing. -/
theorem viewIter_exact (H : Hier) (c : Name) (out : List Name) (h : viewIter H c = .ok out) :
    ∀ x, x ∈ out ↔ ViewReach H c x := by
  unfold viewIter at h
  cases hh : findHead H c with
  | error e => simp [hh, bind, Except.bind] at h
  | ok hd =>
    simp only [hh, bind, Except.bind] at h
    obtain ⟨s', hinv, _, hq⟩ := viewGo_inv2 H c _ [hd] [] [] out
      ⟨by simp, by
        intro x hx hmem
        simp only [List.mem_singleton] at hx
        subst hx
        exact ViewReach.head hh hmem, by simp⟩ h
    intro x
    refine ⟨hinv.sound x, fun hx => ?_⟩
    have seenAll : ∀ y, ViewReach H c y → y ∈ s' := by
      intro y hy
      induction hy with
      | head h1 _ =>
        rw [hh] at h1
        simp only [Except.ok.injEq] at h1
        subst h1
        exact hq _ (by simp)
      | succ _ hb hts ht _ ihy =>
        rcases (hinv.done _ ihy _ hb).2 _ hts _ ht with e | e
        · exact e
        · simp at e
    have hmem : (H.getIn? c x).isSome := by
      cases hx with
      | head _ h2 => exact h2
      | succ _ _ _ _ h5 => exact h5
    obtain ⟨b, hb⟩ := Option.isSome_iff_exists.mp hmem
    exact (hinv.done x (seenAll x hx) b hb).1

/-! ## Order of the concealed view: head first, every other item after one of its predecessors -/

/-- `x` is a view successor of some member of `ps` -/
def HasPredIn (H : Hier) (c : Name) (ps : List Name) (x : Name) : Prop :=
  ∃ p ∈ ps, ∃ b ts, H.getIn? c p = some b ∧ viewTargets H b = .ok ts ∧ x ∈ ts

/-- every item of `out` other than the first comes after one of its view predecessors -/
def Ordered (H : Hier) (c : Name) (out : List Name) : Prop :=
  ∀ i (hi : i < out.length), 0 < i → HasPredIn H c (out.take i) out[i]

theorem hasPredIn_mono (H : Hier) (c : Name) (ps qs : List Name) (x : Name) (h : ∀ p ∈ ps, p ∈ qs)
    (hp : HasPredIn H c ps x) : HasPredIn H c qs x := by
  obtain ⟨p, hpm, b, ts, h1, h2, h3⟩ := hp
  exact ⟨p, h p hpm, b, ts, h1, h2, h3⟩

theorem viewGo_order (H : Hier) (c hd : Name) :
    ∀ (g : Nat) (queue seen out result : List Name),
      (∀ x ∈ queue, x = hd ∨ HasPredIn H c out x) →
      (out = [] ∨ out.head? = some hd) → (hd ∈ seen ∨ out = []) →
      (∀ x ∈ out, x ∈ seen) →
      Ordered H c out →
      viewGo H c g queue seen out = .ok result →
      Ordered H c result ∧ (result = [] ∨ result.head? = some hd) := by
  intro g
  induction g with
  | zero => intro q s o r _ _ _ _ _ h; simp [viewGo] at h
  | succ g ih =>
    intro queue seen out result hq hhd hseen hos hord h
    cases queue with
    | nil =>
      simp only [viewGo, Except.ok.injEq] at h
      subst h
      exact ⟨hord, hhd⟩
    | cons name rest =>
      simp only [viewGo] at h
      split at h
      · exact ih rest seen out result (fun x hx => hq x (List.mem_cons_of_mem _ hx)) hhd hseen hos hord h
      · next hs =>
        have hns : name ∉ seen := by simpa [mem, List.contains_iff_mem] using hs
        split at h
        · exact ih rest (name :: seen) out result (fun x hx => hq x (List.mem_cons_of_mem _ hx)) hhd
            (by rcases hseen with e | e
                · exact Or.inl (List.mem_cons_of_mem _ e)
                · exact Or.inr e)
            (fun x hx => List.mem_cons_of_mem _ (hos x hx)) hord h
        · next b hb =>
          split at h
          · simp at h
          · next ts hts =>
            refine ih (rest ++ ts) (name :: seen) (out ++ [name]) result ?_ ?_ ?_ ?_ ?_ h
            · intro x hx
              rcases List.mem_append.mp hx with e | e
              · rcases hq x (List.mem_cons_of_mem _ e) with e1 | e1
                · exact Or.inl e1
                · exact Or.inr (hasPredIn_mono H c out _ x (fun p hp => List.mem_append.mpr (Or.inl hp)) e1)
              · exact Or.inr ⟨name, by simp, b, ts, hb, hts, e⟩
            · right
              rcases hhd with e | e
              · -- first emission: it is the head (anything else would need an emitted predecessor)
                subst e
                rcases hq name (by simp) with e1 | e1
                · simp [e1]
                · obtain ⟨p, hp, _⟩ := e1; simp at hp
              · cases out with
                | nil => simp at e
                | cons o os => simpa using e
            · rcases hseen with e | e
              · exact Or.inl (List.mem_cons_of_mem _ e)
              · subst e
                rcases hq name (by simp) with e1 | e1
                · exact Or.inl (by simp [e1])
                · obtain ⟨p, hp, _⟩ := e1; simp at hp
            · intro x hx
              rcases List.mem_append.mp hx with e | e
              · exact List.mem_cons_of_mem _ (hos x e)
              · simp only [List.mem_singleton] at e; simp [e]
            · -- the new last item comes after one of its predecessors
              intro i hi hpos
              simp only [List.length_append, List.length_cons, List.length_nil] at hi
              by_cases hlt : i < out.length
              · have := hord i hlt hpos
                rw [List.getElem_append_left hlt]
                rw [List.take_append_of_le_length (by omega)]
                exact this
              · have hieq : i = out.length := by omega
                subst hieq
                rw [List.getElem_append_right (by omega)]
                simp only [Nat.sub_self, List.getElem_cons_zero, List.take_left']
                rcases hq name (by simp) with e1 | e1
                · -- the head can only be emitted first
                  exfalso
                  rcases hseen with e | e
                  · exact hns (e1 ▸ e)
                  · subst e; simp at hpos
                · exact e1

/-- **Order of the concealed view** (every hierarchy): the first item is the head, and every other
    item comes after at least one of its view predecessors. -/
theorem viewIter_order (H : Hier) (c : Name) (out : List Name) (h : viewIter H c = .ok out) :
    Ordered H c out ∧ (∀ hd, findHead H c = .ok hd → out = [] ∨ out.head? = some hd) := by
  unfold viewIter at h
  cases hh : findHead H c with
  | error e => simp [hh, bind, Except.bind] at h
  | ok hd =>
    simp only [hh, bind, Except.bind] at h
    obtain ⟨h1, h2⟩ := viewGo_order H c hd _ [hd] [] [] out (by simp) (Or.inl rfl) (Or.inr rfl)
      (by simp) (by intro i hi; simp at hi) h
    exact ⟨h1, fun hd' e => by simp only [Except.ok.injEq] at e; exact e ▸ h2⟩

/-! Non-vacuity: on a two-level hierarchy the model answers, and the answer is what the theorem
says (head `0`, the region, the block inside it, then `2`). -/
def okH2 : Hier := [
  { cont := "m", name := "0", jts := ["loop_region_0"] },
  { cont := "m", name := "2" },
  { cont := "m", name := "loop_region_0", kind := .region, jts := ["2"], rkind := "loop",
    header := "1", exiting := "1", parent := "m" },
  { cont := "loop_region_0", name := "1", jts := ["1", "2"], bes := ["1"] }]
def okOf (r : M (List Name)) : List Name := match r with | .ok x => x | .error _ => ["<error>"]
def okName (r : M Name) : Name := match r with | .ok x => x | .error _ => "<error>"
theorem head_m : findHead okH2 "m" = .ok "0" := by
  cases h : findHead okH2 "m" with
  | ok x => have : okName (findHead okH2 "m") = "0" := by decide
            rw [h] at this; simpa [okName] using this
  | error e => have : okName (findHead okH2 "m") = "0" := by decide
               rw [h] at this; simp [okName] at this
theorem head_l : findHead okH2 "loop_region_0" = .ok "1" := by
  cases h : findHead okH2 "loop_region_0" with
  | ok x => have : okName (findHead okH2 "loop_region_0") = "1" := by decide
            rw [h] at this; simpa [okName] using this
  | error e => have : okName (findHead okH2 "loop_region_0") = "1" := by decide
               rw [h] at this; simp [okName] at this
example : iterAll okH2 6 "m" = .ok ["0", "loop_region_0", "1", "2"] := by
  have g0 : okH2.getIn? "m" "0" = some okH2[0] := by decide
  have g1 : okH2.getIn? "m" "loop_region_0" = some okH2[2] := by decide
  have g2 : okH2.getIn? "m" "2" = some okH2[1] := by decide
  have g3 : okH2.getIn? "loop_region_0" "1" = some okH2[3] := by decide
  have g4 : okH2.getIn? "loop_region_0" "2" = none := by decide
  have j0 : (okH2[0]).jt = ["loop_region_0"] := by decide
  have j1 : (okH2[1]).jt = [] := by decide
  have j2 : (okH2[2]).jt = ["2"] := by decide
  have j3 : (okH2[3]).jt = ["2"] := by decide
  have r0 : (okH2[0]).isRegion = false := by decide
  have r1 : (okH2[1]).isRegion = false := by decide
  have r2 : (okH2[2]).isRegion = true := by decide
  have r3 : (okH2[3]).isRegion = false := by decide
  have n2 : (okH2[2]).name = "loop_region_0" := by decide
  simp [iterAll, iterAll.go, head_m, head_l, g0, g1, g2, g3, g4, j0, j1, j2, j3, r0, r1, r2, r3, n2,
    mem, bind, Except.bind, pure, Except.pure]
example : Covered okH2 "m" "1" :=
  Covered.inside (c := "m") (r := "loop_region_0") (b := okH2[2])
    (IterReach.succ (x := "0") (b := okH2[0]) (t := "loop_region_0")
      (IterReach.head (hd := "0") head_m (by decide)) (by decide) (by decide) (by decide))
    (by decide) (by decide)
    (Covered.here (IterReach.head (hd := "1") head_l (by decide)))

end Scfg.C16
