import Scfg.Model.Dispatch
/-!
# C11 — unsupported source constructs are refused, never mistranslated

`transform_refuses`: for **any** dispatcher data that passes the decidable check `dispatchOK`
and **every** program (any nesting depth) built from the interpreter's statement classes, an
unsupported statement anywhere makes the model of `AST2SCFGTransformer.transform` raise
not-implemented. `dispatchOK` is evaluated on the data the translator regenerates from
`handle_ast_node` / `handle_function_def` and from the running interpreter's `ast` classes;
its offenders are replayed on the real front end.
-/
namespace Scfg.C11
open Scfg.Model

theorem armOf_of_unsupported (d : DispatchData) (h : dispatchOK d = true) (k : String)
    (hk : d.kinds.any (·.1 == k) = true) (hs : supportedKinds.contains k = false) :
    armOf d k = .refuse := by
  simp only [dispatchOK, Bool.and_eq_true] at h
  obtain ⟨⟨⟨⟨⟨hall, _⟩, _⟩, _⟩, _⟩, _⟩ := h
  obtain ⟨p, hp, hpk⟩ := List.any_eq_true.mp hk
  have := List.all_eq_true.mp hall p hp
  simp only [beq_iff_eq] at hpk
  rw [hpk, hs] at this
  simpa using this

mutual
theorem refuses_stmt (d : DispatchData) (h : dispatchOK d = true) :
    ∀ (s : Stmt) (depth : Nat), kindsKnownStmt d s = true → hasUnsupportedStmt depth s = true →
      refusesStmt d depth s = true
  | .node k body orelse, depth, hkn, hun => by
    simp only [kindsKnownStmt, Bool.and_eq_true] at hkn
    obtain ⟨⟨hk, hkb⟩, hko⟩ := hkn
    have hd := h
    simp only [dispatchOK, Bool.and_eq_true, beq_iff_eq] at hd
    obtain ⟨⟨⟨⟨⟨_, hIf⟩, hWhile⟩, hFor⟩, hDef⟩, hNest⟩ := hd
    simp only [hasUnsupportedStmt, Bool.or_eq_true, Bool.and_eq_true] at hun
    by_cases hsup : supportedKinds.contains k = true
    · -- a supported class: either a nested definition, or the offender is among the children
      by_cases hfd : k = "FunctionDef"
      · subst hfd
        simp only [refusesStmt, hDef, hNest, Bool.true_and, Bool.or_eq_true, decide_eq_true_eq]
        rcases hun with (hu | ⟨_, hb⟩) | ⟨ho, _⟩
        · simp only [unsupportedAt, hsup, Bool.not_true, Bool.false_or, Bool.and_eq_true,
            decide_eq_true_eq] at hu
          exact Or.inl hu.2
        · exact Or.inr (refuses_list d h body (depth + 1) hkb hb)
        · simp [ownsOrelse] at ho
      · have hna : unsupportedAt depth k = false := by
          have hm : k ∈ supportedKinds := by simpa [List.contains_iff_mem] using hsup
          simp [unsupportedAt, hfd, hm]
        rw [hna] at hun
        simp only [Bool.false_eq_true, false_or] at hun
        -- only If / While / For own statement lists besides FunctionDef
        have hcomp : k = "If" ∨ k = "While" ∨ k = "For" := by
          rcases hun with ⟨ho, _⟩ | ⟨ho, _⟩
          · simp only [ownsBody, List.contains_iff_mem, List.mem_cons, List.mem_nil_iff, or_false] at ho
            rcases ho with e | e | e | e
            · exact absurd e hfd
            · exact Or.inl e
            · exact Or.inr (Or.inl e)
            · exact Or.inr (Or.inr e)
          · simp only [ownsOrelse, List.contains_iff_mem, List.mem_cons, List.mem_nil_iff, or_false] at ho
            exact ho
        have hrec : refusesList d (depth + 1) body = true ∨ refusesList d (depth + 1) orelse = true := by
          rcases hun with ⟨_, hb⟩ | ⟨_, ho⟩
          · exact Or.inl (refuses_list d h body (depth + 1) hkb hb)
          · exact Or.inr (refuses_list d h orelse (depth + 1) hko ho)
        rcases hcomp with e | e | e <;> subst e
        · simp only [refusesStmt, hIf, Bool.or_eq_true]; exact hrec
        · simp only [refusesStmt, hWhile, Bool.or_eq_true]; exact hrec
        · simp only [refusesStmt, hFor, Bool.or_eq_true]; exact hrec
    · -- an unsupported class is refused outright
      have hs : supportedKinds.contains k = false := by simpa using hsup
      simp [refusesStmt, armOf_of_unsupported d h k hk hs]
theorem refuses_list (d : DispatchData) (h : dispatchOK d = true) :
    ∀ (ss : List Stmt) (depth : Nat), kindsKnownList d ss = true →
      hasUnsupportedList depth ss = true → refusesList d depth ss = true
  | [], _, _, hun => by simp [hasUnsupportedList] at hun
  | s :: ss, depth, hkn, hun => by
    simp only [kindsKnownList, Bool.and_eq_true] at hkn
    simp only [hasUnsupportedList, Bool.or_eq_true] at hun
    simp only [refusesList, Bool.or_eq_true]
    rcases hun with hu | hu
    · exact Or.inl (refuses_stmt d h s depth hkn.1 hu)
    · exact Or.inr (refuses_list d h ss depth hkn.2 hu)
end

/-- **C11.** For any dispatcher data passing `dispatchOK` and every program over the
    interpreter's statement classes: if some statement — at any nesting depth, in any body or
    else-branch of the supported compound statements, or after the function — is outside the
    supported subset, the transformation raises not-implemented. -/
theorem transform_refuses (d : DispatchData) (h : dispatchOK d = true) (p : List Stmt)
    (hk : kindsKnownList d p = true) (hu : hasUnsupportedTop p = true) : refusesTop d p = true := by
  cases p with
  | nil => simp [hasUnsupportedTop] at hu
  | cons f rest =>
    simp only [kindsKnownList, Bool.and_eq_true] at hk
    simp only [hasUnsupportedTop, Bool.or_eq_true] at hu
    simp only [refusesTop, Bool.or_eq_true]
    rcases hu with hu | hu
    · exact Or.inl (refuses_stmt d h f 0 hk.1 hu)
    · exact Or.inr (refuses_list d h rest 1 hk.2 hu)

/-- `dispatchOK` holds exactly when there are no offenders (so the offender list the harness
    prints is complete). -/
theorem dispatchOK_iff_no_offenders (d : DispatchData) :
    dispatchOK d = true ↔ dispatchOffenders d = [] := by
  simp only [dispatchOK, dispatchOffenders, Bool.and_eq_true, List.append_eq_nil_iff,
    List.map_eq_nil_iff, List.filter_eq_nil_iff, List.all_eq_true, beq_iff_eq]
  constructor
  · rintro ⟨⟨⟨⟨⟨h1, h2⟩, h3⟩, h4⟩, h5⟩, h6⟩
    refine ⟨⟨⟨⟨⟨fun p hp => ?_, by simp [h2]⟩, by simp [h3]⟩, by simp [h4]⟩, by simp [h5]⟩, by simp [h6]⟩
    have := h1 p hp
    intro hn
    rw [this] at hn
    exact absurd hn (by decide)
  · rintro ⟨⟨⟨⟨⟨h1, h2⟩, h3⟩, h4⟩, h5⟩, h6⟩
    refine ⟨⟨⟨⟨⟨fun p hp => ?_, ?_⟩, ?_⟩, ?_⟩, ?_⟩, ?_⟩
    · have := h1 p hp
      cases hb : (supportedKinds.contains p.fst || armOf d p.fst == Arm.refuse) with
      | true => rfl
      | false =>
        exfalso
        apply this
        rw [hb]
        rfl
    · by_cases e : armOf d "If" = Arm.ifS <;> simp_all
    · by_cases e : armOf d "While" = Arm.whileS <;> simp_all
    · by_cases e : armOf d "For" = Arm.forS <;> simp_all
    · by_cases e : armOf d "FunctionDef" = Arm.funcDef <;> simp_all
    · cases e : d.nestedDefRefused <;> simp_all

/-! Non-vacuity: data of the shape the pinned source gives (plus one unsupported class), and the
nested-definition witness for data without the refusal. -/
def exData (nested : Bool) : DispatchData where
  chain := [(["FunctionDef"], .funcDef), (["AugAssign", "Assign", "Expr", "Return"], .simple),
            (["Break", "Continue", "Pass"], .noop), (["If"], .ifS), (["While"], .whileS), (["For"], .forS)]
  fallback := .refuse
  kinds := [("FunctionDef", ["FunctionDef", "stmt"]), ("Assign", ["Assign", "stmt"]), ("If", ["If", "stmt"]),
            ("While", ["While", "stmt"]), ("For", ["For", "stmt"]), ("With", ["With", "stmt"]),
            ("Return", ["Return", "stmt"])]
  nestedDefRefused := nested
example : dispatchOK (exData true) = true := by decide
example : refusesTop (exData true)
    [.node "FunctionDef" [.node "If" [.node "Assign" [] []] [.node "While" [.node "With" [] []] []]] []]
    = true := by decide
/-- Without the refusal of nested definitions the model (like the pinned code) inlines them. -/
theorem nested_def_witness : refusesTop (exData false)
    [.node "FunctionDef" [.node "FunctionDef" [.node "Return" [] []] []] []] = false := by decide

end Scfg.C11
