import Scfg.Model.Render
/-!
# C17 — the model of the renderer's control flow, a priori (all hierarchies)

* `renderNodes_exact` — whenever the model of `render_block` / `render_region_block` answers, the
  nodes and clusters it draws are exactly `Drawn`: one node per non-region block of the level in
  the enclosing cluster, one cluster per region in the enclosing cluster, and recursively what is
  drawn for each region's own graph inside that region's cluster (any nesting depth).
* `renderEdges_exact` — whenever the model of `render_edges` answers, the edges are exactly: for
  every non-region block the hierarchy iterator yields, one solid edge per jump target and one
  dashed edge per back edge, to the block `find_base_header` reaches from the target.
* `renderEdges_eq_spec` — if the iterator yields every block (C16) and names are unique (C04), these
  are exactly the edges of the specification `specDrawing` (destination = innermost header).
-/
namespace Scfg.C17
open Scfg Scfg.Model Scfg.Spec

/-! ## Nodes and clusters -/

/-- what is drawn for container `c` inside cluster `cl`: `false` = a node, `true` = a cluster -/
inductive Drawn (H : Hier) : Name → Name → Bool → Name × Name → Prop
  | node {c cl b} : b ∈ H.level c → b.isRegion = false → Drawn H c cl false (b.name, cl)
  | cluster {c cl b} : b ∈ H.level c → b.isRegion = true → Drawn H c cl true (b.name, cl)
  | inside {c cl b k p} : b ∈ H.level c → b.isRegion = true → Drawn H b.name b.name k p →
      Drawn H c cl k p

/-- the per-entry step of the node loop -/
def nodeStep (H : Hier) (byteflow : Bool) (f : Nat) (cl : Name)
    (acc : List (Name × Name) × List (Name × Name)) (b : Blk) :
    M (List (Name × Name) × List (Name × Name)) :=
  if b.isRegion then do
    let (ns, cs) ← renderNodes H byteflow f b.name b.name
    pure (acc.1 ++ ns, acc.2 ++ [(b.name, cl)] ++ cs)
  else if b.kind == .ast && byteflow then .error ⟨"AttributeError", "render_block"⟩
  else pure (acc.1 ++ [(b.name, cl)], acc.2)

theorem renderNodes_succ (H : Hier) (bf : Bool) (f : Nat) (c cl : Name) :
    renderNodes H bf (f + 1) c cl = (H.level c).foldlM (nodeStep H bf f cl) ([], []) := by
  rw [renderNodes]; rfl

theorem nodeFold_char (H : Hier) (bf : Bool) (f : Nat) (cl : Name)
    (ih : ∀ c' cl' ns cs, renderNodes H bf f c' cl' = .ok (ns, cs) →
      (∀ p, p ∈ ns ↔ Drawn H c' cl' false p) ∧ (∀ p, p ∈ cs ↔ Drawn H c' cl' true p)) :
    ∀ (xs : List Blk) acc res, xs.foldlM (nodeStep H bf f cl) acc = .ok res →
      (∀ p, p ∈ res.1 ↔ p ∈ acc.1 ∨ ∃ b ∈ xs, (b.isRegion = false ∧ p = (b.name, cl)) ∨
        (b.isRegion = true ∧ Drawn H b.name b.name false p)) ∧
      (∀ p, p ∈ res.2 ↔ p ∈ acc.2 ∨ ∃ b ∈ xs, b.isRegion = true ∧
        (p = (b.name, cl) ∨ Drawn H b.name b.name true p)) := by
  intro xs
  induction xs with
  | nil =>
    intro acc res h
    simp only [List.foldlM_nil, pure, Except.pure, Except.ok.injEq] at h
    subst h
    simp
  | cons b xs ihx =>
    intro acc res h
    simp only [List.foldlM_cons, bind, Except.bind] at h
    cases hs : nodeStep H bf f cl acc b with
    | error e => simp [hs] at h
    | ok acc' =>
      simp only [hs] at h
      obtain ⟨r1, r2⟩ := ihx acc' res h
      cases hreg : b.isRegion with
      | true =>
        simp only [nodeStep, hreg, if_true, bind, Except.bind] at hs
        cases hr : renderNodes H bf f b.name b.name with
        | error e => simp [hr] at hs
        | ok pr =>
          obtain ⟨ns, cs⟩ := pr
          simp only [hr, pure, Except.pure, Except.ok.injEq] at hs
          subst hs
          obtain ⟨i1, i2⟩ := ih _ _ _ _ hr
          constructor
          · intro p
            rw [r1 p]
            simp only [List.mem_append, List.mem_cons, exists_eq_or_imp, hreg, i1 p]
            simp
            grind
          · intro p
            rw [r2 p]
            simp only [List.mem_append, List.mem_cons, exists_eq_or_imp, hreg, i2 p]
            simp
            grind
      | false =>
        simp only [nodeStep, hreg, Bool.false_eq_true, if_false] at hs
        split at hs
        · simp at hs
        · simp only [pure, Except.pure, Except.ok.injEq] at hs
          subst hs
          constructor
          · intro p
            rw [r1 p]
            simp only [List.mem_append, List.mem_cons, exists_eq_or_imp, hreg]
            simp
            grind
          · intro p
            rw [r2 p]
            simp only [List.mem_cons, exists_eq_or_imp, hreg]
            simp

/-- **Nodes and clusters, for every hierarchy and nesting depth.** -/
theorem renderNodes_exact (H : Hier) (bf : Bool) : ∀ (f : Nat) (c cl : Name) ns cs,
    renderNodes H bf f c cl = .ok (ns, cs) →
    (∀ p, p ∈ ns ↔ Drawn H c cl false p) ∧ (∀ p, p ∈ cs ↔ Drawn H c cl true p) := by
  intro f
  induction f with
  | zero => intro c cl ns cs h; simp [renderNodes] at h
  | succ f ih =>
    intro c cl ns cs h
    rw [renderNodes_succ] at h
    obtain ⟨r1, r2⟩ := nodeFold_char H bf f cl ih _ _ _ h
    constructor
    · intro p
      rw [r1 p]
      simp only [List.not_mem_nil, false_or]
      constructor
      · rintro ⟨b, hb, h1 | h1⟩
        · exact h1.2 ▸ Drawn.node hb h1.1
        · exact Drawn.inside hb h1.1 h1.2
      · intro hd
        cases hd with
        | node hb hr => exact ⟨_, hb, Or.inl ⟨hr, rfl⟩⟩
        | inside hb hr hin => exact ⟨_, hb, Or.inr ⟨hr, hin⟩⟩
    · intro p
      rw [r2 p]
      simp only [List.not_mem_nil, false_or]
      constructor
      · rintro ⟨b, hb, hr, h1 | h1⟩
        · exact h1 ▸ Drawn.cluster hb hr
        · exact Drawn.inside hb hr h1
      · intro hd
        cases hd with
        | cluster hb hr => exact ⟨_, hb, hr, Or.inl rfl⟩
        | inside hb hr hin => exact ⟨_, hb, hr, Or.inr hin⟩

/-- **Nothing foreign is drawn**: every node / cluster the model draws for the top container is a
    node / cluster of the specification (the right name in the right enclosing cluster), provided
    the container's name is not a block's name. -/
theorem drawn_in_spec (H : Hier) (top : Name) (htop : ∀ b ∈ H, b.name ≠ top) :
    ∀ c cl k p, Drawn H c cl k p → cl = (if c == top then "" else c) →
      (k = false → p ∈ (specDrawing H top).nodes) ∧ (k = true → p ∈ (specDrawing H top).clusters) := by
  intro c cl k p h
  induction h with
  | @node c cl b hb hr =>
    intro hcl
    have hm := List.mem_filter.mp hb
    have hc : b.cont = c := by simpa using hm.2
    refine ⟨fun _ => ?_, fun hk => by simp at hk⟩
    simp only [specDrawing, List.mem_map, List.mem_filter, Bool.not_eq_true']
    exact ⟨b, ⟨hm.1, hr⟩, by rw [hc, hcl]⟩
  | @cluster c cl b hb hr =>
    intro hcl
    have hm := List.mem_filter.mp hb
    have hc : b.cont = c := by simpa using hm.2
    refine ⟨fun hk => by simp at hk, fun _ => ?_⟩
    simp only [specDrawing, List.mem_map, List.mem_filter]
    exact ⟨b, ⟨hm.1, hr⟩, by rw [hc, hcl]⟩
  | @inside c cl b k p hb _ _ ih =>
    intro _
    have hm := List.mem_filter.mp hb
    apply ih
    have : (b.name == top) = false := by simpa using htop b hm.1
    simp [this]

/-! ## Edges -/

/-- the destination `render_edges` computes for a target name (`none` = `KeyError`) -/
def resolveB (H : Hier) (order : List Name) (t : Name) : Option Blk :=
  (blocksGet H order t).bind (findBaseHeader H order (H.length + 1))

def jtStep (H : Hier) (order : List Name) (src : Blk) (acc : List (Name × Name × Bool)) (t : Name) :
    M (List (Name × Name × Bool)) :=
  match (blocksGet H order t).bind (findBaseHeader H order (H.length + 1)) with
  | none => pure acc
  | some d =>
    if order.contains d.name then pure (acc ++ [(src.name, d.name, false)])
    else .error ⟨"Exception", "render_edges"⟩

def beStep (H : Hier) (order : List Name) (src : Blk) (acc : List (Name × Name × Bool)) (t : Name) :
    M (List (Name × Name × Bool)) :=
  match (blocksGet H order t).bind (findBaseHeader H order (H.length + 1)) with
  | none => .error (keyErrorAt "render_edges")
  | some d =>
    if order.contains d.name then pure (acc ++ [(src.name, d.name, true)])
    else .error ⟨"Exception", "render_edges"⟩

def srcStep (H : Hier) (order : List Name) (acc : List (Name × Name × Bool)) (n : Name) :
    M (List (Name × Name × Bool)) :=
  match blocksGet H order n with
  | none => pure acc
  | some src =>
    if src.isRegion then pure acc
    else do
      let acc ← src.jt.foldlM (jtStep H order src) acc
      src.bes.foldlM (beStep H order src) acc

theorem renderEdges_unfold (H : Hier) (top : Name) :
    renderEdges H top = (do
      let order ← iterAll H (H.length + 2) top
      (dedup order).foldlM (srcStep H (dedup order)) []) := by
  unfold renderEdges; rfl

theorem jtFold_char (H : Hier) (order : List Name) (src : Blk) :
    ∀ (ts : List Name) acc res, ts.foldlM (jtStep H order src) acc = .ok res →
      ∀ e, e ∈ res ↔ e ∈ acc ∨ ∃ t ∈ ts, ∃ d, resolveB H order t = some d ∧ e = (src.name, d.name, false) := by
  intro ts
  induction ts with
  | nil =>
    intro acc res h e
    simp only [List.foldlM_nil, pure, Except.pure, Except.ok.injEq] at h
    subst h; simp
  | cons t ts ih =>
    intro acc res h e
    simp only [List.foldlM_cons, bind, Except.bind] at h
    cases hs : jtStep H order src acc t with
    | error x => simp [hs] at h
    | ok acc' =>
      simp only [hs] at h
      rw [ih acc' res h e]
      simp only [jtStep] at hs
      cases hr : (blocksGet H order t).bind (findBaseHeader H order (H.length + 1)) with
      | none =>
        simp only [hr, pure, Except.pure, Except.ok.injEq] at hs
        subst hs
        simp [resolveB, hr]
      | some d =>
        simp only [hr] at hs
        split at hs
        · simp only [pure, Except.pure, Except.ok.injEq] at hs
          subst hs
          simp only [List.mem_append, List.mem_cons, exists_eq_or_imp, resolveB, hr,
            Option.some.injEq, exists_eq_left']
          grind
        · simp at hs

theorem beFold_char (H : Hier) (order : List Name) (src : Blk) :
    ∀ (ts : List Name) acc res, ts.foldlM (beStep H order src) acc = .ok res →
      ∀ e, e ∈ res ↔ e ∈ acc ∨ ∃ t ∈ ts, ∃ d, resolveB H order t = some d ∧ e = (src.name, d.name, true) := by
  intro ts
  induction ts with
  | nil =>
    intro acc res h e
    simp only [List.foldlM_nil, pure, Except.pure, Except.ok.injEq] at h
    subst h; simp
  | cons t ts ih =>
    intro acc res h e
    simp only [List.foldlM_cons, bind, Except.bind] at h
    cases hs : beStep H order src acc t with
    | error x => simp [hs] at h
    | ok acc' =>
      simp only [hs] at h
      rw [ih acc' res h e]
      simp only [beStep] at hs
      cases hr : (blocksGet H order t).bind (findBaseHeader H order (H.length + 1)) with
      | none => simp [hr] at hs
      | some d =>
        simp only [hr] at hs
        split at hs
        · simp only [pure, Except.pure, Except.ok.injEq] at hs
          subst hs
          simp only [List.mem_append, List.mem_cons, exists_eq_or_imp, resolveB, hr,
            Option.some.injEq, exists_eq_left']
          grind
        · simp at hs

/-- the edges the renderer draws from one source block -/
def EdgeFrom (H : Hier) (order : List Name) (src : Blk) (e : Name × Name × Bool) : Prop :=
  (∃ t ∈ src.jt, ∃ d, resolveB H order t = some d ∧ e = (src.name, d.name, false)) ∨
  (∃ t ∈ src.bes, ∃ d, resolveB H order t = some d ∧ e = (src.name, d.name, true))

theorem srcFold_char (H : Hier) (order : List Name) :
    ∀ (ns : List Name) acc res, ns.foldlM (srcStep H order) acc = .ok res →
      ∀ e, e ∈ res ↔ e ∈ acc ∨ ∃ n ∈ ns, ∃ src, blocksGet H order n = some src ∧
        src.isRegion = false ∧ EdgeFrom H order src e := by
  intro ns
  induction ns with
  | nil =>
    intro acc res h e
    simp only [List.foldlM_nil, pure, Except.pure, Except.ok.injEq] at h
    subst h; simp
  | cons n ns ih =>
    intro acc res h e
    simp only [List.foldlM_cons, bind, Except.bind] at h
    cases hs : srcStep H order acc n with
    | error x => simp [hs] at h
    | ok acc' =>
      simp only [hs] at h
      rw [ih acc' res h e]
      simp only [srcStep] at hs
      cases hg : blocksGet H order n with
      | none =>
        simp only [hg, pure, Except.pure, Except.ok.injEq] at hs
        subst hs
        simp [hg]
      | some src =>
        simp only [hg] at hs
        cases hreg : src.isRegion with
        | true =>
          simp only [hreg, if_true, pure, Except.pure, Except.ok.injEq] at hs
          subst hs
          simp [hg, hreg]
        | false =>
          simp only [hreg, Bool.false_eq_true, if_false, bind, Except.bind] at hs
          cases hj : src.jt.foldlM (jtStep H order src) acc with
          | error x => simp [hj] at hs
          | ok acc1 =>
            simp only [hj] at hs
            have c1 := jtFold_char H order src _ _ _ hj e
            have c2 := beFold_char H order src _ _ _ hs e
            rw [c2, c1]
            simp only [List.mem_cons, exists_eq_or_imp, hg, Option.some.injEq, exists_eq_left', hreg,
              true_and, EdgeFrom]
            grind

/-- **Edges, for every hierarchy.** -/
theorem renderEdges_exact (H : Hier) (top : Name) (es : List (Name × Name × Bool))
    (h : renderEdges H top = .ok es) :
    ∃ order, iterAll H (H.length + 2) top = .ok order ∧
      ∀ e, e ∈ es ↔ ∃ n ∈ dedup order, ∃ src, blocksGet H (dedup order) n = some src ∧
        src.isRegion = false ∧ EdgeFrom H (dedup order) src e := by
  rw [renderEdges_unfold] at h
  cases ho : iterAll H (H.length + 2) top with
  | error x => simp [ho, bind, Except.bind] at h
  | ok order =>
    simp only [ho, bind, Except.bind] at h
    refine ⟨order, rfl, fun e => ?_⟩
    rw [srcFold_char H (dedup order) _ _ _ h e]
    simp

/-! ## Against the specification -/

theorem mem_dedup_r {xs : List Name} {x : Name} : x ∈ dedup xs ↔ x ∈ xs := by
  induction xs with
  | nil => simp [dedup]
  | cons y ys ih =>
    simp only [dedup, List.mem_cons, List.mem_filter, bne_iff_ne, ne_eq, ih]
    by_cases h : x = y <;> simp [h]

theorem get?_name (H : Hier) (n : Name) (b : Blk) (h : H.get? n = some b) : b ∈ H ∧ b.name = n := by
  unfold Hier.get? at h
  exact ⟨List.mem_of_find?_eq_some h, by simpa using List.find?_some h⟩

theorem get?_of_mem (H : Hier) (hu : H.names.Nodup) (b : Blk) (hb : b ∈ H) : H.get? b.name = some b := by
  induction H with
  | nil => simp at hb
  | cons y ys ih =>
    simp only [Hier.names, List.map_cons, List.nodup_cons, List.mem_map, not_exists, not_and] at hu
    unfold Hier.get?
    rw [List.find?_cons]
    rcases List.mem_cons.mp hb with e | e
    · simp [e]
    · have hne : (y.name == b.name) = false := by
        simpa using fun h => hu.1 b e h.symm
      simp only [hne]
      exact ih hu.2 e

/-- when the iterator yields every block, the renderer's lookup is the hierarchy-wide lookup -/
theorem blocksGet_eq (H : Hier) (order : List Name) (hcov : ∀ b ∈ H, b.name ∈ order) (n : Name) :
    blocksGet H order n = H.get? n := by
  unfold blocksGet
  split
  · rfl
  · next hn =>
    cases hg : H.get? n with
    | none => rfl
    | some b =>
      obtain ⟨hb, hbn⟩ := get?_name H n b hg
      exact absurd (hbn ▸ hcov b hb) (by simpa [List.contains_iff_mem] using hn)

/-- …and `find_base_header` is the specification's header resolution -/
theorem resolveB_eq (H : Hier) (order : List Name) (hcov : ∀ b ∈ H, b.name ∈ order) :
    ∀ (f : Nat) (t : Name),
      (blocksGet H order t).bind (findBaseHeader H order f) = resolve H f t := by
  intro f
  induction f with
  | zero =>
    intro t
    simp only [resolve]
    cases blocksGet H order t <;> rfl
  | succ f ih =>
    intro t
    rw [blocksGet_eq H order hcov]
    rw [resolve]
    cases H.get? t with
    | none => rfl
    | some b =>
      simp only [Option.bind_some, findBaseHeader]
      split
      · rw [← ih b.header]
        cases blocksGet H order b.header <;> rfl
      · rfl

theorem spec_edges_mem (H : Hier) (top : Name) (e : Name × Name × Bool) :
    e ∈ (specDrawing H top).edges ↔ ∃ b ∈ H, b.isRegion = false ∧
      ((∃ t ∈ b.jt, ∃ x, resolve H (H.length + 1) t = some x ∧ e = (b.name, x.name, false)) ∨
       (∃ t ∈ b.bes, ∃ x, resolve H (H.length + 1) t = some x ∧ e = (b.name, x.name, true))) := by
  simp only [specDrawing]
  have gen : ∀ (xs : List Blk) (acc : List (Name × Name × Bool)),
      e ∈ xs.foldl (fun acc b => acc ++
        (b.jt.filterMap fun t => (resolve H (H.length + 1) t).map fun x => (b.name, x.name, false)) ++
        (b.bes.filterMap fun t => (resolve H (H.length + 1) t).map fun x => (b.name, x.name, true))) acc ↔
      e ∈ acc ∨ ∃ b ∈ xs,
        ((∃ t ∈ b.jt, ∃ x, resolve H (H.length + 1) t = some x ∧ e = (b.name, x.name, false)) ∨
         (∃ t ∈ b.bes, ∃ x, resolve H (H.length + 1) t = some x ∧ e = (b.name, x.name, true))) := by
    intro xs
    induction xs with
    | nil => intro acc; simp
    | cons b xs ih =>
      intro acc
      simp only [List.foldl_cons]
      rw [ih]
      simp only [List.mem_append, List.mem_filterMap, Option.map_eq_some_iff, List.mem_cons,
        exists_eq_or_imp]
      constructor
      · rintro (((h | ⟨t, ht, x, hx, he⟩) | ⟨t, ht, x, hx, he⟩) | h)
        · exact Or.inl h
        · exact Or.inr (Or.inl (Or.inl ⟨t, ht, x, hx, he.symm⟩))
        · exact Or.inr (Or.inl (Or.inr ⟨t, ht, x, hx, he.symm⟩))
        · exact Or.inr (Or.inr h)
      · rintro (h | (⟨t, ht, x, hx, he⟩ | ⟨t, ht, x, hx, he⟩) | h)
        · exact Or.inl (Or.inl (Or.inl h))
        · exact Or.inl (Or.inl (Or.inr ⟨t, ht, x, hx, he.symm⟩))
        · exact Or.inl (Or.inr ⟨t, ht, x, hx, he.symm⟩)
        · exact Or.inr h
  rw [gen]
  simp only [List.not_mem_nil, false_or, List.mem_filter, Bool.not_eq_true']
  constructor
  · rintro ⟨b, ⟨hb, hr⟩, h⟩; exact ⟨b, hb, hr, h⟩
  · rintro ⟨b, hb, hr, h⟩; exact ⟨b, ⟨hb, hr⟩, h⟩

/-- **The model draws exactly the specified edges** whenever the hierarchy iterator yields every
    block (C16) and names are unique (C04): a solid edge per jump target and a dashed edge per back
    edge of every non-region block, to the innermost header block of the destination. -/
theorem renderEdges_eq_spec (H : Hier) (top : Name) (es : List (Name × Name × Bool))
    (h : renderEdges H top = .ok es) (hu : H.names.Nodup)
    (hcov : ∀ order, iterAll H (H.length + 2) top = .ok order → ∀ b ∈ H, b.name ∈ order) :
    ∀ e, e ∈ es ↔ e ∈ (specDrawing H top).edges := by
  obtain ⟨order, ho, hes⟩ := renderEdges_exact H top es h
  have hc : ∀ b ∈ H, b.name ∈ dedup order := fun b hb => mem_dedup_r.mpr (hcov order ho b hb)
  intro e
  rw [hes e, spec_edges_mem]
  have hres : ∀ t, resolveB H (dedup order) t = resolve H (H.length + 1) t :=
    fun t => resolveB_eq H (dedup order) hc (H.length + 1) t
  constructor
  · rintro ⟨n, _, src, hg, hreg, hedge⟩
    rw [blocksGet_eq H _ hc] at hg
    obtain ⟨hsrc, _⟩ := get?_name H n src hg
    refine ⟨src, hsrc, hreg, ?_⟩
    simpa [EdgeFrom, hres] using hedge
  · rintro ⟨b, hb, hreg, hedge⟩
    refine ⟨b.name, hc b hb, b, ?_, hreg, ?_⟩
    · rw [blocksGet_eq H _ hc]; exact get?_of_mem H hu b hb
    · simpa [EdgeFrom, hres] using hedge

end Scfg.C17
