import Scfg.Props.C01Chain
/-!
# C01 — certified runs without the error-freeness hypothesis

The step theorems of `C01Wrap` / `C14Paths` / `C14Reroute` / `C01Chain` say: *if the walk over the result is
error-free, it shows the trace of the walk before the step*. Here the other direction: *if the walk before
the step is error-free (at some fuel), the walk over the result shows the same trace (at an explicitly
given larger fuel)* — the step introduces no error. Chained from the input graph, whose walk is trivially
error-free, this removes the hypothesis: `certified_run_total`.
-/
namespace Scfg.C01
open Scfg Scfg.Spec Scfg.C04

/-! ## Monotonicity in the header fuel -/

theorem advF_monoR (H : Hier) (consume : Bool) (R : Nat) : ∀ f n val s,
    advF H consume R f n val = s → s.isErr = false → advF H consume (R + 1) f n val = s := by
  intro f
  induction f with
  | zero => intro n val s h hs; simp only [advF] at h; subst h; simp [WState.isErr] at hs
  | succ f ih =>
    intro n val s h hs
    rw [advF] at h ⊢
    cases hr : resolve H R n with
    | none => rw [hr] at h; subst h; simp [WState.isErr] at hs
    | some b =>
      rw [hr] at h
      rw [resolve_mono H R n b hr]
      simp only at h ⊢
      by_cases ho : b.isOrig = true
      · simp only [ho, if_true] at h ⊢; exact h
      · simp only [ho] at h ⊢
        cases he : synthExec consume b val with
        | error e => rw [he] at h; exact h
        | ok r =>
          obtain ⟨val', oi⟩ := r
          rw [he] at h
          cases oi with
          | none => exact h
          | some i =>
            simp only at h ⊢
            cases ht : b.jts[i]? with
            | none => rw [ht] at h; exact h
            | some t =>
              rw [ht] at h
              exact ih _ _ _ h hs

theorem advF_mono_le (H : Hier) (consume : Bool) (R : Nat) (n : Name) (val : Val) (s : WState) :
    ∀ f g, f ≤ g → advF H consume R f n val = s → s.isErr = false → advF H consume R g n val = s := by
  intro f g hle
  induction hle with
  | refl => intro h _; exact h
  | step _ ih => intro h hs; exact advF_mono H consume R _ n val s (ih h hs) hs

/-- a walk that ends at a block ends at an original block of the hierarchy -/
theorem adv_at_get (H : Hier) (consume : Bool) (R : Nat) : ∀ f x w y z,
    advF H consume R f x w = .at y z → ∃ b, H.get? y = some b ∧ b.isOrig = true := by
  intro f
  induction f with
  | zero => intro x w y z h; simp [advF] at h
  | succ f ihf =>
    intro x w y z h
    rw [advF] at h
    cases hres : resolve H R x with
    | none => simp [hres] at h
    | some bb =>
      simp only [hres] at h
      by_cases ho : bb.isOrig = true
      · simp only [ho, if_true, WState.at.injEq] at h
        obtain ⟨m0, hm0⟩ := resolve_from_get H R x bb hres
        have hnm := (get?_mem H m0 bb hm0).2
        exact ⟨bb, by rw [← h.1, hnm]; exact hm0, ho⟩
      · simp only [ho] at h
        cases hse : synthExec consume bb w with
        | error e => simp [hse] at h
        | ok res =>
          obtain ⟨w1, oi⟩ := res
          simp only [hse] at h
          cases oi with
          | none => simp at h
          | some i =>
            simp only at h
            cases hjj : bb.jts[i]? with
            | none => simp [hjj] at h
            | some t2 => rw [hjj] at h; exact ihf _ _ _ _ h

/-! ## Executing a block whose targets were renamed: the other direction -/

/-- every table entry of a branching block is one of its successors -/
def TblInJts (b : Blk) : Prop := b.kind.isBranching = true → ∀ p ∈ b.tbl, p.2 ∈ b.jts

theorem idxOf_mem {xs : List Name} {t : Name} (h : t ∈ xs) : ∃ i, idxOf xs t = some i := by
  unfold idxOf
  simp only
  have : List.findIdx (· == t) xs < xs.length := by
    apply List.findIdx_lt_length_of_exists
    exact ⟨t, h, by simp⟩
  exact ⟨List.findIdx (· == t) xs, by simp [this]⟩

theorem synthExec_ren_conv (f : Name → Name) {b b' : Blk} (hname : b'.name = b.name) (hkind : b'.kind = b.kind)
    (hvar : b'.var = b.var) (hasg : b'.asg = b.asg) (hjts : b'.jts.map f = b.jts)
    (htblx : ∀ x : Int, (b.tbl.find? (fun p => p.1 == x)).map (·.2) =
      ((b'.tbl.find? (fun p => p.1 == x)).map (·.2)).map f)
    (hinj : b.kind.isBranching = true → ∀ x ∈ b'.jts, ∀ y ∈ b'.jts, f x = f y → x = y)
    (htj : TblInJts b') (consume : Bool) (val : Val)
    (res : Val × Option Nat) (hok : synthExec consume b val = .ok res) : synthExec consume b' val = .ok res := by
  have hlen : b'.jts.length = b.jts.length := by
    have := congrArg List.length hjts; simpa using this
  simp only [synthExec, hkind, hvar, hasg, hname] at hok ⊢
  by_cases hbr : b.kind.isBranching = true
  · simp only [hbr, if_true] at hok ⊢
    cases hv : val.get? b.var with
    | none => simp [hv] at hok
    | some x =>
      simp only [hv] at hok ⊢
      have htbl := htblx x
      cases hf : (b.tbl.find? (fun p => p.1 == x)).map (·.2) with
      | none => simp [hf] at hok
      | some t =>
        simp only [hf] at hok
        rw [hf] at htbl
        cases hf' : (b'.tbl.find? (fun p => p.1 == x)).map (·.2) with
        | none => rw [hf'] at htbl; simp at htbl
        | some t' =>
          rw [hf'] at htbl
          simp only [Option.map_some, Option.some.injEq] at htbl
          simp only
          -- the entry is a successor of `b'`
          have hmem : t' ∈ b'.jts := by
            cases hfind : b'.tbl.find? (fun p => p.1 == x) with
            | none => simp [hfind] at hf'
            | some p =>
              simp only [hfind, Option.map_some, Option.some.injEq] at hf'
              have := htj (by rw [hkind]; exact hbr) p (List.mem_of_find?_eq_some hfind)
              rw [hf'] at this; exact this
          have hidx := idxOf_map_inj f b'.jts t' hmem (hinj hbr)
          rw [hjts, ← htbl] at hidx
          cases hi : idxOf b.jts t with
          | none => simp [hi] at hok
          | some i =>
            simp only [hi] at hok
            rw [hi] at hidx
            rw [← hidx]
            exact hok
  · have hbr' : b.kind.isBranching = false := by simpa using hbr
    simp only [hbr', Bool.false_eq_true, if_false] at hok ⊢
    cases hb : b.jts with
    | nil =>
      have : b'.jts = [] := by
        have := hlen; rw [hb] at this; exact List.eq_nil_of_length_eq_zero (by simpa using this)
      rw [hb] at hok; rw [this]; exact hok
    | cons t ts =>
      cases ts with
      | nil =>
        have : ∃ t', b'.jts = [t'] := by
          have := hlen; rw [hb] at this
          match hb' : b'.jts, this with
          | [t'], _ => exact ⟨t', rfl⟩
          | [], h => simp at h
          | _ :: _ :: _, h => simp at h
        obtain ⟨t', ht'⟩ := this
        rw [hb] at hok; rw [ht']; exact hok
      | cons t2 ts2 => rw [hb] at hok; simp at hok

/-! ## Closing the graph: the other direction -/

theorem closed_adv_conv (H H' : Hier) (new : Name) (hS : ClosedStep H H' new) (consume : Bool) (R : Nat) :
    ∀ f n val r, n ≠ new → advF H consume R f n val = r → r.isErr = false →
      advF H' consume R (f + 1) n val = r := by
  intro f
  induction f with
  | zero => intro n val r _ h hr; simp only [advF] at h; subst h; simp [WState.isErr] at hr
  | succ f ih =>
    intro n val r hn h hr
    rw [advF] at h
    rw [advF]
    rcases closed_resolve H H' new hS R n hn with ⟨h1, h2⟩ | ⟨b, b', h1, h2, hsame⟩
    · rw [h1] at h; subst h; simp [WState.isErr] at hr
    · rw [h1] at h
      rw [h2]
      obtain ⟨hname, hkind, _, horig, _, hvar, htbl, hasg⟩ := closedRel_basic hsame
      simp only [horig, hname] at h ⊢
      by_cases ho : b.isOrig = true
      · simp only [ho, if_true] at h ⊢; exact h
      · simp only [ho] at h ⊢
        rcases hsame.targets with hj | ⟨hj, hj', hbr⟩
        · have : b' = b := by rw [hsame.fields, hj]
          subst this
          cases he : synthExec consume b' val with
          | error e => rw [he] at h; exact h
          | ok res =>
            obtain ⟨val', oi⟩ := res
            rw [he] at h
            cases oi with
            | none => exact h
            | some i =>
              simp only at h ⊢
              cases ht : b'.jts[i]? with
              | none => rw [ht] at h; exact h
              | some t =>
                rw [ht] at h
                have htn : t ≠ new := fun e => hsame.noNew (e ▸ List.mem_of_getElem? ht)
                exact ih t val' r htn h hr
        · -- a synthetic exit that got the edge: one more step, to the halting block
          simp only [synthExec, hbr, Bool.false_eq_true, if_false, hkind, hasg, hj, hj',
            List.getElem?_cons_zero] at h ⊢
          subst h
          obtain ⟨nb, hg, hreg, hor, hbrn, hjn⟩ := hS.newBlk
          cases R with
          | zero => simp [resolve] at h1
          | succ R =>
            have hres : resolve H' (R + 1) new = some nb := by simp [resolve, hg, hreg]
            rw [advF, hres]
            simp [hor, synthExec, hbrn, hjn]

/-- **Closing the graph introduces no error.** -/
theorem closed_step_conv (H H' : Hier) (new : Name) (hS : ClosedStep H H' new) (consume : Bool) (R F : Nat)
    (hR : 1 ≤ R) :
    ∀ (ds : List Nat) (st : WState), NotAt new st → CleanRun (sysF H consume R F) st →
      run (sysF H' consume R (F + 1)) st ds = run (sysF H consume R F) st ds := by
  intro ds st hna hc
  refine runs_eq_of_clean_inv (sysF H' consume R (F + 1)) (sysF H consume R F) (NotAt new) ?_ ds st hna hc
  intro st hp hc
  cases st with
  | halt => exact ⟨rfl, fun _ _ => ⟨rfl, trivial⟩⟩
  | err c m => exact ⟨rfl, fun _ _ => ⟨rfl, trivial⟩⟩
  | «at» n val =>
    have hn : n ≠ new := hp
    rcases hS.rel n hn with ⟨h1, h2⟩ | ⟨b, b', h1, h2, hsame⟩
    · refine ⟨by simp [sysF, obsOf, h1, h2], fun d hd => ?_⟩
      simp [sysF, obsOf, h1, Obs.arity] at hd
    · obtain ⟨hname, _⟩ := closedRel_basic hsame
      have hstepClean : ∀ d, d < ((sysF H consume R F).obs (.at n val)).arity →
          (stepF H consume R F b val d).isErr = false := by
        intro d hd
        have := clean_obs _ _ (clean_step _ _ hc d hd)
        have h2' := obs_err_state H _ _ this
        simpa [sysF, h1] using h2'
      have hnotAt : ∀ d, NotAt new (stepF H consume R F b val d) := by
        intro d
        simp only [stepF]
        cases b.jts[d]? with
        | none => trivial
        | some t =>
          simp only
          cases hx : advF H consume R F t val with
          | halt => trivial
          | err _ _ => trivial
          | «at» m v =>
            obtain ⟨bb, hbb, _⟩ := adv_at_get H consume R F t val m v hx
            show m ≠ new
            intro e; rw [e, hS.fresh] at hbb; cases hbb
      rcases hsame.targets with hj | ⟨hj, hj', _⟩
      · have hbb : b' = b := by rw [hsame.fields, hj]
        subst hbb
        have hstep : ∀ d, (stepF H consume R F b' val d).isErr = false →
            stepF H' consume R (F + 1) b' val d = stepF H consume R F b' val d := by
          intro d hne
          simp only [stepF] at hne ⊢
          cases ht : b'.jts[d]? with
          | none => simp [ht, WState.isErr] at hne
          | some t =>
            rw [ht] at hne
            simp only
            have htn : t ≠ new := fun e => hsame.noNew (e ▸ List.mem_of_getElem? ht)
            exact closed_adv_conv H H' new hS consume R F t val _ htn rfl hne
        constructor
        · simp only [sysF, obsOf, h1, h2]
          congr 1
          simp only [arityIn]
          cases hb : b'.jts with
          | nil => rfl
          | cons t ts =>
            cases ts with
            | nil =>
              simp only
              have har : ((sysF H consume R F).obs (.at n val)).arity =
                  if stepF H consume R F b' val 0 == .halt then 0 else 1 := by
                simp [sysF, obsOf, h1, arityIn, hb, Obs.arity]
              by_cases hh : stepF H consume R F b' val 0 = .halt
              · rw [hstep 0 (by rw [hh]; rfl)]
              · have h1' : 0 < ((sysF H consume R F).obs (.at n val)).arity := by rw [har]; simp [hh]
                rw [hstep 0 (hstepClean 0 h1')]
            | cons t2 ts2 => rfl
        · intro d hd
          simp only [sysF, h1, h2]
          exact ⟨hstep d (hstepClean d hd), hnotAt d⟩
      · -- an original exit that got the edge to the halting block
        have hzero : stepF H' consume R (F + 1) b' val 0 = .halt := by
          simp only [stepF, hj', List.getElem?_cons_zero]
          obtain ⟨nb, hg, hreg, hor, hbrn, hjn⟩ := hS.newBlk
          obtain ⟨R', rfl⟩ : ∃ R', R = R' + 1 := ⟨R - 1, by omega⟩
          have hres : resolve H' (R' + 1) new = some nb := by simp [resolve, hg, hreg]
          rw [advF, hres]
          simp [hor, synthExec, hbrn, hjn]
        constructor
        · simp only [sysF, obsOf, h1, h2]
          congr 1
          simp only [arityIn, hj, hj', hzero]
          rfl
        · intro d hd
          simp [sysF, obsOf, h1, arityIn, hj, Obs.arity] at hd

/-! ## A helper for the observations -/

theorem arityIn_eq (nA nB : Nat → WState) (b b' : Blk) (hlen : b'.jts.length = b.jts.length)
    (h0 : b.jts.length = 1 → (nA 0 == WState.halt) = (nB 0 == WState.halt)) :
    arityIn nA b' = arityIn nB b := by
  unfold arityIn
  match hb : b.jts, hb' : b'.jts with
  | [], [] => rfl
  | [t], [t'] => simp only; rw [h0 (by rw [hb]; rfl)]
  | _ :: _ :: _, _ :: _ :: _ => rw [hb, hb'] at hlen; simpa using hlen
  | [], _ :: _ => rw [hb, hb'] at hlen; simp at hlen
  | _ :: _, [] => rw [hb, hb'] at hlen; simp at hlen
  | [_], _ :: _ :: _ => rw [hb, hb'] at hlen; simp at hlen
  | _ :: _ :: _, [_] => rw [hb, hb'] at hlen; simp at hlen

/-- what the converse step theorems need at an original block: the successor states agree wherever the
    walk before the step is error-free -/
theorem obs_conv (H H' : Hier) (consume : Bool) (R F R' F' : Nat) (n : Name) (val val' : Val) (b b' : Blk)
    (h1 : H.get? n = some b) (h2 : H'.get? n = some b') (hlen : b'.jts.length = b.jts.length)
    (hc : CleanRun (sysF H consume R F) (.at n val))
    (hstep : ∀ d, (stepF H consume R F b val d).isErr = false →
      (stepF H' consume R' F' b' val' d == WState.halt) = (stepF H consume R F b val d == WState.halt)) :
    (sysF H' consume R' F').obs (.at n val') = (sysF H consume R F).obs (.at n val) := by
  simp only [sysF, obsOf, h1, h2]
  congr 1
  apply arityIn_eq _ _ b b' hlen
  intro hl
  have har : ((sysF H consume R F).obs (.at n val)).arity =
      if stepF H consume R F b val 0 == .halt then 0 else 1 := by
    match hb : b.jts with
    | [t] => simp [sysF, obsOf, h1, arityIn, hb, Obs.arity]
    | [] => rw [hb] at hl; simp at hl
    | _ :: _ :: _ => rw [hb] at hl; simp at hl
  by_cases hh : stepF H consume R F b val 0 = .halt
  · exact hstep 0 (by rw [hh]; rfl)
  · have h1' : 0 < ((sysF H consume R F).obs (.at n val)).arity := by rw [har]; simp [hh]
    have := clean_obs _ _ (clean_step _ _ hc 0 h1')
    have h2' := obs_err_state H _ _ this
    exact hstep 0 (by simpa [sysF, h1] using h2')

theorem stepClean (H : Hier) (consume : Bool) (R F : Nat) (n : Name) (val : Val) (b : Blk)
    (h1 : H.get? n = some b) (hc : CleanRun (sysF H consume R F) (.at n val)) (d : Nat)
    (hd : d < ((sysF H consume R F).obs (.at n val)).arity) :
    (stepF H consume R F b val d).isErr = false := by
  have := clean_obs _ _ (clean_step _ _ hc d hd)
  have h2' := obs_err_state H _ _ this
  simpa [sysF, h1] using h2'

/-! ## Wrapping into a region: the other direction -/

theorem resolve_mono_le (H : Hier) (n : Name) (b : Blk) : ∀ R R', R ≤ R' → resolve H R n = some b →
    resolve H R' n = some b := by
  intro R R' hle
  induction hle with
  | refl => exact id
  | step _ ih => intro h; exact resolve_mono H _ n b (ih h)

theorem resolve_wrap_conv (H H' : Hier) (r hdr : Name) (hW : Wrapped H H' r hdr) : ∀ R n' x,
    resolve H R (unwrap r hdr n') = some x → ∃ x', resolve H' (2 * R) n' = some x' ∧ WrapRel r hdr x x' := by
  intro R
  induction R with
  | zero => intro n' x h; simp [resolve] at h
  | succ R ih =>
    intro n' x h
    -- below a name other than `r`
    have old : ∀ m, m ≠ r → resolve H (R + 1) m = some x →
        ∃ x', resolve H' (2 * R + 1) m = some x' ∧ WrapRel r hdr x x' := by
      intro m hm hres
      rcases hW.rel m hm with ⟨h1, _⟩ | ⟨b, b', h1, h2, hrel⟩
      · simp [resolve, h1] at hres
      · obtain ⟨hreg, _⟩ := wrapRel_flags hrel
        simp only [resolve, h1] at hres
        simp only [resolve, h2, hreg]
        by_cases hr : b.isRegion = true
        · simp only [hr, if_true] at hres ⊢
          rw [← hrel.header] at hres
          exact ih _ _ hres
        · simp only [hr, Bool.false_eq_true, if_false, Option.some.injEq] at hres ⊢
          subst hres
          exact ⟨b', rfl, hrel⟩
    by_cases hn : n' = r
    · subst hn
      have hu : unwrap n' hdr n' = hdr := by simp [unwrap]
      rw [hu] at h
      obtain ⟨rb, hg, hreg, hh⟩ := hW.region
      obtain ⟨x', hx', hrel⟩ := old hdr hW.hdrNe h
      refine ⟨x', ?_, hrel⟩
      rw [show 2 * (R + 1) = (2 * R + 1) + 1 by omega, resolve, hg]
      simp only [hreg, if_true, hh]
      exact hx'
    · rw [unwrap_of_ne hn] at h
      obtain ⟨x', hx', hrel⟩ := old n' hn h
      exact ⟨x', resolve_mono_le H' n' x' _ _ (by omega) hx', hrel⟩

theorem adv_wrap_conv (H H' : Hier) (r hdr : Name) (hW : Wrapped H H' r hdr)
    (hT : ∀ n b', H'.get? n = some b' → TblInJts b') (consume : Bool) (R : Nat) :
    ∀ f n' val res, advF H consume R f (unwrap r hdr n') val = res → res.isErr = false →
      advF H' consume (2 * R) f n' val = res := by
  intro f
  induction f with
  | zero => intro n' val res h hr; simp only [advF] at h; subst h; simp [WState.isErr] at hr
  | succ f ih =>
    intro n' val res h hr
    rw [advF] at h ⊢
    cases hres : resolve H R (unwrap r hdr n') with
    | none => rw [hres] at h; subst h; simp [WState.isErr] at hr
    | some b =>
      rw [hres] at h
      obtain ⟨b', hres', hrel⟩ := resolve_wrap_conv H H' r hdr hW R n' b hres
      rw [hres']
      obtain ⟨_, horig⟩ := wrapRel_flags hrel
      simp only [horig, hrel.name] at h ⊢
      by_cases ho : b.isOrig = true
      · simp only [ho, if_true] at h ⊢; exact h
      · simp only [ho] at h ⊢
        cases he : synthExec consume b val with
        | error e => rw [he] at h; subst h; simp [WState.isErr] at hr
        | ok res1 =>
          obtain ⟨m0, hm0⟩ := resolve_from_get H' _ n' b' hres'
          have he' := synthExec_ren_conv (unwrap r hdr) hrel.name hrel.kind hrel.var hrel.asg hrel.jts hrel.tbl
            (fun _ => hrel.inj) (hT m0 b' hm0) consume val res1 he
          rw [he] at h
          rw [he']
          obtain ⟨val', oi⟩ := res1
          cases oi with
          | none => exact h
          | some i =>
            simp only at h ⊢
            cases ht : b.jts[i]? with
            | none => rw [ht] at h; subst h; simp [WState.isErr] at hr
            | some t =>
              rw [ht] at h
              have : ∃ t', b'.jts[i]? = some t' ∧ unwrap r hdr t' = t := by
                rw [← hrel.jts, List.getElem?_map] at ht
                cases hx : b'.jts[i]? with
                | none => simp [hx] at ht
                | some t' => exact ⟨t', rfl, by simpa [hx] using ht⟩
              obtain ⟨t', ht', hut⟩ := this
              rw [ht']
              exact ih t' val' res (by rw [hut]; exact h) hr

/-- **Wrapping blocks into a region introduces no error.** -/
theorem wrapped_conv (H H' : Hier) (r hdr : Name) (hW : Wrapped H H' r hdr) (hfr : H.get? r = none)
    (hT : ∀ n b', H'.get? n = some b' → TblInJts b') (consume : Bool) (R F : Nat) :
    ∀ (ds : List Nat) (st : WState), NotAt r st → CleanRun (sysF H consume R F) st →
      run (sysF H' consume (2 * R) F) st ds = run (sysF H consume R F) st ds := by
  intro ds st hna hc
  refine runs_eq_of_clean_inv (sysF H' consume (2 * R) F) (sysF H consume R F) (NotAt r) ?_ ds st hna hc
  intro st hp hc
  cases st with
  | halt => exact ⟨rfl, fun _ _ => ⟨rfl, trivial⟩⟩
  | err c m => exact ⟨rfl, fun _ _ => ⟨rfl, trivial⟩⟩
  | «at» n val =>
    have hn : n ≠ r := hp
    rcases hW.rel n hn with ⟨h1, h2⟩ | ⟨b, b', h1, h2, hrel⟩
    · refine ⟨by simp [sysF, obsOf, h1, h2], fun d hd => ?_⟩
      simp [sysF, obsOf, h1, Obs.arity] at hd
    · have hlen : b'.jts.length = b.jts.length := by
        have := congrArg List.length hrel.jts; simpa using this
      have hstep : ∀ d, (stepF H consume R F b val d).isErr = false →
          stepF H' consume (2 * R) F b' val d = stepF H consume R F b val d := by
        intro d hne
        simp only [stepF] at hne ⊢
        cases ht : b.jts[d]? with
        | none => simp [ht, WState.isErr] at hne
        | some t =>
          rw [ht] at hne
          have : ∃ t', b'.jts[d]? = some t' ∧ unwrap r hdr t' = t := by
            rw [← hrel.jts, List.getElem?_map] at ht
            cases hx : b'.jts[d]? with
            | none => simp [hx] at ht
            | some t' => exact ⟨t', rfl, by simpa [hx] using ht⟩
          obtain ⟨t', ht', hut⟩ := this
          rw [ht']
          simp only
          exact adv_wrap_conv H H' r hdr hW hT consume R F t' val _ (by rw [hut]) hne
      constructor
      · exact obs_conv H H' consume R F (2 * R) F n val val b b' h1 h2 hlen hc
          (fun d hne => by rw [hstep d hne])
      · intro d hd
        have hne := stepClean H consume R F n val b h1 hc d hd
        simp only [sysF, h1, h2]
        refine ⟨hstep d hne, ?_⟩
        -- the walk over `H` ends at a block of `H`, and `r` is not one
        simp only [stepF]
        cases b.jts[d]? with
        | none => trivial
        | some t =>
          simp only
          cases hx : advF H consume R F t val with
          | halt => trivial
          | err _ _ => trivial
          | «at» m v =>
            obtain ⟨bb, hbb, _⟩ := adv_at_get H consume R F t val m v hx
            show m ≠ r
            intro e; rw [e, hfr] at hbb; cases hbb

/-! ## Splicing a block into arcs: the other direction -/

open Scfg.C14 in
theorem adv_spliced_conv (H H' : Hier) (new s : Name) (hS : Spliced H H' new s)
    (hT : ∀ n b', H'.get? n = some b' → TblInJts b') (consume : Bool) (R : Nat) :
    ∀ f n' val res, advF H consume R f (unsplice new s n') val = res → res.isErr = false →
      advF H' consume R (2 * f) n' val = res := by
  intro f
  induction f with
  | zero => intro n' val res h hr; simp only [advF] at h; subst h; simp [WState.isErr] at hr
  | succ f ih =>
    intro n' val res h hr
    -- from a name other than the inserted block: one step, then the induction hypothesis
    have old : ∀ m, m ≠ new → advF H consume R (f + 1) m val = res →
        advF H' consume R (2 * f + 1) m val = res := by
      intro m hm h
      rw [advF] at h ⊢
      rcases Scfg.C14.resolve_rel H H' new s hS R m hm with ⟨h1, _⟩ | ⟨b, b', h1, h2, hsame⟩
      · rw [h1] at h; subst h; simp [WState.isErr] at hr
      · rw [h1] at h
        rw [h2]
        obtain ⟨hname, hkind, _, horig, _, hvar, hasg, _⟩ := sameUpTo_basic hsame
        simp only [horig, hname] at h ⊢
        by_cases ho : b.isOrig = true
        · simp only [ho, if_true] at h ⊢; exact h
        · simp only [ho] at h ⊢
          cases he : synthExec consume b val with
          | error e => rw [he] at h; subst h; simp [WState.isErr] at hr
          | ok res1 =>
            obtain ⟨m0, hm0⟩ := resolve_from_get H' _ m b' h2
            have he' := synthExec_ren_conv (unsplice new s) hname hkind hvar hasg hsame.targets hsame.tbl
              hsame.inj (hT m0 b' hm0) consume val res1 he
            rw [he] at h
            rw [he']
            obtain ⟨val', oi⟩ := res1
            cases oi with
            | none => exact h
            | some i =>
              simp only at h ⊢
              cases ht : b.jts[i]? with
              | none => rw [ht] at h; subst h; simp [WState.isErr] at hr
              | some t =>
                rw [ht] at h
                have : ∃ t', b'.jts[i]? = some t' ∧ unsplice new s t' = t := by
                  rw [← hsame.targets, List.getElem?_map] at ht
                  cases hx : b'.jts[i]? with
                  | none => simp [hx] at ht
                  | some t' => exact ⟨t', rfl, by simpa [hx] using ht⟩
                obtain ⟨t', ht', hut⟩ := this
                rw [ht']
                exact ih t' val' res (by rw [hut]; exact h) hr
    by_cases hn : n' = new
    · subst hn
      have hu : unsplice n' s n' = s := by simp [unsplice]
      rw [hu] at h
      have hs' := old s hS.sNe h
      obtain ⟨nb, hg, hreg, hor, hbr, hna, hj⟩ := hS.newBlk
      cases R with
      | zero => simp only [advF, resolve] at h; subst h; simp [WState.isErr] at hr
      | succ R =>
        have hres : resolve H' (R + 1) n' = some nb := by simp [resolve, hg, hreg]
        rw [show 2 * (f + 1) = (2 * f + 1) + 1 by omega, advF, hres]
        have hse : synthExec consume nb val = .ok (val, some 0) := by
          have : (nb.kind == BKind.synthAssign) = false := by simpa using hna
          simp [synthExec, hbr, this, hj]
        simp only [hor, Bool.false_eq_true, if_false, hse, hj, List.getElem?_cons_zero]
        exact hs'
    · rw [unsplice_of_ne hn] at h
      have := old n' hn h
      rw [show 2 * (f + 1) = (2 * f + 1) + 1 by omega]
      exact advF_mono H' consume R _ n' val res this hr

open Scfg.C14 in
/-- **Splicing a block into arcs introduces no error.** -/
theorem spliced_conv (H H' : Hier) (new s : Name) (hS : Spliced H H' new s) (hfr : H.get? new = none)
    (hT : ∀ n b', H'.get? n = some b' → TblInJts b') (consume : Bool) (R F : Nat) :
    ∀ (ds : List Nat) (st : WState), NotNew new st → CleanRun (sysF H consume R F) st →
      run (sysF H' consume R (2 * F)) st ds = run (sysF H consume R F) st ds := by
  intro ds st hna hc
  refine runs_eq_of_clean_inv (sysF H' consume R (2 * F)) (sysF H consume R F) (NotNew new) ?_ ds st hna hc
  intro st hp hc
  cases st with
  | halt => exact ⟨rfl, fun _ _ => ⟨rfl, trivial⟩⟩
  | err c m => exact ⟨rfl, fun _ _ => ⟨rfl, trivial⟩⟩
  | «at» n val =>
    have hn : n ≠ new := hp
    rcases hS.rel n hn with ⟨h1, h2⟩ | ⟨b, b', h1, h2, hsame⟩
    · refine ⟨by simp [sysF, obsOf, h1, h2], fun d hd => ?_⟩
      simp [sysF, obsOf, h1, Obs.arity] at hd
    · obtain ⟨_, _, _, _, _, _, _, hlen⟩ := sameUpTo_basic hsame
      have hstep : ∀ d, (stepF H consume R F b val d).isErr = false →
          stepF H' consume R (2 * F) b' val d = stepF H consume R F b val d := by
        intro d hne
        simp only [stepF] at hne ⊢
        cases ht : b.jts[d]? with
        | none => simp [ht, WState.isErr] at hne
        | some t =>
          rw [ht] at hne
          have : ∃ t', b'.jts[d]? = some t' ∧ unsplice new s t' = t := by
            rw [← hsame.targets, List.getElem?_map] at ht
            cases hx : b'.jts[d]? with
            | none => simp [hx] at ht
            | some t' => exact ⟨t', rfl, by simpa [hx] using ht⟩
          obtain ⟨t', ht', hut⟩ := this
          rw [ht']
          simp only
          exact adv_spliced_conv H H' new s hS hT consume R F t' val _ (by rw [hut]) hne
      constructor
      · exact obs_conv H H' consume R F R (2 * F) n val val b b' h1 h2 hlen hc
          (fun d hne => by rw [hstep d hne])
      · intro d hd
        have hne := stepClean H consume R F n val b h1 hc d hd
        simp only [sysF, h1, h2]
        refine ⟨hstep d hne, ?_⟩
        simp only [stepF]
        cases b.jts[d]? with
        | none => trivial
        | some t =>
          simp only
          cases hx : advF H consume R F t val with
          | halt => trivial
          | err _ _ => trivial
          | «at» m v =>
            obtain ⟨bb, hbb, _⟩ := adv_at_get H consume R F t val m v hx
            show m ≠ new
            intro e; rw [e, hfr] at hbb; cases hbb

/-! ## Rerouting through inserted control blocks: the other direction -/

open Scfg.Reroute in
/-- **Crossing never fails.** A chain whose course is determined by its own assignments is crossed in at
    most `K` steps whatever the valuation, ending where `chainEnd` says, having changed fresh variables only. -/
theorem chain_total (H' : Hier) (isNew isFresh : Name → Bool) (consume : Bool) (R : Nat) (hR : 1 ≤ R) :
    ∀ K n σ t, chainEnd H' isNew isFresh K n σ = some t → ∀ val', Knows σ val' →
      isNew t = false ∧ ∃ m val'', m ≤ K ∧ AgreeOff isFresh val'' val' ∧
        ∀ g, advF H' consume R (g + m) n val' = advF H' consume R g t val'' := by
  obtain ⟨R', rfl⟩ : ∃ R', R = R' + 1 := ⟨R - 1, by omega⟩
  intro K
  induction K with
  | zero => intro n σ t h; simp [chainEnd] at h
  | succ K ih =>
    intro n σ t h val' hk
    rw [chainEnd] at h
    by_cases hn : isNew n = true
    · simp only [hn, Bool.not_true, Bool.false_eq_true, if_false] at h
      cases hg : H'.get? n with
      | none => simp [hg] at h
      | some b =>
        simp only [hg] at h
        by_cases hro : (b.isRegion || b.isOrig) = true
        · simp [hro] at h
        · simp only [hro, Bool.false_eq_true, if_false] at h
          have hreg : b.isRegion = false := by cases hx : b.isRegion <;> simp_all
          have hor : b.isOrig = false := by cases hx : b.isOrig <;> simp_all
          have hres : resolve H' (R' + 1) n = some b := by simp [resolve, hg, hreg]
          by_cases hbr : b.kind.isBranching = true
          · simp only [hbr, if_true] at h
            by_cases hfr : isFresh b.var = true
            · simp only [hfr, Bool.not_true, Bool.false_eq_true, if_false] at h
              cases hs : σ.get? b.var with
              | none => simp [hs] at h
              | some x =>
                simp only [hs] at h
                cases hf : (b.tbl.find? (fun p => p.1 == x)).map (·.2) with
                | none => simp [hf] at h
                | some t1 =>
                  simp only [hf] at h
                  cases hi : idxOf b.jts t1 with
                  | none => simp [hi] at h
                  | some i =>
                    simp only [hi] at h
                    cases ht : b.jts[i]? with
                    | none => simp [ht] at h
                    | some t' =>
                      simp only [ht] at h
                      have hv : val'.get? b.var = some x := hk _ _ hs
                      by_cases hc : (consume && b.kind == BKind.synthLatch) = true
                      · obtain ⟨h1, m, val'', hm, hag, hall⟩ := ih t' _ t h (val'.erase b.var) (knows_erase_both hk b.var)
                        refine ⟨h1, m + 1, val'', by omega, hag.trans (agree_erase_fresh _ _ hfr), fun g => ?_⟩
                        rw [show g + (m + 1) = (g + m) + 1 by omega, advF, hres]
                        simp only [hor, Bool.false_eq_true, if_false, synthExec, hbr, if_true, hv, hf, hi, hc, ht]
                        exact hall g
                      · obtain ⟨h1, m, val'', hm, hag, hall⟩ := ih t' _ t h val' (knows_erase_left hk b.var)
                        refine ⟨h1, m + 1, val'', by omega, hag, fun g => ?_⟩
                        rw [show g + (m + 1) = (g + m) + 1 by omega, advF, hres]
                        simp only [hor, Bool.false_eq_true, if_false, synthExec, hbr, if_true, hv, hf, hi, hc, ht]
                        exact hall g
            · simp [hfr] at h
          · have hbr' : b.kind.isBranching = false := by simpa using hbr
            simp only [hbr', Bool.false_eq_true, if_false] at h
            by_cases hany : (b.asg.any fun p => !isFresh p.1) = true
            · simp [hany] at h
            · simp only [hany, Bool.false_eq_true, if_false] at h
              have hallf : ∀ p ∈ b.asg, isFresh p.1 = true := by
                intro p hp
                cases hfp : isFresh p.1 with
                | true => rfl
                | false =>
                  exfalso; apply hany
                  exact List.any_eq_true.mpr ⟨p, hp, by simp [hfp]⟩
              cases hj : b.jts with
              | nil => simp [hj] at h
              | cons t1 ts =>
                cases ts with
                | cons _ _ => simp [hj] at h
                | nil =>
                  simp only [hj] at h
                  by_cases hk2 : (b.kind == BKind.synthAssign) = true
                  · simp only [hk2, if_true] at h
                    obtain ⟨h1, m, val'', hm, hag, hall⟩ := ih t1 _ t h (val'.setAll b.asg) (knows_setAll b.asg hk)
                    refine ⟨h1, m + 1, val'', by omega, hag.trans (agree_setAll_fresh _ _ hallf), fun g => ?_⟩
                    rw [show g + (m + 1) = (g + m) + 1 by omega, advF, hres]
                    simp only [hor, Bool.false_eq_true, if_false, synthExec, hbr', hk2, if_true, hj,
                      List.getElem?_cons_zero]
                    exact hall g
                  · simp only [hk2] at h
                    obtain ⟨h1, m, val'', hm, hag, hall⟩ := ih t1 _ t h val' hk
                    refine ⟨h1, m + 1, val'', by omega, hag, fun g => ?_⟩
                    rw [show g + (m + 1) = (g + m) + 1 by omega, advF, hres]
                    simp only [hor, Bool.false_eq_true, if_false, synthExec, hbr', hk2, hj,
                      List.getElem?_cons_zero]
                    exact hall g
    · have hn' : isNew n = false := by simpa using hn
      simp only [hn', Bool.not_false, if_true, Option.some.injEq] at h
      subst h
      exact ⟨hn', 0, val', by omega, AgreeOff.refl _ _, fun g => rfl⟩

theorem agreeOff_symm {F : Name → Bool} {a b : Val} (h : Scfg.Reroute.AgreeOff F a b) :
    Scfg.Reroute.AgreeOff F b a := fun x hx => (h x hx).symm

theorem stRel_not_err {F : Name → Bool} {r r' : WState} (h : Scfg.Reroute.StRel F r r') : r'.isErr = false := by
  cases r <;> cases r' <;> first | rfl | (simp [Scfg.Reroute.StRel] at h)

open Scfg.Reroute in
theorem adv_rerouted_conv (H H' : Hier) (isNew isFresh : Name → Bool) (K : Nat)
    (hS : Rerouted H H' isNew isFresh K) (hT : ∀ n b', H'.get? n = some b' → TblInJts b')
    (consume : Bool) (R : Nat) :
    ∀ f n' val val' r, (isNew n' = true → (chainEnd H' isNew isFresh K n' []).isSome = true) →
      advF H consume R f (unr H' isNew isFresh K n') val = r → r.isErr = false →
      AgreeOff isFresh val' val →
      ∃ r', advF H' consume R ((K + 1) * f) n' val' = r' ∧ StRel isFresh r r' ∧ OldSt isNew r' := by
  intro f
  induction f with
  | zero => intro n' val val' r _ h hr; simp only [advF] at h; subst h; simp [WState.isErr] at hr
  | succ f ih =>
    intro n' val val' r hent h hr hag
    -- from an old name, any valuation that agrees: one step, then the induction hypothesis
    have old : ∀ m v', isNew m = false → advF H consume R (f + 1) m val = r → AgreeOff isFresh v' val →
        ∃ r', advF H' consume R ((K + 1) * f + 1) m v' = r' ∧ StRel isFresh r r' ∧ OldSt isNew r' := by
      intro m v' hm h hagv
      rw [advF] at h
      rw [advF]
      rcases Scfg.Reroute.resolve_rel H H' isNew isFresh K hS R m hm with ⟨h1, _⟩ | ⟨b, b', h1, h2, hp, hbn⟩
      · rw [h1] at h; subst h; simp [WState.isErr] at hr
      · rw [h1] at h
        rw [h2]
        obtain ⟨hname, hkind, _, horig, _, hvar, hasg, _⟩ := sameUpToU_basic hp.same
        simp only [horig, hname]
        by_cases ho : b.isOrig = true
        · simp only [ho, if_true] at h ⊢
          subst h
          exact ⟨_, rfl, ⟨rfl, hagv⟩, by rw [← hname]; exact hbn⟩
        · simp only [ho] at h ⊢
          cases he : synthExec consume b val with
          | error e => rw [he] at h; subst h; simp [WState.isErr] at hr
          | ok res1 =>
            obtain ⟨w, oi⟩ := res1
            obtain ⟨w', he1, hagw⟩ := synthExec_agree hp.untouched consume (agreeOff_symm hagv) w oi he
            obtain ⟨m0, hm0⟩ := resolve_from_get H' _ m b' h2
            have he' := synthExec_ren_conv (unr H' isNew isFresh K) hname hkind hvar hasg hp.same.targets
              hp.same.tbl hp.same.inj (hT m0 b' hm0) consume v' _ he1
            rw [he] at h
            rw [he']
            cases oi with
            | none => simp only at h ⊢; subst h; exact ⟨_, rfl, trivial, trivial⟩
            | some i =>
              simp only at h ⊢
              cases ht : b.jts[i]? with
              | none => rw [ht] at h; subst h; simp [WState.isErr] at hr
              | some t =>
                rw [ht] at h
                have : ∃ t', b'.jts[i]? = some t' ∧ unr H' isNew isFresh K t' = t := by
                  rw [← hp.same.targets, List.getElem?_map] at ht
                  cases hx : b'.jts[i]? with
                  | none => simp [hx] at ht
                  | some t' => exact ⟨t', rfl, by simpa [hx] using ht⟩
                obtain ⟨t', ht', hut⟩ := this
                rw [ht']
                exact ih t' w w' r (hp.entries t' (List.mem_of_getElem? ht')) (by rw [hut]; exact h) hr
                  (agreeOff_symm hagw)
    by_cases hn : isNew n' = true
    · have hsome := hent hn
      cases hc : chainEnd H' isNew isFresh K n' [] with
      | none => simp [hc] at hsome
      | some t =>
        have hu : unr H' isNew isFresh K n' = t := by simp [unr, hn, hc]
        rw [hu] at h
        have hR : 1 ≤ R := by
          cases R with
          | zero => simp only [advF, resolve] at h; subst h; simp [WState.isErr] at hr
          | succ _ => omega
        obtain ⟨ht, m, val'', hm, hag2, hall⟩ :=
          chain_total H' isNew isFresh consume R hR K n' [] t hc val' (knows_nil _)
        obtain ⟨r', hr', hrel, hold⟩ := old t val'' ht h (hag2.trans hag)
        refine ⟨r', ?_, hrel, hold⟩
        have hne' := stRel_not_err hrel
        have hg : (K + 1) * (f + 1) = ((K + 1) * f + 1 + (K - m)) + m := by
          have : (K + 1) * (f + 1) = (K + 1) * f + (K + 1) := by rw [Nat.mul_add, Nat.mul_one]
          omega
        rw [hg, hall]
        exact advF_mono_le H' consume R t val'' r' _ _ (by omega) hr' hne'
    · have hn' : isNew n' = false := by simpa using hn
      rw [unr_old hn'] at h
      obtain ⟨r', hr', hrel, hold⟩ := old n' val' hn' h hag
      refine ⟨r', ?_, hrel, hold⟩
      have hne' := stRel_not_err hrel
      exact advF_mono_le H' consume R n' val' r' _ _ (by
        have : (K + 1) * (f + 1) = (K + 1) * f + (K + 1) := by rw [Nat.mul_add, Nat.mul_one]
        omega) hr' hne'

open Scfg.Reroute in
/-- **Rerouting arcs through inserted control blocks introduces no error.** -/
theorem rerouted_conv (H H' : Hier) (isNew isFresh : Name → Bool) (K : Nat)
    (hS : Rerouted H H' isNew isFresh K) (hT : ∀ n b', H'.get? n = some b' → TblInJts b')
    (consume : Bool) (R F : Nat) :
    ∀ (ds : List Nat) (st st' : WState), StRel isFresh st st' → OldSt isNew st' →
      CleanRun (sysF H consume R F) st →
      run (sysF H' consume R ((K + 1) * F)) st' ds = run (sysF H consume R F) st ds := by
  intro ds st st' h1 h2 hc
  refine runs_eq_of_rel (sysF H' consume R ((K + 1) * F)) (sysF H consume R F)
    (fun a b => StRel isFresh b a ∧ OldSt isNew a) ?_ ds st' st ⟨h1, h2⟩ hc
  intro sa sb hp hc
  obtain ⟨hrel, hold⟩ := hp
  cases sb with
  | halt =>
    cases sa with
    | halt => exact ⟨rfl, fun d hd => by simp [sysF, obsOf, Obs.arity] at hd⟩
    | err _ _ => simp [StRel] at hrel
    | «at» _ _ => simp [StRel] at hrel
  | err c m =>
    have := clean_obs _ _ hc
    simp [sysF, obsOf, Obs.isErr] at this
  | «at» n val =>
    cases sa with
    | halt => simp [StRel] at hrel
    | err _ _ => simp [StRel] at hrel
    | «at» n0 val' =>
      obtain ⟨hn0, hag⟩ := hrel
      subst hn0
      have hn : isNew n = false := hold
      rcases hS.rel n hn with ⟨h1, h2⟩ | ⟨b, b', h1, h2, hp⟩
      · refine ⟨by simp [sysF, obsOf, h1, h2], fun d hd => ?_⟩
        simp [sysF, obsOf, h1, Obs.arity] at hd
      · obtain ⟨_, _, _, _, _, _, _, hlen⟩ := sameUpToU_basic hp.same
        have hstep : ∀ d, (stepF H consume R F b val d).isErr = false →
            StRel isFresh (stepF H consume R F b val d) (stepF H' consume R ((K + 1) * F) b' val' d) ∧
            OldSt isNew (stepF H' consume R ((K + 1) * F) b' val' d) := by
          intro d hne
          simp only [stepF] at hne ⊢
          cases ht : b.jts[d]? with
          | none => simp [ht, WState.isErr] at hne
          | some t =>
            rw [ht] at hne
            have : ∃ t', b'.jts[d]? = some t' ∧ unr H' isNew isFresh K t' = t := by
              rw [← hp.same.targets, List.getElem?_map] at ht
              cases hx : b'.jts[d]? with
              | none => simp [hx] at ht
              | some t' => exact ⟨t', rfl, by simpa [hx] using ht⟩
            obtain ⟨t', ht', hut⟩ := this
            rw [ht']
            simp only
            obtain ⟨r', hr', hrel', hold'⟩ := adv_rerouted_conv H H' isNew isFresh K hS hT consume R F t' val val' _
              (hp.entries t' (List.mem_of_getElem? ht')) (by rw [hut]) hne hag
            rw [hr']
            exact ⟨hrel', hold'⟩
        constructor
        · exact obs_conv H H' consume R F R ((K + 1) * F) n val val' b b' h1 h2 hlen hc
            (fun d hne => (stRel_halt_iff (hstep d hne).1).symm)
        · intro d hd
          have hne := stepClean H consume R F n val b h1 hc d hd
          simp only [sysF, h1, h2]
          exact hstep d hne

/-! ## More fuel never changes an error-free walk -/

theorem adv_fuel_mono (H : Hier) (consume : Bool) (R F R' F' : Nat) (hR : R ≤ R') (hF : F ≤ F')
    (n : Name) (val : Val) (s : WState) (h : advF H consume R F n val = s) (hs : s.isErr = false) :
    advF H consume R' F' n val = s := by
  have h1 : advF H consume R F' n val = s := advF_mono_le H consume R n val s F F' hF h hs
  clear h
  induction hR with
  | refl => exact h1
  | step _ ih => exact advF_monoR H consume _ F' n val s ih hs

theorem runs_fuel_mono (H : Hier) (consume : Bool) (R F R' F' : Nat) (hR : R ≤ R') (hF : F ≤ F') :
    ∀ (ds : List Nat) (st : WState), CleanRun (sysF H consume R F) st →
      run (sysF H consume R' F') st ds = run (sysF H consume R F) st ds := by
  intro ds st hc
  refine runs_eq_of_clean_inv (sysF H consume R' F') (sysF H consume R F) (fun _ => True) ?_ ds st trivial hc
  intro st _ hc
  cases st with
  | halt => exact ⟨rfl, fun _ _ => ⟨rfl, trivial⟩⟩
  | err c m => exact ⟨rfl, fun _ _ => ⟨rfl, trivial⟩⟩
  | «at» n val =>
    cases h1 : H.get? n with
    | none =>
      refine ⟨by simp [sysF, obsOf, h1], fun d hd => ?_⟩
      simp [sysF, obsOf, h1, Obs.arity] at hd
    | some b =>
      have hstep : ∀ d, (stepF H consume R F b val d).isErr = false →
          stepF H consume R' F' b val d = stepF H consume R F b val d := by
        intro d hne
        simp only [stepF] at hne ⊢
        cases ht : b.jts[d]? with
        | none => rfl
        | some t =>
          rw [ht] at hne
          simp only
          exact adv_fuel_mono H consume R F R' F' hR hF t val _ rfl hne
      constructor
      · exact obs_conv H H consume R F R' F' n val val b b h1 h1 rfl hc (fun d hne => by rw [hstep d hne])
      · intro d hd
        have hne := stepClean H consume R F n val b h1 hc d hd
        simp only [sysF, h1]
        exact ⟨hstep d hne, trivial⟩

/-! ## Chains, without the error-freeness hypothesis -/

theorem tblOKB_sound (H : Hier) (h : tblOKB H = true) : ∀ n b, H.get? n = some b → TblInJts b := by
  intro n b hg hbr p hp
  have := List.all_eq_true.mp h b (get?_mem H n b hg).1
  simp only [hbr, Bool.not_true, Bool.false_or, List.all_eq_true] at this
  simpa [List.contains_iff_mem] using this p hp

/-- one certified step, the other way round: an error-free walk before the step stays what it is -/
theorem step_conv (H H' : Hier) (t : StepTag) (h : stepOKc H H' t = true) (n : Name)
    (hn : (H.get? n).isSome = true) (consume : Bool) (R F : Nat) (hR : 1 ≤ R) (val : Val)
    (hc : CleanRun (sysF H consume R F) (.at n val)) :
    1 ≤ (stepFuel H' t (R, F)).1 ∧
    ∀ ds, run (sysF H' consume (stepFuel H' t (R, F)).1 (stepFuel H' t (R, F)).2) (.at n val) ds =
      run (sysF H consume R F) (.at n val) ds := by
  simp only [stepOKc, Bool.and_eq_true] at h
  obtain ⟨h, htb⟩ := h
  have hT := tblOKB_sound H' htb
  cases t with
  | wrapped r hdr =>
    simp only [stepOK, Bool.and_eq_true] at h
    have hW := wrappedB_sound H H' r hdr h.2
    have hfr : H.get? r = none := by simpa using h.1
    have hnr : n ≠ r := by
      intro e; subst e; rw [hfr] at hn; cases hn
    exact ⟨by simp only [stepFuel]; omega, fun ds => wrapped_conv H H' r hdr hW hfr hT consume R F ds _ hnr hc⟩
  | spliced new s =>
    simp only [stepOK, Bool.and_eq_true] at h
    have hS := Scfg.C14.splicedB_sound H H' new s h.2
    have hfr : H.get? new = none := by simpa using h.1
    have hnr : n ≠ new := by
      intro e; subst e; rw [hfr] at hn; cases hn
    exact ⟨by simp only [stepFuel]; omega, fun ds => spliced_conv H H' new s hS hfr hT consume R F ds _ hnr hc⟩
  | rerouted =>
    simp only [stepOK] at h
    have hS := Scfg.Reroute.reroutedB_sound H H' _ h
    have hold : (fun n => (H.get? n).isNone) n = false := by
      cases hg : H.get? n with
      | none => simp [hg] at hn
      | some _ => simp [hg]
    refine ⟨by simp only [stepFuel]; omega, fun ds => ?_⟩
    have := rerouted_conv H H' _ _ _ hS hT consume R F ds (.at n val) (.at n val)
      ⟨rfl, Scfg.Reroute.AgreeOff.refl _ _⟩ hold hc
    simpa [stepFuel] using this
  | closed new =>
    simp only [stepOK] at h
    have hS := closedB_sound H H' new h
    have hnr : n ≠ new := by
      intro e; subst e; rw [hS.fresh] at hn; cases hn
    exact ⟨by simp only [stepFuel]; omega, fun ds => closed_step_conv H H' new hS consume R F hR ds _ hnr hc⟩

theorem chainOKc_chainOK : ∀ (steps : List (StepTag × Hier)) (H : Hier), chainOKc H steps = true →
    chainOK H steps = true := by
  intro steps
  induction steps with
  | nil => intro H _; rfl
  | cons p rest ih =>
    obtain ⟨t, H'⟩ := p
    intro H h
    simp only [chainOKc, stepOKc, Bool.and_eq_true] at h
    simp only [chainOK, Bool.and_eq_true]
    exact ⟨h.1.1, ih H' h.2⟩

theorem chain_conv : ∀ (steps : List (StepTag × Hier)) (H : Hier), chainOKc H steps = true →
    ∀ (n : Name), (H.get? n).isSome = true → ∀ (consume : Bool) (R F : Nat), 1 ≤ R → ∀ (val : Val),
      CleanRun (sysF H consume R F) (.at n val) →
      ∀ ds, run (sysF (chainLast H steps) consume (chainFuel steps (R, F)).1 (chainFuel steps (R, F)).2)
          (.at n val) ds = run (sysF H consume R F) (.at n val) ds := by
  intro steps
  induction steps with
  | nil => intro H _ n _ consume R F _ val _ ds; rfl
  | cons p rest ih =>
    obtain ⟨t, H'⟩ := p
    intro H h n hn consume R F hR val hc ds
    simp only [chainOKc, Bool.and_eq_true] at h
    obtain ⟨hR', hstep⟩ := step_conv H H' t h.1 n hn consume R F hR val hc
    have hk : (H'.get? n).isSome = true :=
      (step_paths H H' t (by simp only [stepOKc, Bool.and_eq_true] at h; exact h.1.1) n hn).1
    have hc' : CleanRun (sysF H' consume (stepFuel H' t (R, F)).1 (stepFuel H' t (R, F)).2) (.at n val) :=
      clean_of_runs_eq _ _ _ _ hstep hc
    have := ih H' h.2 n hk consume _ _ hR' val hc' ds
    simp only [chainLast, chainFuel]
    rw [this, hstep ds]

/-- the walk of a closed graph of original blocks shows no error -/
theorem orig_clean (G : Hier) (hG : flatB G = true) : ∀ (ds : List Nat) (n : Name) (g : Blk),
    G.get? n = some g → ∀ o ∈ run (sysOrig G) (some n) ds, o.isErr = false := by
  have hall : ∀ b ∈ G, ∀ t ∈ b.jts, (G.get? t).isSome = true := by
    intro b hb
    have := List.all_eq_true.mp hG b hb
    simp only [Bool.and_eq_true, List.all_eq_true] at this
    exact this.2
  intro ds
  induction ds with
  | nil => intro n g hg o ho; simp [run, sysOrig, hg] at ho; subst ho; rfl
  | cons d ds ih =>
    intro n g hg o ho
    simp only [run, List.mem_cons] at ho
    rcases ho with e | e
    · subst e; simp [sysOrig, hg, Obs.isErr]
    · by_cases hd : d < ((sysOrig G).obs (some n)).arity
      · simp only [hd, if_true] at e
        have hd' : d < g.jts.length := by simpa [sysOrig, hg, Obs.arity] using hd
        have hts := hall g (get?_mem G n g hg).1 g.jts[d] (List.getElem_mem hd')
        cases hx : G.get? g.jts[d] with
        | none => simp [hx] at hts
        | some x =>
          have h1 : (sysOrig G).step (some n) d = some g.jts[d] := by
            simp [sysOrig, hg, List.getElem?_eq_getElem hd']
          rw [h1] at e
          exact ih _ x hx o e
      · simp [hd] at e

/-- **A certified pipeline run, end to end, with no hypothesis on the result.** The input is a closed flat
    graph of original blocks; every step of the real run passed its check (`chainOKc`). Then from every
    block of the input, for every valuation and every decision sequence, the walk by name over the final
    hierarchy — at the explicitly computed fuel `chainFuel steps (1, 1)` and at every larger fuel — shows
    exactly the trace of the input graph: the same blocks in the same order, the same number of decisions at
    each, stopping at the same place, and no error of any kind. -/
theorem certified_run_total (G : Hier) (steps : List (StepTag × Hier)) (hG : flatB G = true)
    (h : chainOKc G steps = true) (n : Name) (g : Blk) (hn : G.get? n = some g) (consume : Bool) (val : Val)
    (R F : Nat) (hR : (chainFuel steps (1, 1)).1 ≤ R) (hF : (chainFuel steps (1, 1)).2 ≤ F) (ds : List Nat) :
    run (sysF (chainLast G steps) consume R F) (.at n val) ds = run (sysOrig G) (some n) ds := by
  have hflat : ∀ ds, run (sysOrig G) (some n) ds = run (sysF G consume 1 1) (.at n val) ds :=
    fun ds => flat_paths G hG consume 1 1 (by omega) (by omega) ds n g val hn
  have hc0 : CleanRun (sysF G consume 1 1) (.at n val) := by
    intro ds o ho
    rw [← hflat ds] at ho
    exact orig_clean G hG ds n g hn o ho
  have hchain := chain_conv steps G h n (by simp [hn]) consume 1 1 (by omega) val hc0
  have hcl : CleanRun (sysF (chainLast G steps) consume (chainFuel steps (1, 1)).1 (chainFuel steps (1, 1)).2)
      (.at n val) := clean_of_runs_eq _ _ _ _ hchain hc0
  rw [runs_fuel_mono (chainLast G steps) consume _ _ R F hR hF ds _ hcl, hchain ds, ← hflat ds]

/-- in particular (C06): in a certified run no walk ever meets a control-variable error — an unset variable,
    a value that is not a key of the table, a table entry that is not a successor — nor any other error -/
theorem certified_run_error_free (G : Hier) (steps : List (StepTag × Hier)) (hG : flatB G = true)
    (h : chainOKc G steps = true) (n : Name) (g : Blk) (hn : G.get? n = some g) (consume : Bool) (val : Val)
    (R F : Nat) (hR : (chainFuel steps (1, 1)).1 ≤ R) (hF : (chainFuel steps (1, 1)).2 ≤ F) :
    CleanRun (sysF (chainLast G steps) consume R F) (.at n val) := by
  intro ds o ho
  rw [certified_run_total G steps hG h n g hn consume val R F hR hF ds] at ho
  exact orig_clean G hG ds n g hn o ho

/-! ## Non-vacuity: a three-step chain (close, splice a tail block, reroute through control blocks) -/

def cxG : Hier := [
  { name := "p", jts := ["t1", "t2"] }, { name := "t1" }, { name := "t2" }]

def cxH1 : Hier := [
  { name := "p", jts := ["t1", "t2"] }, { name := "t1", jts := ["ret"] }, { name := "t2", jts := ["ret"] },
  { name := "ret", kind := .synthReturn }]

def cxH2 : Hier := [
  { name := "p", jts := ["t1", "t2"] }, { name := "t1", jts := ["tail"] }, { name := "t2", jts := ["ret"] },
  { name := "ret", kind := .synthReturn }, { name := "tail", kind := .synthTail, jts := ["ret"] }]

def cxH3 : Hier := [
  { name := "p", jts := ["a1", "a2"] }, { name := "t1", jts := ["tail"] }, { name := "t2", jts := ["ret"] },
  { name := "ret", kind := .synthReturn }, { name := "tail", kind := .synthTail, jts := ["ret"] },
  { name := "a1", kind := .synthAssign, asg := [("cv", 0)], jts := ["new"] },
  { name := "a2", kind := .synthAssign, asg := [("cv", 1)], jts := ["new"] },
  { name := "new", kind := .synthHead, var := "cv", tbl := [(0, "t1"), (1, "t2")], jts := ["t1", "t2"] }]

def cxSteps : List (StepTag × Hier) :=
  [(.closed "ret", cxH1), (.spliced "tail" "ret", cxH2), (.rerouted, cxH3)]

example : flatB cxG = true ∧ chainOKc cxG cxSteps = true := by decide

example : chainFuel cxSteps (1, 1) = (1, 40) := by decide

end Scfg.C01
