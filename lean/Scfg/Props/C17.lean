import Scfg.Spec.RenderSpec
/-!
# C17 — rendering draws exactly the graph

`drawingOK H top d` is evaluated on the drawing parsed from the real DOT source of every
rendered graph. `drawingOK_sound` says what `true` means: nodes, clusters (with nesting) and
edges (with dashed flag and header-resolved destinations) are, as multisets, exactly those
`specDrawing` prescribes; `spec_*` lemmas spell `specDrawing` out.
-/
namespace Scfg.C17
open Scfg Scfg.Spec

theorem sameMultiset_count {α : Type} [BEq α] [LawfulBEq α] (xs ys : List α)
    (h : sameMultiset xs ys = true) : xs.length = ys.length ∧ ∀ x ∈ xs, xs.count x = ys.count x := by
  simp only [sameMultiset, Bool.and_eq_true, beq_iff_eq, List.all_eq_true] at h
  exact h

/-- A drawing that passes has, element for element of what was drawn, the multiplicity the
    specification prescribes, and as many elements in total: nothing missing, nothing extra,
    nothing drawn twice. -/
theorem drawingOK_sound (H : Hier) (top : Name) (d : Drawing) (h : drawingOK H top d = true) :
    (d.nodes.length = (specDrawing H top).nodes.length ∧
      ∀ x ∈ d.nodes, d.nodes.count x = (specDrawing H top).nodes.count x) ∧
    (d.clusters.length = (specDrawing H top).clusters.length ∧
      ∀ x ∈ d.clusters, d.clusters.count x = (specDrawing H top).clusters.count x) ∧
    (d.edges.length = (specDrawing H top).edges.length ∧
      ∀ x ∈ d.edges, d.edges.count x = (specDrawing H top).edges.count x) := by
  simp only [drawingOK, Bool.and_eq_true] at h
  exact ⟨sameMultiset_count _ _ h.1.1, sameMultiset_count _ _ h.1.2, sameMultiset_count _ _ h.2⟩

/-- Exactly one node per non-region block, in the cluster of the region that contains it. -/
theorem spec_nodes (H : Hier) (top : Name) (n c : Name) :
    (n, c) ∈ (specDrawing H top).nodes ↔
      ∃ b ∈ H, b.isRegion = false ∧ b.name = n ∧ c = (if b.cont == top then "" else b.cont) := by
  simp only [specDrawing, List.mem_map, List.mem_filter, Bool.not_eq_true', Prod.mk.injEq]
  constructor
  · rintro ⟨b, ⟨hb, hr⟩, h1, h2⟩; exact ⟨b, hb, hr, h1, h2.symm⟩
  · rintro ⟨b, hb, hr, h1, h2⟩; exact ⟨b, ⟨hb, hr⟩, h1, h2.symm⟩

/-- Exactly one cluster per region, nested as the regions are. -/
theorem spec_clusters (H : Hier) (top : Name) (n c : Name) :
    (n, c) ∈ (specDrawing H top).clusters ↔
      ∃ b ∈ H, b.isRegion = true ∧ b.name = n ∧ c = (if b.cont == top then "" else b.cont) := by
  simp only [specDrawing, List.mem_map, List.mem_filter, Prod.mk.injEq]
  constructor
  · rintro ⟨b, ⟨hb, hr⟩, h1, h2⟩; exact ⟨b, hb, hr, h1, h2.symm⟩
  · rintro ⟨b, hb, hr, h1, h2⟩; exact ⟨b, ⟨hb, hr⟩, h1, h2.symm⟩

/-! Non-vacuity. -/
def okH : Hier := [
  { cont := "m", name := "0", jts := ["loop_region_0"] },
  { cont := "m", name := "2" },
  { cont := "m", name := "loop_region_0", kind := .region, jts := ["2"], rkind := "loop",
    header := "1", exiting := "1", parent := "m" },
  { cont := "loop_region_0", name := "1", jts := ["1", "2"], bes := ["1"] }]
example : drawingOK okH "m" (Drawing.mk [("0", ""), ("2", ""), ("1", "loop_region_0")]
    [("loop_region_0", "")] [("0", "1", false), ("1", "2", false), ("1", "1", true)]) = true := by decide
example : drawingOK okH "m" (Drawing.mk [("0", ""), ("2", ""), ("1", "loop_region_0")]
    [("loop_region_0", "")] [("0", "1", false), ("1", "2", false)]) = false := by decide

end Scfg.C17
