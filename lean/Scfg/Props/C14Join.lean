import Scfg.Props.C14
/-!
# C14 — closing the graph (`join_returns`) leaves exactly one exit

For the model `joinReturns` (compared with `SCFG.join_returns` on every run), on every hierarchy
whose returning blocks in container `c` are plain blocks: when more than one block of the level
has no (non-back-edge) successor, the result is described *pointwise* by

* the new block `synth_return_block_k` is added with no successor,
* every former exit gets the new block appended to its successor tuple (nothing else about it
  changes),
* every other entry of the hierarchy is unchanged;

hence exactly one block of the level is left without successor and it is reached from every former
exit; with at most one exit the call is the identity.
-/
namespace Scfg.C14
open Scfg Scfg.Model

/-- lookup after `putIn` -/
theorem getIn?_putIn (H : Hier) (b : Blk) (c n : Name) :
    (putIn H b).getIn? c n = if c = b.cont ∧ n = b.name then some b else H.getIn? c n := by
  unfold putIn
  split
  · next hhas =>
    unfold Hier.getIn?
    induction H with
    | nil => simp [hasIn] at hhas
    | cons x xs ih =>
      simp only [List.map_cons, List.find?_cons]
      by_cases hx : (x.cont == b.cont && x.name == b.name) = true
      · simp only [hx, if_true]
        have hx' : x.cont = b.cont ∧ x.name = b.name := by simpa using hx
        by_cases hk : c = b.cont ∧ n = b.name
        · simp [hk]
        · have h1 : (b.cont == c && b.name == n) = false := by
            simp only [Bool.and_eq_false_iff, beq_eq_false_iff_ne]
            by_cases h1 : c = b.cont
            · right; intro h2; exact hk ⟨h1, h2.symm⟩
            · left; intro h2; exact h1 h2.symm
          have h2 : (x.cont == c && x.name == n) = false := by rw [hx'.1, hx'.2]; exact h1
          simp only [h1, h2, hk, if_false, Bool.false_eq_true]
          by_cases hrest : hasIn xs b.cont b.name = true
          · have := ih hrest; simpa [hk] using this
          · -- no further entry with that key: the map is the identity on the tail
            have hid : xs.map (fun y => if (y.cont == b.cont && y.name == b.name) = true then b else y) = xs := by
              have hc : xs.map (fun y => if (y.cont == b.cont && y.name == b.name) = true then b else y)
                  = xs.map id := by
                apply List.map_congr_left
                intro y hy
                have : (y.cont == b.cont && y.name == b.name) = false := by
                  cases hyk : (y.cont == b.cont && y.name == b.name) with
                  | false => rfl
                  | true => exact absurd (List.any_eq_true.mpr ⟨y, hy, hyk⟩) hrest
                simp [this]
              rw [hc, List.map_id]
            rw [hid]
      · have hx0 : (x.cont == b.cont && x.name == b.name) = false := by simpa using hx
        simp only [hx0, Bool.false_eq_true, if_false]
        have hrest : hasIn xs b.cont b.name = true := by
          simpa [hasIn, hx0] using hhas
        by_cases hxk : (x.cont == c && x.name == n) = true
        · simp only [hxk, if_true]
          have : ¬ (c = b.cont ∧ n = b.name) := by
            rintro ⟨h1, h2⟩
            subst h1; subst h2
            rw [hxk] at hx0; cases hx0
          simp [this]
        · have hxk0 : (x.cont == c && x.name == n) = false := by simpa using hxk
          simp only [hxk0, Bool.false_eq_true, if_false]
          exact ih hrest
  · next hhas =>
    unfold Hier.getIn?
    rw [List.find?_append]
    have hnone : ∀ (hk : c = b.cont ∧ n = b.name),
        List.find? (fun x => x.cont == c && x.name == n) H = none := by
      rintro ⟨rfl, rfl⟩
      rw [List.find?_eq_none]
      intro x hx hxk
      exact hhas (List.any_eq_true.mpr ⟨x, hx, hxk⟩)
    by_cases hk : c = b.cont ∧ n = b.name
    · rw [hnone hk]; simp [hk]
    · simp only [hk, if_false]
      have h1 : (b.cont == c && b.name == n) = false := by
        simp only [Bool.and_eq_false_iff, beq_eq_false_iff_ne]
        by_cases h1 : c = b.cont
        · right; intro h2; exact hk ⟨h1, h2.symm⟩
        · left; intro h2; exact h1 h2.symm
      cases List.find? (fun x => x.cont == c && x.name == n) H <;> simp [h1]

/-- lookup after `pop` -/
theorem getIn?_filter (H : Hier) (c n c' n' : Name) :
    Hier.getIn? (H.filter fun x => !(x.cont == c && x.name == n)) c' n' =
      if c' = c ∧ n' = n then none else H.getIn? c' n' := by
  unfold Hier.getIn?
  by_cases hk : c' = c ∧ n' = n
  · obtain ⟨rfl, rfl⟩ := hk
    simp only [and_self, if_true]
    rw [List.find?_eq_none]
    intro x hx
    have := (List.mem_filter.mp hx).2
    simp only [Bool.not_eq_true', Bool.and_eq_false_iff, beq_eq_false_iff_ne] at this
    simp only [Bool.and_eq_true, beq_iff_eq, not_and]
    intro h1 h2
    rcases this with h | h
    · exact h h1
    · exact h h2
  · simp only [hk, if_false]
    induction H with
    | nil => rfl
    | cons x xs ih =>
      simp only [List.filter_cons]
      by_cases hx : (x.cont == c && x.name == n) = true
      · simp only [hx, Bool.not_true, Bool.false_eq_true, if_false, List.find?_cons]
        have : (x.cont == c' && x.name == n') = false := by
          have hx' : x.cont = c ∧ x.name = n := by simpa using hx
          simp only [Bool.and_eq_false_iff, beq_eq_false_iff_ne]
          by_cases h1 : c' = c
          · right; intro h2; exact hk ⟨h1, by rw [← h2, hx'.2]⟩
          · left; intro h2; exact h1 (by rw [← h2, hx'.1])
        simp only [this, Bool.false_eq_true, if_false]
        exact ih
      · have hx0 : (x.cont == c && x.name == n) = false := by simpa using hx
        simp only [hx0, Bool.not_false, if_true, List.find?_cons]
        split
        · rfl
        · exact ih

/-- The pointwise effect of appending `new` to the plain blocks named in `ps`. -/
def appendTo (new c : Name) (ps : List Name) (look : Name → Name → Option Blk) :
    Name → Name → Option Blk :=
  fun c' n' => match look c' n' with
    | some b => if c' = c ∧ n' ∈ ps then some { b with jts := b.jts ++ [new] } else some b
    | none => none

/-- The loop of `insert_block` with no successors, over plain predecessors: every predecessor gets
    `new` appended, nothing else is touched. -/
theorem exits_fold (c new : Name) :
    ∀ (ps : List Name) (H H' : Hier),
      ps.Nodup →
      (∀ p ∈ ps, ∃ b, H.getIn? c p = some b ∧ b.isRegion = false ∧ b.kind.isBranching = false) →
      ps.foldlM (fun H p => do
        let (blk, H1) ← popIn "insert_block" H c p
        let jt := blk.jts
        let succs' := ([] : List Name).filter fun s => !blk.bes.contains s
        let H2 ← if ([] : List Name).isEmpty then pure H1 else insertBlock.ren new blk H1 jt succs'
        let jt' := if ([] : List Name).isEmpty then jt ++ [new] else rewire new jt succs'
        let blk' ← replaceJts blk jt'
        pure (putIn H2 blk')) H = .ok H' →
      ∀ c' n', H'.getIn? c' n' = appendTo new c ps (fun a b => H.getIn? a b) c' n' := by
  intro ps
  induction ps with
  | nil =>
    intro H H' _ _ h c' n'
    simp only [List.foldlM_nil, pure, Except.pure, Except.ok.injEq] at h
    subst h
    simp only [appendTo, List.not_mem_nil, and_false, if_false]
    cases H.getIn? c' n' <;> rfl
  | cons p ps ih =>
    intro H H' hnd hall h c' n'
    rw [List.nodup_cons] at hnd
    obtain ⟨b, hb, hreg, hbr⟩ := hall p (by simp)
    simp only [List.foldlM_cons, bind, Except.bind] at h
    have hpop : popIn "insert_block" H c p = .ok (b, H.filter fun x => !(x.cont == c && x.name == p)) := by
      simp [popIn, hb]
    have hrep : replaceJts b (b.jts ++ [new]) = .ok { b with jts := b.jts ++ [new] } := by
      simp [replaceJts, hbr]
    simp only [hpop, List.isEmpty_nil, if_true, pure, Except.pure, hrep] at h
    -- the state after the first predecessor
    have hbc : b.cont = c ∧ b.name = p := by
      have := List.find?_some (show List.find? (fun x => x.cont == c && x.name == p) H = some b from hb)
      simpa using this
    have hlook1 : ∀ a m, Hier.getIn? (putIn (H.filter fun x => !(x.cont == c && x.name == p))
        { b with jts := b.jts ++ [new] }) a m =
        if a = c ∧ m = p then some { b with jts := b.jts ++ [new] } else H.getIn? a m := by
      intro a m
      rw [getIn?_putIn, getIn?_filter]
      simp only [hbc.1, hbc.2]
      split <;> rfl
    have hall' : ∀ q ∈ ps, ∃ b', Hier.getIn? (putIn (H.filter fun x => !(x.cont == c && x.name == p))
        { b with jts := b.jts ++ [new] }) c q = some b' ∧ b'.isRegion = false ∧
        b'.kind.isBranching = false := by
      intro q hq
      obtain ⟨b', hb', h1, h2⟩ := hall q (by simp [hq])
      refine ⟨b', ?_, h1, h2⟩
      rw [hlook1]
      have : q ≠ p := fun e => hnd.1 (e ▸ hq)
      simp [this, hb']
    rw [ih _ H' hnd.2 hall' h c' n']
    simp only [appendTo, hlook1]
    by_cases hk : c' = c ∧ n' = p
    · obtain ⟨rfl, rfl⟩ := hk
      have : n' ∉ ps := hnd.1
      simp [this, hb]
    · simp only [hk, if_false]
      cases hl : H.getIn? c' n' with
      | none => rfl
      | some x =>
        simp only [List.mem_cons]
        by_cases h1 : c' = c
        · have h2 : n' ≠ p := fun e => hk ⟨h1, e⟩
          simp [h1, h2]
        · simp [h1]

/-- the block `join_returns` adds -/
def retBlk (c n : Name) : Blk := { cont := c, name := n, kind := .synthReturn, jts := [] }

/-- names of the blocks without (non-back-edge) successor in container `c` -/
def exitsOf (H : Hier) (c : Name) : List Name := ((H.level c).filter fun b => b.jt.isEmpty).map (·.name)

/-- **`join_returns`, pointwise.** -/
theorem joinReturns_spec (st st' : St) (c : Name)
    (hnd : (exitsOf st.H c).Nodup)
    (hplain : ∀ p ∈ exitsOf st.H c, ∃ b, st.H.getIn? c p = some b ∧ b.isRegion = false ∧
      b.kind.isBranching = false)
    (hfresh : ∀ p ∈ exitsOf st.H c, p ≠ (st.ng.newBlockName "synth_return").1)
    (h : joinReturns st c = .ok st') :
    if (exitsOf st.H c).length > 1 then
      ∀ c' n', st'.H.getIn? c' n' =
        appendTo (st.ng.newBlockName "synth_return").1 c (exitsOf st.H c)
          (fun a b => (putIn st.H (retBlk c (st.ng.newBlockName "synth_return").1)).getIn? a b) c' n'
    else st' = st := by
  unfold joinReturns at h
  have hlen : ((st.H.level c).filter fun b => b.jt.isEmpty).length = (exitsOf st.H c).length := by
    simp [exitsOf]
  simp only [hlen] at h
  split
  · next hgt =>
    simp only [hgt, if_true, bind, Except.bind] at h
    split at h
    · cases h
    · next H' hH' =>
      simp only [pure, Except.pure, Except.ok.injEq] at h
      subst h
      simp only
      unfold insertBlock at hH'
      refine exits_fold c _ (exitsOf st.H c) _ H' hnd ?_ hH'
      intro p hp
      obtain ⟨b, hb, h1, h2⟩ := hplain p hp
      refine ⟨b, ?_, h1, h2⟩
      rw [getIn?_putIn]
      have : p ≠ (st.ng.newBlockName "synth_return").1 := hfresh p hp
      have hne : ¬ (c = (retBlk c (st.ng.newBlockName "synth_return").1).cont ∧
          p = (retBlk c (st.ng.newBlockName "synth_return").1).name) := fun hh => this hh.2
      rw [if_neg hne]; exact hb
  · next hle =>
    simp only [hle, if_false, pure, Except.pure, Except.ok.injEq] at h
    exact h.symm


theorem mem_exitsOf (H : Hier) (c m : Name) (b : Blk) (hb : H.getIn? c m = some b)
    (hj : b.jt.isEmpty = true) : m ∈ exitsOf H c := by
  have hmem : b ∈ H := List.mem_of_find?_eq_some hb
  have hk : b.cont = c ∧ b.name = m := by simpa using List.find?_some hb
  unfold exitsOf
  rw [List.mem_map]
  refine ⟨b, List.mem_filter.mpr ⟨?_, hj⟩, hk.2⟩
  unfold Hier.level
  exact List.mem_filter.mpr ⟨hmem, by simp [hk.1]⟩

/-- **Closing the graph leaves exactly one exit, reached from every former exit**; with at most one
    exit nothing changes. (`hbes`: the fresh name is not a declared back edge of a former exit.) -/
theorem joinReturns_one_exit (st st' : St) (c : Name)
    (hnd : (exitsOf st.H c).Nodup)
    (hplain : ∀ p ∈ exitsOf st.H c, ∃ b, st.H.getIn? c p = some b ∧ b.isRegion = false ∧
      b.kind.isBranching = false)
    (hfresh : st.H.getIn? c (st.ng.newBlockName "synth_return").1 = none)
    (hbes : ∀ p b, st.H.getIn? c p = some b → (st.ng.newBlockName "synth_return").1 ∉ b.bes)
    (h : joinReturns st c = .ok st') (hgt : (exitsOf st.H c).length > 1) :
    (∀ m b, st'.H.getIn? c m = some b →
      (b.jt.isEmpty = true ↔ m = (st.ng.newBlockName "synth_return").1)) ∧
    (∀ p ∈ exitsOf st.H c, ∃ b, st'.H.getIn? c p = some b ∧
      (st.ng.newBlockName "synth_return").1 ∈ b.jt) := by
  have hfresh' : ∀ p ∈ exitsOf st.H c, p ≠ (st.ng.newBlockName "synth_return").1 := by
    intro p hp e
    obtain ⟨b, hb, _⟩ := hplain p hp
    rw [e, hfresh] at hb; cases hb
  have hspec := joinReturns_spec st st' c hnd hplain hfresh' h
  rw [if_pos hgt] at hspec
  have hnew : (st.ng.newBlockName "synth_return").1 ∉ exitsOf st.H c :=
    fun hh => hfresh' _ hh rfl
  constructor
  · intro m b hb
    rw [hspec c m] at hb
    simp only [appendTo, getIn?_putIn, retBlk] at hb
    by_cases hm : m = (st.ng.newBlockName "synth_return").1
    · subst hm
      simp only [true_and, if_true, hnew, and_false, if_false, Option.some.injEq] at hb
      subst hb
      simp [Blk.jt]
    · simp only [hm, and_false, if_false] at hb
      cases hl : st.H.getIn? c m with
      | none => rw [hl] at hb; cases hb
      | some b0 =>
        rw [hl] at hb
        simp only [true_and] at hb
        constructor
        · intro hj
          exfalso
          by_cases hmem : m ∈ exitsOf st.H c
          · simp only [hmem, if_true, Option.some.injEq] at hb
            subst hb
            have hnb := hbes m b0 hl
            have : (st.ng.newBlockName "synth_return").1 ∈ Blk.jt { b0 with jts := b0.jts ++ [(st.ng.newBlockName "synth_return").1] } := by
              simp only [Blk.jt, List.mem_filter, List.mem_append, List.mem_singleton, or_true, true_and]
              simpa [List.contains_iff_mem] using hnb
            cases hx : Blk.jt { b0 with jts := b0.jts ++ [(st.ng.newBlockName "synth_return").1] } with
            | nil => rw [hx] at this; simp at this
            | cons y ys => rw [hx] at hj; simp at hj
          · simp only [hmem, if_false, Option.some.injEq] at hb
            subst hb
            exact hmem (mem_exitsOf st.H c m b0 hl hj)
        · intro e; exact absurd e hm
  · intro p hp
    obtain ⟨b0, hb0, _, _⟩ := hplain p hp
    refine ⟨{ b0 with jts := b0.jts ++ [(st.ng.newBlockName "synth_return").1] }, ?_, ?_⟩
    · rw [hspec c p]
      simp only [appendTo, getIn?_putIn, retBlk]
      have : p ≠ (st.ng.newBlockName "synth_return").1 := hfresh' p hp
      simp [this, hb0, hp]
    · have hnb := hbes p b0 hb0
      simp only [Blk.jt, List.mem_filter, List.mem_append, List.mem_singleton, or_true, true_and]
      simpa [List.contains_iff_mem] using hnb

/-! Non-vacuity: two returning blocks. -/
def jrDemo : St := { H := [{ cont := "m", name := "0", jts := ["1", "2"] }, { cont := "m", name := "1" },
                           { cont := "m", name := "2" }], ng := [] }

example : ((joinReturns jrDemo "m").toOption.map fun s => s.H.map fun b => (b.name, b.jts)) =
    some [("0", ["1", "2"]), ("synth_return_block_0", []), ("1", ["synth_return_block_0"]),
          ("2", ["synth_return_block_0"])] := by decide +kernel
example : (exitsOf jrDemo.H "m").length > 1 ∧ (exitsOf jrDemo.H "m").Nodup := by decide +kernel

end Scfg.C14

/-! ## `insert_block` with any number of plain predecessors, pointwise

Generalises `insertBlock_single`: for distinct predecessors that are plain blocks (no region, no
value table) the whole call is described entry by entry — the new block is added with successors
exactly `S`; every predecessor's successor tuple becomes `newTargets` (i.e. `rewire`, whose arcs
`rewire_frame / rewire_rerouted / rewire_new_once / rewire_mem` describe); every other entry of the
hierarchy, at any level, is unchanged. -/
namespace Scfg.C14
open Scfg Scfg.Model

def updTo (f : Blk → Blk) (c : Name) (ps : List Name) (look : Name → Name → Option Blk) :
    Name → Name → Option Blk :=
  fun c' n' => match look c' n' with
    | some b => if c' = c ∧ n' ∈ ps then some (f b) else some b
    | none => none

theorem insert_fold (c new : Name) (succs : List Name) :
    ∀ (ps : List Name) (H H' : Hier),
      ps.Nodup →
      (∀ p ∈ ps, ∃ b, H.getIn? c p = some b ∧ b.isRegion = false ∧ b.kind.isBranching = false) →
      ps.foldlM (fun H p => do
        let (blk, H1) ← popIn "insert_block" H c p
        let jt := blk.jts
        let succs' := succs.filter fun s => !blk.bes.contains s
        let H2 ← if succs.isEmpty then pure H1 else insertBlock.ren new blk H1 jt succs'
        let jt' := if succs.isEmpty then jt ++ [new] else rewire new jt succs'
        let blk' ← replaceJts blk jt'
        pure (putIn H2 blk')) H = .ok H' →
      ∀ c' n', H'.getIn? c' n' =
        updTo (fun b => { b with jts := newTargets new succs b }) c ps (fun a b => H.getIn? a b) c' n' := by
  intro ps
  induction ps with
  | nil =>
    intro H H' _ _ h c' n'
    simp only [List.foldlM_nil, pure, Except.pure, Except.ok.injEq] at h
    subst h
    simp only [updTo, List.not_mem_nil, and_false, if_false]
    cases H.getIn? c' n' <;> rfl
  | cons p ps ih =>
    intro H H' hnd hall h c' n'
    rw [List.nodup_cons] at hnd
    obtain ⟨b, hb, hreg, hbr⟩ := hall p (by simp)
    simp only [List.foldlM_cons, bind, Except.bind] at h
    have hpop : popIn "insert_block" H c p = .ok (b, H.filter fun x => !(x.cont == c && x.name == p)) := by
      simp [popIn, hb]
    have hrep : ∀ jt', replaceJts b jt' = .ok { b with jts := jt' } := by
      intro jt'; simp [replaceJts, hbr]
    have hstep : (do
        let (blk, H1) ← popIn "insert_block" H c p
        let jt := blk.jts
        let succs' := succs.filter fun s => !blk.bes.contains s
        let H2 ← if succs.isEmpty then pure H1 else insertBlock.ren new blk H1 jt succs'
        let jt' := if succs.isEmpty then jt ++ [new] else rewire new jt succs'
        let blk' ← replaceJts blk jt'
        pure (putIn H2 blk') : M Hier) =
        .ok (putIn (H.filter fun x => !(x.cont == c && x.name == p)) { b with jts := newTargets new succs b }) := by
      simp only [hpop, bind, Except.bind, pure, Except.pure]
      by_cases he : succs.isEmpty = true
      · simp [he, hrep, newTargets]
      · have he' : succs.isEmpty = false := by simpa using he
        simp only [he', Bool.false_eq_true, if_false, ren_plain new b hreg, hrep, newTargets]
    simp only [bind, Except.bind] at hstep
    rw [hstep] at h
    simp only at h
    have hbc : b.cont = c ∧ b.name = p := by
      have := List.find?_some (show List.find? (fun x => x.cont == c && x.name == p) H = some b from hb)
      simpa using this
    have hlook1 : ∀ a m, Hier.getIn? (putIn (H.filter fun x => !(x.cont == c && x.name == p))
        { b with jts := newTargets new succs b }) a m =
        if a = c ∧ m = p then some { b with jts := newTargets new succs b } else H.getIn? a m := by
      intro a m
      rw [getIn?_putIn, getIn?_filter]
      simp only [hbc.1, hbc.2]
      split <;> rfl
    have hall' : ∀ q ∈ ps, ∃ b', Hier.getIn? (putIn (H.filter fun x => !(x.cont == c && x.name == p))
        { b with jts := newTargets new succs b }) c q = some b' ∧ b'.isRegion = false ∧
        b'.kind.isBranching = false := by
      intro q hq
      obtain ⟨b', hb', h1, h2⟩ := hall q (by simp [hq])
      refine ⟨b', ?_, h1, h2⟩
      rw [hlook1]
      have : q ≠ p := fun e => hnd.1 (e ▸ hq)
      simp [this, hb']
    rw [ih _ H' hnd.2 hall' h c' n']
    simp only [updTo, hlook1]
    by_cases hk : c' = c ∧ n' = p
    · obtain ⟨rfl, rfl⟩ := hk
      have : n' ∉ ps := hnd.1
      simp [this, hb]
    · simp only [hk, if_false]
      cases hl : H.getIn? c' n' with
      | none => rfl
      | some x =>
        simp only [List.mem_cons]
        by_cases h1 : c' = c
        · have h2 : n' ≠ p := fun e => hk ⟨h1, e⟩
          simp [h1, h2]
        · simp [h1]

/-- **`insert_block`, whole call, plain predecessors, pointwise.** -/
theorem insertBlock_plain_spec (H H' : Hier) (c : Name) (kind : BKind) (new : Name)
    (preds succs : List Name) (hnd : preds.Nodup)
    (hplain : ∀ p ∈ preds, p ≠ new ∧ ∃ b, H.getIn? c p = some b ∧ b.isRegion = false ∧
      b.kind.isBranching = false)
    (h : insertBlock H c kind new preds succs = .ok H') :
    ∀ c' n', H'.getIn? c' n' =
      updTo (fun b => { b with jts := newTargets new succs b }) c preds
        (fun a b => (putIn H { cont := c, name := new, kind := kind, jts := succs }).getIn? a b) c' n' := by
  unfold insertBlock at h
  refine insert_fold c new succs preds _ H' hnd ?_ h
  intro p hp
  obtain ⟨hne, b, hb, h1, h2⟩ := hplain p hp
  refine ⟨b, ?_, h1, h2⟩
  rw [getIn?_putIn]
  rw [if_neg (fun hh => hne hh.2)]
  exact hb

end Scfg.C14

namespace Scfg.C14
open Scfg Scfg.Model
/-! Non-vacuity: two plain predecessors `a`, `b` with arcs into `S = [x, y]`. -/
def ibDemo : Hier := [{ cont := "m", name := "a", jts := ["x", "q"] }, { cont := "m", name := "b", jts := ["y", "x"] },
  { cont := "m", name := "x" }, { cont := "m", name := "y" }, { cont := "m", name := "q" }]
example : ((insertBlock ibDemo "m" .synthTail "n" ["a", "b"] ["x", "y"]).toOption.map fun H =>
    H.map fun e => (e.name, e.jts)) =
    some [("x", []), ("y", []), ("q", []), ("n", ["x", "y"]), ("a", ["n", "q"]), ("b", ["n"])] := by
  decide +kernel
end Scfg.C14
