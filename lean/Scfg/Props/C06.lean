import Scfg.WF
/-!
# C06 — control variables are assigned before use and in range

Dynamic part: in the semantics used here a latch *consumes* its variable when it runs
(`consume := true`), so arriving at the same latch again without a new assignment is an
`unset` error; reading an unset variable, a value that is not a key of the table, or a table
entry that is not a successor are errors as well. `no_ctl_error` shows that one successful
simulation check excludes all of them on **every** path (every decision sequence is a path,
because original blocks branch freely). Static part: `tablesOK`.
-/
namespace Scfg.C06
open Scfg

theorem get?_name (G : Hier) (n : Name) (b : Blk) (h : G.get? n = some b) : b.name = n := by
  have := List.find?_some h
  simpa using this

theorem findHeadOf_mem (lvl : List Blk) (h : Name) (hh : findHeadOf lvl = some h) :
    ∃ b ∈ lvl, b.name = h := by
  unfold findHeadOf at hh
  split at hh
  · next x hx =>
    have : x ∈ lvl.filter (fun b => !(lvl.any fun a => a.jt.contains b.name)) := by
      rw [hx]; simp
    simp only [Option.some.injEq] at hh
    exact ⟨x, (List.mem_filter.mp this).1, hh⟩
  · simp at hh

theorem get?_isSome_of_mem (G : Hier) (b : Blk) (hb : b ∈ G) : (G.get? b.name).isSome := by
  unfold Hier.get?
  rw [List.find?_isSome]
  exact ⟨b, hb, by simp⟩

/-- The original graph never shows an error state. -/
theorem orig_run_no_err (G : Hier) (hc : targetsClosed G = true) :
    ∀ (ds : List Nat) (n : Name), (G.get? n).isSome →
      ∀ o ∈ run (sysOrig G) (some n) ds, o.isErr = false := by
  intro ds
  induction ds with
  | nil =>
    intro n hn o ho
    obtain ⟨b, hb⟩ := Option.isSome_iff_exists.mp hn
    simp [run, sysOrig, hb] at ho
    simp [ho, Obs.isErr]
  | cons d ds ih =>
    intro n hn o ho
    obtain ⟨b, hb⟩ := Option.isSome_iff_exists.mp hn
    simp only [run, List.mem_cons] at ho
    rcases ho with ho | ho
    · simp [sysOrig, hb] at ho
      simp [ho, Obs.isErr]
    · split at ho
      · next hd =>
        have hobs : (sysOrig G).obs (some n) = .blk n b.jts.length := by simp [sysOrig, hb]
        have hstep : (sysOrig G).step (some n) d = b.jts[d]? := by simp [sysOrig, hb]
        rw [hobs] at hd
        simp only [Obs.arity] at hd
        rw [hstep, List.getElem?_eq_getElem hd] at ho
        have hbmem : b ∈ G := List.mem_of_find?_eq_some hb
        have hall := List.all_eq_true.mp hc b hbmem
        have ht := List.all_eq_true.mp hall (b.jts[d]) (List.getElem_mem hd)
        exact ih _ ht o ho
      · simp at ho

/-- **C06, dynamic part.** If the check passes then on every path through the hierarchy —
    walked by name — no branching block is ever reached with its variable unset (since the
    latch last ran), out of its table's range, or with a table entry that is not a successor. -/
theorem no_ctl_error (G H : Hier) (gtop htop : Name) (h : ctlOK G H gtop htop = true) :
    ∀ ds, ∀ o ∈ run (sysName H true) (initName H htop true) ds, o.isErr = false := by
  simp only [ctlOK, Bool.and_eq_true] at h
  obtain ⟨⟨⟨⟨hc, hi⟩, hs⟩, _⟩, _⟩ := h
  intro ds o ho
  have heq := simOK_sound _ _ _ _ _ hs ds
  rw [← heq] at ho
  obtain ⟨n, hn⟩ := Option.isSome_iff_exists.mp hi
  rw [hn] at ho
  obtain ⟨b, hb, hbn⟩ := findHeadOf_mem _ _ hn
  have hbG : b ∈ G := (List.mem_filter.mp hb).1
  have := get?_isSome_of_mem G b hbG
  rw [hbn] at this
  exact orig_run_no_err G hc ds n this o ho

/-- The same for the walk region by region. -/
theorem no_ctl_error_region (G H : Hier) (gtop htop : Name) (h : ctlOK G H gtop htop = true) :
    ∀ ds, ∀ o ∈ run (sysRegion H true) (initRegion H htop true) ds, o.isErr = false := by
  simp only [ctlOK, Bool.and_eq_true] at h
  obtain ⟨⟨⟨⟨hc, hi⟩, _⟩, hs⟩, _⟩ := h
  intro ds o ho
  have heq := simOK_sound _ _ _ _ _ hs ds
  rw [← heq] at ho
  obtain ⟨n, hn⟩ := Option.isSome_iff_exists.mp hi
  rw [hn] at ho
  obtain ⟨b, hb, hbn⟩ := findHeadOf_mem _ _ hn
  have hbG : b ∈ G := (List.mem_filter.mp hb).1
  have := get?_isSome_of_mem G b hbG
  rw [hbn] at this
  exact orig_run_no_err G hc ds n this o ho

/-- **C06, static part.** Every table entry names one of the block's own successors and every
    successor is named by at least one entry. -/
theorem tables_sound (H : Hier) (h : tablesOK H = true) :
    ∀ b ∈ H, b.kind.isBranching = true →
      (∀ p ∈ b.tbl, p.2 ∈ b.jts) ∧ (∀ t ∈ b.jts, ∃ p ∈ b.tbl, p.2 = t) := by
  intro b hb hk
  have := List.all_eq_true.mp h b hb
  simp only [hk, Bool.not_true, Bool.false_or, tableOK, Bool.and_eq_true, List.all_eq_true,
    List.any_eq_true, beq_iff_eq] at this
  refine ⟨fun p hp => ?_, fun t ht => this.2 t ht⟩
  have := this.1 p hp
  simpa [List.contains_iff_mem] using this

/-- An unset read really is an error of the semantics (the check is not vacuous). -/
def exLatch : Blk where
  name := "l"
  kind := .synthLatch
  jts := ["x", "h"]
  bes := ["h"]
  var := "v"
  tbl := [(0, "h"), (1, "x")]
def okPart : Except String (Val × Option Nat) → Option (Val × Option Nat)
  | .error _ => none
  | .ok r => some r
def errPart : Except String (Val × Option Nat) → Option String
  | .error e => some e
  | .ok _ => none
example : errPart (synthExec true exLatch []) = some "ctl:unset l v" := by decide
example : okPart (synthExec true exLatch [("v", 0)]) = some ([], some 1) := by decide
example : okPart (synthExec false exLatch [("v", 0)]) = some ([("v", 0)], some 1) := by decide
example : okPart (synthExec true exLatch [("v", 7)]) = none := by decide

end Scfg.C06
