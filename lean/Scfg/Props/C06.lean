import Scfg.WF
/-!
# C06 — control variables are assigned before use and in range

Dynamic part: in the semantics used here a latch *consumes* its variable when it runs
(`consume := true`), so arriving at the same latch again without a new assignment is an
`unset` error; reading an unset variable, a value that is not a key of the table, or a table
entry that is not a successor are errors as well. `no_ctl_error` shows that one successful
simulation check excludes all of them on **every** path (every decision sequence is a path,
because original blocks branch freely). Static part: `tablesOK`.
-/
namespace Scfg.C06
open Scfg

/-- **C06, dynamic part.** If the check passes then on every path through the hierarchy —
    walked by name, for every decision sequence of any length — no branching block is ever
    reached with its variable unset (since the latch last ran), out of its table's range, or
    with a table entry that is not a successor. -/
theorem no_ctl_error (H : Hier) (htop : Name) (h : ctlOK H htop = true) :
    ∀ ds, ∀ o ∈ run (sysName H true) (initName H htop true) ds, o.isCtlErr = false := by
  simp only [ctlOK, Bool.and_eq_true] at h
  exact reachOKc_sound _ _ _ _ h.1.1

/-- The same for the walk region by region. -/
theorem no_ctl_error_region (H : Hier) (htop : Name) (h : ctlOK H htop = true) :
    ∀ ds, ∀ o ∈ run (sysRegion H true) (initRegion H htop true) ds, o.isCtlErr = false := by
  simp only [ctlOK, Bool.and_eq_true] at h
  exact reachOKc_sound _ _ _ _ h.1.2

/-- Reading an unset variable is a control error of the semantics (so the check is not
    vacuous): `synthExec` reports it with the control flag `isCtlErr` recognises. -/
theorem unset_is_ctl_error (consume : Bool) (b : Blk) (val : Val) (hb : b.kind.isBranching = true)
    (hu : val.get? b.var = none) :
    ∃ m, synthExec consume b val = .error (true, m) ∧ (Obs.err true m).isCtlErr = true := by
  refine ⟨s!"ctl:unset {b.name} {b.var}", ?_, rfl⟩
  simp [synthExec, hb, hu]

/-- …and so is a value that is not a key of the block's table. -/
theorem out_of_range_is_ctl_error (consume : Bool) (b : Blk) (val : Val) (x : Int)
    (hb : b.kind.isBranching = true) (hv : val.get? b.var = some x)
    (hk : b.tbl.find? (fun p => p.1 == x) = none) :
    ∃ m, synthExec consume b val = .error (true, m) := by
  refine ⟨s!"ctl:not-a-key {b.name} {b.var}={x}", ?_⟩
  simp [synthExec, hb, hv, hk]

/-- **C06, static part.** Every table entry names one of the block's own successors and every
    successor (jump target or declared back edge) is named by at least one entry. -/
theorem tables_sound (H : Hier) (h : tablesOK H = true) :
    ∀ b ∈ H, b.kind.isBranching = true →
      (∀ p ∈ b.tbl, p.2 ∈ b.jts) ∧ (∀ t ∈ b.jts ++ b.bes, ∃ p ∈ b.tbl, p.2 = t) := by
  intro b hb hk
  have := List.all_eq_true.mp h b hb
  simp only [hk, Bool.not_true, Bool.false_or, tableOK, Bool.and_eq_true, List.all_eq_true,
    List.any_eq_true, beq_iff_eq] at this
  refine ⟨fun p hp => ?_, fun t ht => ?_⟩
  · have := this.1.1 p hp
    simpa [List.contains_iff_mem] using this
  · rcases List.mem_append.mp ht with h1 | h1
    · exact this.1.2 t h1
    · exact this.2 t h1

/-- **After every renaming.** If an edit passes `tablesPreserved`, every branching block that was
    present before with a good table still has a good table. -/
theorem tablesPreserved_sound (before after : Hier) (h : tablesPreserved before after = true) :
    ∀ a ∈ after, a.kind.isBranching = true →
      ∀ b, before.find? (fun b => b.cont == a.cont && b.name == a.name) = some b →
        tableOK b = true → tableOK a = true := by
  intro a ha hk b hb hgood
  have := List.all_eq_true.mp h a ha
  simp only [hk, Bool.not_true, Bool.false_or, hb, hgood] at this
  simpa using this

/-- An unset read really is an error of the semantics (the check is not vacuous). -/
def exLatch : Blk where
  name := "l"
  kind := .synthLatch
  jts := ["x", "h"]
  bes := ["h"]
  var := "v"
  tbl := [(0, "h"), (1, "x")]
def okPart : Except (Bool × String) (Val × Option Nat) → Option (Val × Option Nat)
  | .error _ => none
  | .ok r => some r
def errPart : Except (Bool × String) (Val × Option Nat) → Option String
  | .error e => some e.2
  | .ok _ => none
example : errPart (synthExec true exLatch []) = some "ctl:unset l v" := by decide
example : okPart (synthExec true exLatch [("v", 0)]) = some ([], some 1) := by decide
example : okPart (synthExec false exLatch [("v", 0)]) = some ([("v", 0)], some 1) := by decide
example : okPart (synthExec true exLatch [("v", 7)]) = none := by decide

end Scfg.C06
