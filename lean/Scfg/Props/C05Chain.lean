import Scfg.Props.C01Chain
/-!
# C05 — a certified run keeps every block of the input

Each step relation relates a block of the hierarchy before the step to a block with the same name, the
same kind and the same number of successors (closing may give a block without successors its single edge to
the new halting block). Along a certified chain: every block of the input graph is a block of the final
hierarchy, of the same kind, with as many successors as it had — or exactly one, if it had none.
(The payload and the positional renaming of the successors are decided on the final hierarchy by the
decider `conserved`, `Scfg.C05.conserved_sound`.)
-/
namespace Scfg.C05
open Scfg Scfg.Spec Scfg.C01 Scfg.C04

theorem step_keeps (H H' : Hier) (t : StepTag) (h : stepOK H H' t = true) (n : Name) (b : Blk)
    (hn : H.get? n = some b) :
    ∃ b', H'.get? n = some b' ∧ b'.name = b.name ∧ b'.kind = b.kind ∧
      (b'.jts.length = b.jts.length ∨ (b.jts = [] ∧ b'.jts = [match t with | .closed new => new | _ => ""])) := by
  cases t with
  | wrapped r hdr =>
    simp only [stepOK, Bool.and_eq_true] at h
    have hW := wrappedB_sound H H' r hdr h.2
    have hnr : n ≠ r := by
      intro e; subst e
      simp [hn] at h
    rcases hW.rel n hnr with ⟨h1, _⟩ | ⟨b0, b', h1, h2, hrel⟩
    · rw [hn] at h1; cases h1
    · rw [hn] at h1
      simp only [Option.some.injEq] at h1
      subst h1
      refine ⟨b', h2, hrel.name, hrel.kind, Or.inl ?_⟩
      have := congrArg List.length hrel.jts
      simpa using this
  | spliced new s =>
    simp only [stepOK, Bool.and_eq_true] at h
    have hS := Scfg.C14.splicedB_sound H H' new s h.2
    have hnr : n ≠ new := by
      intro e; subst e
      simp [hn] at h
    rcases hS.rel n hnr with ⟨h1, _⟩ | ⟨b0, b', h1, h2, hsame⟩
    · rw [hn] at h1; cases h1
    · rw [hn] at h1
      simp only [Option.some.injEq] at h1
      subst h1
      obtain ⟨hname, hkind, _, _, _, _, _, hlen⟩ := Scfg.C14.sameUpTo_basic hsame
      exact ⟨b', h2, hname, hkind, Or.inl hlen⟩
  | rerouted =>
    simp only [stepOK] at h
    have hS := Scfg.Reroute.reroutedB_sound H H' _ h
    have hold : (fun n => (H.get? n).isNone) n = false := by simp [hn]
    rcases hS.rel n hold with ⟨h1, _⟩ | ⟨b0, b', h1, h2, hp⟩
    · rw [hn] at h1; cases h1
    · rw [hn] at h1
      simp only [Option.some.injEq] at h1
      subst h1
      obtain ⟨hname, hkind, _, _, _, _, _, hlen⟩ := Scfg.Reroute.sameUpToU_basic hp.same
      exact ⟨b', h2, hname, hkind, Or.inl hlen⟩
  | closed new =>
    simp only [stepOK] at h
    have hS := closedB_sound H H' new h
    have hnr : n ≠ new := by
      intro e; subst e
      rw [hS.fresh] at hn; cases hn
    rcases hS.rel n hnr with ⟨h1, _⟩ | ⟨b0, b', h1, h2, hrel⟩
    · rw [hn] at h1; cases h1
    · rw [hn] at h1
      simp only [Option.some.injEq] at h1
      subst h1
      obtain ⟨hname, hkind, _⟩ := closedRel_basic hrel
      refine ⟨b', h2, hname, hkind, ?_⟩
      rcases hrel.targets with e | ⟨e1, e2, _⟩
      · exact Or.inl (by rw [e])
      · exact Or.inr ⟨e1, e2⟩

/-- **A certified run keeps every block.** -/
theorem chain_keeps_blocks : ∀ (steps : List (StepTag × Hier)) (H : Hier), chainOK H steps = true →
    ∀ (n : Name) (b : Blk), H.get? n = some b →
    ∃ b', (chainLast H steps).get? n = some b' ∧ b'.name = b.name ∧ b'.kind = b.kind ∧
      (b'.jts.length = b.jts.length ∨ (b.jts = [] ∧ b'.jts.length = 1)) := by
  intro steps
  induction steps with
  | nil => intro H _ n b hn; exact ⟨b, hn, rfl, rfl, Or.inl rfl⟩
  | cons p rest ih =>
    obtain ⟨t, H'⟩ := p
    intro H h n b hn
    simp only [chainOK, Bool.and_eq_true] at h
    obtain ⟨b1, h1, hn1, hk1, hl1⟩ := step_keeps H H' t h.1 n b hn
    obtain ⟨b2, h2, hn2, hk2, hl2⟩ := ih H' h.2 n b1 h1
    refine ⟨b2, h2, hn2.trans hn1, hk2.trans hk1, ?_⟩
    rcases hl1 with e | ⟨e1, e2⟩
    · rcases hl2 with f | ⟨f1, f2⟩
      · exact Or.inl (f.trans e)
      · right
        refine ⟨?_, f2⟩
        have : b1.jts.length = 0 := by rw [f1]; rfl
        rw [this] at e
        exact List.eq_nil_of_length_eq_zero e.symm
    · right
      refine ⟨e1, ?_⟩
      rcases hl2 with f | ⟨f1, _⟩
      · rw [f, e2]; rfl
      · rw [e2] at f1; cases f1

end Scfg.C05
