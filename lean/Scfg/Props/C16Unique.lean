import Scfg.Props.C16Nodup
import Scfg.Spec.IterSpec
/-!
# C16 — a decidable sufficient condition for `UniqueNames`

`uniqueB H f` (Scfg/Spec/IterSpec.lean, so that the driver can run it on every real hierarchy) runs the iterator model below every region of the hierarchy and checks that what it
yields there is not a member of the region's own level and shares nothing with what is yielded
below a different region of the same level. `uniqueB_sound`: if it answers `true`, the hierarchy
has `UniqueNames` — so `iterAll_nodup_of_uniqueB`: the iterator yields nothing twice, at every
depth, on every hierarchy that passes this (computable) test.
-/
namespace Scfg.C16
open Scfg Scfg.Model Scfg.Spec

theorem getIn_mem (H : Hier) (c r : Name) (b : Blk) (h : H.getIn? c r = some b) :
    b ∈ H ∧ b.cont = c ∧ b.name = r := by
  have hm := List.mem_of_find?_eq_some h
  have hp := List.find?_some h
  simp only [Bool.and_eq_true, beq_iff_eq] at hp
  exact ⟨hm, hp.1, hp.2⟩

theorem yieldBelow_covers (H : Hier) (f : Nat) (b : Blk) (out : List Name)
    (h : yieldBelow H f b = some out) (x : Name) (hc : Covered H b.name x) : x ∈ out := by
  unfold yieldBelow at h
  split at h
  · next o ho =>
    simp only [Option.some.injEq] at h
    subst h
    exact (iterAll_exact H f _ _ ho).1 x hc
  · simp at h

theorem uniqueB_sound (H : Hier) (f : Nat) (h : uniqueB H f = true) : UniqueNames H := by
  unfold uniqueB at h
  rw [List.all_eq_true] at h
  constructor
  · intro c r b x hb hreg hcov
    obtain ⟨hm, hc, _⟩ := getIn_mem H c r b hb
    have hb1 := h b hm
    simp only [hreg, Bool.not_true, Bool.false_or] at hb1
    split at hb1
    · simp at hb1
    · next out ho =>
      simp only [Bool.and_eq_true, List.all_eq_true] at hb1
      have := hb1.1 x (yieldBelow_covers H f b out ho x hcov)
      rw [hc] at this
      simpa using this
  · intro c r1 r2 b1 b2 x h1 h2 hr1 hr2 hc1 hc2
    obtain ⟨hm1, hcont1, hn1⟩ := getIn_mem H c r1 b1 h1
    obtain ⟨hm2, hcont2, hn2⟩ := getIn_mem H c r2 b2 h2
    by_cases hne : r1 = r2
    · exact hne
    · exfalso
      have hb1 := h b1 hm1
      simp only [hr1, Bool.not_true, Bool.false_or] at hb1
      split at hb1
      · simp at hb1
      · next out ho =>
        simp only [Bool.and_eq_true, List.all_eq_true] at hb1
        have hb2 := hb1.2 b2 hm2
        have hcond : (b2.isRegion && b2.cont == b1.cont && b2.name != b1.name) = true := by
          simp [hr2, hcont1, hcont2, hn1, hn2]
          exact fun e => hne e.symm
        simp only [hcond, Bool.not_true, Bool.false_or] at hb2
        split at hb2
        · simp at hb2
        · next out2 ho2 =>
          rw [List.all_eq_true] at hb2
          have := hb2 x (yieldBelow_covers H f b1 out ho x hc1)
          have hx2 := yieldBelow_covers H f b2 out2 ho2 x hc2
          simp [hx2] at this

/-- **duplicate-freedom of `SCFG.__iter__` from a computable test** -/
theorem iterAll_nodup_of_uniqueB (H : Hier) (f : Nat) (h : uniqueB H f = true) (g : Nat) (c : Name)
    (out : List Name) (ho : iterAll H g c = .ok out) :
    out.Nodup ∧ ∀ x, x ∈ out ↔ Covered H c x :=
  iterAll_enumerates H (uniqueB_sound H f h) g c out ho

end Scfg.C16

namespace Scfg.C16
open Scfg Scfg.Model Scfg.Spec
/-- non-vacuity: the two-level hierarchy of Props/C16Iter.lean passes the test -/
theorem okH2_uniqueB : uniqueB okH2 5 = true := by
  have y : yieldBelow okH2 5 okH2[2] = some ["1"] := by
    have n2 : (okH2[2]).name = "loop_region_0" := by decide
    simp [yieldBelow, n2, okH2_inner]
  have g : (okH2.getIn? "m" "1").isNone = true := by decide
  have e : okH2 = [okH2[0], okH2[1], okH2[2], okH2[3]] := by decide
  have r0 : (okH2[0]).isRegion = false := by decide
  have r1 : (okH2[1]).isRegion = false := by decide
  have r2 : (okH2[2]).isRegion = true := by decide
  have r3 : (okH2[3]).isRegion = false := by decide
  have c2 : (okH2[2]).cont = "m" := by decide
  unfold uniqueB
  rw [e]
  simp only [List.all_cons, List.all_nil, r0, r1, r2, r3, c2]
  rw [← e]
  simp [y, g]
end Scfg.C16
