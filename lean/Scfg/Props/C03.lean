import Scfg.WF
/-!
# C03 — the restructured graph is structured

`structured H top = s1 ∧ s2 ∧ s3`. The theorems unfold what a `true` answer means:
acyclicity of every level once back edges are ignored (`s1_acyclic`, via verified ranks — the
ranks themselves come from an untrusted peeling), the shape of every branching point
(`s3_sound`) and of every declared back edge (`s2_sound`).
-/
namespace Scfg.C03
open Scfg

/-- A non-empty path along in-level, non-back-edge arcs of one level. -/
inductive Path (lvl : List Blk) : Name → Name → Prop
  | single {a : Blk} {t : Name} : a ∈ lvl → t ∈ arcsIn lvl a → Path lvl a.name t
  | cons {a : Blk} {t c : Name} : a ∈ lvl → t ∈ arcsIn lvl a → Path lvl t c → Path lvl a.name c

theorem path_rank_lt (lvl : List Blk) (rk : Ranks) (h : ranksOK lvl rk = true)
    {a c : Name} (p : Path lvl a c) :
    ∃ ra rc, rk.get a = some ra ∧ rk.get c = some rc ∧ ra < rc := by
  induction p with
  | @single a t ha ht =>
    have := List.all_eq_true.mp h a ha
    split at this
    · simp at this
    · next ra hra =>
      have := List.all_eq_true.mp this t ht
      split at this
      · simp at this
      · next rt hrt => exact ⟨ra, rt, hra, hrt, by simpa using this⟩
  | @cons a t c ha ht _ ih =>
    obtain ⟨rt, rc, hrt, hrc, hlt⟩ := ih
    have := List.all_eq_true.mp h a ha
    split at this
    · simp at this
    · next ra hra =>
      have := List.all_eq_true.mp this t ht
      split at this
      · simp at this
      · next rt' hrt' =>
        have heq : rt' = rt := by rw [hrt] at hrt'; exact (Option.some.inj hrt').symm
        have hlt' : ra < rt' := by simpa using this
        exact ⟨ra, rc, hra, hrc, by omega⟩

/-- Verified ranks exclude every cycle, of any length. -/
theorem ranks_acyclic (lvl : List Blk) (rk : Ranks) (h : ranksOK lvl rk = true) (n : Name) :
    ¬ Path lvl n n := by
  intro p
  obtain ⟨ra, rc, h1, h2, hlt⟩ := path_rank_lt lvl rk h p
  rw [h1] at h2
  have : ra = rc := Option.some.inj h2
  omega

/-- **S1.** At every nesting level the blocks and regions form an acyclic graph once declared
    back edges are ignored. -/
theorem s1_acyclic (H : Hier) (top : Name) (h : s1 H top = true) :
    ∀ c ∈ containers H top, ∀ n, ¬ Path (H.level c) n n := by
  intro c hc n
  exact ranks_acyclic _ _ (List.all_eq_true.mp h c hc) n

/-- **S3.** Ignoring back edges, any block with more than one successor is the exiting block of
    a `head` region; that region's successors are pairwise distinct, and each of them is a
    `branch` region of the same level with exactly one continuation — the same for all of
    them — which is a `tail` region of that level. -/
theorem s3_sound (H : Hier) (h : s3 H = true) :
    ∀ b ∈ H, b.isRegion = false → 1 < b.jt.length →
      ∃ hd, H.get? b.cont = some hd ∧ hd.isRegion = true ∧ hd.rkind = "head" ∧
        hd.exiting = b.name ∧ hd.jts.Nodup ∧
        ∃ tl, ∃ tlb, H.getIn? hd.cont tl = some tlb ∧ tlb.isRegion = true ∧ tlb.rkind = "tail" ∧
          ∀ t ∈ hd.jts, ∃ r, H.getIn? hd.cont t = some r ∧ r.isRegion = true ∧
            r.rkind = "branch" ∧ r.jts = [tl] := by
  intro b hb hleaf hlen
  have hmem : b ∈ leaves H := List.mem_filter.mpr ⟨hb, by simp [hleaf]⟩
  have := List.all_eq_true.mp h b hmem
  simp only [Bool.or_eq_true, decide_eq_true_eq] at this
  rcases this with hle | hrest
  · omega
  · split at hrest
    · simp at hrest
    · next hd hhd =>
      simp only [Bool.and_eq_true, beq_iff_eq] at hrest
      obtain ⟨⟨⟨⟨hreg, hkind⟩, hex⟩, hnd⟩, hm⟩ := hrest
      refine ⟨hd, hhd, hreg, hkind, hex, (C04aux hd.jts).mp hnd, ?_⟩
      split at hm
      · simp at hm
      · next r0 rest hmap =>
        simp only [Bool.and_eq_true] at hm
        obtain ⟨hall, htail⟩ := hm
        split at htail
        · next tl htl =>
          split at htail
          · next tlb htlb =>
            simp only [Bool.and_eq_true, beq_iff_eq] at htail
            refine ⟨tl, tlb, htlb, htail.1, htail.2, ?_⟩
            intro t ht
            have hin : H.getIn? hd.cont t ∈ hd.jts.map (fun t => H.getIn? hd.cont t) :=
              List.mem_map.mpr ⟨t, ht, rfl⟩
            rw [hmap] at hin
            have := List.all_eq_true.mp hall _ hin
            split at this
            · next r hr =>
              simp only [Bool.and_eq_true, beq_iff_eq] at this
              obtain ⟨⟨⟨h1, h2⟩, _⟩, h4⟩ := this
              exact ⟨r, hr, h1, h2, by rw [h4, htl]⟩
            · simp at this
          · simp at htail
        · simp at htail
      · simp at hm
where
  C04aux (xs : List Name) : nodupB xs = true ↔ xs.Nodup := by
    induction xs with
    | nil => simp [nodupB]
    | cons x xs ih => simp [nodupB, ih]

/-- **S2.** A block that declares a back edge is a leaf, declares exactly one, which is one of
    its own targets; it is the innermost exiting block of its nearest enclosing loop region,
    and the back edge leads to the very block the loop's declared header leads to. -/
theorem s2_sound (H : Hier) (h : s2 H = true) :
    ∀ b ∈ H, b.bes ≠ [] →
      b.isRegion = false ∧
      ∃ t L, b.bes = [t] ∧ t ∈ b.jts ∧ enclosingLoop H H.length b.cont = some L ∧
        (∃ e, innermostExiting H (H.length + 1) L = some e ∧ e.name = b.name) ∧
        (∃ x y, resolve H (H.length + 1) t = some x ∧
          resolve H (H.length + 1) L.header = some y ∧ x.name = y.name) := by
  intro b hb hne
  simp only [s2, Bool.and_eq_true] at h
  have := List.all_eq_true.mp h.1 b hb
  simp only [Bool.or_eq_true, List.isEmpty_iff, Bool.and_eq_true, Bool.not_eq_true'] at this
  rcases this with h0 | ⟨hleaf, hrest⟩
  · exact absurd h0 hne
  · refine ⟨hleaf, ?_⟩
    split at hrest
    · next t L hbes hL =>
      simp only [Bool.and_eq_true] at hrest
      obtain ⟨⟨hc, hie⟩, hres⟩ := hrest
      refine ⟨t, L, hbes, by simpa [List.contains_iff_mem] using hc, hL, ?_, ?_⟩
      · split at hie
        · next e he => exact ⟨e, he, by simpa using hie⟩
        · simp at hie
      · split at hres
        · next x y hx hy => exact ⟨x, y, hx, hy, by simpa using hres⟩
        · simp at hres
    · simp at hrest

/-- **S2, second half.** Every loop region has an innermost exiting block and it declares
    exactly one back edge (the region's single latch). -/
theorem s2_loop_has_latch (H : Hier) (h : s2 H = true) :
    ∀ L ∈ H, L.isRegion = true → L.rkind = "loop" →
      ∃ e, innermostExiting H (H.length + 1) L = some e ∧ e.bes.length = 1 := by
  intro L hL hreg hk
  simp only [s2, Bool.and_eq_true] at h
  have := List.all_eq_true.mp h.2 L (List.mem_filter.mpr ⟨hL, hreg⟩)
  simp only [hk, bne_self_eq_false, Bool.false_or] at this
  split at this
  · next e he => exact ⟨e, he, by simpa using this⟩
  · simp at this

/-- A non-empty walk by name between leaf blocks that never takes a declared back edge: each step
    goes from a leaf to the leaf one of its non-back-edge targets leads to (through region headers). -/
inductive LeafWalk (H : Hier) : Name → Name → Prop
  | single {a : Blk} {t : Name} : a ∈ leaves H → t ∈ leafArcs H a → LeafWalk H a.name t
  | cons {a : Blk} {t c : Name} : a ∈ leaves H → t ∈ leafArcs H a → LeafWalk H t c → LeafWalk H a.name c

theorem leafWalk_rank_lt (H : Hier) (rk : Ranks) (h : leafRanksOK H rk = true)
    {a c : Name} (p : LeafWalk H a c) :
    ∃ ra rc, rk.get a = some ra ∧ rk.get c = some rc ∧ ra < rc := by
  induction p with
  | @single a t ha ht =>
    have := List.all_eq_true.mp h a ha
    split at this
    · simp at this
    · next ra hra =>
      have := List.all_eq_true.mp this t ht
      split at this
      · simp at this
      · next rt hrt => exact ⟨ra, rt, hra, hrt, by simpa using this⟩
  | @cons a t c ha ht _ ih =>
    obtain ⟨rt, rc, hrt, hrc, hlt⟩ := ih
    have := List.all_eq_true.mp h a ha
    split at this
    · simp at this
    · next ra hra =>
      have := List.all_eq_true.mp this t ht
      split at this
      · simp at this
      · next rt' hrt' =>
        have heq : rt' = rt := by rw [hrt] at hrt'; exact (Option.some.inj hrt').symm
        have hlt' : ra < rt' := by simpa using this
        exact ⟨ra, rc, hra, hrc, by omega⟩

/-- **S4.** Across the whole hierarchy no walk by name between leaf blocks returns to where it
    started without taking a declared back edge: every cycle of the restructured graph — and with
    C01 every cycle of the input — passes a declared back edge, which by `s2_sound` runs from the
    single latch of a loop region to that region's header. -/
theorem s4_every_cycle_takes_a_backedge (H : Hier) (h : s4 H = true) (n : Name) : ¬ LeafWalk H n n := by
  intro p
  obtain ⟨ra, rc, h1, h2, hlt⟩ := leafWalk_rank_lt H _ h p
  rw [h1] at h2
  have : ra = rc := Option.some.inj h2
  omega

/-! Non-vacuity: the real output for `0→1, 1→(1,2)` is structured; the un-restructured loop is not
(`s1` fails: the level has a cycle). -/
def okH : Hier := [
  { cont := "m", name := "0", jts := ["loop_region_0"] },
  { cont := "m", name := "2" },
  { cont := "m", name := "loop_region_0", kind := .region, jts := ["2"], rkind := "loop",
    header := "1", exiting := "1", parent := "m" },
  { cont := "loop_region_0", name := "1", jts := ["1", "2"], bes := ["1"] }]
example : structured okH "m" = true := by decide

def rawG : Hier := [
  { cont := "m", name := "0", jts := ["1"] },
  { cont := "m", name := "1", jts := ["1", "2"] },
  { cont := "m", name := "2" }]
example : s1 rawG "m" = false := by decide
example : s3 rawG = false := by decide

end Scfg.C03
