import Scfg.Props.C14Join
import Scfg.Props.C01
/-!
# C01, first stage — closing the graph preserves every execution path (a priori)

`joinReturns_preserves_paths`: for **every** flat graph of original blocks with unique names and no
dangling target, the hierarchy the model of `join_returns` produces, walked by name, shows from
every block exactly the trace the input graph shows from that block — the same blocks in the same
order, the same number of decisions offered, stopping at the same place — under every decision
sequence of any length. (The former exits gain one edge to the common synthetic return; the
semantics counts a block whose only continuation halts without meeting an original block as
offering no decision, which is exactly the clause "execution stops exactly where the original
stops".) No enumeration: the relation "same block, empty valuation" is a simulation.
-/
namespace Scfg.C01
open Scfg Scfg.Model Scfg.C14

/-- what the theorem needs of the input graph -/
structure FlatInput (G : Hier) (c : Name) : Prop where
  flat : ∀ b ∈ G, b.cont = c
  orig : ∀ b ∈ G, b.isOrig = true
  nobes : ∀ b ∈ G, b.bes = []
  unique : G.names.Nodup
  closed : ∀ b ∈ G, ∀ t ∈ b.jts, ∃ x, G.get? t = some x

theorem get?_flat (H : Hier) (c n : Name) (hf : ∀ b ∈ H, b.cont = c) : H.get? n = H.getIn? c n := by
  unfold Hier.get? Hier.getIn?
  induction H with
  | nil => rfl
  | cons x xs ih =>
    simp only [List.find?_cons]
    have hx : x.cont = c := hf x (by simp)
    have : (x.cont == c && x.name == n) = (x.name == n) := by simp [hx]
    rw [this]
    split
    · rfl
    · exact ih fun b hb => hf b (List.mem_cons_of_mem _ hb)

theorem get?_mem' (H : Hier) (n : Name) (b : Blk) (h : H.get? n = some b) : b ∈ H ∧ b.name = n := by
  unfold Hier.get? at h
  exact ⟨List.mem_of_find?_eq_some h, by simpa using List.find?_some h⟩

theorem getIn?_mem' (H : Hier) (c n : Name) (b : Blk) (h : H.getIn? c n = some b) :
    b ∈ H ∧ b.cont = c ∧ b.name = n := by
  unfold Hier.getIn? at h
  have := List.find?_some h
  simp only [Bool.and_eq_true, beq_iff_eq] at this
  exact ⟨List.mem_of_find?_eq_some h, this.1, this.2⟩

theorem getIn?_of_mem (H : Hier) (b : Blk) (hb : b ∈ H) : (H.getIn? b.cont b.name).isSome := by
  cases h : H.getIn? b.cont b.name with
  | some x => rfl
  | none =>
    unfold Hier.getIn? at h
    have := List.find?_eq_none.mp h b hb
    simp at this

theorem isOrig_not (b : Blk) (h : b.isOrig = true) :
    b.isRegion = false ∧ b.kind.isBranching = false := by
  unfold Blk.isOrig at h
  unfold Blk.isRegion
  cases hk : b.kind <;> simp_all [BKind.isOrig, BKind.isRegion, BKind.isBranching]

/-- the result of closing the graph, pointwise, for a flat input of original blocks -/
structure Closed (G H : Hier) (c ret : Name) : Prop where
  /-- the result is flat as well -/
  flat : ∀ b ∈ H, b.cont = c
  /-- a block of the input with successors is unchanged -/
  keep : ∀ n g, G.get? n = some g → g.jts ≠ [] → H.get? n = some g
  /-- a former exit is unchanged or got exactly the edge to the common return -/
  exit : ∀ n g, G.get? n = some g → g.jts = [] →
    H.get? n = some g ∨ (H.get? n = some { g with jts := [ret] } ∧ H.get? ret = some (retBlk c ret))

theorem resolve_leaf (H : Hier) (t : Name) (b : Blk) (h : H.get? t = some b) (hr : b.isRegion = false) :
    resolve H (H.length + 1) t = some b := by
  simp [resolve, h, hr]

/-- from a target that is an original block, the walk by name arrives there at once -/
theorem advance_orig (H : Hier) (t : Name) (b : Blk) (val : Val) (h : H.get? t = some b)
    (ho : b.isOrig = true) : advanceName H false (walkFuel H) t val = .at b.name val := by
  have hr := (isOrig_not b ho).1
  unfold walkFuel
  rw [show 4 * H.length + 16 = (4 * H.length + 15) + 1 by omega, advanceName, resolve_leaf H t b h hr]
  simp [ho]

/-- from the common return the walk halts -/
theorem advance_ret (H : Hier) (c ret : Name) (val : Val) (h : H.get? ret = some (retBlk c ret)) :
    advanceName H false (walkFuel H) ret val = .halt := by
  unfold walkFuel
  rw [show 4 * H.length + 16 = (4 * H.length + 15) + 1 by omega, advanceName,
    resolve_leaf H ret _ h (by simp [retBlk, Blk.isRegion, BKind.isRegion])]
  simp [retBlk, Blk.isOrig, BKind.isOrig, synthExec, BKind.isBranching]

/-- **The simulation.** Any hierarchy that relates to the flat input graph as `Closed` describes
    shows, from every block, the input graph's traces. -/
theorem closed_paths (G H : Hier) (c ret : Name) (hG : FlatInput G c) (hC : Closed G H c ret) :
    ∀ n g, G.get? n = some g → ∀ ds,
      run (sysOrig G) (some n) ds = run (sysName H false) (.at n []) ds := by
  intro n g hg ds
  refine run_eq_of_closed (sysOrig G) (sysName H false)
    (fun p => ∃ m x, G.get? m = some x ∧ p = (some m, WState.at m [])) ?_ ?_ ds (some n) (.at n [])
    ⟨n, g, hg, rfl⟩
  · -- equal observations
    rintro p ⟨m, x, hx, rfl⟩
    obtain ⟨hxm, hxn⟩ := get?_mem' G m x hx
    cases hj : x.jts with
    | nil =>
      -- an exit of the input offers no decision in either system
      have h0 : (sysOrig G).obs (some m) = .blk m 0 := by simp [sysOrig, hx, hj]
      rw [h0]
      rcases hC.exit m x hx hj with h1 | ⟨h1, h2⟩
      · simp [sysName, obsOf, h1, arityIn, hj]
      · simp only [sysName, obsOf, h1, arityIn]
        have : stepName H false { x with jts := [ret] } [] 0 = .halt := by
          simp [stepName, advance_ret H c ret [] h2]
        simp [this]
    | cons t ts =>
      have hne : x.jts ≠ [] := by rw [hj]; simp
      have hk := hC.keep m x hx hne
      have h0 : (sysOrig G).obs (some m) = .blk m x.jts.length := by simp [sysOrig, hx]
      rw [h0]
      simp only [sysName, obsOf, hk, arityIn]
      cases ts with
      | nil =>
        -- one successor: the continuation is an original block, not a halt
        obtain ⟨y, hy⟩ := hG.closed x hxm t (by rw [hj]; simp)
        obtain ⟨hym, _⟩ := get?_mem' G t y hy
        have hyj : H.get? t = some y ∨ H.get? t = some { y with jts := [ret] } := by
          by_cases hyj : y.jts = []
          · rcases hC.exit t y hy hyj with e | e
            · exact Or.inl e
            · exact Or.inr e.1
          · exact Or.inl (hC.keep t y hy hyj)
        have hstep : ∃ z, stepName H false x [] 0 = .at z [] := by
          rcases hyj with e | e
          · exact ⟨y.name, by simp [stepName, hj, advance_orig H t y [] e (hG.orig y hym)]⟩
          · exact ⟨y.name, by
              have ho : ({ y with jts := [ret] } : Blk).isOrig = true := hG.orig y hym
              simp [stepName, hj, advance_orig H t _ [] e ho]⟩
        obtain ⟨z, hz⟩ := hstep
        simp [hj, hz]
      | cons t2 ts2 => simp [hj]
  · -- steps stay in the relation
    rintro p ⟨m, x, hx, rfl⟩ i hi
    obtain ⟨hxm, hxn⟩ := get?_mem' G m x hx
    have h0 : (sysOrig G).obs (some m) = .blk m x.jts.length := by simp [sysOrig, hx]
    rw [h0] at hi
    simp only [Obs.arity] at hi
    have hne : x.jts ≠ [] := by intro e; rw [e] at hi; simp at hi
    have hk := hC.keep m x hx hne
    have hti : x.jts[i]? = some x.jts[i] := List.getElem?_eq_getElem hi
    obtain ⟨y, hy⟩ := hG.closed x hxm x.jts[i] (List.getElem_mem hi)
    obtain ⟨hym, hyn⟩ := get?_mem' G _ y hy
    refine ⟨x.jts[i], y, hy, ?_⟩
    have hyj : H.get? x.jts[i] = some y ∨ H.get? x.jts[i] = some { y with jts := [ret] } := by
      by_cases hyj : y.jts = []
      · rcases hC.exit _ y hy hyj with e | e
        · exact Or.inl e
        · exact Or.inr e.1
      · exact Or.inl (hC.keep _ y hy hyj)
    have hs1 : (sysOrig G).step (some m) i = some x.jts[i] := by simp [sysOrig, hx, hti]
    have hs2 : (sysName H false).step (.at m []) i = .at x.jts[i] [] := by
      simp only [sysName, hk, stepName, hti]
      rcases hyj with e | e
      · rw [advance_orig H _ y [] e (hG.orig y hym), hyn]
      · have ho : ({ y with jts := [ret] } : Blk).isOrig = true := hG.orig y hym
        rw [advance_orig H _ _ [] e ho]
        simp [hyn]
    rw [hs1, hs2]

theorem get?_of_mem_u (H : Hier) (hu : H.names.Nodup) (b : Blk) (hb : b ∈ H) : H.get? b.name = some b := by
  induction H with
  | nil => simp at hb
  | cons y ys ih =>
    simp only [Hier.names, List.map_cons, List.nodup_cons, List.mem_map, not_exists, not_and] at hu
    unfold Hier.get?
    rw [List.find?_cons]
    rcases List.mem_cons.mp hb with e | e
    · simp [e]
    · have hne : (y.name == b.name) = false := by
        simpa using fun h => hu.1 b e h.symm
      simp only [hne]
      exact ih hu.2 e

/-- exits of a flat graph without declared back edges: the blocks without successor -/
theorem exitsOf_flat (G : Hier) (c : Name) (hG : FlatInput G c) (n : Name) :
    n ∈ exitsOf G c ↔ ∃ g, G.get? n = some g ∧ g.jts = [] := by
  simp only [exitsOf, List.mem_map, List.mem_filter, Hier.level, List.isEmpty_iff]
  constructor
  · rintro ⟨b, ⟨⟨hb, _⟩, hjt⟩, hbn⟩
    have hbes := hG.nobes b hb
    have : b.jts = [] := by
      have h2 : ∀ a, a ∉ b.jts := by simpa [Blk.jt, hbes] using hjt
      exact List.eq_nil_iff_forall_not_mem.mpr h2
    refine ⟨b, ?_, this⟩
    rw [← hbn]
    exact get?_of_mem_u G hG.unique b hb
  · rintro ⟨g, hg, hj⟩
    obtain ⟨hgm, hgn⟩ := get?_mem' G n g hg
    exact ⟨g, ⟨⟨hgm, by simp [hG.flat g hgm]⟩, by simp [Blk.jt, hj]⟩, hgn⟩

/-- the model of `join_returns` on a flat input relates to it as `Closed` describes -/
theorem joinReturns_closed (G : Hier) (c : Name) (ng : NameGen) (st' : St) (hG : FlatInput G c)
    (hfresh : (ng.newBlockName "synth_return").1 ∉ G.names)
    (h : joinReturns { H := G, ng := ng } c = .ok st') :
    Closed G st'.H c (ng.newBlockName "synth_return").1 := by
  -- hypotheses of the pointwise specification
  have hnd : (exitsOf G c).Nodup := by
    unfold exitsOf
    have : ((G.level c).filter fun b => b.jt.isEmpty).Sublist G :=
      (List.filter_sublist).trans (List.filter_sublist)
    exact (this.map _).nodup hG.unique
  have hplain : ∀ p ∈ exitsOf G c, ∃ b, G.getIn? c p = some b ∧ b.isRegion = false ∧
      b.kind.isBranching = false := by
    intro p hp
    obtain ⟨g, hg, _⟩ := (exitsOf_flat G c hG p).mp hp
    obtain ⟨hgm, _⟩ := get?_mem' G p g hg
    have := isOrig_not g (hG.orig g hgm)
    exact ⟨g, by rw [← get?_flat G c p hG.flat]; exact hg, this.1, this.2⟩
  have hfr : ∀ p ∈ exitsOf G c, p ≠ (ng.newBlockName "synth_return").1 := by
    intro p hp e
    obtain ⟨g, hg, _⟩ := (exitsOf_flat G c hG p).mp hp
    obtain ⟨hgm, hgn⟩ := get?_mem' G p g hg
    exact hfresh (List.mem_map.mpr ⟨g, hgm, by rw [hgn, e]⟩)
  have hspec := joinReturns_spec { H := G, ng := ng } st' c hnd hplain hfr h
  have hfreshIn : ∀ c', G.getIn? c' (ng.newBlockName "synth_return").1 = none := by
    intro c'
    cases hh : G.getIn? c' (ng.newBlockName "synth_return").1 with
    | none => rfl
    | some x =>
      obtain ⟨hxm, _, hxn⟩ := getIn?_mem' G _ _ x hh
      exact absurd (List.mem_map.mpr ⟨x, hxm, hxn⟩) hfresh
  by_cases hlen : (exitsOf G c).length > 1
  · simp only [hlen, if_true] at hspec
    -- lookups in the result
    have look : ∀ c' n', st'.H.getIn? c' n' =
        appendTo (ng.newBlockName "synth_return").1 c (exitsOf G c)
          (fun a b => (putIn G (retBlk c (ng.newBlockName "synth_return").1)).getIn? a b) c' n' := hspec
    have hflat : ∀ b ∈ st'.H, b.cont = c := by
      intro b hb
      have hs := getIn?_of_mem st'.H b hb
      rw [look] at hs
      simp only [appendTo, getIn?_putIn] at hs
      by_cases hk : b.cont = (retBlk c (ng.newBlockName "synth_return").1).cont ∧
          b.name = (retBlk c (ng.newBlockName "synth_return").1).name
      · exact hk.1
      · simp only [hk, if_false] at hs
        cases hg : G.getIn? b.cont b.name with
        | none => simp [hg] at hs
        | some x =>
          obtain ⟨hxm, hxc, _⟩ := getIn?_mem' G _ _ x hg
          rw [← hxc]; exact hG.flat x hxm
    refine ⟨hflat, ?_, ?_⟩
    · intro n g hg hne
      rw [get?_flat st'.H c n hflat, look]
      have hgIn : G.getIn? c n = some g := by rw [← get?_flat G c n hG.flat]; exact hg
      obtain ⟨hgm, hgn⟩ := get?_mem' G n g hg
      have hnr : n ≠ (ng.newBlockName "synth_return").1 := by
        intro e; exact hfresh (List.mem_map.mpr ⟨g, hgm, by rw [hgn, e]⟩)
      have hnot : n ∉ exitsOf G c := by
        intro hp
        obtain ⟨g', hg', hj⟩ := (exitsOf_flat G c hG n).mp hp
        rw [hg] at hg'
        simp only [Option.some.injEq] at hg'
        exact hne (hg' ▸ hj)
      simp [appendTo, getIn?_putIn, retBlk, hnr, hgIn, hnot]
    · intro n g hg hj
      right
      obtain ⟨hgm, hgn⟩ := get?_mem' G n g hg
      have hgIn : G.getIn? c n = some g := by rw [← get?_flat G c n hG.flat]; exact hg
      have hnr : n ≠ (ng.newBlockName "synth_return").1 := by
        intro e; exact hfresh (List.mem_map.mpr ⟨g, hgm, by rw [hgn, e]⟩)
      have hin : n ∈ exitsOf G c := (exitsOf_flat G c hG n).mpr ⟨g, hg, hj⟩
      constructor
      · rw [get?_flat st'.H c n hflat, look]
        simp [appendTo, getIn?_putIn, retBlk, hnr, hgIn, hin, hj]
      · rw [get?_flat st'.H c _ hflat, look]
        have hnot : (ng.newBlockName "synth_return").1 ∉ exitsOf G c := fun hp => hfr _ hp rfl
        simp [appendTo, getIn?_putIn, retBlk, hnot]
  · simp only [hlen, if_false] at hspec
    subst hspec
    exact ⟨hG.flat, fun n g hg _ => hg, fun n g hg _ => Or.inl hg⟩

/-- **Closing the graph preserves every execution path** (model of `join_returns`, every flat
    closed input, every decision sequence of any length, from every block). -/
theorem joinReturns_preserves_paths (G : Hier) (c : Name) (ng : NameGen) (st' : St)
    (hG : FlatInput G c) (hfresh : (ng.newBlockName "synth_return").1 ∉ G.names)
    (h : joinReturns { H := G, ng := ng } c = .ok st') :
    ∀ n g, G.get? n = some g → ∀ ds,
      run (sysOrig G) (some n) ds = run (sysName st'.H false) (.at n []) ds :=
  closed_paths G st'.H c _ hG (joinReturns_closed G c ng st' hG hfresh h)

/-! Non-vacuity: a diamond with two exits is a `FlatInput`. -/
def exTwoExits : Hier := [
  { cont := "m", name := "0", jts := ["1", "2"] },
  { cont := "m", name := "1" },
  { cont := "m", name := "2" }]
example : FlatInput exTwoExits "m" := by
  refine ⟨by decide, by decide, by decide, by decide, ?_⟩
  intro b hb t ht
  simp [exTwoExits] at hb
  rcases hb with rfl | rfl | rfl <;> simp at ht
  rcases ht with rfl | rfl
  · exact ⟨exTwoExits[1], by decide⟩
  · exact ⟨exTwoExits[2], by decide⟩

end Scfg.C01
