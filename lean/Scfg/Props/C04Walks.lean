import Scfg.Props.C04
import Scfg.Props.C03
/-!
# C04, last sentence — "walking by block-level targets and walking region by region visit the
same things"

`walks_coincide`: for **every** hierarchy that is self-consistent (`WF`, the six clauses of C04)
and whose back edges belong to loop latches (`s2`, C03), whenever the walk region by region
(declared header / exiting block / region targets, `sysRegion`) runs without a lookup error, the
walk by name (`sysName`) shows exactly the same trace under every decision sequence of any length.
The proof is a-priori (no enumeration): a region-level continuation, going up through exiting
blocks and down through headers, ends at the very block the name resolves to.
-/
namespace Scfg.C04
open Scfg

/-- names are unique ⇒ an entry is determined by its name -/
theorem eq_of_name (H : Hier) (hu : H.names.Nodup) (a b : Blk) (ha : a ∈ H) (hb : b ∈ H)
    (h : a.name = b.name) : a = b := by
  induction H with
  | nil => simp at ha
  | cons y ys ih =>
    simp only [Hier.names, List.map_cons, List.nodup_cons, List.mem_map, not_exists, not_and] at hu
    rcases List.mem_cons.mp ha with e1 | e1 <;> rcases List.mem_cons.mp hb with e2 | e2
    · rw [e1, e2]
    · subst e1; exact absurd h.symm (hu.1 b e2)
    · subst e2; exact absurd h (hu.1 a e1)
    · exact ih hu.2 e1 e2

theorem get?_mem (H : Hier) (n : Name) (b : Blk) (h : H.get? n = some b) : b ∈ H ∧ b.name = n := by
  unfold Hier.get? at h
  exact ⟨List.mem_of_find?_eq_some h, by simpa using List.find?_some h⟩

theorem getIn?_mem (H : Hier) (c n : Name) (b : Blk) (h : H.getIn? c n = some b) :
    b ∈ H ∧ b.cont = c ∧ b.name = n := by
  unfold Hier.getIn? at h
  have := List.find?_some h
  simp only [Bool.and_eq_true, beq_iff_eq] at this
  exact ⟨List.mem_of_find?_eq_some h, this.1, this.2⟩

/-- the in-level lookup of a member by its own container and name finds that member -/
theorem getIn?_self (H : Hier) (hu : H.names.Nodup) (b : Blk) (hb : b ∈ H) :
    H.getIn? b.cont b.name = some b := by
  cases h : H.getIn? b.cont b.name with
  | none =>
    unfold Hier.getIn? at h
    have := List.find?_eq_none.mp h b hb
    simp at this
  | some e =>
    obtain ⟨he, _, hn⟩ := getIn?_mem H _ _ e h
    rw [eq_of_name H hu e b he hb hn]

theorem resolve_mem (H : Hier) : ∀ f n b, resolve H f n = some b → b ∈ H := by
  intro f
  induction f with
  | zero => intro n b h; simp [resolve] at h
  | succ f ih =>
    intro n b h
    simp only [resolve] at h
    split at h
    · simp at h
    · next x hx =>
      split at h
      · exact ih _ _ h
      · simp only [Option.some.injEq] at h
        subst h
        exact (get?_mem H n x hx).1

/-- **Entering by declared headers = resolving the name.** Descending the header chain with
    in-level lookups ends at the block the hierarchy-wide name resolution ends at. -/
theorem enter_resolve (H : Hier) (hu : H.names.Nodup) : ∀ f c n b,
    enter H f c n = .ok b → resolve H f n = some b := by
  intro f
  induction f with
  | zero => intro c n b h; simp [enter] at h
  | succ f ih =>
    intro c n b h
    simp only [enter] at h
    split at h
    · simp at h
    · next x hx =>
      have hg := getIn?_eq_get? H c n x hu hx
      simp only [resolve, hg]
      split at h
      · next hr => simp only [hr, if_true]; exact ih _ _ _ h
      · next hr =>
        simp only [Except.ok.injEq] at h
        subst h
        simp [hr]

/-- `idxOf` finds a position that holds the element -/
theorem idxOf_get (xs : List Name) (x : Name) (i : Nat) (h : idxOf xs x = some i) : xs[i]? = some x := by
  unfold idxOf at h
  simp only at h
  split at h
  · next hlt =>
    simp only [Option.some.injEq] at h
    subst h
    have := List.findIdx_getElem (w := hlt)
    simp only [beq_iff_eq] at this
    rw [List.getElem?_eq_getElem hlt, this]
  · simp at h

/-- **Leaving along a forward target.** Going up through the exiting blocks (each region's own
    target in the same position) and then down the headers ends where the name resolves to. -/
theorem leave_fwd (H : Hier) (hwf : WF H) : ∀ f cur t b', cur ∈ H →
    leave H f cur t false = .ok b' → resolve H (H.length + 1) t = some b' := by
  intro f
  induction f with
  | zero => intro cur t b' _ h; simp [leave] at h
  | succ f ih =>
    intro cur t b' hcur h
    simp only [leave, Bool.not_false, Bool.true_and] at h
    split at h
    · exact enter_resolve H hwf.unique _ _ _ _ h
    · split at h
      · simp at h
      · next R hR =>
        obtain ⟨hRm, hRn⟩ := get?_mem H _ _ hR
        split at h
        · simp at h
        · next hreg =>
          have hreg' : R.isRegion = true := by simpa using hreg
          split at h
          · simp at h
          · next hex =>
            have hex' : R.exiting = cur.name := by simpa using hex
            simp only [Bool.false_eq_true, if_false] at h
            split at h
            · simp at h
            · next pos hpos =>
              split at h
              · simp at h
              · split at h
                · simp at h
                · next t' ht' =>
                  obtain ⟨e, he, hj, hb⟩ := hwf.targets R hRm hreg'
                  rw [hRn, hex', getIn?_self H hwf.unique cur hcur] at he
                  simp only [Option.some.injEq] at he
                  subst he
                  have hRjt : R.jt = cur.jt := by
                    simp [Blk.jt, hb, hj]
                  rw [hRjt, idxOf_get _ _ _ hpos] at ht'
                  simp only [Option.some.injEq] at ht'
                  subst ht'
                  exact ih R t b' hRm h

/-- **Leaving along a back edge.** Going up through the exiting blocks to the nearest enclosing
    loop region and re-entering it at its declared header. -/
theorem leave_back (H : Hier) (L : Blk) : ∀ f g cur t b',
    enclosingLoop H f cur.cont = some L → leave H g cur t true = .ok b' →
    enter H (H.length + 1) L.name L.header = .ok b' := by
  intro f
  induction f with
  | zero => intro g cur t b' h; simp [enclosingLoop] at h
  | succ f ih =>
    intro g cur t b' hL h
    cases g with
    | zero => simp [leave] at h
    | succ g =>
      simp only [leave, Bool.not_true, Bool.false_and, Bool.false_eq_true, if_false] at h
      simp only [enclosingLoop] at hL
      split at h
      · simp at h
      · next R hR =>
        rw [hR] at hL
        simp only at hL
        split at h
        · simp at h
        · split at h
          · simp at h
          · simp only [if_true] at h
            split at h
            · next hk =>
              simp only [hk, if_true, Option.some.injEq] at hL
              subst hL
              exact h
            · next hk =>
              simp only [hk, Bool.false_eq_true, if_false] at hL
              exact ih g R t b' hL h

/-- One region-level continuation of a leaf = one resolution by name. -/
theorem regionStep_resolve (H : Hier) (hwf : WF H) (hs2 : s2 H = true) (b : Blk) (hb : b ∈ H)
    (i : Nat) (t : Name) (b' : Blk) (ht : b.jts[i]? = some t) (h : regionStep H b i = .ok b') :
    resolve H (H.length + 1) t = some b' := by
  simp only [regionStep, ht] at h
  cases hbe : b.bes.contains t with
  | false =>
    rw [hbe] at h
    exact leave_fwd H hwf _ b t b' hb h
  | true =>
    rw [hbe] at h
    have hne : b.bes ≠ [] := by
      intro e; rw [e] at hbe; simp at hbe
    obtain ⟨_, t0, L, hbes, _, hL, _, x, y, hx, hy, hxy⟩ := Scfg.C03.s2_sound H hs2 b hb hne
    have htt : t = t0 := by
      rw [hbes] at hbe
      simpa using hbe
    subst htt
    have hent := leave_back H L _ _ b t b' hL h
    have hres := enter_resolve H hwf.unique _ _ _ _ hent
    rw [hy] at hres
    simp only [Option.some.injEq] at hres
    subst hres
    rw [hx, eq_of_name H hwf.unique x y (resolve_mem H _ _ _ hx) (resolve_mem H _ _ _ hy) hxy]

def _root_.Scfg.WState.isErr : WState → Bool
  | .err _ _ => true
  | _ => false

/-- Running through synthetic blocks: if the region-level run does not end in an error, the run
    by name from any name that resolves to the same block ends in the same state. -/
theorem advance_eq (H : Hier) (hwf : WF H) (hs2 : s2 H = true) (consume : Bool) :
    ∀ f n b val, resolve H (H.length + 1) n = some b →
      (advanceRegion H consume f b val).isErr = false →
      advanceName H consume f n val = advanceRegion H consume f b val := by
  intro f
  induction f with
  | zero => intro n b val _ h; simp [advanceRegion, WState.isErr] at h
  | succ f ih =>
    intro n b val hres h
    have hb : b ∈ H := resolve_mem H _ _ _ hres
    simp only [advanceName, hres]
    simp only [advanceRegion] at h ⊢
    by_cases ho : b.isOrig = true
    · simp [ho]
    · simp only [ho] at h ⊢
      cases hsx : synthExec consume b val with
      | error e => rfl
      | ok r =>
        obtain ⟨val', oi⟩ := r
        cases oi with
        | none => rfl
        | some i =>
          simp only [hsx] at h ⊢
          cases hr : regionStep H b i with
          | error e => simp [hr, WState.isErr] at h
          | ok b' =>
            simp only [hr] at h ⊢
            cases ht : b.jts[i]? with
            | none => simp [regionStep, ht] at hr
            | some t =>
              simp only
              exact ih t b' val' (regionStep_resolve H hwf hs2 b hb i t b' ht hr) h

theorem step_eq (H : Hier) (hwf : WF H) (hs2 : s2 H = true) (consume : Bool) (b : Blk) (hb : b ∈ H)
    (val : Val) (i : Nat) (h : (stepRegion H consume b val i).isErr = false) :
    stepName H consume b val i = stepRegion H consume b val i := by
  simp only [stepRegion] at h ⊢
  cases hr : regionStep H b i with
  | error e => simp [hr, WState.isErr] at h
  | ok b' =>
    simp only [hr] at h ⊢
    cases ht : b.jts[i]? with
    | none => simp [regionStep, ht] at hr
    | some t =>
      simp only [stepName, ht]
      exact advance_eq H hwf hs2 consume _ t b' val (regionStep_resolve H hwf hs2 b hb i t b' ht hr) h

/-- no observation of the trace is an error -/
def CleanRun {σ : Type} (S : Sys σ) (s : σ) : Prop := ∀ ds, ∀ o ∈ run S s ds, o.isErr = false

theorem clean_obs {σ : Type} (S : Sys σ) (s : σ) (h : CleanRun S s) : (S.obs s).isErr = false :=
  h [] _ (by simp [run])

theorem clean_step {σ : Type} (S : Sys σ) (s : σ) (h : CleanRun S s) (d : Nat)
    (hd : d < (S.obs s).arity) : CleanRun S (S.step s d) := by
  intro ds o ho
  exact h (d :: ds) o (by simp [run, hd, ho])

theorem obs_err_state (H : Hier) (next : Blk → Val → Nat → WState) (s : WState)
    (h : (obsOf H next s).isErr = false) : s.isErr = false := by
  cases s <;> simp_all [obsOf, WState.isErr, Obs.isErr]

/-- From any state: an error-free region-by-region walk and the walk by name show the same
    trace under every decision sequence. -/
theorem runs_coincide (H : Hier) (hwf : WF H) (hs2 : s2 H = true) (consume : Bool) :
    ∀ (ds : List Nat) (s : WState), CleanRun (sysRegion H consume) s →
      run (sysName H consume) s ds = run (sysRegion H consume) s ds := by
  -- observations and steps agree in every clean state
  have key : ∀ s, CleanRun (sysRegion H consume) s →
      (sysName H consume).obs s = (sysRegion H consume).obs s ∧
      ∀ d, d < ((sysRegion H consume).obs s).arity →
        (sysName H consume).step s d = (sysRegion H consume).step s d := by
    intro s hc
    cases s with
    | halt => exact ⟨rfl, fun _ _ => rfl⟩
    | err c m => exact ⟨rfl, fun _ _ => rfl⟩
    | «at» n val =>
      cases hg : H.get? n with
      | none => exact ⟨by simp [sysName, sysRegion, obsOf, hg], fun _ _ => by simp [sysName, sysRegion, hg]⟩
      | some b =>
        have hb : b ∈ H := (get?_mem H n b hg).1
        have hstep : ∀ d, d < ((sysRegion H consume).obs (.at n val)).arity →
            stepName H consume b val d = stepRegion H consume b val d := by
          intro d hd
          apply step_eq H hwf hs2 consume b hb val d
          have := clean_obs _ _ (clean_step _ _ hc d hd)
          have h2 := obs_err_state H _ _ this
          simpa [sysRegion, hg] using h2
        refine ⟨?_, fun d hd => by simpa [sysName, sysRegion, hg] using hstep d hd⟩
        simp only [sysName, sysRegion, obsOf, hg]
        congr 1
        -- the number of offered decisions
        simp only [arityIn]
        split
        · next t hjts =>
          have har : ((sysRegion H consume).obs (.at n val)).arity =
              if stepRegion H consume b val 0 == .halt then 0 else 1 := by
            simp [sysRegion, obsOf, hg, arityIn, hjts, Obs.arity]
          by_cases hh : stepRegion H consume b val 0 = .halt
          · -- region walk halts: not an error, so the name walk is the same state
            have : stepName H consume b val 0 = stepRegion H consume b val 0 :=
              step_eq H hwf hs2 consume b hb val 0 (by rw [hh]; rfl)
            rw [this]
          · have h1 : 0 < ((sysRegion H consume).obs (.at n val)).arity := by
              rw [har]; simp [hh]
            rw [hstep 0 h1]
        · rfl
  intro ds
  induction ds with
  | nil => intro s hc; simp [run, (key s hc).1]
  | cons d ds ih =>
    intro s hc
    obtain ⟨ho, hs⟩ := key s hc
    simp only [run, ho]
    by_cases hd : d < ((sysRegion H consume).obs s).arity
    · simp only [hd, if_true]
      rw [hs d hd]
      rw [ih _ (clean_step _ _ hc d hd)]
    · simp [hd]

/-- **The two walks coincide (C04's conclusion, for every self-consistent hierarchy).** If the
    hierarchy satisfies the six clauses of `WF` and back edges belong to loop latches (`s2`), and
    the walk region by region — declared headers, exiting blocks and region targets only — meets no
    lookup error, then the walk by block-level targets shows exactly the same blocks, in the same
    order, with the same decisions offered, under every decision sequence of any length. -/
theorem walks_coincide (H : Hier) (top : Name) (consume : Bool) (hwf : WF H) (hs2 : s2 H = true)
    (hclean : CleanRun (sysRegion H consume) (initRegion H top consume)) :
    ∀ ds, run (sysName H consume) (initName H top consume) ds
        = run (sysRegion H consume) (initRegion H top consume) ds := by
  intro ds
  have hinit : initName H top consume = initRegion H top consume := by
    have hne := obs_err_state H _ _ (clean_obs _ _ hclean)
    simp only [initRegion] at hne ⊢
    simp only [initName]
    cases hh : findHeadOf (H.level top) with
    | none => rfl
    | some h =>
      simp only [hh] at hne ⊢
      cases he : enter H (H.length + 1) top h with
      | error e => simp [he, WState.isErr] at hne
      | ok b =>
        simp only [he] at hne ⊢
        exact advance_eq H hwf hs2 consume _ h b [] (enter_resolve H hwf.unique _ _ _ _ he) hne
  rw [hinit]
  exact runs_coincide H hwf hs2 consume ds _ hclean

/-! Non-vacuity: the real output for `0→1, 1→(1,2)` meets `WF` and `s2`. -/
example : wf okH = true ∧ s2 okH = true := by decide

end Scfg.C04
