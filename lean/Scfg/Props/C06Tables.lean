import Scfg.Model.Edit
import Scfg.WF
/-!
# C06, "after every renaming" — the model of `SyntheticBranch.replace_jump_targets`, a priori

When a branching synthetic block is re-targeted with a tuple of the same length (the positional
rewrite of the value table), then for **every** block, table and new tuple:

* `replaceJts_pos_values`  — every entry of the new table names one of the new successors,
* `replaceJts_pos_covers`  — every new successor is named by at least one entry,
* `replaceJts_pos_keys`    — every value of the control variable that was a key of the table is
                             still a key (so a variable that was in range stays in range),
* `replaceJts_pos_lookup`  — and each key's entry is exactly the positional renaming of its old
                             entry,

provided the old table was good (`tableOK`: entries name successors, successors are named), its
keys are distinct (it is a Python `dict`) and the old successors are distinct (closed CFGs, §9).
-/
namespace Scfg.C06
open Scfg Scfg.Model

/-- `dict.get` on an insertion-ordered table -/
def tget (t : List (Int × Name)) (k : Int) : Option Name := (t.find? (·.1 == k)).map (·.2)

theorem tget_set_same (t : List (Int × Name)) (k : Int) (v : Name) : tget (tblSet t k v) k = some v := by
  unfold tget tblSet
  split
  · next h =>
    induction t with
    | nil => simp at h
    | cons p ps ih =>
      simp only [List.map_cons, List.find?_cons]
      by_cases hp : p.1 = k
      · simp [hp]
      · have : (p.1 == k) = false := by simpa using hp
        simp only [this, Bool.false_eq_true, if_false]
        simp only [List.any_cons, this, Bool.false_or] at h
        simpa [this] using ih h
  · next h =>
    simp only [Bool.not_eq_true, List.any_eq_false, beq_iff_eq] at h
    rw [List.find?_append]
    have : List.find? (fun x => x.1 == k) t = none := by
      rw [List.find?_eq_none]
      intro x hx
      simpa using h x hx
    simp [this]

theorem tget_set_other (t : List (Int × Name)) (k k' : Int) (v : Name) (hne : k' ≠ k) :
    tget (tblSet t k v) k' = tget t k' := by
  have hkk : (k == k') = false := by simpa using fun e => hne e.symm
  have gen : ∀ ps : List (Int × Name),
      ((ps.map fun p => if p.1 == k then (k, v) else p).find? (·.1 == k')).map (·.2) =
      (ps.find? (·.1 == k')).map (·.2) := by
    intro ps
    induction ps with
    | nil => simp
    | cons p ps ih =>
      simp only [List.map_cons, List.find?_cons]
      by_cases hp : p.1 = k
      · have h1 : (p.1 == k) = true := by simpa using hp
        have h3 : (p.1 == k') = false := by rw [hp]; exact hkk
        simp only [h1, if_true, hkk, h3]
        exact ih
      · have h1 : (p.1 == k) = false := by simpa using hp
        simp only [h1, Bool.false_eq_true, if_false]
        by_cases hq : p.1 = k'
        · simp [hq]
        · have h3 : (p.1 == k') = false := by simpa using hq
          simp only [h3]
          exact ih
  unfold tget tblSet
  split
  · exact gen t
  · rw [List.find?_append]
    cases List.find? (fun x => x.1 == k') t with
    | some x => simp
    | none => simp [hkk]

/-- entries of `tblSet t k v` come from `t` or carry the value `v` -/
theorem mem_tblSet (t : List (Int × Name)) (k : Int) (v : Name) (q : Int × Name)
    (h : q ∈ tblSet t k v) : q ∈ t ∨ q.2 = v := by
  unfold tblSet at h
  split at h
  · obtain ⟨p, hp, hq⟩ := List.mem_map.mp h
    split at hq
    · exact Or.inr (by rw [← hq])
    · exact Or.inl (hq ▸ hp)
  · rcases List.mem_append.mp h with e | e
    · exact Or.inl e
    · simp only [List.mem_singleton] at e
      exact Or.inr (by rw [e])

/-- does the old table map key `k` to target `o`? -/
def maps (old : List (Int × Name)) (k : Int) (o : Name) : Bool := old.any fun p => p.1 == k && p.2 == o

theorem tget_tblCopy (old : List (Int × Name)) (target v : Name) (k : Int) :
    ∀ acc, tget (tblCopy old target v acc) k = if maps old k target then some v else tget acc k := by
  unfold tblCopy
  induction old with
  | nil => intro acc; simp [maps]
  | cons p ps ih =>
    intro acc
    simp only [List.foldl_cons]
    rw [ih]
    simp only [maps, List.any_cons]
    by_cases hrest : (ps.any fun p => p.1 == k && p.2 == target) = true
    · simp only [hrest, Bool.or_true, if_true]
    · have hrest' := (Bool.not_eq_true _).mp hrest
      simp only [hrest', Bool.or_false, Bool.false_eq_true, if_false]
      by_cases ht : p.2 = target
      · have h2 : (p.2 == target) = true := by simpa using ht
        simp only [h2, if_true, Bool.and_true]
        by_cases hk : p.1 = k
        · simp [hk, tget_set_same]
        · have h1 : (p.1 == k) = false := by simpa using hk
          simp only [h1, Bool.false_eq_true, if_false]
          exact tget_set_other _ _ _ _ (fun e => hk e.symm)
      · have h2 : (p.2 == target) = false := by simpa using ht
        simp [h2]

theorem mem_tblCopy (old : List (Int × Name)) (target v : Name) (q : Int × Name) :
    ∀ acc, q ∈ tblCopy old target v acc → q ∈ acc ∨ q.2 = v := by
  unfold tblCopy
  induction old with
  | nil => intro acc h; exact Or.inl h
  | cons p ps ih =>
    intro acc h
    simp only [List.foldl_cons] at h
    rcases ih _ h with e | e
    · split at e
      · exact mem_tblSet _ _ _ _ e
      · exact Or.inl e
    · exact Or.inr e

/-- the positional rewrite of the table -/
def posTbl (old : List (Int × Name)) (pairs : List (Name × Name)) (acc : List (Int × Name)) :
    List (Int × Name) :=
  pairs.foldl (fun acc p => tblCopy old p.1 p.2 acc) acc

theorem mem_posTbl (old : List (Int × Name)) (q : Int × Name) :
    ∀ pairs acc, q ∈ posTbl old pairs acc → q ∈ acc ∨ ∃ pr ∈ pairs, q.2 = pr.2 := by
  intro pairs
  induction pairs with
  | nil => intro acc h; exact Or.inl h
  | cons pr rest ih =>
    intro acc h
    simp only [posTbl, List.foldl_cons] at h
    rcases ih _ h with e | ⟨pr', hpr', e⟩
    · rcases mem_tblCopy _ _ _ _ _ e with e1 | e1
      · exact Or.inl e1
      · exact Or.inr ⟨pr, by simp, e1⟩
    · exact Or.inr ⟨pr', by simp [hpr'], e⟩

/-- distinct keys: an old key has one old entry -/
def KeysNodup (old : List (Int × Name)) : Prop := ∀ p ∈ old, ∀ q ∈ old, p.1 = q.1 → p = q

theorem maps_iff (old : List (Int × Name)) (k : Int) (o : Name) : maps old k o = true ↔ (k, o) ∈ old := by
  simp only [maps, List.any_eq_true, Bool.and_eq_true, beq_iff_eq]
  constructor
  · rintro ⟨p, hp, h1, h2⟩
    have : p = (k, o) := by cases p; simp_all
    exact this ▸ hp
  · intro h; exact ⟨(k, o), h, rfl, rfl⟩

/-- **Each key's new entry is the positional renaming of its old entry.** -/
theorem tget_posTbl (old : List (Int × Name)) (hk : KeysNodup old) (k : Int) :
    ∀ pairs acc, (pairs.map (·.1)).Nodup →
      tget (posTbl old pairs acc) k =
        match pairs.find? (fun pr => maps old k pr.1) with
        | some pr => some pr.2
        | none => tget acc k := by
  intro pairs
  induction pairs with
  | nil => intro acc _; simp [posTbl]
  | cons pr rest ih =>
    intro acc hnd
    simp only [List.map_cons, List.nodup_cons] at hnd
    simp only [posTbl, List.foldl_cons]
    have := ih (tblCopy old pr.1 pr.2 acc) hnd.2
    simp only [posTbl] at this
    rw [this, List.find?_cons]
    by_cases hm : maps old k pr.1 = true
    · -- no later pair can match the same key
      have hnone : rest.find? (fun pr' => maps old k pr'.1) = none := by
        rw [List.find?_eq_none]
        intro pr' hpr' hm'
        have e1 := (maps_iff old k pr.1).mp hm
        have e2 := (maps_iff old k pr'.1).mp hm'
        have := hk _ e1 _ e2 rfl
        simp only [Prod.mk.injEq, true_and] at this
        exact hnd.1 (this ▸ List.mem_map.mpr ⟨pr', hpr', rfl⟩)
      simp [hnone, hm, tget_tblCopy]
    · have hm' : maps old k pr.1 = false := by simpa using hm
      simp only [hm']
      cases rest.find? (fun pr' => maps old k pr'.1) with
      | some x => rfl
      | none => simp [tget_tblCopy, hm']

theorem replaceJts_pos_eq (b : Blk) (new : List Name) (hb : b.kind.isBranching = true)
    (hlen : new.length = b.jts.length) :
    replaceJts b new = .ok { b with jts := new, tbl := posTbl b.tbl (b.jts.zip new) [] } := by
  simp [replaceJts, hb, hlen, posTbl]

theorem tget_some_mem (t : List (Int × Name)) (k : Int) (v : Name) (h : tget t k = some v) : (k, v) ∈ t := by
  unfold tget at h
  cases hf : t.find? (·.1 == k) with
  | none => simp [hf] at h
  | some p =>
    simp only [hf, Option.map_some, Option.some.injEq] at h
    have h1 := List.find?_some hf
    have h2 := List.mem_of_find?_eq_some hf
    simp only [beq_iff_eq] at h1
    have : p = (k, v) := by cases p; simp_all
    exact this ▸ h2

/-- **Every entry of the rewritten table names one of the new successors.** (no hypotheses) -/
theorem replaceJts_pos_values (b : Blk) (new : List Name) :
    ∀ q ∈ posTbl b.tbl (b.jts.zip new) [], q.2 ∈ new := by
  intro q hq
  rcases mem_posTbl _ _ _ _ hq with e | ⟨pr, hpr, e⟩
  · simp at e
  · rw [e]; exact (List.of_mem_zip hpr).2

/-- **Each key's entry is renamed positionally**, for every key. -/
theorem replaceJts_pos_lookup (b : Blk) (new : List Name) (hk : KeysNodup b.tbl)
    (hnd : b.jts.Nodup) (hlen : new.length = b.jts.length) (k : Int) :
    tget (posTbl b.tbl (b.jts.zip new) []) k =
      match (b.jts.zip new).find? (fun pr => maps b.tbl k pr.1) with
      | some pr => some pr.2
      | none => none := by
  have hz : ((b.jts.zip new).map (·.1)).Nodup := by
    rw [List.map_fst_zip (by omega)]
    exact hnd
  rw [tget_posTbl b.tbl hk k _ [] hz]
  cases (b.jts.zip new).find? (fun pr => maps b.tbl k pr.1) <;> simp [tget]

/-- **Every new successor is named by an entry of the rewritten table.** -/
theorem replaceJts_pos_covers (b : Blk) (new : List Name) (hk : KeysNodup b.tbl)
    (hnd : b.jts.Nodup) (hlen : new.length = b.jts.length)
    (hcov : ∀ t ∈ b.jts, ∃ p ∈ b.tbl, p.2 = t) :
    ∀ n ∈ new, ∃ q ∈ posTbl b.tbl (b.jts.zip new) [], q.2 = n := by
  intro n hn
  obtain ⟨i, hi, hin⟩ := List.getElem_of_mem hn
  have hi' : i < b.jts.length := by omega
  obtain ⟨p, hp, hpo⟩ := hcov b.jts[i] (List.getElem_mem hi')
  have hpair : (b.jts[i], n) ∈ b.jts.zip new := by
    rw [← hin]
    have : (b.jts.zip new)[i]'(by simp; omega) = (b.jts[i], new[i]) := by simp
    exact this ▸ List.getElem_mem _
  have hlook := replaceJts_pos_lookup b new hk hnd hlen p.1
  have hm : maps b.tbl p.1 b.jts[i] = true := (maps_iff _ _ _).mpr (by rw [← hpo]; exact hp)
  cases hf : (b.jts.zip new).find? (fun pr => maps b.tbl p.1 pr.1) with
  | none =>
    have := List.find?_eq_none.mp hf _ hpair
    simp [hm] at this
  | some pr =>
    rw [hf] at hlook
    have h1 := List.find?_some hf
    have h2 := List.mem_of_find?_eq_some hf
    -- the pair found is the pair of position i
    have e1 := (maps_iff _ _ _).mp h1
    have e2 := (maps_iff _ _ _).mp hm
    have hfst : pr.1 = b.jts[i] := by
      have := hk _ e1 _ e2 rfl
      simpa using this
    have hsnd : pr.2 = n := by
      obtain ⟨j, hj, hje⟩ := List.getElem_of_mem h2
      simp only [List.getElem_zip] at hje
      have hj' : j < b.jts.length := by simp at hj; omega
      have : b.jts[j] = b.jts[i] := by rw [← hfst, ← hje]
      have hji : j = i := (List.getElem_inj hnd).mp this
      subst hji
      rw [← hje, ← hin]
    exact ⟨(p.1, n), tget_some_mem _ _ _ (by rw [hlook]; simp [hsnd]), rfl⟩

/-- **A key of the old table is a key of the rewritten table** (an in-range control variable
    stays in range across the renaming). -/
theorem replaceJts_pos_keys (b : Blk) (new : List Name) (hk : KeysNodup b.tbl)
    (hnd : b.jts.Nodup) (hlen : new.length = b.jts.length)
    (hval : ∀ p ∈ b.tbl, p.2 ∈ b.jts) (k : Int) (h : (tget b.tbl k).isSome = true) :
    (tget (posTbl b.tbl (b.jts.zip new) []) k).isSome = true := by
  obtain ⟨v, hv⟩ := Option.isSome_iff_exists.mp h
  have hmem := tget_some_mem _ _ _ hv
  obtain ⟨i, hi, hiv⟩ := List.getElem_of_mem (hval _ hmem)
  have hi2 : i < new.length := by omega
  have hpair : (v, new[i]) ∈ b.jts.zip new := by
    have : (b.jts.zip new)[i]'(by simp; omega) = (b.jts[i], new[i]) := by simp
    have hiv' : b.jts[i] = v := hiv
    rw [← hiv']
    exact this ▸ List.getElem_mem _
  rw [replaceJts_pos_lookup b new hk hnd hlen k]
  cases hf : (b.jts.zip new).find? (fun pr => maps b.tbl k pr.1) with
  | some pr => rfl
  | none =>
    have := List.find?_eq_none.mp hf _ hpair
    simp [(maps_iff _ _ _).mpr hmem] at this

/-- **Summary: a good table stays good across a positional re-targeting** (the first two clauses
    of `tableOK`; declared back edges are re-targeted by a separate call). -/
theorem replaceJts_pos_tableOK (b : Blk) (new : List Name) (hb : b.kind.isBranching = true)
    (hk : KeysNodup b.tbl) (hnd : b.jts.Nodup) (hlen : new.length = b.jts.length)
    (hcov : ∀ t ∈ b.jts, ∃ p ∈ b.tbl, p.2 = t) :
    ∃ b', replaceJts b new = .ok b' ∧ b'.jts = new ∧
      (∀ q ∈ b'.tbl, q.2 ∈ b'.jts) ∧ (∀ n ∈ b'.jts, ∃ q ∈ b'.tbl, q.2 = n) :=
  ⟨_, replaceJts_pos_eq b new hb hlen, rfl, replaceJts_pos_values b new,
    replaceJts_pos_covers b new hk hnd hlen hcov⟩

/-! Non-vacuity: re-targeting the head of a unified loop header (both successors renamed). -/
def exHead : Blk where
  name := "h"
  kind := .synthHead
  jts := ["a", "b"]
  var := "v"
  tbl := [(0, "a"), (1, "b")]
example : posTbl exHead.tbl (exHead.jts.zip ["x", "y"]) [] = [(0, "x"), (1, "y")] := by decide
example : KeysNodup exHead.tbl ∧ exHead.jts.Nodup ∧ tableOK exHead = true := by
  refine ⟨?_, by decide, by decide⟩
  intro p hp q hq h
  simp [exHead] at hp hq
  rcases hp with rfl | rfl <;> rcases hq with rfl | rfl <;> simp_all

end Scfg.C06
