import Scfg.Props.C13
/-!
# C13 — a verified validator for the strongly connected components

Tarjan's algorithm (`compute_scc`, vendored) is not proved correct a priori. Instead every answer
of the real code is judged by `Spec.sccValid`, and this file proves what a `true` verdict means, in
terms of the inductive path relation `Reach` (at least one non-back-edge arc, continuing through
members only): the components partition the members, any two different members of one component
reach each other, and members of different components never reach each other both ways — i.e. the
components are exactly the maximal sets of mutually reachable blocks. Non-reachability is not
computed but *certified*: by a set that contains the successors of `a`, is closed under
successors, and does not contain `b`.
-/
namespace Scfg.C13
open Scfg Scfg.Model Scfg.Spec

theorem closed_of_reach (lvl : List Blk) (cl : List Name) (a : Name)
    (ha : ∀ y ∈ succOf lvl a, y ∈ cl) (hcl : ∀ x ∈ cl, ∀ y ∈ succOf lvl x, y ∈ cl)
    {b : Name} (h : Reach lvl a b) : b ∈ cl := by
  induction h with
  | arc hb => exact ha _ hb
  | step _ hb ih => exact hcl _ ih _ hb

theorem notReachCert_sound (lvl : List Blk) (a b : Name) (h : notReachCert lvl a b = true) :
    ¬ Reach lvl a b := by
  simp only [notReachCert, closedUnder, Bool.and_eq_true, List.all_eq_true, Bool.not_eq_true',
    List.contains_iff_mem] at h
  obtain ⟨⟨h1, h2⟩, h3⟩ := h
  intro hr
  have := closed_of_reach lvl (reachSet lvl a) a (fun y hy => by simpa using h1 y hy)
    (fun x hx y hy => by simpa using h2 x hx y hy) hr
  have hc : (reachSet lvl a).contains b = true := List.contains_iff_mem.mpr this
  rw [h3] at hc
  cases hc

/-- pairwise statement carried by `disjointAll` -/
theorem disjointAll_sound : ∀ (comps : List (List Name)), disjointAll comps = true →
    comps.Pairwise (fun c d => ∀ x ∈ c, x ∉ d)
  | [], _ => List.Pairwise.nil
  | c :: cs, h => by
    simp only [disjointAll, Bool.and_eq_true, List.all_eq_true, Bool.not_eq_true'] at h
    refine List.Pairwise.cons ?_ (disjointAll_sound cs h.2)
    intro d hd x hx hxd
    have hf := h.1 d hd x hx
    have hc : d.contains x = true := List.contains_iff_mem.mpr hxd
    rw [hf] at hc
    cases hc

theorem crossOK_sound (lvl : List Blk) : ∀ (comps : List (List Name)), crossOK lvl comps = true →
    comps.Pairwise (fun c d => ∀ a ∈ c, ∀ b ∈ d, ¬ (Reach lvl a b ∧ Reach lvl b a))
  | [], _ => List.Pairwise.nil
  | c :: cs, h => by
    simp only [crossOK, Bool.and_eq_true, List.all_eq_true, Bool.or_eq_true] at h
    refine List.Pairwise.cons ?_ (crossOK_sound lvl cs h.2)
    intro d hd a ha b hb ⟨h1, h2⟩
    rcases h.1 d hd a ha b hb with hh | hh
    · exact notReachCert_sound lvl a b hh h1
    · exact notReachCert_sound lvl b a hh h2

/-- **What a `true` verdict of the SCC validator means.** -/
theorem sccValid_sound (lvl : List Blk) (comps : List (List Name)) (h : sccValid lvl comps = true) :
    (∀ v ∈ lvl.map (·.name), ∃ c ∈ comps, v ∈ c) ∧
    (∀ c ∈ comps, ∀ v ∈ c, v ∈ lvl.map (·.name)) ∧
    comps.Pairwise (fun c d => ∀ x ∈ c, x ∉ d) ∧
    (∀ c ∈ comps, ∀ a ∈ c, ∀ b ∈ c, a ≠ b → Reach lvl a b) ∧
    comps.Pairwise (fun c d => ∀ a ∈ c, ∀ b ∈ d, ¬ (Reach lvl a b ∧ Reach lvl b a)) := by
  simp only [sccValid, Bool.and_eq_true] at h
  obtain ⟨⟨⟨⟨h1, h2⟩, h3⟩, h4⟩, h5⟩ := h
  refine ⟨?_, ?_, disjointAll_sound comps h3, ?_, crossOK_sound lvl comps h5⟩
  · intro v hv
    obtain ⟨c, hc, hvc⟩ := List.any_eq_true.mp (List.all_eq_true.mp h1 v hv)
    exact ⟨c, hc, by simpa [List.contains_iff_mem] using hvc⟩
  · intro c hc v hv
    have := List.all_eq_true.mp (List.all_eq_true.mp h2 c hc) v hv
    simpa [List.contains_iff_mem] using this
  · intro c hc a ha b hb hab
    have := List.all_eq_true.mp (List.all_eq_true.mp (List.all_eq_true.mp h4 c hc) a ha) b hb
    simp only [Bool.or_eq_true, beq_iff_eq] at this
    rcases this with e | hr
    · exact absurd e hab
    · exact reachRef_sound lvl a b hr

/-! Non-vacuity: `a → b ⇄ c → d`: components `{a} {b,c} {d}` are accepted, `{a,b} {c} {d}` is not. -/
def sccDemo : List Blk := [
  { cont := "m", name := "a", jts := ["b"] }, { cont := "m", name := "b", jts := ["c"] },
  { cont := "m", name := "c", jts := ["b", "d"] }, { cont := "m", name := "d" }]
example : sccValid sccDemo [["a"], ["b", "c"], ["d"]] = true := by decide +kernel
example : sccValid sccDemo [["a", "b"], ["c"], ["d"]] = false := by decide +kernel
example : sccValid sccDemo [["a"], ["b"], ["c"], ["d"]] = false := by decide +kernel

end Scfg.C13
