import Scfg.Props.C02
/-!
# C13 — the dominator fix-point computes dominance (all graphs)

`_find_dominators_internal` is a work-list algorithm. This file proves, for the model `domsGo` /
`domsInternal` / `doms` / `postDoms` (compared exactly with the code on every run), that whenever
it returns, the table it returns is *the* dominance relation of the path definition:

    a ∈ doms[n]  ↔  a = n, or every path from an entry to n passes through a

for every set of nodes, entries and predecessor/successor tables that describe one graph
(`GraphOK`), with no bound on the size. Together with `C02.doms_assert_never_fires` (the only
assertion of the loop cannot fail) this is total correctness up to the fuel of the model.

Proof: two loop invariants. *Complete*: a true dominator is never removed (the tables start at
"everything" and an update intersects tables that all contain it). *Stable*: every node that is
not on the work list satisfies its equation `doms[n] = {n} ∪ ⋂ doms[p]`; at exit the list is
empty, and any solution of the equations only contains true dominators (induction along a path
that avoids `a`).
-/
namespace Scfg.C13
open Scfg Scfg.Model Scfg.C02

/-- A path from `e` to `x` along `succs` on which `a` does not occur (end points included). -/
inductive Avoid (succs : Name → List Name) (a : Name) : Name → Name → Prop
  | refl {e : Name} : e ≠ a → Avoid succs a e e
  | step {e m x : Name} : Avoid succs a e m → x ∈ succs m → x ≠ a → Avoid succs a e x

/-- `a` dominates `n`: it is `n`, or no path from an entry reaches `n` without passing `a`
    (so everything dominates a node that no entry reaches, as in the code). -/
def Dominates (entries : List Name) (succs : Name → List Name) (a n : Name) : Prop :=
  a = n ∨ ∀ e ∈ entries, ¬ Avoid succs a e n

/-- The tables describe one graph over `nodes`. -/
structure GraphOK (entries nodes : List Name) (preds succs : Name → List Name) : Prop where
  nodup : nodes.Nodup
  entriesIn : ∀ e ∈ entries, e ∈ nodes
  predsIn : ∀ n, ∀ p ∈ preds n, p ∈ nodes
  succsIn : ∀ n, ∀ s ∈ succs n, s ∈ nodes
  consistent : ∀ m x, x ∈ succs m ↔ m ∈ preds x
  noPredsEntry : ∀ n ∈ nodes, preds n = [] → n ∈ entries

theorem mem_iff (xs : List Name) (x : Name) : mem xs x = true ↔ x ∈ xs := by
  simp [mem, List.contains_iff_mem]

theorem mem_false_iff (xs : List Name) (x : Name) : mem xs x = false ↔ x ∉ xs := by
  rw [← mem_iff]; cases mem xs x <;> simp

/-- `newDomsOf` reads the table only at the predecessors. -/
theorem newDomsOf_congr (d d' : SetMap) (preds : Name → List Name) (n : Name)
    (h : ∀ q ∈ preds n, d.get q = d'.get q) (a : Name) :
    a ∈ newDomsOf d preds n ↔ a ∈ newDomsOf d' preds n := by
  rw [mem_newDomsOf, mem_newDomsOf]
  constructor
  · rintro (e | ⟨hne, hall⟩)
    · exact Or.inl e
    · exact Or.inr ⟨hne, fun q hq => h q hq ▸ hall q hq⟩
  · rintro (e | ⟨hne, hall⟩)
    · exact Or.inl e
    · exact Or.inr ⟨hne, fun q hq => (h q hq).symm ▸ hall q hq⟩

/-- Two duplicate-free lists of equal length, one contained in the other, have the same members. -/
theorem subset_of_nodup_len : ∀ (xs ys : List Name), xs.Nodup → (∀ x ∈ xs, x ∈ ys) →
    ys.length ≤ xs.length → ∀ y ∈ ys, y ∈ xs
  | [], ys, _, _, hl, y, hy => by
    have : ys = [] := List.eq_nil_of_length_eq_zero (by simpa using hl)
    simp [this] at hy
  | a :: t, ys, hnd, hsub, hl, y, hy => by
    rw [List.nodup_cons] at hnd
    have ha : a ∈ ys := hsub a (by simp)
    have hsub' : ∀ x ∈ t, x ∈ ys.erase a := by
      intro x hx
      have hne : x ≠ a := fun e => hnd.1 (e ▸ hx)
      exact (List.mem_erase_of_ne hne).mpr (hsub x (by simp [hx]))
    have hl' : (ys.erase a).length ≤ t.length := by
      rw [List.length_erase_of_mem ha]
      simp only [List.length_cons] at hl
      omega
    by_cases e : y = a
    · simp [e]
    · have := subset_of_nodup_len t (ys.erase a) hnd.2 hsub' hl' y
        ((List.mem_erase_of_ne e).mpr hy)
      simp [this]

theorem sameSetL_iff (a b : List Name) (ha : a.Nodup) (h : sameSetL a b = true) :
    ∀ x, x ∈ a ↔ x ∈ b := by
  simp only [sameSetL, Bool.and_eq_true, beq_iff_eq, List.all_eq_true] at h
  obtain ⟨hl, hsub⟩ := h
  have hsub' : ∀ x ∈ a, x ∈ b := fun x hx => (mem_iff b x).mp (hsub x hx)
  intro x
  exact ⟨hsub' x, subset_of_nodup_len a b ha hsub' (by omega) x⟩

/-- The loop invariant. -/
structure DInv (entries nodes : List Name) (preds succs : Name → List Name)
    (todo : List Name) (d : SetMap) : Prop where
  ent : ∀ e ∈ entries, d.get e = [e]
  complete : ∀ n ∈ nodes, ∀ a ∈ nodes, Dominates entries succs a n → a ∈ d.get n
  stable : ∀ n ∈ nodes, n ∉ entries → n ∉ todo → ∀ a, a ∈ newDomsOf d preds n ↔ a ∈ d.get n

/-- A dominator of `n` other than `n` dominates every predecessor of `n`. -/
theorem dominates_pred {entries : List Name} {succs : Name → List Name} {a n q : Name}
    (hd : Dominates entries succs a n) (hne : a ≠ n) (hq : n ∈ succs q) :
    Dominates entries succs a q := by
  rcases hd with e | hall
  · exact absurd e hne
  · by_cases haq : a = q
    · exact Or.inl haq
    · right
      intro e he hav
      exact hall e he (Avoid.step hav hq (fun e' => hne e'.symm))

theorem domsGo_correct (entries nodes : List Name) (preds succs : Name → List Name)
    (G : GraphOK entries nodes preds succs) :
    ∀ (f : Nat) (todo : List Name) (d d' : SetMap), DInv entries nodes preds succs todo d →
      (∀ t ∈ todo, t ∈ nodes) →
      domsGo entries preds succs f todo d = .ok d' → DInv entries nodes preds succs [] d' := by
  intro f
  induction f with
  | zero => intro todo d d' _ _ h; simp [domsGo] at h
  | succ f ih =>
    intro todo d d' hinv htodo h
    simp only [domsGo] at h
    cases hl : todo.getLast? with
    | none =>
      rw [hl] at h
      simp only [Except.ok.injEq] at h
      subst h
      have : todo = [] := by
        cases todo with
        | nil => rfl
        | cons a t => simp [List.getLast?_cons] at hl
      subst this
      exact hinv
    | some n =>
      rw [hl] at h
      simp only at h
      have hnmem : n ∈ todo := List.mem_of_getLast? hl
      have hn : n ∈ nodes := htodo n hnmem
      have hsplit : todo = todo.dropLast ++ [n] := by
        have hne0 : todo ≠ [] := fun e => by simp [e] at hl
        have h1 := List.dropLast_concat_getLast hne0
        have h2 : todo.getLast hne0 = n := by
          have := List.getLast?_eq_some_getLast hne0
          rw [hl] at this
          exact (Option.some.inj this).symm
        rw [h2] at h1
        exact h1.symm
      have hdrop : ∀ t ∈ todo.dropLast, t ∈ nodes := fun t ht => htodo t (List.dropLast_subset _ ht)
      -- a node off the shorter list was off the longer one, unless it is `n`
      have hoff : ∀ m, m ≠ n → m ∉ todo.dropLast → m ∉ todo := by
        intro m hmn hm hmt
        rw [hsplit] at hmt
        rcases List.mem_append.mp hmt with h1 | h1
        · exact hm h1
        · simp at h1; exact hmn h1
      split at h
      · next hent =>
        -- entries are skipped
        have hne : n ∈ entries := (mem_iff entries n).mp hent
        refine ih _ d d' ⟨hinv.ent, hinv.complete, ?_⟩ hdrop h
        intro m hm hme hmt
        by_cases hmn : m = n
        · exact absurd (hmn ▸ hne) hme
        · exact hinv.stable m hm hme (hoff m hmn hmt)
      · next hent =>
        have hne : n ∉ entries := fun hh => hent ((mem_iff entries n).mpr hh)
        split at h
        · next hsame =>
          -- unchanged: `n` is stable
          refine ih _ d d' ⟨hinv.ent, hinv.complete, ?_⟩ hdrop h
          intro m hm hme hmt
          by_cases hmn : m = n
          · subst hmn
            exact sameSetL_iff _ _ (nodup_newDomsOf d preds m) hsame
          · exact hinv.stable m hm hme (hoff m hmn hmt)
        · split at h
          · cases h
          · -- update
            refine ih _ _ d' ?_ ?_ h
            · have hgetne : ∀ q, q ≠ n → (d.set n (newDomsOf d preds n)).get q = d.get q := by
                intro q hq; rw [get_set]; simp [hq]
              have hgetn : (d.set n (newDomsOf d preds n)).get n = newDomsOf d preds n := by
                rw [get_set]; simp
              refine ⟨?_, ?_, ?_⟩
              · intro e he
                have : e ≠ n := fun hh => hne (hh ▸ he)
                rw [hgetne e this]; exact hinv.ent e he
              · intro m hm a ha hdom
                by_cases hmn : m = n
                · subst hmn
                  rw [hgetn, mem_newDomsOf]
                  by_cases ham : a = m
                  · exact Or.inl ham
                  · right
                    refine ⟨fun hnil => hne (G.noPredsEntry m hm hnil), ?_⟩
                    intro q hq
                    have hqs : m ∈ succs q := (G.consistent q m).mpr hq
                    exact hinv.complete q (G.predsIn m q hq) a ha (dominates_pred hdom ham hqs)
                · rw [hgetne m hmn]; exact hinv.complete m hm a ha hdom
              · intro m hm hme hmt a
                have hmt1 : m ∉ todo.dropLast := fun hh => hmt (List.mem_append.mpr (Or.inl hh))
                have hmt2 : m ∉ succs n := fun hh => hmt (List.mem_append.mpr (Or.inr hh))
                -- `n` is not a predecessor of `m`, so `m`'s equation reads the old table
                have hnp : n ∉ preds m := fun hh => hmt2 ((G.consistent n m).mpr hh)
                have hcongr := newDomsOf_congr (d.set n (newDomsOf d preds n)) d preds m
                  (fun q hq => hgetne q (fun hh => hnp (hh ▸ hq))) a
                rw [hcongr]
                by_cases hmn : m = n
                · subst hmn; rw [hgetn]
                · rw [hgetne m hmn]
                  exact hinv.stable m hm hme (hoff m hmn hmt1) a
            · intro t ht
              rcases List.mem_append.mp ht with h1 | h1
              · exact hdrop t h1
              · exact G.succsIn n t h1

/-- Any table that satisfies the equations off the entries only contains true dominators. -/
theorem stable_sound (entries nodes : List Name) (preds succs : Name → List Name)
    (G : GraphOK entries nodes preds succs) (d : SetMap)
    (hinv : DInv entries nodes preds succs [] d) (n a : Name) (hn : n ∈ nodes)
    (ha : a ∈ d.get n) : Dominates entries succs a n := by
  by_cases han : a = n
  · exact Or.inl han
  · right
    intro e he hav
    -- along a path avoiding `a`, `a` is in no table
    have key : ∀ x, Avoid succs a e x → x ∈ nodes → a ∉ d.get x := by
      intro x hp
      induction hp with
      | refl hne =>
        intro _ hmem
        rw [hinv.ent e he] at hmem
        simp at hmem
        exact hne hmem.symm
      | @step m x hp hx hxa ihp =>
        intro hxn hmem
        by_cases hxe : x ∈ entries
        · rw [hinv.ent x hxe] at hmem
          simp at hmem
          exact hxa hmem.symm
        · have hm : m ∈ preds x := (G.consistent m x).mp hx
          have := (hinv.stable x hxn hxe (by simp) a).mpr hmem
          rcases (mem_newDomsOf d preds x a).mp this with e1 | ⟨_, hall⟩
          · exact hxa e1.symm
          · exact ihp (G.predsIn x m hm) (hall m hm)
    exact key n hav hn ha


/-- **`_find_dominators_internal` computes dominance**: whenever the model returns a table, then
    for all nodes `n`, `a`: `a ∈ table[n]` iff `a` dominates `n` — for every graph, any size. -/
theorem domsInternal_correct (entries nodes : List Name) (preds succs : Name → List Name)
    (G : GraphOK entries nodes preds succs) (d : SetMap)
    (h : domsInternal entries nodes preds succs = .ok d) (n a : Name) (hn : n ∈ nodes)
    (ha : a ∈ nodes) : a ∈ d.get n ↔ Dominates entries succs a n := by
  unfold domsInternal at h
  split at h
  · cases h
  · have hinit : DInv entries nodes preds succs (nodes.filter fun n => !mem entries n)
        (nodes.map fun n => if mem entries n then (n, [n]) else (n, nodes)) := by
      refine ⟨?_, ?_, ?_⟩
      · intro e he
        rw [get_doms0 entries nodes nodes e (G.entriesIn e he), (mem_iff entries e).mpr he]
        simp
      · intro m hm b hb hdom
        rw [get_doms0 entries nodes nodes m hm]
        split
        · next hme =>
          have hme' : m ∈ entries := (mem_iff entries m).mp hme
          rcases hdom with e | hall
          · simp [e]
          · by_cases hbm : b = m
            · simp [hbm]
            · exact absurd (Avoid.refl (fun e => hbm e.symm)) (hall m hme')
        · exact hb
      · intro m hm hme hmt
        exfalso
        apply hmt
        rw [List.mem_filter]
        exact ⟨hm, by simp [(mem_false_iff entries m).mpr hme]⟩
    have hfin := domsGo_correct entries nodes preds succs G _ _ _ d hinit
      (fun t ht => (List.mem_filter.mp ht).1) h
    exact ⟨stable_sound entries nodes preds succs G d hfin n a hn, hfin.complete n hn a ha⟩


/-! ## Totality: the fuel of the model always suffices

`tot` adds up the sizes of all tables; an update shrinks one table, a non-update shortens the work
list, so `|todo| + N · tot` decreases in every iteration (`N` = number of nodes, which also bounds
the successors pushed by an update). The initial value is at most `N + N³`, below the fuel
`N²(N+2) + 16` that `domsInternal` provides. Together with `C02.doms_assert_never_fires` the model
returns a table on every graph that has an entry. -/

def tot (nodes : List Name) (d : SetMap) : Nat := (nodes.map fun m => (d.get m).length).sum

theorem tot_le_of_le (nodes : List Name) (d d' : SetMap)
    (h : ∀ m, (d'.get m).length ≤ (d.get m).length) : tot nodes d' ≤ tot nodes d := by
  unfold tot
  induction nodes with
  | nil => simp
  | cons a t ih => simp only [List.map_cons, List.sum_cons]; have := h a; omega

theorem tot_lt_of_lt (nodes : List Name) (d d' : SetMap) (n : Name) (hn : n ∈ nodes)
    (h : ∀ m, (d'.get m).length ≤ (d.get m).length) (hlt : (d'.get n).length < (d.get n).length) :
    tot nodes d' < tot nodes d := by
  unfold tot
  induction nodes with
  | nil => simp at hn
  | cons a t ih =>
    simp only [List.map_cons, List.sum_cons]
    rcases List.mem_cons.mp hn with e | e
    · subst e
      have := tot_le_of_le t d d' h
      unfold tot at this
      omega
    · have := ih e
      have := h a
      omega

theorem domsGo_fuel (entries nodes : List Name) (preds succs : Name → List Name)
    (hs : ∀ n, ∀ s ∈ succs n, s ∈ nodes) (hsl : ∀ n, (succs n).length ≤ nodes.length) :
    ∀ (f : Nat) (todo : List Name) (d : SetMap), (∀ t ∈ todo, t ∈ nodes) →
      todo.length + nodes.length * tot nodes d < f →
      domsGo entries preds succs f todo d ≠ .error ⟨"OutOfFuel", "_find_dominators_internal"⟩ := by
  intro f
  induction f with
  | zero => intro todo d _ h; omega
  | succ f ih =>
    intro todo d htodo hphi
    simp only [domsGo]
    cases hl : todo.getLast? with
    | none => simp
    | some n =>
      have hnmem : n ∈ todo := List.mem_of_getLast? hl
      have hn : n ∈ nodes := htodo n hnmem
      have hdrop : ∀ t ∈ todo.dropLast, t ∈ nodes := fun t ht => htodo t (List.dropLast_subset _ ht)
      have hlen : todo.dropLast.length + 1 = todo.length := by
        rw [List.length_dropLast]
        have := List.length_pos_of_mem hnmem
        omega
      simp only
      split
      · exact ih _ d hdrop (by omega)
      · split
        · exact ih _ d hdrop (by omega)
        · split
          · simp [assertionAt]
          · next hnlt =>
            have hlt : (newDomsOf d preds n).length < (d.get n).length := by
              simpa using hnlt
            refine ih _ _ ?_ ?_
            · intro t ht
              rcases List.mem_append.mp ht with h1 | h1
              · exact hdrop t h1
              · exact hs n t h1
            · have hle : ∀ m, ((d.set n (newDomsOf d preds n)).get m).length ≤ (d.get m).length := by
                intro m; rw [get_set]; split
                · next e => subst e; omega
                · exact Nat.le_refl _
              have hlt' : ((d.set n (newDomsOf d preds n)).get n).length < (d.get n).length := by
                rw [get_set]; simpa using hlt
              have htot := tot_lt_of_lt nodes d _ n hn hle hlt'
              have hsn := hsl n
              rw [List.length_append]
              have hmul : nodes.length * tot nodes (d.set n (newDomsOf d preds n)) + nodes.length
                  ≤ nodes.length * tot nodes d := by
                have : tot nodes (d.set n (newDomsOf d preds n)) + 1 ≤ tot nodes d := htot
                calc nodes.length * tot nodes (d.set n (newDomsOf d preds n)) + nodes.length
                    = nodes.length * (tot nodes (d.set n (newDomsOf d preds n)) + 1) := by
                      rw [Nat.mul_add, Nat.mul_one]
                  _ ≤ nodes.length * tot nodes d := Nat.mul_le_mul_left _ this
              omega

/-- the only aborts of the loop are the two named ones -/
theorem domsGo_errors (entries : List Name) (preds succs : Name → List Name) :
    ∀ (f : Nat) (todo : List Name) (d : SetMap) (e : Abort),
      domsGo entries preds succs f todo d = .error e →
      e = ⟨"OutOfFuel", "_find_dominators_internal"⟩ ∨ e = assertionAt "_find_dominators_internal" := by
  intro f
  induction f with
  | zero => intro todo d e h; simp [domsGo] at h; exact Or.inl h.symm
  | succ f ih =>
    intro todo d e h
    simp only [domsGo] at h
    cases hl : todo.getLast? with
    | none => rw [hl] at h; cases h
    | some n =>
      rw [hl] at h
      simp only at h
      split at h
      · exact ih _ _ _ h
      · split at h
        · exact ih _ _ _ h
        · split at h
          · simp only [Except.error.injEq] at h; exact Or.inr h.symm
          · exact ih _ _ _ h

theorem tot_doms0_le (entries nodes : List Name) :
    tot nodes (nodes.map fun n => if mem entries n then (n, [n]) else (n, nodes))
      ≤ nodes.length * nodes.length := by
  have key : ∀ (l : List Name), (∀ m ∈ l, m ∈ nodes) →
      (l.map fun m => (SetMap.get (nodes.map fun n => if mem entries n then (n, [n]) else (n, nodes)) m).length).sum
        ≤ l.length * nodes.length := by
    intro l
    induction l with
    | nil => intro _; simp
    | cons a t ih =>
      intro hl
      simp only [List.map_cons, List.sum_cons, List.length_cons]
      have ha : a ∈ nodes := hl a (by simp)
      have h1 : (SetMap.get (nodes.map fun n => if mem entries n then (n, [n]) else (n, nodes)) a).length
          ≤ nodes.length := by
        rw [get_doms0 entries nodes nodes a ha]
        split
        · simp; exact List.length_pos_of_mem ha
        · exact Nat.le_refl _
      have := ih (fun m hm => hl m (by simp [hm]))
      rw [Nat.add_mul, Nat.one_mul]
      omega
  have := key nodes (fun m hm => hm)
  unfold tot
  exact this

/-- **Totality of `_find_dominators_internal` (model)**: with at least one entry, on every graph,
    the model returns a table (and `domsInternal_correct` says which). -/
theorem domsInternal_total (entries nodes : List Name) (preds succs : Name → List Name)
    (G : GraphOK entries nodes preds succs) (hsl : ∀ n, (succs n).length ≤ nodes.length)
    (hent : entries ≠ []) : ∃ d, domsInternal entries nodes preds succs = .ok d := by
  cases hres : domsInternal entries nodes preds succs with
  | ok d => exact ⟨d, rfl⟩
  | error e =>
    exfalso
    have hassert := doms_assert_never_fires entries nodes preds succs G.predsIn G.succsIn
    unfold domsInternal at hres hassert
    have hne : entries.isEmpty = false := by cases entries <;> simp_all
    simp only [hne, Bool.false_eq_true, if_false] at hres hassert
    rcases domsGo_errors entries preds succs _ _ _ e hres with rfl | rfl
    · refine domsGo_fuel entries nodes preds succs G.succsIn hsl _ _ _ ?_ ?_ hres
      · intro t ht; exact (List.mem_filter.mp ht).1
      · have h1 : (nodes.filter fun n => !mem entries n).length ≤ nodes.length := List.length_filter_le _ _
        have h2 := tot_doms0_le entries nodes
        have h3 : nodes.length * tot nodes (nodes.map fun n => if mem entries n then (n, [n]) else (n, nodes))
            ≤ nodes.length * (nodes.length * nodes.length) := Nat.mul_le_mul_left _ h2
        have h4 : nodes.length * nodes.length * (nodes.length + 2) =
            nodes.length * (nodes.length * nodes.length) + 2 * (nodes.length * nodes.length) := by
          rw [Nat.mul_add, Nat.mul_assoc]; omega
        have h5 : nodes.length ≤ nodes.length * nodes.length ∨ nodes.length = 0 := by
          cases hnl : nodes.length with
          | zero => right; rfl
          | succ k => left; exact Nat.le_mul_of_pos_right _ (by omega)
        omega
    · exact hassert hres

/-! ### The two instances: `_doms` and `_post_doms` of a level -/

theorem mem_inLevelSuccs (lvl : List Blk) (m x : Name) :
    x ∈ inLevelSuccs lvl m ↔ x ∈ succIn lvl m := by
  unfold inLevelSuccs; exact mem_dedup

theorem mem_inLevelPreds (lvl : List Blk) (m x : Name) :
    m ∈ inLevelPreds lvl x ↔ ∃ b ∈ lvl, b.name = m ∧ x ∈ succIn lvl b.name := by
  unfold inLevelPreds
  rw [List.mem_map]
  constructor
  · rintro ⟨b, hb, rfl⟩
    obtain ⟨hb1, hb2⟩ := List.mem_filter.mp hb
    exact ⟨b, hb1, rfl, by simpa [List.contains_iff_mem] using hb2⟩
  · rintro ⟨b, hb, rfl, hx⟩
    exact ⟨b, List.mem_filter.mpr ⟨hb, by simpa [List.contains_iff_mem] using hx⟩, rfl⟩

/-- successor and predecessor tables of a level describe the same arcs -/
theorem level_consistent (lvl : List Blk) (m x : Name) :
    x ∈ inLevelSuccs lvl m ↔ m ∈ inLevelPreds lvl x := by
  rw [mem_inLevelSuccs, mem_inLevelPreds]
  constructor
  · intro h
    have h' := h
    unfold succIn at h
    split at h
    · next b hb =>
      have hbm : b.name = m := by simpa using List.find?_some hb
      exact ⟨b, List.mem_of_find?_eq_some hb, hbm, hbm ▸ h'⟩
    · simp at h
  · rintro ⟨b, _, rfl, hx⟩; exact hx

theorem graphOK_fwd (lvl : List Blk) (hnd : (lvl.map (·.name)).Nodup) :
    GraphOK ((lvl.map (·.name)).filter fun n => (inLevelPreds lvl n).isEmpty) (lvl.map (·.name))
      (inLevelPreds lvl) (inLevelSuccs lvl) where
  nodup := hnd
  entriesIn := fun e he => (List.mem_filter.mp he).1
  predsIn := fun n p hp => inLevelPreds_mem lvl n p hp
  succsIn := fun n s hs => inLevelSuccs_mem lvl n s hs
  consistent := level_consistent lvl
  noPredsEntry := fun n hn hnil => List.mem_filter.mpr ⟨hn, by simp [hnil]⟩

theorem graphOK_bwd (lvl : List Blk) (hnd : (lvl.map (·.name)).Nodup) :
    GraphOK ((lvl.map (·.name)).filter fun n => (inLevelSuccs lvl n).isEmpty) (lvl.map (·.name))
      (inLevelSuccs lvl) (inLevelPreds lvl) where
  nodup := hnd
  entriesIn := fun e he => (List.mem_filter.mp he).1
  predsIn := fun n p hp => inLevelSuccs_mem lvl n p hp
  succsIn := fun n s hs => inLevelPreds_mem lvl n s hs
  consistent := fun m x => (level_consistent lvl x m).symm
  noPredsEntry := fun n hn hnil => List.mem_filter.mpr ⟨hn, by simp [hnil]⟩

/-- **`_doms`**: on every level with distinct names, the table returned is exactly dominance
    with respect to the blocks without in-level predecessor. -/
theorem doms_correct (H : Hier) (c : Name) (hnd : ((H.level c).map (·.name)).Nodup) (d : SetMap)
    (h : doms H c = .ok d) (n a : Name) (hn : n ∈ (H.level c).map (·.name))
    (ha : a ∈ (H.level c).map (·.name)) :
    a ∈ d.get n ↔
      Dominates (((H.level c).map (·.name)).filter fun n => (inLevelPreds (H.level c) n).isEmpty)
        (inLevelSuccs (H.level c)) a n :=
  domsInternal_correct _ _ _ _ (graphOK_fwd (H.level c) hnd) d h n a hn ha

/-- **`_post_doms`**: the same on the reversed graph, entries = blocks without in-level
    successor: `a ∈ table[n]` iff every path from `n` to an exit passes `a`. -/
theorem postDoms_correct (H : Hier) (c : Name) (hnd : ((H.level c).map (·.name)).Nodup)
    (d : SetMap) (h : postDoms H c = .ok d) (n a : Name) (hn : n ∈ (H.level c).map (·.name))
    (ha : a ∈ (H.level c).map (·.name)) :
    a ∈ d.get n ↔
      Dominates (((H.level c).map (·.name)).filter fun n => (inLevelSuccs (H.level c) n).isEmpty)
        (inLevelPreds (H.level c)) a n :=
  domsInternal_correct _ _ _ _ (graphOK_bwd (H.level c) hnd) d h n a hn ha


theorem inLevelSuccs_len (lvl : List Blk) (n : Name) :
    (inLevelSuccs lvl n).length ≤ (lvl.map (·.name)).length :=
  length_le_of_nodup_subset _ _ (nodup_dedup _) (fun s hs => inLevelSuccs_mem lvl n s hs)

theorem inLevelPreds_len (lvl : List Blk) (hnd : (lvl.map (·.name)).Nodup) (n : Name) :
    (inLevelPreds lvl n).length ≤ (lvl.map (·.name)).length := by
  have hsub : ((lvl.filter fun b => (succIn lvl b.name).contains n).map (·.name)).Sublist (lvl.map (·.name)) :=
    List.Sublist.map _ List.filter_sublist
  exact length_le_of_nodup_subset _ _ (hnd.sublist hsub) (fun p hp => inLevelPreds_mem lvl n p hp)

/-- **`_doms`, total correctness of the model**: on every level with distinct names that has a
    block without in-level predecessor, the model returns a table, and the table is dominance. -/
theorem doms_total (H : Hier) (c : Name) (hnd : ((H.level c).map (·.name)).Nodup)
    (hent : (((H.level c).map (·.name)).filter fun n => (inLevelPreds (H.level c) n).isEmpty) ≠ []) :
    ∃ d, doms H c = .ok d ∧ ∀ n ∈ (H.level c).map (·.name), ∀ a ∈ (H.level c).map (·.name),
      (a ∈ d.get n ↔
        Dominates (((H.level c).map (·.name)).filter fun n => (inLevelPreds (H.level c) n).isEmpty)
          (inLevelSuccs (H.level c)) a n) := by
  obtain ⟨d, hd⟩ := domsInternal_total _ _ _ _ (graphOK_fwd (H.level c) hnd)
    (inLevelSuccs_len (H.level c)) hent
  exact ⟨d, hd, fun n hn a ha => doms_correct H c hnd d hd n a hn ha⟩

/-- **`_post_doms`, total correctness of the model.** -/
theorem postDoms_total (H : Hier) (c : Name) (hnd : ((H.level c).map (·.name)).Nodup)
    (hent : (((H.level c).map (·.name)).filter fun n => (inLevelSuccs (H.level c) n).isEmpty) ≠ []) :
    ∃ d, postDoms H c = .ok d ∧ ∀ n ∈ (H.level c).map (·.name), ∀ a ∈ (H.level c).map (·.name),
      (a ∈ d.get n ↔
        Dominates (((H.level c).map (·.name)).filter fun n => (inLevelSuccs (H.level c) n).isEmpty)
          (inLevelPreds (H.level c)) a n) := by
  obtain ⟨d, hd⟩ := domsInternal_total _ _ _ _ (graphOK_bwd (H.level c) hnd)
    (inLevelPreds_len (H.level c) hnd) hent
  exact ⟨d, hd, fun n hn a ha => postDoms_correct H c hnd d hd n a hn ha⟩

/-! Non-vacuity: the diamond `0→(1,2) 1→3 2→3` — the model returns, `0` dominates `3`, `1` does
not (the path `0,2,3` avoids it). -/
def diamond : Hier := [
  { cont := "m", name := "0", jts := ["1", "2"] }, { cont := "m", name := "1", jts := ["3"] },
  { cont := "m", name := "2", jts := ["3"] }, { cont := "m", name := "3" }]

example : ((doms diamond "m").toOption.map fun d => (d.get "3")) = some ["3", "0"] ∨
    ((doms diamond "m").toOption.map fun d => (d.get "3")) = some ["0", "3"] := by decide +kernel

example : ¬ Dominates ["0"] (inLevelSuccs (diamond.level "m")) "1" "3" := by
  intro h
  rcases h with e | hall
  · exact absurd e (by decide)
  · refine hall "0" (by simp) ?_
    have h0 : Avoid (inLevelSuccs (diamond.level "m")) "1" "0" "0" := Avoid.refl (by decide)
    have h2 : Avoid (inLevelSuccs (diamond.level "m")) "1" "0" "2" :=
      Avoid.step h0 (by decide +kernel) (by decide)
    exact Avoid.step h2 (by decide +kernel) (by decide)

end Scfg.C13
