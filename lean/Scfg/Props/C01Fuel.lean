import Scfg.Props.C01Conv
import Scfg.Props.C04Total
/-!
# C01 — the certified run at the specification's own fuel

`certified_run_total` holds "at every fuel ≥ chainFuel". The specification-level walk `sysName H` has its
own bounds (`H.length + 1` headers per name, `walkFuel H` synthetic blocks per step). They suffice as soon
as two decidable facts hold of the final hierarchy (`fuelOK`): every region's header chain ends within
`H.length + 1` steps, and the synthetic blocks carry ranks that strictly increase along every arc between
two of them (so no walk passes more than `H.length` synthetic blocks between two original ones).
`certified_run_sysName`: then `sysName` itself shows exactly the input graph's trace.
-/
namespace Scfg.C01
open Scfg Scfg.Spec Scfg.C04

theorem resolve_det (H : Hier) (n : Name) (b b' : Blk) (R R' : Nat)
    (h : resolve H R n = some b) (h' : resolve H R' n = some b') : b = b' := by
  have h1 := resolve_mono_le H n b R (max R R') (Nat.le_max_left _ _) h
  have h2 := resolve_mono_le H n b' R' (max R R') (Nat.le_max_right _ _) h'
  rw [h1] at h2
  exact Option.some.inj h2

theorem resolve_not_region (H : Hier) : ∀ R n b, resolve H R n = some b → b.isRegion = false := by
  intro R
  induction R with
  | zero => intro n b h; simp [resolve] at h
  | succ R ih =>
    intro n b h
    simp only [resolve] at h
    split at h
    · simp at h
    · next x hx =>
      split at h
      · exact ih _ _ h
      · next hr =>
        simp only [Option.some.injEq] at h
        subst h
        simpa using hr

/-- header chains are short: what resolves at all resolves within the specification's bound -/
theorem resolve_short (H : Hier) (hH : hdrOK H = true) (R : Nat) (n : Name) (b : Blk)
    (h : resolve H R n = some b) : resolve H (H.length + 1) n = some b := by
  cases R with
  | zero => simp [resolve] at h
  | succ R =>
    cases hg : H.get? n with
    | none => simp [resolve, hg] at h
    | some b0 =>
      by_cases hr : b0.isRegion = true
      · have hm := get?_mem H n b0 hg
        have := List.all_eq_true.mp hH b0 hm.1
        simp only [hr, Bool.not_true, Bool.false_or] at this
        rw [hm.2] at this
        cases hs : resolve H (H.length + 1) n with
        | none => simp [hs] at this
        | some b' => rw [resolve_det H n b b' _ _ h hs]
      · have : b = b0 := by
          simp only [resolve, hg, hr, Bool.false_eq_true, if_false, Option.some.injEq] at h
          exact h.symm
        subst this
        simp [resolve, hg, hr]

/-- the fuel a walk from a name needs: one step for an original block, and for a synthetic block of rank
    `k` at most the `H.length - k` synthetic blocks that can still follow, plus two -/
def need (H : Hier) (rk : Ranks) (b : Blk) : Nat :=
  if b.isOrig then 1 else (H.length - (rk.get b.name).getD 0) + 2

theorem adv_short (H : Hier) (hH : hdrOK H = true) (rk : Ranks) (hK : synthRanksOK H rk = true)
    (consume : Bool) (R : Nat) :
    ∀ f n val r, advF H consume R f n val = r → r.isErr = false →
      ∀ b, resolve H R n = some b → ∀ f', need H rk b ≤ f' →
      advF H consume (H.length + 1) f' n val = r := by
  intro f
  induction f with
  | zero => intro n val r h hr; simp only [advF] at h; subst h; simp [WState.isErr] at hr
  | succ f ih =>
    intro n val r h hr b hb f' hf'
    have hb' := resolve_short H hH R n b hb
    rw [advF, hb] at h
    cases f' with
    | zero =>
      unfold need at hf'
      split at hf' <;> omega
    | succ f'' =>
      rw [advF, hb']
      simp only at h ⊢
      by_cases ho : b.isOrig = true
      · simp only [ho, if_true] at h ⊢; exact h
      · simp only [ho] at h ⊢
        cases he : synthExec consume b val with
        | error e => rw [he] at h; exact h
        | ok res =>
          obtain ⟨val', oi⟩ := res
          rw [he] at h
          cases oi with
          | none => exact h
          | some i =>
            simp only at h ⊢
            cases ht : b.jts[i]? with
            | none => rw [ht] at h; exact h
            | some t =>
              rw [ht] at h
              -- the next block
              cases hres : resolve H R t with
              | none =>
                cases f with
                | zero => simp only [advF] at h; subst h; simp [WState.isErr] at hr
                | succ f0 => simp only [advF, hres] at h; subst h; simp [WState.isErr] at hr
              | some b2 =>
                refine ih t val' r h hr b2 hres f'' ?_
                -- ranks: `b` is a synthetic block of `H`
                obtain ⟨m0, hm0⟩ := resolve_from_get H R n b hb
                have hbm := (get?_mem H m0 b hm0).1
                have hbreg := resolve_not_region H R n b hb
                have hbs : b ∈ synthBlocks H := by
                  simp only [synthBlocks, List.mem_filter, Bool.and_eq_true, Bool.not_eq_true']
                  exact ⟨hbm, hbreg, by simpa using ho⟩
                have hrk := List.all_eq_true.mp hK b hbs
                cases hra : rk.get b.name with
                | none => simp [hra] at hrk
                | some ra =>
                  simp only [hra, Bool.and_eq_true, decide_eq_true_eq, List.all_eq_true] at hrk
                  obtain ⟨hle, harcs⟩ := hrk
                  have hneed : need H rk b = (H.length - ra) + 2 := by
                    simp [need, ho, hra]
                  rw [hneed] at hf'
                  by_cases ho2 : b2.isOrig = true
                  · simp only [need, ho2, if_true]; omega
                  · have hb2' := resolve_short H hH R t b2 hres
                    have hmem : b2.name ∈ synthArcs H b := by
                      simp only [synthArcs, List.mem_filterMap]
                      exact ⟨t, List.mem_of_getElem? ht, by simp [hb2', ho2]⟩
                    have := harcs b2.name hmem
                    cases hrt : rk.get b2.name with
                    | none => simp [hrt] at this
                    | some rt =>
                      simp only [hrt, Bool.and_eq_true, decide_eq_true_eq] at this
                      have : need H rk b2 = (H.length - rt) + 2 := by simp [need, ho2, hrt]
                      rw [this]
                      omega

theorem need_le_walkFuel (H : Hier) (rk : Ranks) (b : Blk) : need H rk b ≤ walkFuel H := by
  unfold need walkFuel
  split <;> omega

/-- **The specification's fuel suffices.** An error-free walk at any fuel is the walk `sysName` shows. -/
theorem sysName_of_clean (H : Hier) (hF : fuelOK H = true) (consume : Bool) (R F : Nat) :
    ∀ (ds : List Nat) (st : WState), CleanRun (sysF H consume R F) st →
      run (sysName H consume) st ds = run (sysF H consume R F) st ds := by
  simp only [fuelOK, Bool.and_eq_true] at hF
  obtain ⟨hH, hK⟩ := hF
  intro ds st hc
  rw [sysName_eq_sysF]
  refine runs_eq_of_clean_inv (sysF H consume (H.length + 1) (walkFuel H)) (sysF H consume R F)
    (fun _ => True) ?_ ds st trivial hc
  intro st _ hc
  cases st with
  | halt => exact ⟨rfl, fun _ _ => ⟨rfl, trivial⟩⟩
  | err c m => exact ⟨rfl, fun _ _ => ⟨rfl, trivial⟩⟩
  | «at» n val =>
    cases h1 : H.get? n with
    | none =>
      refine ⟨by simp [sysF, obsOf, h1], fun d hd => ?_⟩
      simp [sysF, obsOf, h1, Obs.arity] at hd
    | some b =>
      have hstep : ∀ d, (stepF H consume R F b val d).isErr = false →
          stepF H consume (H.length + 1) (walkFuel H) b val d = stepF H consume R F b val d := by
        intro d hne
        simp only [stepF] at hne ⊢
        cases ht : b.jts[d]? with
        | none => rfl
        | some t =>
          rw [ht] at hne
          simp only
          cases F with
          | zero => simp [advF, WState.isErr] at hne
          | succ F0 =>
            cases hres : resolve H R t with
            | none => simp [advF, hres, WState.isErr] at hne
            | some b2 =>
              exact adv_short H hH _ hK consume R (F0 + 1) t val _ rfl hne b2 hres _ (need_le_walkFuel H _ b2)
      constructor
      · exact obs_conv H H consume R F _ _ n val val b b h1 h1 rfl hc (fun d hne => by rw [hstep d hne])
      · intro d hd
        have hne := stepClean H consume R F n val b h1 hc d hd
        simp only [sysF, h1]
        exact ⟨hstep d hne, trivial⟩

/-- **A certified pipeline run at the specification's own fuel.** Closed flat input, every step of the real
    run certified, and the final hierarchy passes `fuelOK`: from every block of the input, for every
    valuation, both latch semantics and every decision sequence, the specification-level walk by name
    `sysName` over the final hierarchy shows exactly the trace of the input graph. -/
theorem certified_run_sysName (G : Hier) (steps : List (StepTag × Hier)) (hG : flatB G = true)
    (h : chainOKc G steps = true) (hF : fuelOK (chainLast G steps) = true)
    (n : Name) (g : Blk) (hn : G.get? n = some g) (consume : Bool) (val : Val) (ds : List Nat) :
    run (sysName (chainLast G steps) consume) (.at n val) ds = run (sysOrig G) (some n) ds := by
  have hcl := certified_run_error_free G steps hG h n g hn consume val _ _ (Nat.le_refl _) (Nat.le_refl _)
  rw [sysName_of_clean (chainLast G steps) hF consume _ _ ds _ hcl]
  exact certified_run_total G steps hG h n g hn consume val _ _ (Nat.le_refl _) (Nat.le_refl _) ds

/-- **… and region by region.** If moreover the final hierarchy is self-consistent (`wf`), every declared
    back edge runs from a loop's latch to its header (`s2`) and every container is a region (`contsOK`) —
    all three decided on the real output — then the walk that uses only the declared headers, exiting
    blocks and region targets shows exactly the input graph's trace as well. -/
theorem certified_run_region (G : Hier) (steps : List (StepTag × Hier)) (hG : flatB G = true)
    (h : chainOKc G steps = true) (hF : fuelOK (chainLast G steps) = true)
    (hwf : wf (chainLast G steps) = true) (hs2 : s2 (chainLast G steps) = true)
    (hco : contsOK (chainLast G steps) = true)
    (n : Name) (g : Blk) (hn : G.get? n = some g) (consume : Bool) (val : Val) (ds : List Nat) :
    run (sysRegion (chainLast G steps) consume) (.at n val) ds = run (sysOrig G) (some n) ds := by
  have hname := certified_run_sysName G steps hG h hF n g hn consume val
  have hcl : CleanRun (sysName (chainLast G steps) consume) (.at n val) := by
    intro ds o ho
    rw [hname ds] at ho
    exact orig_clean G hG ds n g hn o ho
  rw [Scfg.C04.runs_coincide_conv (chainLast G steps) (Scfg.C04.wf_sound _ hwf) hs2
    (Scfg.C04.contsOK_sound _ hco) consume ds _ hcl]
  exact hname ds

example : fuelOK cxH3 = true := by decide

end Scfg.C01
