import Scfg.Props.C13
/-!
# C13 — `is_reachable_dfs`: the model always answers (totality), hence `reachDfs_spec` is total
correctness

Measure: `|stack| + Σ_{members not yet seen} (|successors| + 1)`. Popping a seen name or a name
outside the graph shortens the stack; popping an unseen member pushes its successors but removes
its summand. The fuel `reachDfs` provides exceeds the initial value.
-/
namespace Scfg.C13
open Scfg Scfg.Model

/-- what is still to be paid for the members not seen so far -/
def due (lvl : List Blk) (seen : List Name) : Nat :=
  ((lvl.filter fun b => !seen.contains b.name).map fun b => b.jts.length + 1).sum

theorem due_cons_le (lvl : List Blk) (seen : List Name) (x : Name) :
    due lvl (x :: seen) ≤ due lvl seen := by
  unfold due
  induction lvl with
  | nil => simp
  | cons b t ih =>
    simp only [List.filter_cons]
    by_cases h1 : seen.contains b.name = true
    · have : (x :: seen).contains b.name = true := by
        rw [List.contains_iff_mem] at h1 ⊢; exact List.mem_cons_of_mem _ h1
      simp only [h1, this, Bool.not_true, Bool.false_eq_true, if_false]
      exact ih
    · have h1' : seen.contains b.name = false := by simpa using h1
      by_cases h2 : (x :: seen).contains b.name = true
      · simp only [h1', h2, Bool.not_true, Bool.not_false, Bool.false_eq_true, if_false, if_true,
          List.map_cons, List.sum_cons]
        omega
      · have h2' : (x :: seen).contains b.name = false := by simpa using h2
        simp only [h1', h2', Bool.not_false, if_true, List.map_cons, List.sum_cons]
        omega

/-- marking an unseen member as seen pays its summand -/
theorem due_member (lvl : List Blk) (seen : List Name) (b : Blk) (hb : b ∈ lvl)
    (hs : seen.contains b.name = false) :
    due lvl (b.name :: seen) + b.jts.length + 1 ≤ due lvl seen := by
  unfold due
  induction lvl with
  | nil => simp at hb
  | cons a t ih =>
    simp only [List.filter_cons]
    rcases List.mem_cons.mp hb with e | e
    · subst e
      have h2 : (b.name :: seen).contains b.name = true := by simp
      simp only [hs, h2, Bool.not_true, Bool.not_false, Bool.false_eq_true, if_false, if_true,
        List.map_cons, List.sum_cons]
      have := due_cons_le t seen b.name
      unfold due at this
      omega
    · have iht := ih e
      by_cases h1 : seen.contains a.name = true
      · have : (b.name :: seen).contains a.name = true := by
          rw [List.contains_iff_mem] at h1 ⊢; exact List.mem_cons_of_mem _ h1
        simp only [h1, this, Bool.not_true, Bool.false_eq_true, if_false]
        exact iht
      · have h1' : seen.contains a.name = false := by simpa using h1
        by_cases h2 : (b.name :: seen).contains a.name = true
        · simp only [h1', h2, Bool.not_true, Bool.not_false, Bool.false_eq_true, if_false, if_true,
            List.map_cons, List.sum_cons]
          omega
        · have h2' : (b.name :: seen).contains a.name = false := by simpa using h2
          simp only [h1', h2', Bool.not_false, if_true, List.map_cons, List.sum_cons]
          omega

theorem jt_len_le (b : Blk) : b.jt.length ≤ b.jts.length := by
  unfold Blk.jt; exact List.length_filter_le _ _

theorem reachGo_fuel (H : Hier) (c end_ : Name) :
    ∀ (f : Nat) (stack seen : List Name), stack.length + due (H.level c) seen < f →
      ∃ r, reachGo (succIn' H c) end_ f stack seen = .ok r := by
  intro f
  induction f with
  | zero => intro stack seen h; omega
  | succ f ih =>
    intro stack seen h
    cases stack with
    | nil => exact ⟨false, rfl⟩
    | cons blk stack =>
      simp only [reachGo]
      split
      · exact ih _ _ (by simp only [List.length_cons] at h; omega)
      · next hseen =>
        split
        · exact ⟨true, rfl⟩
        · refine ih _ _ ?_
          simp only [List.length_append, List.length_reverse, List.length_cons] at h ⊢
          have hs : seen.contains blk = false := by simpa using hseen
          unfold succIn'
          cases hg : H.getIn? c blk with
          | none =>
            simp only [List.length_nil]
            have := due_cons_le (H.level c) seen blk
            omega
          | some b =>
            simp only
            have hbm : b ∈ H.level c := by
              have h1 : b ∈ H := List.mem_of_find?_eq_some hg
              have h2 := List.find?_some hg
              unfold Hier.level
              exact List.mem_filter.mpr ⟨h1, by simp only [Bool.and_eq_true, beq_iff_eq] at h2; simp [h2.1]⟩
            have hbn : b.name = blk := by
              have h2 := List.find?_some hg
              simp only [Bool.and_eq_true, beq_iff_eq] at h2; exact h2.2
            have := due_member (H.level c) seen b hbm (by rw [hbn]; exact hs)
            rw [hbn] at this
            have := jt_len_le b
            omega

theorem due_nil_le (lvl : List Blk) :
    due lvl [] ≤ (lvl.foldl (fun n x => n + x.jts.length) 0) + lvl.length := by
  have key : ∀ (l : List Blk) (acc : Nat),
      ((l.map fun b => b.jts.length + 1).sum) + acc = (l.foldl (fun n x => n + x.jts.length) acc) + l.length := by
    intro l
    induction l with
    | nil => intro acc; simp
    | cons a t ih =>
      intro acc
      simp only [List.map_cons, List.sum_cons, List.foldl_cons, List.length_cons]
      have := ih (acc + a.jts.length)
      omega
  unfold due
  have hf : (lvl.filter fun b => !([] : List Name).contains b.name) = lvl := by
    apply List.filter_eq_self.mpr; intro b _; simp
  rw [hf]
  have := key lvl 0
  omega

/-- **`is_reachable_dfs` (model) always answers** when `begin` is a block of the graph; with
    `reachDfs_spec` the answer is `true` exactly when a path of at least one arc exists. -/
theorem reachDfs_total (H : Hier) (c a b : Name) (blk : Blk) (ha : H.getIn? c a = some blk) :
    ∃ r, reachDfs H c a b = .ok r ∧ (r = true ↔ ReachS (succIn' H c) a b) := by
  have hex : ∃ r, reachDfs H c a b = .ok r := by
    unfold reachDfs getIn
    simp only [ha, bind, Except.bind]
    refine reachGo_fuel H c b _ _ _ ?_
    have h1 := due_nil_le (H.level c)
    have h2 := jt_len_le blk
    simp only [List.length_reverse]
    omega
  obtain ⟨r, hr⟩ := hex
  exact ⟨r, hr, reachDfs_spec H c a b r hr⟩

end Scfg.C13
