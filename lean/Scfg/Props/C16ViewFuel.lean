import Scfg.Props.C16Fuel
/-!
# C16 — the FIFO loop of the concealed view answers whenever it has fuel for what is pending

`viewGo_total_given_fuel`: the loop of the `region_view_iterator` model, started with more fuel
than "queue length + view targets of the level's members not yet seen", answers whenever
`viewTargets` answers for every member of the level (i.e. every region's exiting block is found).
Partial: that the fuel `viewIter` passes (`|level| + Σ_H |_jump_targets| + 4`) always exceeds that
bound is not proved here (it needs the exiting blocks of distinct regions to be distinct entries).
-/
namespace Scfg.C16
open Scfg Scfg.Model

def vlen (H : Hier) (b : Blk) : Nat := match viewTargets H b with | .ok ts => ts.length | .error _ => 0

/-- view targets of the members of `L` not yet seen -/
def pendV (H : Hier) (seen : List Name) : List Blk → Nat
  | [] => 0
  | a :: L => (if seen.contains a.name then 0 else vlen H a) + pendV H seen L

theorem pendV_mono (H : Hier) (seen : List Name) (n : Name) : ∀ L, pendV H (n :: seen) L ≤ pendV H seen L
  | [] => by simp [pendV]
  | a :: L => by
    have := pendV_mono H seen n L
    simp only [pendV, List.contains_cons]
    split <;> split <;> simp_all <;> omega

theorem pendV_take (H : Hier) (seen : List Name) (n : Name) (hn : n ∉ seen) (b : Blk) (hb : b.name = n) :
    ∀ L, b ∈ L → pendV H (n :: seen) L + vlen H b ≤ pendV H seen L
  | [], h => by simp at h
  | a :: L, h => by
    rcases List.mem_cons.mp h with e | e
    · subst e
      have := pendV_mono H seen n L
      have h1 : (n :: seen).contains b.name = true := by simp [hb]
      have h2 : seen.contains b.name = false := by
        rw [hb]; simpa [List.contains_iff_mem] using hn
      simp only [pendV, h1, h2, if_true]
      simp
      omega
    · have := pendV_take H seen n hn b hb L e
      have hm := pendV_mono H seen n [a]
      simp only [pendV] at hm ⊢
      omega

theorem viewGo_total_given_fuel (H : Hier) (c : Name)
    (hin : ∀ b ∈ H.level c, ∃ ts, viewTargets H b = .ok ts) :
    ∀ (g : Nat) (queue seen out : List Name), queue.length + pendV H seen (H.level c) < g →
      ∃ r, viewGo H c g queue seen out = .ok r := by
  intro g
  induction g with
  | zero => intro q s o h; omega
  | succ g ih =>
    intro queue seen out h
    cases queue with
    | nil => exact ⟨out, by simp [viewGo]⟩
    | cons name rest =>
      simp only [viewGo]
      simp only [List.length_cons] at h
      split
      · exact ih rest seen out (by omega)
      · next hs =>
        have hns : name ∉ seen := by simpa [mem, List.contains_iff_mem] using hs
        split
        · have := pendV_mono H seen name (H.level c)
          exact ih rest (name :: seen) out (by omega)
        · next b hb =>
          obtain ⟨hmem, hname⟩ := getIn_level H c name b hb
          have hp := pendV_take H seen name hns b hname (H.level c) hmem
          obtain ⟨ts, hts⟩ := hin b hmem
          have hv : vlen H b = ts.length := by simp [vlen, hts]
          simp only [hts]
          exact ih _ _ _ (by simp only [List.length_append]; omega)

/-- non-vacuity: the premises hold inside the loop region of the hierarchy of Props/C16Iter.lean -/
example : ∃ r, viewGo okH2 "loop_region_0" 10 ["1"] [] [] = .ok r := by
  refine viewGo_total_given_fuel okH2 "loop_region_0" ?_ 10 ["1"] [] [] (by decide)
  intro b hb
  have e2 : okH2.level "loop_region_0" = [okH2[3]] := by decide
  rw [e2] at hb
  simp only [List.mem_singleton] at hb
  subst hb
  have r3 : (okH2[3]).isRegion = false := by decide
  exact ⟨(okH2[3]).jt, by simp [viewTargets, r3]⟩

end Scfg.C16
