import Scfg.Model.Cfg2Ast
/-!
# C10, hygiene — what the model of the code generator can emit (a priori)

`codegen_gen`: whenever the model of `SCFG2ASTTransformer.codegen` answers — for **every**
hierarchy, payload and nesting depth — each statement it emits is, at every nesting level of the
emitted `if` / `while` statements, of one of these shapes:

* a statement (or expression statement) of some original block's payload,
* `__scfg_return_value__ = <value of a payload return>` or `return __scfg_return_value__`,
* `<v> = <int>` for an entry `(v, int)` of some synthetic assignment block,
* `__scfg_loop_cont_<k>__ = True`, `while __scfg_loop_cont_<k>__: …`, `__scfg_loop_cont_<k>__ = not <var>`,
* `pass`, or an `if` whose arms are again of these shapes.

Hence (`introduced_reserved`) the only names the generator itself binds are the return-value
variable, the loop-continuation variables and the variables of synthetic assignment blocks; all of
them start with `__scfg_` as soon as the assignment blocks' variables do (they come from
`NameGenerator.new_var_name`, C18).
-/
namespace Scfg.C10
open Scfg Scfg.Model Scfg.Py

/-- the shapes of statements the generator emits -/
inductive Gen (H : Hier) (pay : Payload) : S → Prop
  | payload {n i} : i ∈ pay.get n → Gen H pay (instrToS i)
  | retAsg {v} : Gen H pay (.assign retVar v)
  | retStmt : Gen H pay (.ret (.var retVar))
  | asg {b p} : b ∈ H → p ∈ b.asg → Gen H pay (.assign p.1 (.cst (Cst.int p.2)))
  | contInit {k} : Gen H pay (.assign (contVar k) (.cst Cst.tt))
  | loop {k body} : (∀ s ∈ body, Gen H pay s) → Gen H pay (.whileS (.var (contVar k)) body [])
  | latch {k v} : Gen H pay (.assign (contVar k) (.notE (.var v)))
  | pass : Gen H pay .pass
  | ifS {t body orelse} : (∀ s ∈ body, Gen H pay s) → (∀ s ∈ orelse, Gen H pay s) →
      Gen H pay (.ifS t body orelse)

theorem lookupScoped_mem (H : Hier) : ∀ (stack : List Name) (n : Name) (b : Blk),
    lookupScoped H stack n = .ok b → b ∈ H := by
  intro stack
  induction stack with
  | nil => intro n b h; simp [lookupScoped] at h
  | cons c rest ih =>
    intro n b h
    simp only [lookupScoped] at h
    split at h
    · next x hx =>
      simp only [Except.ok.injEq] at h
      subst h
      unfold Hier.getIn? at hx
      exact List.mem_of_find?_eq_some hx
    · exact ih n b h

theorem mem_of_dropLast {α : Type} (xs : List α) (x : α) (h : x ∈ xs.dropLast) : x ∈ xs :=
  List.dropLast_subset xs h

/-- one item of the linear walk over a level -/
def viewStep (H : Hier) (pay : Payload) (f : Nat) (c : Name) (acc : List S × CG) (n : Name) :
    M (List S × CG) := do
  let b ← getIn "codegen" H c n
  if b.isRegion && b.rkind == "branch" then pure acc
  else do
    let (ss, cg') ← codegenBlk H pay f acc.2 b
    pure (acc.1 ++ ss, cg')

theorem codegenView_succ (H : Hier) (pay : Payload) (f : Nat) (cg : CG) (c : Name) :
    codegenView H pay (f + 1) cg c = (do
      let names ← viewIter H c
      names.foldlM (viewStep H pay f c) ([], cg)) := by
  rw [codegenView]; rfl

/-- the three mutually recursive functions, together, by induction on the fuel -/
theorem codegen_all (H : Hier) (pay : Payload) : ∀ f : Nat,
    (∀ cg b ss cg', b ∈ H → codegenBlk H pay f cg b = .ok (ss, cg') → ∀ s ∈ ss, Gen H pay s) ∧
    (∀ cg b ts ss cg', cascade H pay f cg b ts = .ok (ss, cg') → ∀ s ∈ ss, Gen H pay s) ∧
    (∀ cg c ss cg', codegenView H pay f cg c = .ok (ss, cg') → ∀ s ∈ ss, Gen H pay s) := by
  intro f
  induction f with
  | zero =>
    refine ⟨?_, ?_, ?_⟩
    · intro cg b ss cg' _ h; simp [codegenBlk] at h
    · intro cg b ts ss cg' h; simp [cascade] at h
    · intro cg c ss cg' h; simp [codegenView] at h
  | succ f ih =>
    obtain ⟨ihB, ihC, ihV⟩ := ih
    refine ⟨?_, ?_, ?_⟩
    · -- codegenBlk
      intro cg b ss cg' hb h
      rw [codegenBlk] at h
      split at h
      · -- ast
        split at h
        · -- two successors: an `if`
          dsimp only at h
          split at h
          · simp at h
          · next last hlast =>
            simp only [bind, Except.bind] at h
            cases h0 : lookupScoped H cg.stack (b.jt[0]!) with
            | error e => simp only [h0] at h; cases h
            | ok t0 =>
              simp only [h0] at h
              cases h1 : codegenBlk H pay f cg t0 with
              | error e => simp [h1] at h
              | ok r1 =>
                obtain ⟨body, cg1⟩ := r1
                simp only [h1] at h
                cases h2 : lookupScoped H cg1.stack (b.jt[1]!) with
                | error e => simp only [h2] at h; cases h
                | ok t1 =>
                  simp only [h2] at h
                  cases h3 : codegenBlk H pay f cg1 t1 with
                  | error e => simp [h3] at h
                  | ok r3 =>
                    obtain ⟨orelse, cg3⟩ := r3
                    simp only [h3, pure, Except.pure, Except.ok.injEq, Prod.mk.injEq] at h
                    obtain ⟨hss, _⟩ := h
                    subst hss
                    intro s hs
                    rcases List.mem_append.mp hs with e | e
                    · obtain ⟨i, hi, rfl⟩ := List.mem_map.mp e
                      exact Gen.payload (n := b.name) (mem_of_dropLast _ _ hi)
                    · simp only [List.mem_singleton] at e
                      subst e
                      exact Gen.ifS (ihB _ _ _ _ (lookupScoped_mem H _ _ _ h0) h1)
                        (ihB _ _ _ _ (lookupScoped_mem H _ _ _ h2) h3)
        · split at h
          · -- one successor
            dsimp only at h
            split at h
            · next v hv =>
              simp only [pure, Except.pure, Except.ok.injEq, Prod.mk.injEq] at h
              obtain ⟨hss, _⟩ := h
              subst hss
              intro s hs
              rcases List.mem_append.mp hs with e | e
              · obtain ⟨i, hi, rfl⟩ := List.mem_map.mp e
                exact Gen.payload (n := b.name) (mem_of_dropLast _ _ hi)
              · simp only [List.mem_singleton] at e
                subst e
                exact Gen.retAsg
            · simp only [pure, Except.pure, Except.ok.injEq, Prod.mk.injEq] at h
              obtain ⟨hss, _⟩ := h
              subst hss
              intro s hs
              obtain ⟨i, hi, rfl⟩ := List.mem_map.mp hs
              exact Gen.payload (n := b.name) hi
          · split at h
            · dsimp only at h
              simp only [pure, Except.pure, Except.ok.injEq, Prod.mk.injEq] at h
              obtain ⟨hss, _⟩ := h
              subst hss
              intro s hs
              obtain ⟨i, hi, rfl⟩ := List.mem_map.mp hs
              exact Gen.payload (n := b.name) hi
            · simp at h
      · -- region
        split at h
        · simp only [bind, Except.bind] at h
          cases hv : codegenView H pay f { cg with stack := b.name :: cg.stack } b.name with
          | error e => simp [hv] at h
          | ok r =>
            obtain ⟨body, cg2⟩ := r
            simp only [hv, pure, Except.pure, Except.ok.injEq, Prod.mk.injEq] at h
            obtain ⟨hss, _⟩ := h
            subst hss
            exact ihV _ _ _ _ hv
        · split at h
          · simp only [bind, Except.bind] at h
            cases hv : codegenView H pay f
                { stack := b.name :: cg.stack, counter := cg.counter + 1 } b.name with
            | error e => simp [hv] at h
            | ok r =>
              obtain ⟨body, cg2⟩ := r
              simp only [hv, pure, Except.pure, Except.ok.injEq, Prod.mk.injEq] at h
              obtain ⟨hss, _⟩ := h
              subst hss
              intro s hs
              simp only [List.mem_cons, List.mem_nil_iff, or_false] at hs
              rcases hs with rfl | rfl
              · exact Gen.contInit
              · exact Gen.loop (ihV _ _ _ _ hv)
          · simp at h
      · -- synthAssign
        simp only [pure, Except.pure, Except.ok.injEq, Prod.mk.injEq] at h
        obtain ⟨hss, _⟩ := h
        subst hss
        intro s hs
        obtain ⟨p, hp, rfl⟩ := List.mem_map.mp hs
        exact Gen.asg hb hp
      · simp only [pure, Except.pure, Except.ok.injEq, Prod.mk.injEq] at h
        obtain ⟨hss, _⟩ := h
        subst hss
        intro s hs; simp at hs
      · simp only [pure, Except.pure, Except.ok.injEq, Prod.mk.injEq] at h
        obtain ⟨hss, _⟩ := h
        subst hss
        intro s hs
        simp only [List.mem_singleton] at hs
        subst hs; exact Gen.pass
      · simp only [pure, Except.pure, Except.ok.injEq, Prod.mk.injEq] at h
        obtain ⟨hss, _⟩ := h
        subst hss
        intro s hs
        simp only [List.mem_singleton] at hs
        subst hs; exact Gen.retStmt
      · -- latch
        split at h
        · simp at h
        · simp only [pure, Except.pure, Except.ok.injEq, Prod.mk.injEq] at h
          obtain ⟨hss, _⟩ := h
          subst hss
          intro s hs
          simp only [List.mem_singleton] at hs
          subst hs; exact Gen.latch
      · exact ihC _ _ _ _ _ h
      · exact ihC _ _ _ _ _ h
      · simp at h
    · -- cascade
      intro cg b ts ss cg' h
      cases ts with
      | nil => simp [cascade] at h
      | cons t rest =>
        cases rest with
        | nil =>
          simp only [cascade, bind, Except.bind] at h
          cases h0 : lookupScoped H cg.stack t with
          | error e => simp [h0] at h
          | ok tb =>
            simp only [h0] at h
            exact ihB _ _ _ _ (lookupScoped_mem H _ _ _ h0) h
        | cons t2 rest2 =>
          simp only [cascade, bind, Except.bind] at h
          cases h0 : lookupScoped H cg.stack t with
          | error e => simp [h0] at h
          | ok tb =>
            simp only [h0] at h
            cases h1 : codegenBlk H pay f cg tb with
            | error e => simp [h1] at h
            | ok r1 =>
              obtain ⟨body, cg1⟩ := r1
              simp only [h1] at h
              cases h2 : cascade H pay f cg1 b (t2 :: rest2) with
              | error e => simp [h2] at h
              | ok r2 =>
                obtain ⟨orelse, cg2⟩ := r2
                simp only [h2, pure, Except.pure, Except.ok.injEq, Prod.mk.injEq] at h
                obtain ⟨hss, _⟩ := h
                subst hss
                intro s hs
                simp only [List.mem_singleton] at hs
                subst hs
                exact Gen.ifS (ihB _ _ _ _ (lookupScoped_mem H _ _ _ h0) h1) (ihC _ _ _ _ _ h2)
    · -- codegenView
      intro cg c ss cg' h
      rw [codegenView_succ] at h
      simp only [bind, Except.bind] at h
      cases hv : viewIter H c with
      | error e => simp only [hv] at h; cases h
      | ok names =>
        simp only [hv] at h
        -- the fold keeps the invariant "everything emitted so far is Gen"
        have fold : ∀ (ns : List Name) (acc res : List S × CG),
            (∀ s ∈ acc.1, Gen H pay s) →
            ns.foldlM (viewStep H pay f c) acc = .ok res → ∀ s ∈ res.1, Gen H pay s := by
          intro ns
          induction ns with
          | nil =>
            intro acc res hacc hf
            simp only [List.foldlM_nil, pure, Except.pure, Except.ok.injEq] at hf
            subst hf; exact hacc
          | cons n ns ihn =>
            intro acc res hacc hf
            simp only [List.foldlM_cons, bind, Except.bind] at hf
            cases hstep : viewStep H pay f c acc n with
            | error e => simp only [hstep] at hf; cases hf
            | ok acc' =>
              simp only [hstep] at hf
              refine ihn acc' res ?_ hf
              -- one step
              simp only [viewStep, bind, Except.bind] at hstep
              cases hg : getIn "codegen" H c n with
              | error e => simp only [hg] at hstep; cases hstep
              | ok b =>
                simp only [hg] at hstep
                have hbm : b ∈ H := by
                  simp only [getIn] at hg
                  split at hg
                  · cases hg
                  · next x hx =>
                    simp only [Except.ok.injEq] at hg
                    subst hg
                    unfold Hier.getIn? at hx
                    exact List.mem_of_find?_eq_some hx
                split at hstep
                · simp only [pure, Except.pure, Except.ok.injEq] at hstep
                  subst hstep; exact hacc
                · cases hb : codegenBlk H pay f acc.2 b with
                  | error e => simp only [hb] at hstep; cases hstep
                  | ok r =>
                    obtain ⟨ss1, cg1⟩ := r
                    simp only [hb, pure, Except.pure, Except.ok.injEq] at hstep
                    subst hstep
                    intro s hs
                    rcases List.mem_append.mp hs with e | e
                    · exact hacc s e
                    · exact ihB _ _ _ _ hbm hb s e
        exact fold names ([], cg) (ss, cg') (by simp) h

/-- **What the generator can emit** (model, every hierarchy and payload). -/
theorem codegen_gen (H : Hier) (top : Name) (pay : Payload) (out : List S)
    (h : codegenTop H top pay = .ok out) : ∀ s ∈ out, Gen H pay s := by
  unfold codegenTop at h
  simp only [bind, Except.bind] at h
  cases hv : codegenView H pay (4 * H.length + 16) { counter := 0, stack := [top] } top with
  | error e => simp [hv] at h
  | ok r =>
    obtain ⟨body, cg⟩ := r
    simp only [hv, pure, Except.pure, Except.ok.injEq] at h
    subst h
    exact (codegen_all H pay _).2.2 _ _ _ _ hv

/-- the names a statement binds by plain assignment, at any depth -/
def binds : S → List Name
  | .assign x _ => [x]
  | .ifS _ b o => bindsL b ++ bindsL o
  | .whileS _ b o => bindsL b ++ bindsL o
  | .forS _ x _ b o => x :: (bindsL b ++ bindsL o)
  | _ => []
where bindsL : List S → List Name
  | [] => []
  | s :: ss => binds s ++ bindsL ss

theorem mem_bindsL (ss : List S) (x : Name) : x ∈ binds.bindsL ss ↔ ∃ s ∈ ss, x ∈ binds s := by
  induction ss with
  | nil => simp [binds.bindsL]
  | cons s ss ih => simp [binds.bindsL, ih]

/-- the reserved names: return value, loop continuation flags, variables of assignment blocks -/
def Reserved (H : Hier) (x : Name) : Prop :=
  x = retVar ∨ (∃ k, x = contVar k) ∨ ∃ b ∈ H, ∃ p ∈ b.asg, x = p.1

/-- **Hygiene.** Every name bound by an emitted statement is bound by a statement of an original
    block's payload, or is reserved. -/
theorem introduced_reserved (H : Hier) (pay : Payload) (s : S) (h : Gen H pay s) :
    ∀ x ∈ binds s, Reserved H x ∨ ∃ n i, i ∈ pay.get n ∧ x ∈ binds (instrToS i) := by
  induction h with
  | payload hi => intro x hx; exact Or.inr ⟨_, _, hi, hx⟩
  | retAsg => intro x hx; simp only [binds, List.mem_singleton] at hx; exact Or.inl (Or.inl hx)
  | retStmt => intro x hx; unfold binds at hx; simp at hx
  | asg hb hp =>
    intro x hx
    simp only [binds, List.mem_singleton] at hx
    exact Or.inl (Or.inr (Or.inr ⟨_, hb, _, hp, hx⟩))
  | contInit => intro x hx; simp only [binds, List.mem_singleton] at hx; exact Or.inl (Or.inr (Or.inl ⟨_, hx⟩))
  | loop _ ih =>
    intro x hx
    simp only [binds, binds.bindsL, List.append_nil] at hx
    obtain ⟨s', hs', hxs⟩ := (mem_bindsL _ _).mp hx
    exact ih s' hs' x hxs
  | latch => intro x hx; simp only [binds, List.mem_singleton] at hx; exact Or.inl (Or.inr (Or.inl ⟨_, hx⟩))
  | pass => intro x hx; unfold binds at hx; simp at hx
  | ifS _ _ ih1 ih2 =>
    intro x hx
    simp only [binds, List.mem_append] at hx
    rcases hx with e | e
    · obtain ⟨s', hs', hxs⟩ := (mem_bindsL _ _).mp e
      exact ih1 s' hs' x hxs
    · obtain ⟨s', hs', hxs⟩ := (mem_bindsL _ _).mp e
      exact ih2 s' hs' x hxs

/-- the generator's own variables lie in the reserved `__scfg_` namespace -/
theorem retVar_prefix : ∃ r, retVar = "__scfg_" ++ r := ⟨"return_value__", by simp [retVar]⟩
theorem contVar_prefix (k : Int) : ∃ r, contVar k = "__scfg_" ++ r := by
  refine ⟨"loop_cont_" ++ toString k ++ "__", ?_⟩
  unfold contVar
  have h : ("__scfg_loop_cont_" : String) = "__scfg_" ++ "loop_cont_" := by simp
  rw [h]
  simp only [String.append_assoc]

end Scfg.C10
