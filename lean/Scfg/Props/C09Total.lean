import Scfg.Props.C09
/-!
# C09 — "building the graph never fails", a priori for the model

`buildBlocks_total`: for **every** instruction stream and **every** opcode classification, if the
last instruction of the stream is one the tables classify (a conditional jump, an unconditional
jump or a return — code objects of the domain end in `RETURN_*` or `JUMP_BACKWARD`), the model of
`FlowInfo.from_bytecode` followed by `build_basicblocks` answers: every name lookup it performs
(begin of a block, every recorded jump target, the fall-through successor) finds its block.
Whether the tables classify the opcodes of the running interpreter correctly is the regenerated
table check of the harness; this theorem needs no assumption about that.
-/
namespace Scfg.C09
open Scfg Scfg.Model

/-- invariant of the instruction loop: every recorded jump target is a block start -/
def TargetsIn (fi : FlowInfo) : Prop := ∀ p ∈ fi.jumpInsts, ∀ t ∈ p.2, t ∈ fi.blockOffsets

theorem mem_addOff (s : List Nat) (o x : Nat) : x ∈ addOff s o ↔ x ∈ s ∨ x = o := by
  unfold addOff
  split
  · next h =>
    have : o ∈ s := by simpa [List.contains_iff_mem] using h
    constructor
    · exact Or.inl
    · rintro (h | h)
      · exact h
      · exact h ▸ this
  · simp

theorem mem_foldl_addOff (ts : List Nat) : ∀ (s : List Nat) (x : Nat),
    x ∈ ts.foldl addOff s ↔ x ∈ s ∨ x ∈ ts := by
  induction ts with
  | nil => intro s x; simp
  | cons t ts ih =>
    intro s x
    simp only [List.foldl_cons, ih, mem_addOff, List.mem_cons]
    constructor
    · rintro ((h | h) | h)
      · exact Or.inl h
      · exact Or.inr (Or.inl h)
      · exact Or.inr (Or.inr h)
    · rintro (h | h | h)
      · exact Or.inl (Or.inl h)
      · exact Or.inl (Or.inr h)
      · exact Or.inr h

theorem mem_jumpSet (j : List (Nat × List Nat)) (k : Nat) (v : List Nat) (p : Nat × List Nat)
    (h : p ∈ jumpSet j k v) : p ∈ j ∨ p = (k, v) := by
  unfold jumpSet at h
  split at h
  · obtain ⟨q, hq, hqp⟩ := List.mem_map.mp h
    split at hqp
    · exact Or.inr hqp.symm
    · exact Or.inl (hqp ▸ hq)
  · rcases List.mem_append.mp h with e | e
    · exact Or.inl e
    · exact Or.inr (by simpa using e)

theorem key_jumpSet (j : List (Nat × List Nat)) (k : Nat) (v : List Nat) :
    (jumpSet j k v).any (·.1 == k) = true := by
  unfold jumpSet
  split
  · next h =>
    simp only [List.any_eq_true, beq_iff_eq] at h ⊢
    obtain ⟨q, hq, hk⟩ := h
    exact ⟨(k, v), List.mem_map.mpr ⟨q, hq, by simp [hk]⟩, rfl⟩
  · simp

/-- marking the start of a block at offset 0 and at jump targets -/
def markStart (fi : FlowInfo) (inst : Ins) : FlowInfo :=
  if inst.off == 0 || inst.isTarget then { fi with blockOffsets := addOff fi.blockOffsets inst.off } else fi

/-- recording a jump instruction with its targets -/
def addJ (o : Nat) (fi : FlowInfo) (ts : List Nat) : FlowInfo :=
  { fi with blockOffsets := ts.foldl addOff fi.blockOffsets, jumpInsts := jumpSet fi.jumpInsts o ts }

def classify (T : OpTables) (fi : FlowInfo) (inst : Ins) : FlowInfo :=
  if T.cond.contains inst.op then addJ inst.off fi [inst.off + 2, inst.arg]
  else if T.uncond.contains inst.op then addJ inst.off fi [inst.arg]
  else if T.term.contains inst.op then addJ inst.off fi []
  else fi

/-- one iteration of the loop in `from_bytecode` -/
def stepIns (T : OpTables) (fi : FlowInfo) (inst : Ins) : FlowInfo :=
  { classify T (markStart fi inst) inst with lastOffset := inst.off }

theorem fromBytecode_eq (T : OpTables) (is : List Ins) : fromBytecode T is = is.foldl (stepIns T) {} := rfl

def classified (T : OpTables) (i : Ins) : Bool :=
  T.cond.contains i.op || T.uncond.contains i.op || T.term.contains i.op

theorem addJ_inv (fi : FlowInfo) (o : Nat) (ts : List Nat) (h : TargetsIn fi) : TargetsIn (addJ o fi ts) := by
  intro p hp t ht
  simp only [addJ] at hp ⊢
  rw [mem_foldl_addOff]
  rcases mem_jumpSet _ _ _ _ hp with e | e
  · exact Or.inl (h p e t ht)
  · subst e; exact Or.inr ht

theorem markStart_inv (fi : FlowInfo) (inst : Ins) (h : TargetsIn fi) : TargetsIn (markStart fi inst) := by
  unfold markStart
  split
  · intro p hp t ht
    exact (mem_addOff _ _ _).mpr (Or.inl (h p hp t ht))
  · exact h

theorem classify_inv (T : OpTables) (fi : FlowInfo) (inst : Ins) (h : TargetsIn fi) :
    TargetsIn (classify T fi inst) := by
  unfold classify
  split
  · exact addJ_inv _ _ _ h
  · split
    · exact addJ_inv _ _ _ h
    · split
      · exact addJ_inv _ _ _ h
      · exact h

theorem stepIns_inv (T : OpTables) (fi : FlowInfo) (inst : Ins) (h : TargetsIn fi) :
    TargetsIn (stepIns T fi inst) := by
  have := classify_inv T _ inst (markStart_inv fi inst h)
  intro p hp t ht
  exact this p hp t ht

theorem foldl_inv (T : OpTables) (is : List Ins) : ∀ fi, TargetsIn fi → TargetsIn (is.foldl (stepIns T) fi) := by
  induction is with
  | nil => intro fi h; exact h
  | cons i is ih => intro fi h; exact ih _ (stepIns_inv T fi i h)

theorem classify_key (T : OpTables) (fi : FlowInfo) (inst : Ins) (hc : classified T inst = true) :
    (classify T fi inst).jumpInsts.any (·.1 == inst.off) = true := by
  unfold classify
  simp only [classified, Bool.or_eq_true] at hc
  split
  · exact key_jumpSet _ _ _
  · split
    · exact key_jumpSet _ _ _
    · split
      · exact key_jumpSet _ _ _
      · simp_all

/-- after a stream whose last instruction is classified: the recorded targets are block starts,
    the last offset is that instruction's, and it is recorded as a jump / return -/
theorem fromBytecode_last (T : OpTables) (init : List Ins) (last : Ins) (hc : classified T last = true) :
    let fi := fromBytecode T (init ++ [last])
    TargetsIn fi ∧ fi.lastOffset = last.off ∧ fi.jumpInsts.any (·.1 == last.off) = true := by
  simp only [fromBytecode_eq, List.foldl_append, List.foldl_cons, List.foldl_nil]
  refine ⟨stepIns_inv T _ last (foldl_inv T init {} (by intro p hp; simp at hp)), rfl, ?_⟩
  exact classify_key T _ last hc

theorem mapM_ok {α β : Type} (g : α → M β) : ∀ (xs : List α), (∀ x ∈ xs, ∃ y, g x = .ok y) →
    ∃ ys, xs.mapM g = .ok ys := by
  intro xs
  induction xs with
  | nil => intro _; exact ⟨[], by simp [pure, Except.pure]⟩
  | cons x xs ih =>
    intro h
    obtain ⟨y, hy⟩ := h x (by simp)
    obtain ⟨ys, hys⟩ := ih (fun z hz => h z (List.mem_cons_of_mem _ hz))
    exact ⟨y :: ys, by simp [List.mapM_cons, hy, hys, bind, Except.bind, pure, Except.pure]⟩

/-! `build_basicblocks`, restated with named parts (definitionally the model) -/

def namesP (offsets : List Nat) : List (Nat × Name) :=
  ((List.range offsets.length).zip offsets).map fun p => (p.2, "python_bytecode_block_" ++ toString p.1)

def nameOfP (offsets : List Nat) (o : Nat) : M Name :=
  match (namesP offsets).find? (·.1 == o) with
  | some p => pure p.2
  | none => throw (keyErrorAt "build_basicblocks")

def targetsP (fi : FlowInfo) (offsets : List Nat) (be : Nat × Nat) : M (List Name) :=
  match fi.jumpInsts.find? (·.1 == be.2 - 2) with
  | none => do let n ← nameOfP offsets be.2; pure [n]
  | some p => p.2.mapM (nameOfP offsets)

def blockP (fi : FlowInfo) (offsets : List Nat) (be : Nat × Nat) : M Blk := do
  let name ← nameOfP offsets be.1
  let targets ← targetsP fi offsets be
  pure ({ cont := "meta_region_0", name := name, kind := .bytecode, jts := targets,
          pay := [Int.ofNat be.1, Int.ofNat be.2] } : Blk)

theorem buildBlocks_eq (fi : FlowInfo) :
    buildBlocks fi = (blockRanges fi).mapM (blockP fi (sortNat fi.blockOffsets)) := by
  unfold buildBlocks
  simp only
  congr 1
  funext be
  simp only [blockP, targetsP, nameOfP, namesP]
  cases fi.jumpInsts.find? (·.1 == be.2 - 2) with
  | none => simp only [bind_assoc, pure_bind]; rfl
  | some p => rfl

/-- the name table of `build_basicblocks` knows every block offset -/
theorem nameOfP_ok (offsets : List Nat) (o : Nat) (h : o ∈ offsets) : ∃ n, nameOfP offsets o = .ok n := by
  unfold nameOfP
  cases hf : (namesP offsets).find? (·.1 == o) with
  | some p => exact ⟨p.2, rfl⟩
  | none =>
    exfalso
    rw [List.find?_eq_none] at hf
    have hz : o ∈ ((List.range offsets.length).zip offsets).map (·.2) := by
      rw [List.map_snd_zip (by simp)]
      exact h
    obtain ⟨q, hq, hqo⟩ := List.mem_map.mp hz
    have := hf (q.2, "python_bytecode_block_" ++ toString q.1) (List.mem_map.mpr ⟨q, hq, rfl⟩)
    simp [hqo] at this

/-- **Building the graph never fails** (model): every stream whose last instruction is classified
    by the tables yields a graph. -/
theorem buildBlocks_total (T : OpTables) (init : List Ins) (last : Ins) (hc : classified T last = true) :
    ∃ bs, buildBlocks (fromBytecode T (init ++ [last])) = .ok bs := by
  obtain ⟨hin, hlast, hkey⟩ := fromBytecode_last T init last hc
  generalize fromBytecode T (init ++ [last]) = fi at hin hlast hkey
  rw [buildBlocks_eq]
  apply mapM_ok
  intro be hbe
  rw [blockRanges_eq] at hbe
  have hz := List.of_mem_zip hbe
  have h1 : be.1 ∈ sortNat fi.blockOffsets := hz.1
  have h2 : be.2 ∈ sortNat fi.blockOffsets ∨ be.2 = fi.lastOffset + 2 := by
    rcases List.mem_append.mp hz.2 with e | e
    · exact Or.inl (List.mem_of_mem_drop e)
    · exact Or.inr (by simpa using e)
  obtain ⟨n1, hn1⟩ := nameOfP_ok _ _ h1
  have hsucc : ∃ ts, targetsP fi (sortNat fi.blockOffsets) be = .ok ts := by
    unfold targetsP
    cases hf : fi.jumpInsts.find? (·.1 == be.2 - 2) with
    | some p =>
      simp only
      apply mapM_ok
      intro t ht
      have hpm := List.mem_of_find?_eq_some hf
      exact nameOfP_ok _ _ ((mem_sortNat _ _).mpr (hin p hpm t ht))
    | none =>
      simp only
      rcases h2 with e | e
      · obtain ⟨n, hn⟩ := nameOfP_ok _ _ e
        exact ⟨[n], by simp [hn, pure, Except.pure, bind, Except.bind]⟩
      · exfalso
        rw [e, hlast] at hf
        simp only [Nat.add_sub_cancel] at hf
        rw [List.find?_eq_none] at hf
        simp only [List.any_eq_true] at hkey
        obtain ⟨q, hq, hqk⟩ := hkey
        exact hf q hq hqk
  obtain ⟨ts, hts⟩ := hsucc
  refine ⟨{ cont := "meta_region_0", name := n1, kind := .bytecode, jts := ts,
            pay := [Int.ofNat be.1, Int.ofNat be.2] }, ?_⟩
  simp [blockP, hn1, hts, bind, Except.bind, pure, Except.pure]

/-! Non-vacuity: a two-instruction stream (`LOAD; RETURN_VALUE`) is classified at its end. -/
example : classified { cond := ["POP_JUMP_IF_FALSE"], uncond := ["JUMP_FORWARD"], term := ["RETURN_VALUE"] }
    { off := 2, op := "RETURN_VALUE", arg := 0, isTarget := false } = true := by decide

end Scfg.C09
