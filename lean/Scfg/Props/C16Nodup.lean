import Scfg.Props.C16Iter
/-!
# C16 — `SCFG.__iter__` yields no name twice (every hierarchy with unique names, every depth)

`iterAll_nodup`: whenever the model of the breadth-first hierarchy iterator answers on a hierarchy
whose names are unique *as far as the iterator can see* (`UniqueNames`: a member of a level is not
also covered below a region of that level, and two different regions of one level cover disjoint
sets), the yielded list has no duplicates — at every nesting depth, for every fuel.
Together with `iterAll_exact` this makes the yielded list a duplicate-free enumeration of `Covered`.
-/
namespace Scfg.C16
open Scfg Scfg.Model

/-- uniqueness of names, stated on what the iterator covers -/
structure UniqueNames (H : Hier) : Prop where
  levelNotBelow : ∀ c r b x, H.getIn? c r = some b → b.isRegion = true →
    Covered H b.name x → H.getIn? c x = none
  belowDisjoint : ∀ c r1 r2 b1 b2 x, H.getIn? c r1 = some b1 → H.getIn? c r2 = some b2 →
    b1.isRegion = true → b2.isRegion = true →
    Covered H b1.name x → Covered H b2.name x → r1 = r2

/-- loop invariant of `iterAll.go` for duplicate-freedom -/
structure NdInv (H : Hier) (c : Name) (seen out : List Name) : Prop where
  nodup : out.Nodup
  src : ∀ x ∈ out, (x ∈ seen ∧ (H.getIn? c x).isSome) ∨
    (∃ r ∈ seen, ∃ b, H.getIn? c r = some b ∧ b.isRegion = true ∧ Covered H b.name x)

theorem go_nodup (H : Hier) (hU : UniqueNames H) (f : Nat) (c : Name)
    (ih : ∀ c' out', iterAll H f c' = .ok out' → out'.Nodup) :
    ∀ (g : Nat) (queue seen out result : List Name), NdInv H c seen out →
      iterAll.go H f c g queue seen out = .ok result → result.Nodup := by
  intro g
  induction g with
  | zero => intro q s o r _ h; simp [iterAll.go] at h
  | succ g ihg =>
    intro queue seen out result hinv h
    cases queue with
    | nil =>
      simp only [iterAll.go, Except.ok.injEq] at h
      subst h
      exact hinv.nodup
    | cons name rest =>
      simp only [iterAll.go] at h
      split at h
      · exact ihg rest seen out result hinv h
      · next hs =>
        have hns : name ∉ seen := by simpa [mem, List.contains_iff_mem] using hs
        split at h
        · next hnone =>
          refine ihg rest (name :: seen) out result ⟨hinv.nodup, ?_⟩ h
          intro x hx
          rcases hinv.src x hx with ⟨e1, e2⟩ | ⟨r, hr, b, hb, hreg, hcov⟩
          · exact Or.inl ⟨List.mem_cons_of_mem _ e1, e2⟩
          · exact Or.inr ⟨r, List.mem_cons_of_mem _ hr, b, hb, hreg, hcov⟩
        · next b hb =>
          have key : ∃ inner, (if b.isRegion = true then iterAll H f b.name else pure []) = .ok inner ∧
              iterAll.go H f c g (rest ++ b.jt) (name :: seen) (out ++ [name] ++ inner) = .ok result := by
            cases hreg : b.isRegion with
            | false =>
              simp only [hreg, Bool.false_eq_true, if_false, bind, Except.bind, pure, Except.pure] at h
              exact ⟨[], by simp [pure, Except.pure], by simpa using h⟩
            | true =>
              simp only [hreg, if_true, bind, Except.bind] at h
              cases hin : iterAll H f b.name with
              | error e => simp [hin] at h
              | ok inner => exact ⟨inner, by simp, by simpa [hin] using h⟩
          obtain ⟨inner, hinner, hgo⟩ := key
          -- what the nested iteration yields: duplicate-free, and covered below the region `b`
          have hinNd : inner.Nodup := by
            cases hreg : b.isRegion with
            | false => simp [hreg, pure, Except.pure] at hinner; subst hinner; simp
            | true =>
              simp only [hreg, if_true] at hinner
              exact ih _ _ hinner
          have hinCov : ∀ y ∈ inner, b.isRegion = true ∧ Covered H b.name y := by
            intro y hy
            cases hreg : b.isRegion with
            | false => simp [hreg, pure, Except.pure] at hinner; subst hinner; simp at hy
            | true =>
              simp only [hreg, if_true] at hinner
              exact ⟨rfl, (iterAll_exact H f _ _ hinner).2 y hy⟩
          have nameNotOut : name ∉ out := by
            intro hx
            rcases hinv.src name hx with ⟨e1, _⟩ | ⟨r, _, b', hb', hreg, hcov⟩
            · exact hns e1
            · have := hU.levelNotBelow c r b' name hb' hreg hcov
              simp [hb] at this
          have innerNotOut : ∀ y ∈ inner, y ∉ out ∧ y ≠ name := by
            intro y hy
            obtain ⟨hreg, hcov⟩ := hinCov y hy
            refine ⟨?_, ?_⟩
            · intro hx
              rcases hinv.src y hx with ⟨_, e2⟩ | ⟨r, hr, b', hb', hreg', hcov'⟩
              · have := hU.levelNotBelow c name b y hb hreg hcov
                simp [this] at e2
              · have := hU.belowDisjoint c name r b b' y hb hb' hreg hreg' hcov hcov'
                exact hns (this ▸ hr)
            · intro e
              subst e
              have := hU.levelNotBelow c y b y hb hreg hcov
              simp [hb] at this
          refine ihg (rest ++ b.jt) (name :: seen) (out ++ [name] ++ inner) result ⟨?_, ?_⟩ hgo
          · rw [List.nodup_append]
            refine ⟨?_, hinNd, ?_⟩
            · rw [List.nodup_append]
              refine ⟨hinv.nodup, by simp, ?_⟩
              intro a ha b2 hb2
              simp only [List.mem_singleton] at hb2
              subst hb2
              intro e
              exact nameNotOut (e ▸ ha)
            · intro a ha b2 hb2 e
              subst e
              obtain ⟨n1, n2⟩ := innerNotOut a hb2
              rcases List.mem_append.mp ha with e1 | e1
              · exact n1 e1
              · exact n2 (by simpa using e1)
          · intro x hx
            rcases List.mem_append.mp hx with e | e
            · rcases List.mem_append.mp e with e1 | e1
              · rcases hinv.src x e1 with ⟨d1, d2⟩ | ⟨r, hr, b', hb', hreg, hcov⟩
                · exact Or.inl ⟨List.mem_cons_of_mem _ d1, d2⟩
                · exact Or.inr ⟨r, List.mem_cons_of_mem _ hr, b', hb', hreg, hcov⟩
              · simp only [List.mem_singleton] at e1
                subst e1
                exact Or.inl ⟨by simp, by simp [hb]⟩
            · obtain ⟨hreg, hcov⟩ := hinCov x e
              exact Or.inr ⟨name, by simp, b, hb, hreg, hcov⟩

/-- **`SCFG.__iter__` yields nothing twice** — for every hierarchy with unique names, every
    container and every nesting depth, whenever the model answers. -/
theorem iterAll_nodup (H : Hier) (hU : UniqueNames H) : ∀ (f : Nat) (c : Name) (out : List Name),
    iterAll H f c = .ok out → out.Nodup := by
  intro f
  induction f with
  | zero => intro c out h; simp [iterAll] at h
  | succ f ih =>
    intro c out h
    rw [iterAll] at h
    cases hh : findHead H c with
    | error e => simp [hh, bind, Except.bind] at h
    | ok hd =>
      simp only [hh, bind, Except.bind] at h
      exact go_nodup H hU f c ih _ [hd] [] [] out ⟨by simp, by simp⟩ h

/-- with `iterAll_exact`: the yielded list is a duplicate-free enumeration of `Covered` -/
theorem iterAll_enumerates (H : Hier) (hU : UniqueNames H) (f : Nat) (c : Name) (out : List Name)
    (h : iterAll H f c = .ok out) :
    out.Nodup ∧ ∀ x, x ∈ out ↔ Covered H c x :=
  ⟨iterAll_nodup H hU f c out h,
   fun x => ⟨(iterAll_exact H f c out h).2 x, (iterAll_exact H f c out h).1 x⟩⟩

end Scfg.C16

namespace Scfg.C16
open Scfg Scfg.Model

/-! Non-vacuity: the two-level hierarchy `okH2` of Props/C16Iter.lean has unique names in the sense
of `UniqueNames`, so `iterAll_enumerates` applies to it. -/
theorem okH2_inner : iterAll okH2 5 "loop_region_0" = .ok ["1"] := by
  have g3 : okH2.getIn? "loop_region_0" "1" = some okH2[3] := by decide
  have g4 : okH2.getIn? "loop_region_0" "2" = none := by decide
  have j3 : (okH2[3]).jt = ["2"] := by decide
  have r3 : (okH2[3]).isRegion = false := by decide
  simp [iterAll, iterAll.go, head_l, g3, g4, j3, r3, mem, bind, Except.bind, pure, Except.pure]

theorem okH2_region (c r : Name) (b : Blk) (h : okH2.getIn? c r = some b) (hr : b.isRegion = true) :
    c = "m" ∧ r = "loop_region_0" ∧ b.name = "loop_region_0" := by
  have hm := List.mem_of_find?_eq_some h
  have hp := List.find?_some h
  simp only [okH2, List.mem_cons, List.not_mem_nil, or_false] at hm
  rcases hm with e | e | e | e <;> subst e <;> simp_all [Blk.isRegion, BKind.isRegion]

theorem okH2_unique : UniqueNames okH2 := by
  constructor
  · intro c r b x hb hreg hcov
    obtain ⟨e1, _, e3⟩ := okH2_region c r b hb hreg
    rw [e3] at hcov
    have := (iterAll_exact okH2 5 _ _ okH2_inner).1 x hcov
    simp only [List.mem_singleton] at this
    subst this; subst e1
    decide
  · intro c r1 r2 b1 b2 x h1 h2 hr1 hr2 _ _
    rw [(okH2_region c r1 b1 h1 hr1).2.1, (okH2_region c r2 b2 h2 hr2).2.1]

example (out : List Name) (h : iterAll okH2 6 "m" = .ok out) :
    out.Nodup ∧ ∀ x, x ∈ out ↔ Covered okH2 "m" x := iterAll_enumerates okH2 okH2_unique 6 "m" out h

end Scfg.C16
