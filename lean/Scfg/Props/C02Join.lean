import Scfg.Props.C14Join
/-!
# C02, first stage — closing the graph never raises (model, a priori)

`joinReturns_total`: for **every** hierarchy whose blocks without successor in the container are
distinct plain blocks none of which carries the fresh name, the model of `join_returns` answers
(no `KeyError` from the pops, no assertion from the table maintenance). Flat inputs of original
blocks with unique names satisfy the hypothesis (Props/C01Join.lean, `FlatInput`).
-/
namespace Scfg.C02
open Scfg Scfg.Model Scfg.C14

/-- the loop of `insert_block` with no successors answers on distinct plain members -/
theorem exits_fold_total (c new : Name) :
    ∀ (ps : List Name) (H : Hier),
      ps.Nodup →
      (∀ p ∈ ps, ∃ b, H.getIn? c p = some b ∧ b.isRegion = false ∧ b.kind.isBranching = false) →
      ∃ H', ps.foldlM (fun H p => do
        let (blk, H1) ← popIn "insert_block" H c p
        let jt := blk.jts
        let succs' := ([] : List Name).filter fun s => !blk.bes.contains s
        let H2 ← if ([] : List Name).isEmpty then pure H1 else insertBlock.ren new blk H1 jt succs'
        let jt' := if ([] : List Name).isEmpty then jt ++ [new] else rewire new jt succs'
        let blk' ← replaceJts blk jt'
        pure (putIn H2 blk')) H = .ok H' := by
  intro ps
  induction ps with
  | nil => intro H _ _; exact ⟨H, rfl⟩
  | cons p ps ih =>
    intro H hnd hall
    rw [List.nodup_cons] at hnd
    obtain ⟨b, hb, hreg, hbr⟩ := hall p (by simp)
    have hpop : popIn "insert_block" H c p = .ok (b, H.filter fun x => !(x.cont == c && x.name == p)) := by
      simp [popIn, hb]
    have hrep : replaceJts b (b.jts ++ [new]) = .ok { b with jts := b.jts ++ [new] } := by
      simp [replaceJts, hbr]
    have hbc : b.cont = c ∧ b.name = p := by
      have := List.find?_some (show List.find? (fun x => x.cont == c && x.name == p) H = some b from hb)
      simpa using this
    have hall' : ∀ q ∈ ps, ∃ b', Hier.getIn? (putIn (H.filter fun x => !(x.cont == c && x.name == p))
        { b with jts := b.jts ++ [new] }) c q = some b' ∧ b'.isRegion = false ∧
        b'.kind.isBranching = false := by
      intro q hq
      obtain ⟨b', hb', h1, h2⟩ := hall q (by simp [hq])
      refine ⟨b', ?_, h1, h2⟩
      rw [getIn?_putIn, getIn?_filter]
      have : q ≠ p := fun e => hnd.1 (e ▸ hq)
      simp [hbc.1, hbc.2, this, hb']
    obtain ⟨H', hH'⟩ := ih _ hnd.2 hall'
    refine ⟨H', ?_⟩
    simp only [List.foldlM_cons, bind, Except.bind, hpop, List.isEmpty_nil, if_true, pure, Except.pure, hrep]
    exact hH'

/-- **Closing the graph never raises** (model). -/
theorem joinReturns_total (st : St) (c : Name)
    (hnd : (exitsOf st.H c).Nodup)
    (hplain : ∀ p ∈ exitsOf st.H c, ∃ b, st.H.getIn? c p = some b ∧ b.isRegion = false ∧
      b.kind.isBranching = false)
    (hfresh : ∀ p ∈ exitsOf st.H c, p ≠ (st.ng.newBlockName "synth_return").1) :
    ∃ st', joinReturns st c = .ok st' := by
  unfold joinReturns
  have hlen : ((st.H.level c).filter fun b => b.jt.isEmpty).length = (exitsOf st.H c).length := by
    simp [exitsOf]
  simp only [hlen]
  split
  · obtain ⟨H', hH'⟩ := exits_fold_total c (st.ng.newBlockName "synth_return").1 (exitsOf st.H c)
      (putIn st.H (retBlk c (st.ng.newBlockName "synth_return").1)) hnd (by
        intro p hp
        obtain ⟨b, hb, h1, h2⟩ := hplain p hp
        refine ⟨b, ?_, h1, h2⟩
        rw [getIn?_putIn]
        have : p ≠ (st.ng.newBlockName "synth_return").1 := hfresh p hp
        have hne : ¬ (c = (retBlk c (st.ng.newBlockName "synth_return").1).cont ∧
            p = (retBlk c (st.ng.newBlockName "synth_return").1).name) := fun hh => this hh.2
        rw [if_neg hne]; exact hb)
    refine ⟨{ H := H', ng := (st.ng.newBlockName "synth_return").2 }, ?_⟩
    simp only [bind, Except.bind, pure, Except.pure]
    have : insertBlock st.H c .synthReturn (st.ng.newBlockName "synth_return").1
        (((st.H.level c).filter fun b => b.jt.isEmpty).map (·.name)) [] = .ok H' := by
      unfold insertBlock
      exact hH'
    simp [this]
  · exact ⟨st, rfl⟩

end Scfg.C02
