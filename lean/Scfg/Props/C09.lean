import Scfg.Model.Bytecode
/-!
# C09 — the graph built from bytecode is exactly the bytecode's control flow

A-priori theorems about the model of `build_basicblocks`' block cutting, for **all** flow
infos (all instruction streams, all opcode tables):

* `ranges_chain`  — consecutive blocks are contiguous: each block ends where the next begins;
* `ranges_first` / `ranges_last` — the first block begins at the smallest recorded offset, the
  last one ends right after the last instruction;
* `ranges_cover`  — every offset from the first block's begin up to the end lies in exactly one
  block (non-overlapping, gap-free), given distinct block offsets — which `fromBytecode`
  guarantees (`fromBytecode_nodup`).

Successor exactness against the interpreter's own metadata is decided per function on the
corpus (`Scfg.Model.specBlocks`), and `TablesAgree` is evaluated on the regenerated tables.
-/
namespace Scfg.C09
open Scfg Scfg.Model

theorem mem_insertNat (x y : Nat) (ys : List Nat) : x ∈ insertNat y ys ↔ x = y ∨ x ∈ ys := by
  induction ys with
  | nil => simp [insertNat]
  | cons z zs ih =>
    simp only [insertNat]
    split
    · simp
    · simp only [List.mem_cons, ih]
      constructor
      · rintro (h | h | h)
        · exact Or.inr (Or.inl h)
        · exact Or.inl h
        · exact Or.inr (Or.inr h)
      · rintro (h | h | h)
        · exact Or.inr (Or.inl h)
        · exact Or.inl h
        · exact Or.inr (Or.inr h)

theorem mem_sortNat (xs : List Nat) (x : Nat) : x ∈ sortNat xs ↔ x ∈ xs := by
  induction xs with
  | nil => simp [sortNat]
  | cons y ys ih =>
    simp only [sortNat, List.foldr_cons] at ih ⊢
    rw [mem_insertNat, ih]
    simp [eq_comm]

/-- strictly increasing -/
def Strict : List Nat → Prop
  | [] => True
  | [_] => True
  | a :: b :: r => a < b ∧ Strict (b :: r)

theorem strict_tail {a : Nat} {r : List Nat} (h : Strict (a :: r)) : Strict r := by
  cases r with
  | nil => trivial
  | cons b r => exact h.2

theorem strict_head_lt {a : Nat} {r : List Nat} (h : Strict (a :: r)) : ∀ x ∈ r, a < x := by
  induction r generalizing a with
  | nil => simp
  | cons b r ih =>
    intro x hx
    rcases List.mem_cons.mp hx with e | e
    · exact e ▸ h.1
    · exact Nat.lt_trans h.1 (ih h.2 x e)

theorem insertNat_strict (x : Nat) (ys : List Nat) (h : Strict ys) (hx : x ∉ ys) :
    Strict (insertNat x ys) := by
  induction ys with
  | nil => simp [insertNat, Strict]
  | cons y ys ih =>
    simp only [List.mem_cons, not_or] at hx
    simp only [insertNat]
    split
    · next hle =>
      exact ⟨by omega, h⟩
    · next hle =>
      have hlt : y < x := by omega
      have ih' := ih (strict_tail h) hx.2
      cases ys with
      | nil => simp only [insertNat]; exact ⟨hlt, trivial⟩
      | cons z zs =>
        simp only [insertNat] at ih' ⊢
        split
        · next h2 => exact ⟨hlt, by simpa [insertNat, h2] using ih'⟩
        · next h2 => exact ⟨h.1, by simpa [insertNat, h2] using ih'⟩

theorem sortNat_strict (xs : List Nat) (h : xs.Nodup) : Strict (sortNat xs) := by
  induction xs with
  | nil => simp [sortNat, Strict]
  | cons y ys ih =>
    rw [List.nodup_cons] at h
    simp only [sortNat, List.foldr_cons] at ih ⊢
    exact insertNat_strict y _ (ih h.2) (by
      intro hm
      exact h.1 ((mem_sortNat ys y).mp hm))

/-- the ranges over a sorted offset list and an end offset -/
def rangesOf (xs : List Nat) (e : Nat) : List (Nat × Nat) := xs.zip (xs.drop 1 ++ [e])

theorem blockRanges_eq (fi : FlowInfo) :
    blockRanges fi = rangesOf (sortNat fi.blockOffsets) (fi.lastOffset + 2) := rfl

theorem rangesOf_cons2 (a b : Nat) (r : List Nat) (e : Nat) :
    rangesOf (a :: b :: r) e = (a, b) :: rangesOf (b :: r) e := by
  simp [rangesOf]

/-- **Contiguity.** Each block ends exactly where the next one begins. -/
theorem ranges_chain (xs : List Nat) (e : Nat) :
    ∀ i (h1 : i + 1 < (rangesOf xs e).length),
      ((rangesOf xs e)[i]'(by omega)).2 = ((rangesOf xs e)[i + 1]'h1).1 := by
  induction xs with
  | nil => intro i h1; simp [rangesOf] at h1
  | cons a r ih =>
    cases r with
    | nil => intro i h1; simp [rangesOf] at h1
    | cons b r =>
      intro i h1
      simp only [rangesOf_cons2] at h1 ⊢
      cases i with
      | zero =>
        cases r with
        | nil => simp [rangesOf]
        | cons c r => simp [rangesOf_cons2]
      | succ i =>
        simp only [List.getElem_cons_succ]
        exact ih i (by simpa using h1)

/-- The first block begins at the smallest offset; the last block ends at the end offset. -/
theorem ranges_first (a : Nat) (r : List Nat) (e : Nat) :
    ((rangesOf (a :: r) e).head?).map (·.1) = some a := by
  cases r <;> simp [rangesOf]

theorem ranges_last (xs : List Nat) (e : Nat) (hne : xs ≠ []) :
    ((rangesOf xs e).getLast?).map (·.2) = some e := by
  induction xs with
  | nil => exact absurd rfl hne
  | cons a r ih =>
    cases r with
    | nil => simp [rangesOf]
    | cons b r =>
      rw [rangesOf_cons2]
      have := ih (by simp)
      cases hr : rangesOf (b :: r) e with
      | nil => simp [rangesOf] at hr
      | cons p ps => rw [hr] at this; simpa [List.getLast?_cons_cons] using this

/-- **Non-overlapping and gap-free.** With strictly increasing offsets whose last one lies
    before the end, every offset `o` from the first begin up to the end lies in exactly one
    block range. -/
theorem ranges_cover (xs : List Nat) (e : Nat) (hs : Strict xs) (hlast : ∀ x ∈ xs, x < e) :
    ∀ o, (∃ a r, xs = a :: r ∧ a ≤ o) → o < e →
      ∃ p ∈ rangesOf xs e, (p.1 ≤ o ∧ o < p.2) ∧
        ∀ q ∈ rangesOf xs e, (q.1 ≤ o ∧ o < q.2) → q = p := by
  induction xs with
  | nil => intro o ⟨a, r, h, _⟩; simp at h
  | cons a r ih =>
    intro o ⟨a', r', hx, hao⟩ hoe
    simp only [List.cons.injEq] at hx
    obtain ⟨rfl, rfl⟩ := hx
    cases r with
    | nil =>
      refine ⟨(a, e), by simp [rangesOf], ⟨hao, hoe⟩, ?_⟩
      intro q hq _
      simpa [rangesOf] using hq
    | cons b r =>
      rw [rangesOf_cons2]
      have hab : a < b := hs.1
      by_cases hob : o < b
      · refine ⟨(a, b), by simp, ⟨hao, hob⟩, ?_⟩
        intro q hq hqo
        rcases List.mem_cons.mp hq with e1 | e1
        · exact e1
        · -- later ranges begin at or after b
          exfalso
          have hge : b ≤ q.1 := by
            have hm : q.1 ∈ b :: r := by
              have := List.of_mem_zip (show (q.1, q.2) ∈ (b :: r).zip ((b :: r).drop 1 ++ [e]) from by
                simpa [rangesOf] using e1)
              exact this.1
            rcases List.mem_cons.mp hm with e2 | e2
            · omega
            · exact Nat.le_of_lt (strict_head_lt hs.2 _ e2)
          omega
      · have hbo : b ≤ o := by omega
        obtain ⟨p, hp, hpo, huniq⟩ := ih hs.2 (fun x hx => hlast x (by simp [hx])) o
          ⟨b, r, rfl, hbo⟩ hoe
        refine ⟨p, by simp [hp], hpo, ?_⟩
        intro q hq hqo
        rcases List.mem_cons.mp hq with e1 | e1
        · exfalso
          rw [e1] at hqo
          simp only at hqo
          omega
        · exact huniq q e1 hqo

theorem addOff_nodup (s : List Nat) (o : Nat) (h : s.Nodup) : (addOff s o).Nodup := by
  unfold addOff
  split
  · exact h
  · next hc =>
    rw [List.nodup_append]
    refine ⟨h, by simp, ?_⟩
    intro a ha b hb
    simp only [List.mem_singleton] at hb
    subst hb
    intro e
    subst e
    exact hc (by simpa [List.contains_iff_mem] using ha)

theorem foldl_addOff_nodup (ts : List Nat) (s : List Nat) (h : s.Nodup) :
    (ts.foldl addOff s).Nodup := by
  induction ts generalizing s with
  | nil => exact h
  | cons t ts ih => exact ih _ (addOff_nodup s t h)

/-- `block_offsets` is a set: the model never records an offset twice, whatever the stream and
    the tables. -/
theorem fromBytecode_nodup (T : OpTables) (is : List Ins) : (fromBytecode T is).blockOffsets.Nodup := by
  unfold fromBytecode
  suffices h : ∀ (fi : FlowInfo), fi.blockOffsets.Nodup →
      (is.foldl (fun (fi : FlowInfo) inst =>
        let fi := if inst.off == 0 || inst.isTarget then { fi with blockOffsets := addOff fi.blockOffsets inst.off } else fi
        let add (fi : FlowInfo) (targets : List Nat) : FlowInfo :=
          { fi with blockOffsets := targets.foldl addOff fi.blockOffsets,
                    jumpInsts := jumpSet fi.jumpInsts inst.off targets }
        let fi :=
          if T.cond.contains inst.op then add fi [inst.off + 2, inst.arg]
          else if T.uncond.contains inst.op then add fi [inst.arg]
          else if T.term.contains inst.op then add fi []
          else fi
        { fi with lastOffset := inst.off }) fi).blockOffsets.Nodup by
    exact h {} (by simp)
  induction is with
  | nil => intro fi h; exact h
  | cons i is ih =>
    intro fi h
    simp only [List.foldl_cons]
    apply ih
    simp only
    have h1 : (if i.off == 0 || i.isTarget then { fi with blockOffsets := addOff fi.blockOffsets i.off } else fi).blockOffsets.Nodup := by
      split
      · exact addOff_nodup _ _ h
      · exact h
    split
    · exact addOff_nodup _ _ (addOff_nodup _ _ h1)
    · split
      · exact addOff_nodup _ _ h1
      · split
        · exact h1
        · exact h1

/-- **Blocks of the model are contiguous, non-overlapping and gap-free**, for every stream and
    every table: the recorded offsets sort strictly, hence `ranges_chain` / `ranges_cover` apply
    to `blockRanges (fromBytecode T is)`. -/
theorem blockRanges_strict (T : OpTables) (is : List Ins) :
    Strict (sortNat (fromBytecode T is).blockOffsets) :=
  sortNat_strict _ (fromBytecode_nodup T is)

/-! Non-vacuity: a stream with a conditional jump (`0: LOAD, 2: POP_JUMP_IF_FALSE→8, 4: LOAD,
6: RETURN_VALUE, 8: LOAD, 10: RETURN_VALUE`). -/
def exT : OpTables := { cond := ["POP_JUMP_IF_FALSE"], uncond := ["JUMP_FORWARD"], term := ["RETURN_VALUE"] }
def exIs : List Ins := [
  { off := 0, op := "LOAD_FAST", arg := 0, isTarget := false },
  { off := 2, op := "POP_JUMP_IF_FALSE", arg := 8, isTarget := false },
  { off := 4, op := "LOAD_CONST", arg := 0, isTarget := false },
  { off := 6, op := "RETURN_VALUE", arg := 0, isTarget := false },
  { off := 8, op := "LOAD_CONST", arg := 0, isTarget := true },
  { off := 10, op := "RETURN_VALUE", arg := 0, isTarget := false }]
example : blockRanges (fromBytecode exT exIs) = [(0, 4), (4, 8), (8, 12)] := by decide


/-! ## Instruction retrieval (`get_instructions`)

The loop hands out exactly the instructions of the block's range: an offset is returned iff the
map knows it, it lies in `[begin, end)` and is a whole number of code units after `begin`; the
result is strictly increasing, so no instruction is handed out twice. With `ranges_cover` (the
ranges tile `[0, last)`) every instruction of the stream is handed out by exactly one block. -/

theorem mem_getInstrs (offs : List Nat) (e : Nat) :
    ∀ (f it o : Nat), e ≤ it + 2 * f →
      (o ∈ getInstrs offs f it e ↔ o ∈ offs ∧ it ≤ o ∧ o < e ∧ (o - it) % 2 = 0) := by
  intro f
  induction f with
  | zero =>
    intro it o hf
    simp only [getInstrs, List.not_mem_nil, false_iff]
    omega
  | succ f ih =>
    intro it o hf
    unfold getInstrs
    split
    · rename_i hlt
      rw [List.mem_append, ih (it + 2) o (by omega)]
      constructor
      · rintro (h | ⟨h1, h2, h3, h4⟩)
        · split at h
          · rename_i hc
            simp only [List.mem_singleton] at h
            subst h
            exact ⟨by simpa using hc, Nat.le_refl _, hlt, by simp⟩
          · simp at h
        · exact ⟨h1, by omega, h3, by omega⟩
      · rintro ⟨h1, h2, h3, h4⟩
        by_cases heq : o = it
        · left; subst heq
          simp [h1]
        · right; exact ⟨h1, by omega, h3, by omega⟩
    · simp only [List.not_mem_nil, false_iff]
      omega

theorem getInstrs_lower (offs : List Nat) (e : Nat) :
    ∀ (f it o : Nat), o ∈ getInstrs offs f it e → it ≤ o := by
  intro f
  induction f with
  | zero => intro it o h; simp [getInstrs] at h
  | succ f ih =>
    intro it o h
    unfold getInstrs at h
    split at h
    · rw [List.mem_append] at h
      rcases h with h | h
      · split at h
        · simp at h; omega
        · simp at h
      · have := ih _ _ h; omega
    · simp at h

/-- Strictly increasing: no instruction is returned twice. -/
theorem getInstrs_sorted (offs : List Nat) (e : Nat) :
    ∀ (f it : Nat), (getInstrs offs f it e).Pairwise (· < ·) := by
  intro f
  induction f with
  | zero => intro it; simp [getInstrs]
  | succ f ih =>
    intro it
    unfold getInstrs
    split
    · rw [List.pairwise_append]
      refine ⟨by split <;> simp, ih _, ?_⟩
      intro a ha b hb
      have := getInstrs_lower offs e f (it + 2) b hb
      split at ha
      · simp at ha; omega
      · simp at ha
    · simp

/-- **`get_instructions` returns exactly the instructions of the block's range** (even offsets, as
    CPython's are): membership is "known to the map and inside `[begin, end)`". -/
theorem getInstructions_spec (offs : List Nat) (b e o : Nat) (hb : b % 2 = 0)
    (heven : ∀ x ∈ offs, x % 2 = 0) :
    o ∈ getInstructions offs b e ↔ o ∈ offs ∧ b ≤ o ∧ o < e := by
  unfold getInstructions
  rw [mem_getInstrs offs e (e - b + 1) b o (by omega)]
  constructor
  · rintro ⟨h1, h2, h3, _⟩; exact ⟨h1, h2, h3⟩
  · rintro ⟨h1, h2, h3⟩
    have := heven o h1
    exact ⟨h1, h2, h3, by omega⟩

example : getInstructions [0, 2, 4, 6, 8, 10] 4 8 = [4, 6] := by decide
example : getInstructions [0, 2, 8, 10] 2 10 = [2, 8] := by decide  -- inline-cache gap skipped

end Scfg.C09
