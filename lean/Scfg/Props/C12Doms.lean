import Scfg.Props.C13Doms
/-!
# C12 — the dominator fix-point does not depend on iteration order (a priori)

`_find_dominators_internal` iterates Python `set`s (entries, successor sets) and processes a work
list whose order follows them. `doms_order_free`: for **any** two presentations of the same graph —
the same entries, nodes and successor sets, listed in any two orders — whenever the model of the
algorithm answers on both, the two tables agree, entry for entry, as sets. (Both equal path
dominance by `domsInternal_correct`, and path dominance only speaks about membership.)
This replaces the earlier justification "compared with the order-free reference on every level met".
-/
namespace Scfg.C12
open Scfg Scfg.Model Scfg.C13

theorem avoid_congr (S S' : Name → List Name) (h : ∀ n s, s ∈ S n ↔ s ∈ S' n) (a e x : Name)
    (p : Avoid S a e x) : Avoid S' a e x := by
  induction p with
  | refl hne => exact Avoid.refl hne
  | step _ hx hne ih => exact Avoid.step ih ((h _ _).mp hx) hne

theorem dominates_congr (E E' : List Name) (S S' : Name → List Name)
    (hE : ∀ x, x ∈ E ↔ x ∈ E') (hS : ∀ n s, s ∈ S n ↔ s ∈ S' n) (a n : Name) :
    Dominates E S a n ↔ Dominates E' S' a n := by
  unfold Dominates
  constructor
  · rintro (h | h)
    · exact Or.inl h
    · exact Or.inr fun e he p => h e ((hE e).mpr he) (avoid_congr S' S (fun n s => (hS n s).symm) a e n p)
  · rintro (h | h)
    · exact Or.inl h
    · exact Or.inr fun e he p => h e ((hE e).mp he) (avoid_congr S S' hS a e n p)

/-- **Order independence of the dominator tables.** -/
theorem doms_order_free (E E' N N' : List Name) (P P' S S' : Name → List Name)
    (G : GraphOK E N P S) (G' : GraphOK E' N' P' S')
    (hE : ∀ x, x ∈ E ↔ x ∈ E') (hN : ∀ x, x ∈ N ↔ x ∈ N') (hS : ∀ n s, s ∈ S n ↔ s ∈ S' n)
    (d d' : SetMap) (h : domsInternal E N P S = .ok d) (h' : domsInternal E' N' P' S' = .ok d')
    (n a : Name) (hn : n ∈ N) (ha : a ∈ N) : a ∈ d.get n ↔ a ∈ d'.get n := by
  rw [domsInternal_correct E N P S G d h n a hn ha,
    domsInternal_correct E' N' P' S' G' d' h' n a ((hN n).mp hn) ((hN a).mp ha)]
  exact dominates_congr E E' S S' hE hS a n

end Scfg.C12
