import Scfg.WF
/-!
# C05 — original blocks are conserved

`conserved_sound` unfolds the Boolean `conserved G H` (evaluated on every real output) into
the statement of the property.
-/
namespace Scfg.C05
open Scfg

theorem nodupB_iff (xs : List Name) : nodupB xs = true ↔ xs.Nodup := by
  induction xs with
  | nil => simp [nodupB]
  | cons x xs ih => simp [nodupB, ih]

theorem zipAll_spec {α β : Type} (p : α → β → Bool) :
    ∀ (as : List α) (bs : List β), zipAll p as bs = true →
      as.length = bs.length ∧ ∀ i (h1 : i < as.length) (h2 : i < bs.length), p as[i] bs[i] = true
  | [], [], _ => by simp
  | a :: as, b :: bs, h => by
    simp only [zipAll, Bool.and_eq_true] at h
    obtain ⟨ih1, ih2⟩ := zipAll_spec p as bs h.2
    refine ⟨by simp [ih1], ?_⟩
    intro i h1 h2
    cases i with
    | zero => simpa using h.1
    | succ i => simpa using ih2 i (by simpa using h1) (by simpa using h2)
  | [], _ :: _, h => by simp [zipAll] at h
  | _ :: _, [], h => by simp [zipAll] at h

/-- **C05.** If `conserved G H` then
    * nothing is duplicated: the names of the original-kind entries of `H` are pairwise distinct;
    * nothing is invented: every original-kind entry of `H` is (by name) a block of `G`;
    * nothing is lost or altered: every block `g` of `G` occurs exactly once in `H`, with the same
      kind and payload, and
      - if `g` has successors: the same number, and position by position the successor is
        unchanged or renamed to a synthetic block or a region of `H`;
      - if `g` has none: still none, or the single edge it gained leads (through region headers)
        to a synthetic block. -/
theorem conserved_sound (G H : Hier) (h : conserved G H = true) :
    ((H.filter (·.isOrig)).map (·.name)).Nodup ∧
    (∀ x ∈ H, x.isOrig = true → ∃ g, G.get? x.name = some g) ∧
    ∀ g ∈ G, ∃ x, H.filter (fun y => y.name == g.name) = [x] ∧
      x.kind = g.kind ∧ x.pay = g.pay ∧
      (g.jts ≠ [] →
        g.jts.length = x.jts.length ∧
        ∀ i (h1 : i < g.jts.length) (h2 : i < x.jts.length),
          g.jts[i] = x.jts[i] ∨ ∃ y, H.get? x.jts[i] = some y ∧ y.isOrig = false) ∧
      (g.jts = [] →
        x.jts = [] ∨ ∃ t y, x.jts = [t] ∧ resolve H (H.length + 1) t = some y ∧ y.isOrig = false) := by
  simp only [conserved, Bool.and_eq_true] at h
  obtain ⟨⟨h1, h2⟩, h3⟩ := h
  refine ⟨(nodupB_iff _).mp h1, ?_, ?_⟩
  · intro x hx ho
    have := List.all_eq_true.mp h2 x (List.mem_filter.mpr ⟨hx, ho⟩)
    exact Option.isSome_iff_exists.mp this
  · intro g hg
    have := List.all_eq_true.mp h3 g hg
    split at this
    · next x hx =>
      simp only [Bool.and_eq_true, beq_iff_eq] at this
      obtain ⟨⟨⟨⟨hk, hp⟩, _⟩, _⟩, hs⟩ := this
      refine ⟨x, hx, hk, hp, ?_, ?_⟩
      · intro hne
        have he : g.jts.isEmpty = false := by
          cases hg' : g.jts with
          | nil => exact absurd hg' hne
          | cons _ _ => rfl
        rw [he] at hs
        simp only [Bool.false_eq_true, if_false] at hs
        obtain ⟨hl, hi⟩ := zipAll_spec _ _ _ hs
        refine ⟨hl, ?_⟩
        intro i i1 i2
        have := hi i i1 i2
        simp only [succOK, Bool.or_eq_true, beq_iff_eq] at this
        rcases this with h | h
        · exact Or.inl h
        · right
          split at h
          · next y hy => exact ⟨y, hy, by simpa using h⟩
          · simp at h
      · intro hnil
        have he : g.jts.isEmpty = true := by simp [hnil]
        rw [he] at hs
        simp only [if_true, Bool.or_eq_true, List.isEmpty_iff] at hs
        rcases hs with h | h
        · exact Or.inl h
        · right
          split at h
          · next t ht =>
            split at h
            · next y hy => exact ⟨t, y, ht, hy, by simpa using h⟩
            · simp at h
          · simp at h
    · simp at this

/-! Non-vacuity, and a rejected alteration (successors of block 1 swapped). -/
def exG : Hier := [
  { cont := "m", name := "0", jts := ["1"] },
  { cont := "m", name := "1", jts := ["1", "2"] },
  { cont := "m", name := "2" }]
def exH : Hier := [
  { cont := "m", name := "0", jts := ["loop_region_0"] },
  { cont := "m", name := "2" },
  { cont := "m", name := "loop_region_0", kind := .region, jts := ["2"], rkind := "loop",
    header := "1", exiting := "1", parent := "m" },
  { cont := "loop_region_0", name := "1", jts := ["1", "2"], bes := ["1"] }]
example : conserved exG exH = true := by decide
example : conserved exG (exH.map fun b => if b.name == "1" then { b with jts := ["2", "1"] } else b)
    = false := by decide
example : conserved exG (exH.filter fun b => b.name != "2") = false := by decide

end Scfg.C05
