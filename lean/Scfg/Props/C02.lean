import Scfg.Model.Pipeline
/-!
# C02 — restructuring accepts every closed CFG: a-priori facts about the model's abort sites

The full statement (the model never aborts on a closed CFG) is decided by enumeration plus the
exact correspondence of `Scfg/Model/Pipeline.lean` with the code. For one of the anchored
mechanisms a theorem holds for **all** inputs:

* `doms_assert_never_fires` — the monotonicity assertion of `_find_dominators_internal`
  (`assert len(new_doms) < len(doms[n])`) can never fail, for any entries, node list,
  predecessor and successor tables (only: entries, predecessors and successors are nodes).
  Invariant: every set only ever shrinks, because each update is contained in the old value.
-/
namespace Scfg.C02
open Scfg Scfg.Model

theorem mem_dedup {xs : List Name} {x : Name} : x ∈ dedup xs ↔ x ∈ xs := by
  induction xs with
  | nil => simp [dedup]
  | cons y ys ih =>
    simp only [dedup, List.mem_cons, List.mem_filter, ih, bne_iff_ne, ne_eq]
    constructor
    · rintro (h | ⟨h, _⟩)
      · exact Or.inl h
      · exact Or.inr h
    · rintro (h | h)
      · exact Or.inl h
      · by_cases e : x = y
        · exact Or.inl e
        · exact Or.inr ⟨h, e⟩

theorem nodup_dedup (xs : List Name) : (dedup xs).Nodup := by
  induction xs with
  | nil => simp [dedup]
  | cons y ys ih =>
    simp only [dedup, List.nodup_cons, List.mem_filter, bne_self_eq_false, Bool.false_eq_true,
      and_false, not_false_eq_true, true_and]
    exact List.Nodup.sublist List.filter_sublist ih

theorem mem_inter {a b : List Name} {x : Name} : x ∈ inter a b ↔ x ∈ a ∧ x ∈ b := by
  simp [inter, mem, List.contains_iff_mem]

theorem mem_fold_inter (d : SetMap) (rest : List Name) (init : List Name) (x : Name) :
    x ∈ rest.foldl (fun acc q => inter acc (d.get q)) init ↔ x ∈ init ∧ ∀ q ∈ rest, x ∈ d.get q := by
  induction rest generalizing init with
  | nil => simp
  | cons q qs ih =>
    simp only [List.foldl_cons, ih, mem_inter, List.mem_cons, forall_eq_or_imp]
    constructor
    · rintro ⟨⟨h1, h2⟩, h3⟩; exact ⟨h1, h2, h3⟩
    · rintro ⟨h1, h2, h3⟩; exact ⟨⟨h1, h2⟩, h3⟩

/-- membership in `{n} | ⋂ doms[p]` -/
theorem mem_newDomsOf (d : SetMap) (preds : Name → List Name) (n x : Name) :
    x ∈ newDomsOf d preds n ↔ x = n ∨ (preds n ≠ [] ∧ ∀ q ∈ preds n, x ∈ d.get q) := by
  unfold newDomsOf
  cases h : preds n with
  | nil => simp
  | cons p rest =>
    simp only [mem_dedup, List.mem_cons, mem_fold_inter, ne_eq, reduceCtorEq, not_false_eq_true,
      forall_eq_or_imp, true_and]

theorem nodup_newDomsOf (d : SetMap) (preds : Name → List Name) (n : Name) :
    (newDomsOf d preds n).Nodup := by
  unfold newDomsOf
  split
  · simp
  · exact nodup_dedup _

theorem find_map_update (d : SetMap) (k k' : Name) (v : List Name) :
    (d.map fun p => if p.1 == k then (k, v) else p).find? (·.1 == k') =
      if k' = k then (d.find? (·.1 == k)).map (fun _ => (k, v)) else d.find? (·.1 == k') := by
  induction d with
  | nil => simp
  | cons p ps ih =>
    rw [List.map_cons, List.find?_cons, ih]
    by_cases hp : p.1 = k
    · have hpk : (p.1 == k) = true := by simpa using hp
      rw [if_pos hpk]
      by_cases hk : k' = k
      · subst hk
        simp [hp]
      · have h2 : (k == k') = false := by simpa using fun e => hk e.symm
        have h3 : (p.1 == k') = false := by simpa [hp] using fun e => hk e.symm
        simp only [h2, hk, if_false, List.find?_cons, h3]
    · have hpk : (p.1 == k) = false := by simpa using hp
      rw [if_neg (by simp [hpk])]
      by_cases hk : k' = k
      · simp only [hk, if_true, List.find?_cons, hpk]
      · by_cases hpk' : p.1 = k'
        · have h3 : (p.1 == k') = true := by simpa using hpk'
          simp only [hk, if_false, List.find?_cons, h3]
        · have h3 : (p.1 == k') = false := by simpa using hpk'
          simp only [hk, if_false, List.find?_cons, h3]

theorem get_set (d : SetMap) (k k' : Name) (v : List Name) :
    (d.set k v).get k' = if k' = k then v else d.get k' := by
  unfold SetMap.set SetMap.get
  split
  · next hany =>
    rw [find_map_update]
    by_cases hk : k' = k
    · subst hk
      obtain ⟨q, hq, hqk⟩ := List.any_eq_true.mp hany
      have : (List.find? (fun p => p.1 == k') d).isSome := by
        rw [List.find?_isSome]; exact ⟨q, hq, hqk⟩
      obtain ⟨w, hw⟩ := Option.isSome_iff_exists.mp this
      simp [hw]
    · simp [hk]
  · next hany =>
    have hnone : List.find? (fun p => p.1 == k) d = none := by
      rw [List.find?_eq_none]
      intro q hq hq'
      exact hany (List.any_eq_true.mpr ⟨q, hq, hq'⟩)
    rw [List.find?_append]
    by_cases hk : k' = k
    · subst hk; simp [hnone]
    · have h2 : (k == k') = false := by simpa using fun e => hk e.symm
      simp only [hk, if_false]
      cases List.find? (fun p => p.1 == k') d <;> simp [h2]

theorem length_le_of_nodup_subset : ∀ (xs ys : List Name), xs.Nodup → (∀ x ∈ xs, x ∈ ys) →
    xs.length ≤ ys.length
  | [], _, _, _ => by simp
  | a :: t, ys, hnd, hsub => by
    rw [List.nodup_cons] at hnd
    have ha : a ∈ ys := hsub a (by simp)
    have := length_le_of_nodup_subset t (ys.erase a) hnd.2 (by
      intro x hx
      have hne : x ≠ a := fun e => hnd.1 (e ▸ hx)
      exact (List.mem_erase_of_ne hne).mpr (hsub x (by simp [hx])))
    rw [List.length_erase_of_mem ha] at this
    have hpos : 0 < ys.length := List.length_pos_of_mem ha
    simp only [List.length_cons]
    omega

/-- the loop invariant -/
structure Inv (entries nodes : List Name) (preds : Name → List Name) (d : SetMap) : Prop where
  self : ∀ n ∈ nodes, n ∈ d.get n
  shrink : ∀ n ∈ nodes, mem entries n = false → ∀ x ∈ newDomsOf d preds n, x ∈ d.get n

theorem domsGo_no_assert (entries nodes : List Name) (preds succs : Name → List Name)
    (hs : ∀ n, ∀ s ∈ succs n, s ∈ nodes) :
    ∀ (f : Nat) (todo : List Name) (d : SetMap), Inv entries nodes preds d →
      (∀ t ∈ todo, t ∈ nodes) →
      domsGo entries preds succs f todo d ≠ .error (assertionAt "_find_dominators_internal") := by
  intro f
  induction f with
  | zero => intro todo d _ _; simp [domsGo, assertionAt]
  | succ f ih =>
    intro todo d hinv htodo
    simp only [domsGo]
    cases hl : todo.getLast? with
    | none => simp
    | some n =>
      have hn : n ∈ nodes := htodo n (List.mem_of_getLast? hl)
      have hdrop : ∀ t ∈ todo.dropLast, t ∈ nodes := fun t ht => htodo t (List.dropLast_subset _ ht)
      simp only
      split
      · exact ih _ d hinv hdrop
      · next hent =>
        have hent' : mem entries n = false := by simpa using hent
        split
        · exact ih _ d hinv hdrop
        · next hsame =>
          have hsub := hinv.shrink n hn hent'
          have hle := length_le_of_nodup_subset _ _ (nodup_newDomsOf d preds n) hsub
          have hne : (newDomsOf d preds n).length ≠ (d.get n).length := by
            intro heq
            apply hsame
            simp only [sameSetL, heq, beq_self_eq_true, Bool.true_and, List.all_eq_true, mem,
              List.contains_iff_mem]
            exact hsub
          have hlt : (newDomsOf d preds n).length < (d.get n).length := by omega
          simp only [hlt, decide_true, Bool.not_true, Bool.false_eq_true, if_false]
          refine ih _ _ ?_ ?_
          · -- the invariant survives the update
            have hget : ∀ q, ∀ x ∈ (d.set n (newDomsOf d preds n)).get q, x ∈ d.get q := by
              intro q x hx
              rw [get_set] at hx
              split at hx
              · next e => subst e; exact hsub x hx
              · exact hx
            constructor
            · intro m hm
              rw [get_set]
              split
              · next e => subst e; exact (mem_newDomsOf d preds m m).mpr (Or.inl rfl)
              · exact hinv.self m hm
            · intro m hm hme x hx
              have hxd : x ∈ newDomsOf d preds m := by
                rcases (mem_newDomsOf _ preds m x).mp hx with e | ⟨hne', hall⟩
                · exact (mem_newDomsOf d preds m x).mpr (Or.inl e)
                · exact (mem_newDomsOf d preds m x).mpr (Or.inr ⟨hne', fun q hq => hget q x (hall q hq)⟩)
              rw [get_set]
              split
              · next e => subst e; exact hxd
              · exact hinv.shrink m hm hme x hxd
          · intro t ht
            rcases List.mem_append.mp ht with h1 | h1
            · exact hdrop t h1
            · exact hs n t h1

theorem get_doms0 (entries nodes : List Name) (vals : List Name) (m : Name) (hm : m ∈ nodes) :
    SetMap.get (nodes.map fun n => if mem entries n then (n, [n]) else (n, vals)) m =
      if mem entries m then [m] else vals := by
  unfold SetMap.get
  induction nodes with
  | nil => simp at hm
  | cons a t ih =>
    simp only [List.map_cons, List.find?_cons]
    by_cases ham : a = m
    · subst ham
      by_cases he : mem entries a = true
      · simp [he]
      · have : mem entries a = false := by simpa using he
        simp [this]
    · have hne : (a == m) = false := by simpa using ham
      have hm' : m ∈ t := by
        rcases List.mem_cons.mp hm with e | e
        · exact absurd e.symm ham
        · exact e
      by_cases he : mem entries a = true
      · simp only [he, if_true, hne]
        exact ih hm'
      · have : mem entries a = false := by simpa using he
        simp only [this, Bool.false_eq_true, if_false, hne]
        exact ih hm'

/-- **The monotonicity assertion of the dominator fix-point never fires** — for every choice of
    entries, nodes and predecessor / successor tables over those nodes. -/
theorem doms_assert_never_fires (entries nodes : List Name) (preds succs : Name → List Name)
    (hp : ∀ n, ∀ p ∈ preds n, p ∈ nodes) (hs : ∀ n, ∀ s ∈ succs n, s ∈ nodes) :
    domsInternal entries nodes preds succs ≠ .error (assertionAt "_find_dominators_internal") := by
  unfold domsInternal
  split
  · simp [assertionAt]
  · refine domsGo_no_assert entries nodes preds succs hs _ _ _ ?_ ?_
    · have hval : ∀ q ∈ nodes, ∀ x ∈ SetMap.get (nodes.map fun n => if mem entries n then (n, [n]) else (n, nodes)) q,
          x ∈ nodes := by
        intro q hq x hx
        rw [get_doms0 entries nodes nodes q hq] at hx
        split at hx
        · simp only [List.mem_singleton] at hx; exact hx ▸ hq
        · exact hx
      constructor
      · intro m hm
        rw [get_doms0 entries nodes nodes m hm]
        split
        · simp
        · exact hm
      · intro m hm hme x hx
        rw [get_doms0 entries nodes nodes m hm, hme]
        simp only [Bool.false_eq_true, if_false]
        rcases (mem_newDomsOf _ preds m x).mp hx with e | ⟨hne, hall⟩
        · exact e ▸ hm
        · cases hps : preds m with
          | nil => exact absurd hps hne
          | cons p rest =>
            have hpm : p ∈ preds m := by simp [hps]
            exact hval p (hp m p hpm) x (hall p hpm)
    · intro t ht
      exact (List.mem_filter.mp ht).1

theorem inLevelSuccs_mem (lvl : List Blk) (n s : Name) (h : s ∈ inLevelSuccs lvl n) :
    s ∈ lvl.map (·.name) := by
  unfold inLevelSuccs at h
  have h1 := mem_dedup.mp h
  unfold succIn at h1
  split at h1
  · next b hb =>
    obtain ⟨_, hany⟩ := List.mem_filter.mp h1
    obtain ⟨x, hx, hxe⟩ := List.any_eq_true.mp hany
    exact List.mem_map.mpr ⟨x, hx, by simpa using hxe⟩
  · simp at h1

theorem inLevelPreds_mem (lvl : List Blk) (n p : Name) (h : p ∈ inLevelPreds lvl n) :
    p ∈ lvl.map (·.name) := by
  unfold inLevelPreds at h
  obtain ⟨b, hb, rfl⟩ := List.mem_map.mp h
  exact List.mem_map.mpr ⟨b, (List.mem_filter.mp hb).1, rfl⟩

/-- …in particular never for `_doms` / `_post_doms` of any level of any hierarchy. -/
theorem doms_never_asserts (H : Hier) (c : Name) :
    doms H c ≠ .error (assertionAt "_find_dominators_internal") :=
  doms_assert_never_fires _ _ _ _ (fun n p hp => inLevelPreds_mem _ n p hp)
    (fun n s hs => inLevelSuccs_mem _ n s hs)

theorem postDoms_never_asserts (H : Hier) (c : Name) :
    postDoms H c ≠ .error (assertionAt "_find_dominators_internal") :=
  doms_assert_never_fires _ _ _ _ (fun n p hp => inLevelSuccs_mem _ n p hp)
    (fun n s hs => inLevelPreds_mem _ n s hs)

end Scfg.C02
