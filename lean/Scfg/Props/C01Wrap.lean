import Scfg.Props.C01Frame
import Scfg.Spec.StepSpec
/-!
# C01 — wrapping blocks into a region leaves every path unchanged (frame theorem, a priori)

`Wrapped H H' r hdr`: `H'` has a new region `r` whose declared header is `hdr`; apart from that the
two hierarchies hold the same blocks under the same names, except that targets, table entries and
region headers naming `hdr` may have been renamed to `r` (what `extract_region` does to the entries
of the region, to the nested exiting blocks of entry regions and to the parent region). Containers
and parents may differ arbitrarily — the walk by name does not look at them.

`wrapped_paths`: for every such pair and every fuel, from every walk state other than `.at r`, if the
walk by name over `H'` meets no error then the walk over `H` shows exactly the same trace under every
decision sequence: a renamed target resolves, through the new region's header, to the very block
the old name resolved to.
-/
namespace Scfg.C01
open Scfg Scfg.C04

/-- undo the renaming -/
def unwrap (r hdr : Name) (x : Name) : Name := if x == r then hdr else x

structure WrapRel (r hdr : Name) (b b' : Blk) : Prop where
  name : b'.name = b.name
  kind : b'.kind = b.kind
  var : b'.var = b.var
  asg : b'.asg = b.asg
  jts : b'.jts.map (unwrap r hdr) = b.jts
  /-- the tables send every value to the same place (their order is free) -/
  tbl : ∀ x : Int, (b.tbl.find? (fun p => p.1 == x)).map (·.2) =
    ((b'.tbl.find? (fun p => p.1 == x)).map (·.2)).map (unwrap r hdr)
  header : unwrap r hdr b'.header = b.header
  /-- within one block the renaming is injective: it does not hold both names -/
  inj : ∀ x ∈ b'.jts, ∀ y ∈ b'.jts, unwrap r hdr x = unwrap r hdr y → x = y

structure Wrapped (H H' : Hier) (r hdr : Name) : Prop where
  region : ∃ rb, H'.get? r = some rb ∧ rb.isRegion = true ∧ rb.header = hdr
  hdrNe : hdr ≠ r
  rel : ∀ n, n ≠ r → (H.get? n = none ∧ H'.get? n = none) ∨
    ∃ b b', H.get? n = some b ∧ H'.get? n = some b' ∧ WrapRel r hdr b b'

theorem unwrap_of_ne {r hdr x : Name} (h : x ≠ r) : unwrap r hdr x = x := by simp [unwrap, h]

theorem wrapRel_flags {r hdr : Name} {b b' : Blk} (h : WrapRel r hdr b b') :
    b'.isRegion = b.isRegion ∧ b'.isOrig = b.isOrig := by
  simp [Blk.isRegion, Blk.isOrig, h.kind]

theorem resolve_mono (H : Hier) : ∀ R n b, resolve H R n = some b → resolve H (R + 1) n = some b := by
  intro R
  induction R with
  | zero => intro n b h; simp [resolve] at h
  | succ R ih =>
    intro n b h
    rw [resolve] at h ⊢
    cases hg : H.get? n with
    | none => rw [hg] at h; exact h
    | some x =>
      rw [hg] at h
      simp only at h ⊢
      by_cases hr : x.isRegion = true
      · simp only [hr, if_true] at h ⊢; exact ih _ _ h
      · simp only [hr] at h ⊢; exact h

/-- a name that resolves over `H'` resolves over `H` (after undoing the renaming) to the related block -/
theorem resolve_wrap (H H' : Hier) (r hdr : Name) (hW : Wrapped H H' r hdr) : ∀ R n x',
    resolve H' R n = some x' → ∃ x, resolve H R (unwrap r hdr n) = some x ∧ WrapRel r hdr x x' := by
  intro R
  induction R with
  | zero => intro n x' h; simp [resolve] at h
  | succ R ih =>
    intro n x' h
    by_cases hn : n = r
    · subst hn
      obtain ⟨rb, hg, hreg, hh⟩ := hW.region
      have hu : unwrap n hdr n = hdr := by simp [unwrap]
      rw [hu]
      simp only [resolve, hg, hreg, if_true, hh] at h
      obtain ⟨x, hx, hrel⟩ := ih hdr x' h
      rw [unwrap_of_ne hW.hdrNe] at hx
      exact ⟨x, resolve_mono H R hdr x hx, hrel⟩
    · rw [unwrap_of_ne hn]
      rcases hW.rel n hn with ⟨_, h2⟩ | ⟨b, b', h1, h2, hrel⟩
      · simp [resolve, h2] at h
      · obtain ⟨hreg, _⟩ := wrapRel_flags hrel
        simp only [resolve, h2] at h
        simp only [resolve, h1]
        by_cases hr : b.isRegion = true
        · simp only [hreg, hr, if_true] at h ⊢
          obtain ⟨x, hx, hxrel⟩ := ih b'.header x' h
          rw [hrel.header] at hx
          exact ⟨x, hx, hxrel⟩
        · simp only [hreg, hr, Bool.false_eq_true, if_false, Option.some.injEq] at h ⊢
          exact ⟨b, rfl, h ▸ hrel⟩

theorem idxOf_map_inj (f : Name → Name) : ∀ (xs : List Name) (t : Name), t ∈ xs →
    (∀ x ∈ xs, ∀ y ∈ xs, f x = f y → x = y) → idxOf (xs.map f) (f t) = idxOf xs t := by
  intro xs t ht hinj
  have key : ∀ (ys : List Name), (∀ y ∈ ys, y ∈ xs) →
      List.findIdx (· == f t) (ys.map f) = List.findIdx (· == t) ys := by
    intro ys
    induction ys with
    | nil => intro _; rfl
    | cons y ys ih =>
      intro hy
      simp only [List.map_cons, List.findIdx_cons]
      by_cases he : y = t
      · simp [he]
      · have : f y ≠ f t := fun e => he (hinj y (hy y (by simp)) t ht e)
        have h1 : (f y == f t) = false := by simpa using this
        have h2 : (y == t) = false := by simpa using he
        simp only [h1, h2, cond_false]
        rw [ih fun z hz => hy z (List.mem_cons_of_mem _ hz)]
  unfold idxOf
  simp only [List.length_map, key xs (fun y hy => hy)]

theorem find_map_snd (f : Name → Name) (x : Int) : ∀ t : List (Int × Name),
    ((t.map fun p => (p.1, f p.2)).find? (fun p => p.1 == x)).map (·.2) =
    ((t.find? (fun p => p.1 == x)).map (·.2)).map f := by
  intro t
  induction t with
  | nil => rfl
  | cons p ps ih =>
    simp only [List.map_cons, List.find?_cons]
    by_cases hp : (p.1 == x) = true
    · simp [hp]
    · have hp' : (p.1 == x) = false := by simpa using hp
      simp only [hp']
      exact ih

/-- executing a synthetic block under a renaming `f` of the targets: what succeeds for the renamed block
    succeeds with the same outcome for the original one -/
theorem synthExec_ren (f : Name → Name) {b b' : Blk} (hname : b'.name = b.name) (hkind : b'.kind = b.kind)
    (hvar : b'.var = b.var) (hasg : b'.asg = b.asg) (hjts : b'.jts.map f = b.jts)
    (htblx : ∀ x : Int, (b.tbl.find? (fun p => p.1 == x)).map (·.2) =
      ((b'.tbl.find? (fun p => p.1 == x)).map (·.2)).map f)
    (hinj : b.kind.isBranching = true → ∀ x ∈ b'.jts, ∀ y ∈ b'.jts, f x = f y → x = y)
    (consume : Bool) (val : Val)
    (res : Val × Option Nat) (hok : synthExec consume b' val = .ok res) : synthExec consume b val = .ok res := by
  have hlen : b'.jts.length = b.jts.length := by
    have := congrArg List.length hjts; simpa using this
  simp only [synthExec, hkind, hvar, hasg, hname] at hok ⊢
  by_cases hbr : b.kind.isBranching = true
  · simp only [hbr, if_true] at hok ⊢
    cases hv : val.get? b.var with
    | none => simp [hv] at hok
    | some x =>
      simp only [hv] at hok ⊢
      have htbl : (b.tbl.find? (fun p => p.1 == x)).map (·.2) =
          ((b'.tbl.find? (fun p => p.1 == x)).map (·.2)).map f := htblx x
      cases hf : (b'.tbl.find? (fun p => p.1 == x)).map (·.2) with
      | none => simp [hf] at hok
      | some t' =>
        rw [hf] at htbl
        simp only [Option.map_some] at htbl
        simp only [hf] at hok
        rw [htbl]
        simp only
        cases hi : idxOf b'.jts t' with
        | none => simp [hi] at hok
        | some i =>
          simp only [hi] at hok
          -- the table entry is a successor over `H'`, at the same position over `H`
          have hmem : t' ∈ b'.jts := by
            unfold idxOf at hi
            simp only at hi
            split at hi
            · next hlt =>
              have := List.findIdx_getElem (w := hlt)
              simp only [beq_iff_eq] at this
              exact this ▸ List.getElem_mem hlt
            · simp at hi
          have hidx := idxOf_map_inj f b'.jts t' hmem (hinj hbr)
          rw [hjts, hi] at hidx
          rw [hidx]
          exact hok
  · have hbr' : b.kind.isBranching = false := by simpa using hbr
    simp only [hbr', Bool.false_eq_true, if_false] at hok ⊢
    cases hb : b.jts with
    | nil =>
      have : b'.jts = [] := by
        have := hlen; rw [hb] at this; exact List.eq_nil_of_length_eq_zero (by simpa using this)
      rw [this] at hok; exact hok
    | cons t ts =>
      cases ts with
      | nil =>
        have : ∃ t', b'.jts = [t'] := by
          have := hlen; rw [hb] at this
          match hb' : b'.jts, this with
          | [t'], _ => exact ⟨t', rfl⟩
          | [], h => simp at h
          | _ :: _ :: _, h => simp at h
        obtain ⟨t', ht'⟩ := this
        rw [ht'] at hok; exact hok
      | cons t2 ts2 =>
        have : ∃ a a2 rr, b'.jts = a :: a2 :: rr := by
          have := hlen; rw [hb] at this
          match hb' : b'.jts, this with
          | a :: a2 :: rr, _ => exact ⟨a, a2, rr, rfl⟩
          | [], h => simp at h
          | [_], h => simp at h
        obtain ⟨a, a2, rr, hr⟩ := this
        rw [hr] at hok; simp at hok

/-- executing a synthetic block: what succeeds over `H'` succeeds with the same outcome over `H` -/
theorem synthExec_wrap {r hdr : Name} {b b' : Blk} (h : WrapRel r hdr b b') (consume : Bool) (val : Val)
    (res : Val × Option Nat) (hok : synthExec consume b' val = .ok res) : synthExec consume b val = .ok res :=
  synthExec_ren (unwrap r hdr) h.name h.kind h.var h.asg h.jts h.tbl (fun _ => h.inj) consume val res hok

/-- **Running through synthetic blocks.** A non-error result over `H'` is the result over `H` from the
    un-renamed name. -/
theorem adv_wrap (H H' : Hier) (r hdr : Name) (hW : Wrapped H H' r hdr) (consume : Bool) (R : Nat) :
    ∀ F n val res, advF H' consume R F n val = res → res.isErr = false →
      advF H consume R F (unwrap r hdr n) val = res := by
  intro F
  induction F with
  | zero => intro n val res h hr; simp only [advF] at h; subst h; simp [WState.isErr] at hr
  | succ F ih =>
    intro n val res h hr
    rw [advF] at h ⊢
    cases hres : resolve H' R n with
    | none => rw [hres] at h; subst h; simp [WState.isErr] at hr
    | some x' =>
      rw [hres] at h
      obtain ⟨x, hx, hrel⟩ := resolve_wrap H H' r hdr hW R n x' hres
      rw [hx]
      obtain ⟨_, horig⟩ := wrapRel_flags hrel
      simp only [horig, hrel.name] at h ⊢
      by_cases ho : x.isOrig = true
      · simp only [ho, if_true] at h ⊢; exact h
      · simp only [ho] at h ⊢
        cases he : synthExec consume x' val with
        | error e => rw [he] at h; subst h; simp [WState.isErr] at hr
        | ok sres =>
          rw [he] at h
          rw [synthExec_wrap hrel consume val sres he]
          obtain ⟨val', oi⟩ := sres
          cases oi with
          | none => exact h
          | some i =>
            simp only at h ⊢
            cases ht : x'.jts[i]? with
            | none => rw [ht] at h; subst h; simp [WState.isErr] at hr
            | some t' =>
              rw [ht] at h
              have htb : x.jts[i]? = some (unwrap r hdr t') := by
                rw [← hrel.jts, List.getElem?_map, ht]; rfl
              rw [htb]
              exact ih t' val' res h hr

/-- the states that are compared: everything except standing on the new region -/
def NotAt (r : Name) : WState → Prop
  | .at n _ => n ≠ r
  | _ => True

theorem resolve_from_get (H : Hier) : ∀ R n b, resolve H R n = some b → ∃ m, H.get? m = some b := by
  intro R
  induction R with
  | zero => intro n b h; simp [resolve] at h
  | succ R ih =>
    intro n b h
    simp only [resolve] at h
    split at h
    · simp at h
    · next x hx =>
      split at h
      · exact ih _ _ h
      · simp only [Option.some.injEq] at h; exact ⟨n, h ▸ hx⟩

theorem adv_result_notAt (H H' : Hier) (r hdr : Name) (hW : Wrapped H H' r hdr) (consume : Bool) (R : Nat) :
    ∀ F n val, NotAt r (advF H' consume R F n val) := by
  intro F
  induction F with
  | zero => intro n val; simp [advF, NotAt]
  | succ F ih =>
    intro n val
    rw [advF]
    cases hr : resolve H' R n with
    | none => simp [NotAt]
    | some b =>
      simp only
      by_cases ho : b.isOrig = true
      · simp only [ho, if_true, NotAt]
        intro e
        obtain ⟨rb, hg, hreg, _⟩ := hW.region
        obtain ⟨m, hm⟩ := resolve_from_get H' R n b hr
        have hbn := (get?_mem H' m b hm).2
        rw [hbn] at e
        rw [e, hg] at hm
        simp only [Option.some.injEq] at hm
        rw [← hm] at ho
        -- a region is not an original block
        have : rb.isOrig = false := by
          unfold Blk.isRegion at hreg
          unfold Blk.isOrig
          cases hk : rb.kind <;> simp_all [BKind.isRegion, BKind.isOrig]
        rw [this] at ho
        cases ho
      · simp only [ho]
        cases synthExec consume b val with
        | error e => simp [NotAt]
        | ok res =>
          obtain ⟨val', oi⟩ := res
          cases oi with
          | none => simp [NotAt]
          | some i =>
            simp only
            cases b.jts[i]? with
            | none => simp [NotAt]
            | some t => exact ih t val'

/-- **Wrapping blocks into a region leaves every path unchanged.** -/
theorem wrapped_paths (H H' : Hier) (r hdr : Name) (hW : Wrapped H H' r hdr) (consume : Bool) (R F : Nat) :
    ∀ (ds : List Nat) (st : WState), NotAt r st → CleanRun (sysF H' consume R F) st →
      run (sysF H consume R F) st ds = run (sysF H' consume R F) st ds := by
  refine runs_eq_of_clean_inv (sysF H consume R F) (sysF H' consume R F) (NotAt r) ?_
  intro st hp hc
  cases st with
  | halt => exact ⟨rfl, fun _ _ => ⟨rfl, trivial⟩⟩
  | err c m => exact ⟨rfl, fun _ _ => ⟨rfl, trivial⟩⟩
  | «at» n val =>
    have hn : n ≠ r := hp
    rcases hW.rel n hn with ⟨h1, h2⟩ | ⟨b, b', h1, h2, hrel⟩
    · refine ⟨by simp [sysF, obsOf, h1, h2], fun d hd => ?_⟩
      simp [sysF, obsOf, h2, Obs.arity] at hd
    · have hlen : b'.jts.length = b.jts.length := by
        have := congrArg List.length hrel.jts; simpa using this
      have hstep : ∀ d, (stepF H' consume R F b' val d).isErr = false →
          stepF H consume R F b val d = stepF H' consume R F b' val d := by
        intro d hne
        simp only [stepF] at hne ⊢
        cases ht : b'.jts[d]? with
        | none => simp [ht, WState.isErr] at hne
        | some t' =>
          rw [ht] at hne
          have htb : b.jts[d]? = some (unwrap r hdr t') := by
            rw [← hrel.jts, List.getElem?_map, ht]; rfl
          rw [htb]
          exact adv_wrap H H' r hdr hW consume R F t' val _ rfl hne
      have hstepClean : ∀ d, d < ((sysF H' consume R F).obs (.at n val)).arity →
          (stepF H' consume R F b' val d).isErr = false := by
        intro d hd
        have := clean_obs _ _ (clean_step _ _ hc d hd)
        have h2' := obs_err_state H' _ _ this
        simpa [sysF, h2] using h2'
      constructor
      · simp only [sysF, obsOf, h1, h2]
        congr 1
        simp only [arityIn]
        cases hb : b.jts with
        | nil =>
          have : b'.jts = [] := by
            have := hlen; rw [hb] at this; exact List.eq_nil_of_length_eq_zero (by simpa using this)
          rw [this]
        | cons t ts =>
          cases ts with
          | nil =>
            have : ∃ t', b'.jts = [t'] := by
              have := hlen; rw [hb] at this
              match hb' : b'.jts, this with
              | [t'], _ => exact ⟨t', rfl⟩
              | [], h => simp at h
              | _ :: _ :: _, h => simp at h
            obtain ⟨t', ht'⟩ := this
            rw [ht']
            simp only
            have har : ((sysF H' consume R F).obs (.at n val)).arity =
                if stepF H' consume R F b' val 0 == .halt then 0 else 1 := by
              simp [sysF, obsOf, h2, arityIn, ht', Obs.arity]
            by_cases hh : stepF H' consume R F b' val 0 = .halt
            · have := hstep 0 (by rw [hh]; rfl)
              rw [this]
            · have h1' : 0 < ((sysF H' consume R F).obs (.at n val)).arity := by rw [har]; simp [hh]
              rw [hstep 0 (hstepClean 0 h1')]
          | cons t2 ts2 =>
            have : b'.jts.length = (t :: t2 :: ts2).length := by rw [hlen, hb]
            match hb' : b'.jts, this with
            | a :: a2 :: rr, hl => simpa using hl.symm
            | [], hl => simp at hl
            | [_], hl => simp at hl
      · intro d hd
        have hne := hstepClean d hd
        refine ⟨?_, ?_⟩
        · simp only [sysF, h1, h2]
          exact hstep d hne
        · simp only [sysF, h2, stepF]
          cases b'.jts[d]? with
          | none => simp [NotAt]
          | some t' => exact adv_result_notAt H H' r hdr hW consume R F t' val

/-! ## The decidable relation the harness evaluates on real `extract_region` steps -/

open Scfg.Spec in
theorem unwrapN_eq (r hdr x : Name) : unwrapN r hdr x = unwrap r hdr x := rfl

theorem get?_none_of_not_mem (H : Hier) (n : Name) (h : n ∉ H.names) : H.get? n = none := by
  cases hg : H.get? n with
  | none => rfl
  | some b =>
    obtain ⟨hm, hn⟩ := get?_mem H n b hg
    exact absurd (List.mem_map.mpr ⟨b, hm, hn⟩) h

open Scfg.Spec in
theorem find?_key_none (t : List (Int × Name)) (x : Int) (h : x ∉ t.map (·.1)) :
    t.find? (fun p => p.1 == x) = none := by
  rw [List.find?_eq_none]
  intro p hp hx
  simp only [beq_iff_eq] at hx
  exact h (List.mem_map.mpr ⟨p, hp, hx⟩)

open Scfg.Spec in
theorem tblRelB_sound (f : Name → Name) (t t' : List (Int × Name)) (h : tblRelB f t t' = true) (x : Int) :
    (t.find? (fun p => p.1 == x)).map (·.2) = ((t'.find? (fun p => p.1 == x)).map (·.2)).map f := by
  by_cases hm : x ∈ t.map (·.1) ++ t'.map (·.1)
  · have := List.all_eq_true.mp h x hm
    simpa [tblLook] using this
  · simp only [List.mem_append, not_or] at hm
    rw [find?_key_none t x hm.1, find?_key_none t' x hm.2]; rfl

open Scfg.Spec in
theorem wrapRelB_sound (r hdr : Name) (b b' : Blk) (h : wrapRelB r hdr b b' = true) : WrapRel r hdr b b' := by
  simp only [wrapRelB, Bool.and_eq_true, beq_iff_eq] at h
  obtain ⟨⟨⟨⟨⟨⟨⟨h1, h2⟩, h3⟩, h4⟩, h5⟩, h6⟩, h7⟩, h8⟩ := h
  refine ⟨h1, h2, h3, h4, h5, tblRelB_sound _ _ _ h6, h7, ?_⟩
  intro x hx y hy hxy
  simp only [injOn, List.all_eq_true, Bool.or_eq_true, bne_iff_ne, ne_eq, beq_iff_eq] at h8
  rcases h8 x hx y hy with e | e
  · exact absurd hxy e
  · exact e

open Scfg.Spec in
/-- **Soundness of the step check.** -/
theorem wrappedB_sound (H H' : Hier) (r hdr : Name) (h : wrappedB H H' r hdr = true) : Wrapped H H' r hdr := by
  simp only [wrappedB, Bool.and_eq_true, bne_iff_ne, ne_eq] at h
  obtain ⟨⟨h1, h2⟩, h3⟩ := h
  refine ⟨?_, h2, ?_⟩
  · cases hg : H'.get? r with
    | none => simp [hg] at h1
    | some rb =>
      simp only [hg, Bool.and_eq_true, beq_iff_eq] at h1
      exact ⟨rb, rfl, h1.1, h1.2⟩
  · intro n hn
    by_cases hmem : n ∈ H.names ++ H'.names
    · have := List.all_eq_true.mp h3 n hmem
      simp only [Bool.or_eq_true, beq_iff_eq] at this
      rcases this with e | e
      · exact absurd e hn
      · cases hg : H.get? n <;> cases hg' : H'.get? n <;> simp only [hg, hg'] at e
        · exact Or.inl ⟨rfl, rfl⟩
        · cases e
        · cases e
        · exact Or.inr ⟨_, _, rfl, rfl, wrapRelB_sound r hdr _ _ e⟩
    · simp only [List.mem_append, not_or] at hmem
      exact Or.inl ⟨get?_none_of_not_mem H n hmem.1, get?_none_of_not_mem H' n hmem.2⟩

end Scfg.C01
