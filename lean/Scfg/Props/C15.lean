import Scfg.WF
/-!
# C15 — dictionary and YAML serialisation round-trips every graph

`sameHier H H'` is evaluated on the exported original and the exported re-read graph (after
`to_dict`/`from_dict`, `to_yaml`/`from_yaml`, and chains of them) for every stage output of the
real pipeline. `sameHier_sound` says what a `true` answer means: a bijection between the
entries under which every field the property lists — type, payload, ordered successors, back
edges, value table, assignments, container (nesting), region kind, header, exiting block,
parent — is equal.
-/
namespace Scfg.C15
open Scfg

theorem sameEntry_eq (a b : Blk) (h : sameEntry a b = true) : a = b := by
  simp only [sameEntry, Bool.and_eq_true, beq_iff_eq] at h
  obtain ⟨⟨⟨⟨⟨⟨⟨⟨⟨⟨⟨⟨h1, h2⟩, h3⟩, h4⟩, h5⟩, h6⟩, h7⟩, h8⟩, h9⟩, h10⟩, h11⟩, h12⟩, h13⟩ := h
  cases a; cases b
  simp_all

theorem nodupB_iff (xs : List Name) : nodupB xs = true ↔ xs.Nodup := by
  induction xs with
  | nil => simp [nodupB]
  | cons x xs ih => simp [nodupB, ih]

theorem nodup_of_map_names : ∀ (H : Hier), H.names.Nodup → H.Nodup
  | [], _ => List.nodup_nil
  | a :: t, h => by
    simp only [Hier.names, List.map_cons, List.nodup_cons, List.mem_map, not_exists, not_and] at h
    rw [List.nodup_cons]
    exact ⟨fun hm => h.1 a hm rfl, nodup_of_map_names t h.2⟩

theorem subset_of_nodup_subset_length : ∀ (xs ys : Hier), xs.Nodup → (∀ x ∈ xs, x ∈ ys) →
    ys.length ≤ xs.length → ∀ y ∈ ys, y ∈ xs
  | [], ys, _, _, hl, y, hy => by
    have : ys = [] := List.eq_nil_of_length_eq_zero (by simpa using hl)
    simp [this] at hy
  | a :: t, ys, hnd, hsub, hl, y, hy => by
    rw [List.nodup_cons] at hnd
    have ha : a ∈ ys := hsub a (by simp)
    have hsub' : ∀ x ∈ t, x ∈ ys.erase a := by
      intro x hx
      have hne : x ≠ a := fun e => hnd.1 (e ▸ hx)
      exact (List.mem_erase_of_ne hne).mpr (hsub x (by simp [hx]))
    have hl' : (ys.erase a).length ≤ t.length := by
      rw [List.length_erase_of_mem ha]
      simp only [List.length_cons] at hl
      omega
    by_cases e : y = a
    · simp [e]
    · have := subset_of_nodup_subset_length t (ys.erase a) hnd.2 hsub' hl' y
        ((List.mem_erase_of_ne e).mpr hy)
      simp [this]

/-- **Round trip.** If `sameHier H H'` then `H` and `H'` contain exactly the same entries
    (field by field, containers included), each exactly once — only the dict insertion order
    may differ. -/
theorem sameHier_sound (H H' : Hier) (h : sameHier H H' = true) :
    H.names.Nodup ∧ H'.names.Nodup ∧ (∀ a, a ∈ H ↔ a ∈ H') := by
  simp only [sameHier, Bool.and_eq_true, beq_iff_eq] at h
  obtain ⟨⟨⟨hlen, hn1⟩, hn2⟩, hall⟩ := h
  have hnd1 := (nodupB_iff _).mp hn1
  have hnd2 := (nodupB_iff _).mp hn2
  have hsub : ∀ a ∈ H, a ∈ H' := by
    intro a ha
    obtain ⟨b, hb, hab⟩ := List.any_eq_true.mp (List.all_eq_true.mp hall a ha)
    exact sameEntry_eq a b hab ▸ hb
  refine ⟨hnd1, hnd2, fun a => ⟨hsub a, ?_⟩⟩
  -- H ⊆ H', H duplicate-free, same length ⇒ H' ⊆ H
  intro ha'
  exact subset_of_nodup_subset_length H H' (nodup_of_map_names H hnd1) hsub (by omega) a ha'

/-! Non-vacuity: equal up to order is accepted; a swapped successor pair is not. -/
def exH : Hier := [
  { cont := "m", name := "0", jts := ["1", "2"] },
  { cont := "m", name := "1" }, { cont := "m", name := "2" }]
example : sameHier exH exH.reverse = true := by decide
example : sameHier exH (exH.map fun b => if b.name == "0" then { b with jts := ["2", "1"] } else b) = false := by
  decide

end Scfg.C15
