import Scfg.WF
/-!
# C01 — restructuring preserves every execution path

`PathEquiv*` is the property for one (input graph, hierarchy) pair: equal traces of original
blocks under **every** decision sequence, of any length. The theorems say that one `true`
answer of the decider the harness runs on the implementation's real output establishes it —
for the walk by name and for the walk region by region, separately.
-/
namespace Scfg.C01
open Scfg

/-- Walk by name: same blocks, in the same order, offering the same number of decisions, and
    stopping at the same place, under every decision sequence. -/
def PathEquivName (G H : Hier) (gtop htop : Name) : Prop :=
  ∀ ds : List Nat,
    run (sysOrig G) (initOrig G gtop) ds = run (sysName H false) (initName H htop false) ds

/-- The same for the walk region by region (declared header / exiting / outgoing targets). -/
def PathEquivRegion (G H : Hier) (gtop htop : Name) : Prop :=
  ∀ ds : List Nat,
    run (sysOrig G) (initOrig G gtop) ds = run (sysRegion H false) (initRegion H htop false) ds

theorem name_walk_sound (G H : Hier) (gtop htop : Name)
    (h : simNameOK G H gtop htop false = true) : PathEquivName G H gtop htop :=
  simOKc_sound _ _ _ _ _ h

theorem region_walk_sound (G H : Hier) (gtop htop : Name)
    (h : simRegionOK G H gtop htop false = true) : PathEquivRegion G H gtop htop :=
  simOKc_sound _ _ _ _ _ h

/-- Both walks agree with each other on every decision sequence once both checks pass. -/
theorem walks_agree (G H : Hier) (gtop htop : Name)
    (h1 : simNameOK G H gtop htop false = true) (h2 : simRegionOK G H gtop htop false = true) :
    ∀ ds, run (sysName H false) (initName H htop false) ds
        = run (sysRegion H false) (initRegion H htop false) ds := by
  intro ds
  rw [← name_walk_sound G H gtop htop h1 ds, ← region_walk_sound G H gtop htop h2 ds]

/-- What the left-hand side means: the original system shows a block with its successor count… -/
theorem orig_obs (G : Hier) (n : Name) (b : Blk) (h : G.get? n = some b) :
    (sysOrig G).obs (some n) = .blk n b.jts.length := by
  simp [sysOrig, h]

/-- …and the i-th decision takes its i-th successor. -/
theorem orig_step (G : Hier) (n : Name) (b : Blk) (i : Nat) (h : G.get? n = some b) :
    (sysOrig G).step (some n) i = b.jts[i]? := by
  simp [sysOrig, h]

/-- Unfolding of a trace: the first observation is the current block, the rest is the trace
    from the chosen successor; a decision that is not offered ends the trace. -/
theorem run_cons {σ : Type} (S : Sys σ) (s : σ) (d : Nat) (ds : List Nat) :
    run S s (d :: ds) =
      S.obs s :: (if d < (S.obs s).arity then run S (S.step s d) ds else []) := rfl

/-! Non-vacuity: a concrete input (a loop with two exits, `0→1, 1→(2,1)…`) and the hierarchy the
pinned implementation produces for it satisfy the hypotheses (kernel evaluation). -/

def exG : Hier := [
  { cont := "m", name := "0", jts := ["1"] },
  { cont := "m", name := "1", jts := ["1", "2"] },
  { cont := "m", name := "2" }]

def exH : Hier := [
  { cont := "m", name := "0", jts := ["loop_region_0"] },
  { cont := "m", name := "2" },
  { cont := "m", name := "loop_region_0", kind := .region, jts := ["2"], rkind := "loop",
    header := "1", exiting := "1", parent := "m" },
  { cont := "loop_region_0", name := "1", jts := ["1", "2"], bes := ["1"] }]

/-- The list-based checker (`simOK`, kernel-reducible) accepts the pair; the compiled driver uses
    the certificate-based `simOKc` — both are sound (`simOK_sound`, `simOKc_sound`). -/
example : simOK (sysOrig exG) (sysName exH false) (initOrig exG "m") (initName exH "m" false) 64 = true := by
  decide
example : simOK (sysOrig exG) (sysRegion exH false) (initOrig exG "m") (initRegion exH "m" false) 64 = true := by
  decide
/-- …and the check is not trivially true: swapping the loop block's successors is rejected. -/
example : simOK (sysOrig exG)
    (sysName (exH.map fun b => if b.name == "1" then { b with jts := ["2", "1"] } else b) false)
    (initOrig exG "m")
    (initName (exH.map fun b => if b.name == "1" then { b with jts := ["2", "1"] } else b) "m" false) 64
    = false := by decide

end Scfg.C01
