import Scfg.Spec.RenderSpec
/-!
# C10 — code generation emits every block exactly once

The harness collects, by object identity, the statements / tests / control-variable
assignments of the restructured graph (expected) and those found in the output tree (got), as
lists of tags, and asks `sameMultiset`. `census_sound`: a `true` answer means every tag occurs
in the output exactly as often as in the graph — nothing dropped, nothing duplicated, nothing
foreign.
-/
namespace Scfg.C10
open Scfg Scfg.Spec

theorem count_eq_of_sameMultiset (xs ys : List String) (h : sameMultiset xs ys = true) :
    ∀ x, xs.count x = ys.count x := by
  simp only [sameMultiset, Bool.and_eq_true, beq_iff_eq, List.all_eq_true] at h
  obtain ⟨hlen, hall⟩ := h
  intro x
  by_cases hx : x ∈ xs
  · exact hall x hx
  · -- x ∉ xs: counts of members already exhaust ys
    rw [List.count_eq_zero_of_not_mem hx]
    by_cases hy : x ∈ ys
    case neg => exact (List.count_eq_zero_of_not_mem hy).symm
    exfalso
    -- remove x from ys: the members of xs still have the same counts, but ys got shorter
    have key : ∀ (as bs : List String), (∀ a ∈ as, as.count a = bs.count a) → as.length ≤ bs.length := by
      intro as
      induction as using List.rec with
      | nil => intro bs _; simp
      | cons a t ih =>
        intro bs hc
        have ha : a ∈ bs := by
          have := hc a (by simp)
          have hpos : 0 < bs.count a := by rw [← this]; simp
          exact List.count_pos_iff.mp hpos
        have := ih (bs.erase a) (by
          intro c hct
          have h1 := hc c (by simp [hct])
          by_cases hca : c = a
          · subst hca
            rw [List.count_erase_self]
            simp only [List.count_cons_self] at h1
            omega
          · rw [List.count_erase_of_ne hca]
            have : (a :: t).count c = t.count c := by
              rw [List.count_cons]; simp [Ne.symm hca]
            rw [this] at h1
            exact h1)
        rw [List.length_erase_of_mem ha] at this
        simp only [List.length_cons]
        have hpos : 0 < bs.length := List.length_pos_of_mem ha
        omega
    have hlt := key xs (ys.erase x) (by
      intro a ha
      have hax : a ≠ x := fun e => hx (e ▸ ha)
      rw [List.count_erase_of_ne hax]
      exact hall a ha)
    rw [List.length_erase_of_mem hy] at hlt
    have hpos : 0 < ys.length := List.length_pos_of_mem hy
    omega

/-- **Census.** If the check passes, every tag (statement, test, control-variable assignment)
    occurs in the generated function exactly as often as in the restructured graph. -/
theorem census_sound (expected got : List String) (h : sameMultiset expected got = true) :
    ∀ tag, got.count tag = expected.count tag :=
  fun tag => (count_eq_of_sameMultiset expected got h tag).symm

example : sameMultiset ["s1", "s2", "a:x=0"] ["a:x=0", "s1", "s2"] = true := by decide
example : sameMultiset ["s1", "s2"] ["s1", "s1", "s2"] = false := by decide
example : sameMultiset ["s1", "s2"] ["s1"] = false := by decide

end Scfg.C10
