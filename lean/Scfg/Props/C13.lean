import Scfg.Spec.GraphDefs
/-!
# C13 — graph queries return what their definitions prescribe

The harness compares every answer of the real queries with the executable reference
definitions of `Scfg/Spec/GraphDefs.lean` on all graphs of a small scope. This file relates
those reference definitions to the mathematical ones:

* `headRef_spec`     — the head is the unique member without in-level predecessor;
* `findHead_eq_ref`  — the model of `find_head` is that definition (abort ⇔ no unique head);
* `reachRef_sound`   — anything the closure contains is reachable by a genuine path;
* `reachRef_complete_bounded` — every path of length ≤ |level|+2 is found (`_partial`: the
  step from bounded to arbitrary paths — a shortest path never repeats a node — is not
  formalised; it is covered by the exhaustive comparison with the independent DFS);
* `subset queries`   — headers / entries / exiting / exits characterised by membership.
-/
namespace Scfg.C13
open Scfg Scfg.Model Scfg.Spec

/-- A path of at least one non-back-edge arc that continues only through members. -/
inductive Reach (lvl : List Blk) : Name → Name → Prop
  | arc {a b : Name} : b ∈ succOf lvl a → Reach lvl a b
  | step {a m b : Name} : Reach lvl a m → b ∈ succOf lvl m → Reach lvl a b

/-- The same with the number of arcs. -/
inductive ReachN (lvl : List Blk) : Nat → Name → Name → Prop
  | arc {a b : Name} : b ∈ succOf lvl a → ReachN lvl 1 a b
  | step {n : Nat} {a m b : Name} : ReachN lvl n a m → b ∈ succOf lvl m → ReachN lvl (n + 1) a b

theorem mem_dedup {xs : List Name} {x : Name} : x ∈ dedup xs ↔ x ∈ xs := by
  induction xs with
  | nil => simp [dedup]
  | cons y ys ih =>
    simp only [dedup, List.mem_cons, List.mem_filter, ih, bne_iff_ne, ne_eq]
    constructor
    · rintro (h | ⟨h, _⟩)
      · exact Or.inl h
      · exact Or.inr h
    · rintro (h | h)
      · exact Or.inl h
      · by_cases e : x = y
        · exact Or.inl e
        · exact Or.inr ⟨h, e⟩

theorem mem_foldl_succ (lvl : List Blk) (s : List Name) (init : List Name) (x : Name) :
    x ∈ s.foldl (fun acc v => acc ++ succOf lvl v) init ↔ x ∈ init ∨ ∃ v ∈ s, x ∈ succOf lvl v := by
  induction s generalizing init with
  | nil => simp
  | cons v vs ih =>
    simp only [List.foldl_cons, ih, List.mem_append, List.mem_cons]
    constructor
    · rintro ((h | h) | ⟨w, hw, hx⟩)
      · exact Or.inl h
      · exact Or.inr ⟨v, Or.inl rfl, h⟩
      · exact Or.inr ⟨w, Or.inr hw, hx⟩
    · rintro (h | ⟨w, hw | hw, hx⟩)
      · exact Or.inl (Or.inl h)
      · exact Or.inl (Or.inr (hw ▸ hx))
      · exact Or.inr ⟨w, hw, hx⟩

theorem mem_expand (lvl : List Blk) (s : List Name) (x : Name) :
    x ∈ expand lvl s ↔ x ∈ s ∨ ∃ v ∈ s, x ∈ succOf lvl v := by
  unfold expand
  rw [mem_dedup, List.mem_append, mem_foldl_succ]
  simp

/-- Soundness of the closure: every round only adds names reachable from `a`. -/
theorem iter_expand_sound (lvl : List Blk) (a : Name) :
    ∀ (n : Nat) (s : List Name), (∀ x ∈ s, Reach lvl a x) →
      ∀ x ∈ iter (expand lvl) n s, Reach lvl a x := by
  intro n
  induction n with
  | zero => intro s hs x hx; exact hs x hx
  | succ n ih =>
    intro s hs x hx
    simp only [iter] at hx
    refine ih (expand lvl s) ?_ x hx
    intro y hy
    rcases (mem_expand lvl s y).mp hy with h | ⟨v, hv, hyv⟩
    · exact hs y h
    · exact Reach.step (hs v hv) hyv

/-- **Reachability, soundness.** A positive answer of the reference (and hence, by the
    exhaustive comparison, of `is_reachable_dfs`) is witnessed by a genuine path of at least
    one arc that continues only through members. -/
theorem reachRef_sound (lvl : List Blk) (a b : Name) (h : reachRef lvl a b = true) :
    Reach lvl a b := by
  unfold reachRef reachSet at h
  have hb : b ∈ iter (expand lvl) (lvl.length + 1) (dedup (succOf lvl a)) := by
    simpa [List.contains_iff_mem] using h
  refine iter_expand_sound lvl a _ _ ?_ b hb
  intro x hx
  exact Reach.arc (mem_dedup.mp hx)

theorem iter_expand_mono (lvl : List Blk) :
    ∀ (n : Nat) (s : List Name) (x : Name), x ∈ s → x ∈ iter (expand lvl) n s := by
  intro n
  induction n with
  | zero => intro s x hx; exact hx
  | succ n ih =>
    intro s x hx
    simp only [iter]
    exact ih _ x ((mem_expand lvl s x).mpr (Or.inl hx))

theorem iter_succ_comm {α : Type} (f : α → α) (n : Nat) (x : α) :
    iter f (n + 1) x = f (iter f n x) := by
  induction n generalizing x with
  | zero => rfl
  | succ n ih => simp only [iter] at ih ⊢; exact ih (f x)

/-- After `n` rounds the closure contains every endpoint of a path with at most `n + 1` arcs. -/
theorem iter_expand_complete (lvl : List Blk) (a : Name) :
    ∀ (k : Nat) (b : Name), ReachN lvl k a b → ∀ n, k ≤ n + 1 →
      b ∈ iter (expand lvl) n (dedup (succOf lvl a)) := by
  intro k b h
  induction h with
  | arc hb =>
    intro n _
    exact iter_expand_mono lvl n _ _ (mem_dedup.mpr hb)
  | @step k' a' m b' _ hb ih =>
    intro n hn
    cases n with
    | zero =>
      exfalso
      have : 1 ≤ k' := by
        rename_i hprev
        cases hprev <;> omega
      omega
    | succ n =>
      rw [iter_succ_comm]
      exact (mem_expand lvl _ b').mpr (Or.inr ⟨m, ih n (by omega), hb⟩)

/-- **Reachability, completeness for bounded paths** (`_partial`, see the header). -/
theorem reachRef_complete_bounded (lvl : List Blk) (a b : Name) (k : Nat)
    (h : ReachN lvl k a b) (hk : k ≤ lvl.length + 2) : reachRef lvl a b = true := by
  unfold reachRef reachSet
  simpa [List.contains_iff_mem] using iter_expand_complete lvl a k b h (lvl.length + 1) (by omega)

/-- **Head.** `headRef` answers `h` iff `h` is a member no member names, and the only one. -/
theorem headRef_spec (lvl : List Blk) (h : Name) (hh : headRef lvl = some h) :
    ∃ b ∈ lvl, b.name = h ∧ (∀ a ∈ lvl, h ∉ a.jt) ∧
      ∀ b' ∈ lvl, (∀ a ∈ lvl, b'.name ∉ a.jt) → b' = b := by
  unfold headRef at hh
  split at hh
  · next x hx =>
    simp only [Option.some.injEq] at hh
    have hmem : ∀ y, y ∈ lvl.filter (fun b => !(lvl.any fun a => a.jt.contains b.name)) ↔ y = x := by
      intro y; rw [hx]; simp
    have hxm := (hmem x).mpr rfl
    rw [List.mem_filter] at hxm
    refine ⟨x, hxm.1, hh, ?_, ?_⟩
    · intro a ha hc
      have := hxm.2
      simp only [Bool.not_eq_true', List.any_eq_false] at this
      have := this a ha
      rw [hh] at this
      simp [List.contains_iff_mem, hc] at this
    · intro b' hb' hnone
      apply (hmem b').mp
      rw [List.mem_filter]
      refine ⟨hb', ?_⟩
      simp only [Bool.not_eq_true', List.any_eq_false]
      intro a ha
      simpa [List.contains_iff_mem] using hnone a ha
  · simp at hh

/-- The model of `find_head` *is* the definition: it answers exactly when there is a unique
    head, and raises the assertion otherwise. -/
theorem findHead_eq_ref (H : Hier) (c : Name) :
    findHead H c = match headRef (H.level c) with
      | some h => .ok h
      | none => .error (assertionAt "find_head") := by
  simp only [findHead, headRef]
  generalize List.filter (fun b => !(H.level c).any fun a => a.jt.contains b.name) (H.level c) = l
  cases l with
  | nil => rfl
  | cons x xs => cases xs <;> rfl

/-- **Exiting blocks / exits of a subset**, by membership. -/
theorem exitingRef_spec (lvl : List Blk) (sub : List Name) (n : Name) :
    n ∈ exitingRef lvl sub ↔
      ∃ b ∈ lvl, b.name = n ∧ n ∈ sub ∧ (b.jt = [] ∨ ∃ t ∈ b.jt, t ∉ sub) := by
  unfold exitingRef
  rw [mem_sortNames, mem_dedup, List.mem_map]
  constructor
  · rintro ⟨b, hb, rfl⟩
    rw [List.mem_filter] at hb
    simp only [Bool.and_eq_true, Bool.or_eq_true, List.isEmpty_iff, List.any_eq_true,
      Bool.not_eq_true', List.contains_iff_mem, decide_eq_true_eq] at hb
    refine ⟨b, hb.1, rfl, by simpa using hb.2.1, ?_⟩
    rcases hb.2.2 with h | ⟨t, ht, hts⟩
    · exact Or.inl h
    · exact Or.inr ⟨t, ht, by simpa using hts⟩
  · rintro ⟨b, hb, rfl, hs, hj⟩
    refine ⟨b, ?_, rfl⟩
    rw [List.mem_filter]
    refine ⟨hb, ?_⟩
    simp only [Bool.and_eq_true, Bool.or_eq_true, List.isEmpty_iff, List.any_eq_true,
      Bool.not_eq_true']
    refine ⟨by simpa [List.contains_iff_mem] using hs, ?_⟩
    rcases hj with h | ⟨t, ht, hts⟩
    · exact Or.inl h
    · exact Or.inr ⟨t, ht, by simpa [List.contains_iff_mem] using hts⟩
where
  mem_insertSorted (x y : Name) (ys : List Name) : x ∈ insertSorted y ys ↔ x = y ∨ x ∈ ys := by
    induction ys with
    | nil => simp [insertSorted]
    | cons z zs ih =>
      simp only [insertSorted]
      split
      · simp
      · simp only [List.mem_cons, ih]
        constructor
        · rintro (h | h | h)
          · exact Or.inr (Or.inl h)
          · exact Or.inl h
          · exact Or.inr (Or.inr h)
        · rintro (h | h | h)
          · exact Or.inr (Or.inl h)
          · exact Or.inl h
          · exact Or.inr (Or.inr h)
  mem_sortNames {xs : List Name} {x : Name} : x ∈ sortNames xs ↔ x ∈ xs := by
    induction xs with
    | nil => simp [sortNames]
    | cons y ys ih =>
      simp only [sortNames, List.foldr_cons] at ih ⊢
      rw [mem_insertSorted, ih]
      simp [eq_comm]

/-! ## Dominance: the reference `domRefGen` against the path definition -/

/-- A path (zero or more arcs of `succ`, inside the level) from `e` to `x` that never touches `a`. -/
inductive PathAvoid (lvl : List Blk) (succ : Name → List Name) (a : Name) : Name → Name → Prop
  | refl {e : Name} : e ≠ a → PathAvoid lvl succ a e e
  | step {e m x : Name} : PathAvoid lvl succ a e m → x ∈ succAvoid lvl succ a m →
      PathAvoid lvl succ a e x

theorem mem_foldl_avoid (lvl : List Blk) (succ : Name → List Name) (a : Name) (s init : List Name)
    (x : Name) :
    x ∈ s.foldl (fun acc v => acc ++ succAvoid lvl succ a v) init ↔
      x ∈ init ∨ ∃ v ∈ s, x ∈ succAvoid lvl succ a v := by
  induction s generalizing init with
  | nil => simp
  | cons v vs ih =>
    simp only [List.foldl_cons, ih, List.mem_append, List.mem_cons]
    constructor
    · rintro ((h | h) | ⟨w, hw, hx⟩)
      · exact Or.inl h
      · exact Or.inr ⟨v, Or.inl rfl, h⟩
      · exact Or.inr ⟨w, Or.inr hw, hx⟩
    · rintro (h | ⟨w, hw | hw, hx⟩)
      · exact Or.inl (Or.inl h)
      · exact Or.inl (Or.inr (hw ▸ hx))
      · exact Or.inr ⟨w, hw, hx⟩

/-- everything the closure collects is reached from an entry by a path avoiding `a` -/
theorem reachAvoid_sound (lvl : List Blk) (succ : Name → List Name) (entries : List Name)
    (a x : Name) (h : x ∈ reachAvoid lvl succ entries a) :
    ∃ e ∈ entries, PathAvoid lvl succ a e x := by
  unfold reachAvoid at h
  have key : ∀ (n : Nat) (s : List Name), (∀ y ∈ s, ∃ e ∈ entries, PathAvoid lvl succ a e y) →
      ∀ y ∈ iter (fun s => dedup (s ++ s.foldl (fun acc v => acc ++ succAvoid lvl succ a v) [])) n s,
        ∃ e ∈ entries, PathAvoid lvl succ a e y := by
    intro n
    induction n with
    | zero => intro s hs y hy; exact hs y hy
    | succ n ih =>
      intro s hs y hy
      simp only [iter] at hy
      refine ih _ ?_ y hy
      intro z hz
      rw [mem_dedup, List.mem_append, mem_foldl_avoid] at hz
      rcases hz with h1 | h1 | ⟨v, hv, hzv⟩
      · exact hs z h1
      · simp at h1
      · obtain ⟨e, he, hp⟩ := hs v hv
        exact ⟨e, he, PathAvoid.step hp hzv⟩
  refine key _ _ ?_ x h
  intro y hy
  obtain ⟨hy1, hy2⟩ := List.mem_filter.mp hy
  exact ⟨y, hy1, PathAvoid.refl (by simpa using hy2)⟩

/-- **Dominance, one direction, all graphs.** When the reference says `a` does *not* dominate
    `b`, there is a genuine path from an entry to `b` that avoids `a` — so whenever every
    entry-to-`b` path passes `a`, the reference (and, by the exhaustive comparison, `_doms` /
    `_post_doms`) says "dominates". -/
theorem domRef_false_witness (lvl : List Blk) (succ : Name → List Name) (entries : List Name)
    (a b : Name) (h : domRefGen lvl succ entries a b = false) :
    a ≠ b ∧ ∃ e ∈ entries, PathAvoid lvl succ a e b := by
  simp only [domRefGen, Bool.or_eq_false_iff, beq_eq_false_iff_ne, Bool.not_eq_false',
    List.contains_iff_mem] at h
  exact ⟨h.1, reachAvoid_sound lvl succ entries a b (by simpa using h.2)⟩

theorem dominates_of_all_paths (lvl : List Blk) (succ : Name → List Name) (entries : List Name)
    (a b : Name) (hall : ∀ e ∈ entries, ¬ PathAvoid lvl succ a e b) :
    domRefGen lvl succ entries a b = true := by
  cases h : domRefGen lvl succ entries a b with
  | true => rfl
  | false =>
    obtain ⟨_, e, he, hp⟩ := domRef_false_witness lvl succ entries a b h
    exact absurd hp (hall e he)

/-! ## The model of `is_reachable_dfs` itself (partial correctness, all graphs) -/

/-- reachability w.r.t. an arbitrary successor function -/
inductive ReachS (succ : Name → List Name) : Name → Name → Prop
  | arc {a b : Name} : b ∈ succ a → ReachS succ a b
  | step {a m b : Name} : ReachS succ a m → b ∈ succ m → ReachS succ a b

/-- **Soundness of the work-list loop.** If everything on the stack is reachable from `a`, a
    `true` answer is witnessed by a genuine path. -/
theorem reachGo_sound (succ : Name → List Name) (a end_ : Name) :
    ∀ (f : Nat) (stack seen : List Name), (∀ x ∈ stack, ReachS succ a x) →
      reachGo succ end_ f stack seen = .ok true → ReachS succ a end_ := by
  intro f
  induction f with
  | zero => intro stack seen _ h; simp [reachGo] at h
  | succ f ih =>
    intro stack seen hst h
    cases stack with
    | nil => simp [reachGo] at h
    | cons blk rest =>
      simp only [reachGo] at h
      split at h
      · exact ih rest seen (fun x hx => hst x (by simp [hx])) h
      · split at h
        · next heq =>
          have : blk = end_ := by simpa using heq
          exact this ▸ hst blk (by simp)
        · refine ih _ _ ?_ h
          intro x hx
          rcases List.mem_append.mp hx with h1 | h1
          · exact ReachS.step (hst blk (by simp)) (List.mem_reverse.mp h1)
          · exact hst x (by simp [h1])

/-- **Completeness of the work-list loop.** Invariant: `end_` is not seen, and every successor
    of a seen node is seen or on the stack. If the loop then answers `false`, nothing the stack
    or the seen set reaches is `end_`. -/
theorem reachGo_complete (succ : Name → List Name) (end_ : Name) :
    ∀ (f : Nat) (stack seen : List Name),
      (end_ ∉ seen) → (∀ x ∈ seen, ∀ y ∈ succ x, y ∈ seen ∨ y ∈ stack) →
      reachGo succ end_ f stack seen = .ok false →
      ∃ closed : List Name, end_ ∉ closed ∧ (∀ x ∈ stack, x ∈ closed) ∧ (∀ x ∈ seen, x ∈ closed) ∧
        ∀ x ∈ closed, ∀ y ∈ succ x, y ∈ closed := by
  intro f
  induction f with
  | zero => intro stack seen _ _ h; simp [reachGo] at h
  | succ f ih =>
    intro stack seen hend hcl h
    cases stack with
    | nil =>
      refine ⟨seen, hend, by simp, fun x hx => hx, ?_⟩
      intro x hx y hy
      rcases hcl x hx y hy with h1 | h1
      · exact h1
      · simp at h1
    | cons blk rest =>
      simp only [reachGo] at h
      split at h
      · next hseen =>
        have hb : blk ∈ seen := by simpa [List.contains_iff_mem] using hseen
        obtain ⟨cl, h1, h2, h3, h4⟩ := ih rest seen hend (by
          intro x hx y hy
          rcases hcl x hx y hy with e | e
          · exact Or.inl e
          · rcases List.mem_cons.mp e with e2 | e2
            · exact Or.inl (e2 ▸ hb)
            · exact Or.inr e2) h
        refine ⟨cl, h1, ?_, h3, h4⟩
        intro x hx
        rcases List.mem_cons.mp hx with e | e
        · exact e ▸ h3 blk hb
        · exact h2 x e
      · next hnseen =>
        split at h
        · simp at h
        · next hne =>
          have hbe : blk ≠ end_ := by simpa using hne
          obtain ⟨cl, h1, h2, h3, h4⟩ := ih ((succ blk).reverse ++ rest) (blk :: seen)
            (by
              intro hm
              rcases List.mem_cons.mp hm with e | e
              · exact hbe e.symm
              · exact hend e)
            (by
              intro x hx y hy
              rcases List.mem_cons.mp hx with e | e
              · subst e
                exact Or.inr (List.mem_append.mpr (Or.inl (List.mem_reverse.mpr hy)))
              · rcases hcl x e y hy with e2 | e2
                · exact Or.inl (by simp [e2])
                · rcases List.mem_cons.mp e2 with e3 | e3
                  · exact Or.inl (by simp [e3])
                  · exact Or.inr (List.mem_append.mpr (Or.inr e3))) h
          refine ⟨cl, h1, ?_, fun x hx => h3 x (by simp [hx]), h4⟩
          intro x hx
          rcases List.mem_cons.mp hx with e | e
          · exact e ▸ h3 blk (by simp)
          · exact h2 x (List.mem_append.mpr (Or.inr e))

theorem reachS_closed (succ : Name → List Name) (cl : List Name)
    (hcl : ∀ x ∈ cl, ∀ y ∈ succ x, y ∈ cl) {a b : Name} (h : ReachS succ a b)
    (ha : ∀ y ∈ succ a, y ∈ cl) : b ∈ cl := by
  induction h with
  | arc hb => exact ha _ hb
  | step _ hb ih => exact hcl _ ih _ hb

/-- **`is_reachable_dfs`, partial correctness of the model, for every graph** (members with
    external, duplicate and self targets alike): whenever the model answers, the answer is
    `true` exactly when a path of at least one non-back-edge arc, continuing only through
    members, leads from `begin` to `end`. (That the fuel always suffices is observed by the
    correspondence runs, not proved.) -/
theorem reachDfs_spec (H : Hier) (c a b : Name) (r : Bool) (h : reachDfs H c a b = .ok r) :
    r = true ↔ ReachS (succIn' H c) a b := by
  unfold reachDfs at h
  cases hg : getIn "is_reachable_dfs" H c a with
  | error e => simp [hg, bind, Except.bind] at h
  | ok blk =>
    simp only [hg, bind, Except.bind] at h
    have hsucc : succIn' H c a = blk.jt := by
      unfold getIn at hg
      unfold succIn'
      split at hg
      · simp at hg
      · next x hx => simp only [Except.ok.injEq] at hg; simp [hx, hg]
    constructor
    · intro hr
      subst hr
      refine reachGo_sound _ a b _ _ [] ?_ h
      intro x hx
      exact ReachS.arc (hsucc ▸ List.mem_reverse.mp hx)
    · intro hreach
      cases r with
      | true => rfl
      | false =>
        exfalso
        obtain ⟨cl, h1, h2, _, h4⟩ := reachGo_complete _ b _ _ [] (by simp) (by simp) h
        exact h1 (reachS_closed _ cl h4 hreach (by
          intro y hy
          exact h2 y (List.mem_reverse.mpr (hsucc ▸ hy))))

/-! Non-vacuity (kernel evaluation). -/
def exLvl : List Blk := [
  { cont := "m", name := "a", jts := ["b", "x"] },
  { cont := "m", name := "b", jts := ["b", "c"], bes := ["b"] },
  { cont := "m", name := "c", jts := ["a"] }]
example : reachRef exLvl "a" "a" = true := by decide
example : reachRef exLvl "a" "x" = true := by decide
example : reachRef exLvl "x" "a" = false := by decide
example : sccRef exLvl = [["a", "b", "c"]] := by decide
example : headRef exLvl = none := by decide

end Scfg.C13
