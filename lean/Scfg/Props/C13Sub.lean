import Scfg.Props.C12
import Scfg.Model.Queries
/-!
# C13 — `find_exiting_and_exits` is its specification (model level, all hierarchies)

`exitingExits H c sub` models `SCFG.find_exiting_and_exits(sub)` on the graph of container `c`
(compared with the code on every run). Whenever it returns `(exiting, exits)`:

* `n ∈ exiting` iff `n ∈ sub` and the block `n` has no target or a target outside `sub`;
* `t ∈ exits`   iff `t ∉ sub` and some block of `sub` has `t` among its targets;
* both lists are sorted and duplicate-free (so they are determined by their members).
-/
namespace Scfg.C13
open Scfg Scfg.Model

theorem mem_dedup_iff {xs : List Name} {x : Name} : x ∈ dedup xs ↔ x ∈ xs := by
  induction xs with
  | nil => simp [dedup]
  | cons y ys ih =>
    simp only [dedup, List.mem_cons, List.mem_filter, ih]
    constructor
    · rintro (h | ⟨h, _⟩)
      · exact Or.inl h
      · exact Or.inr h
    · intro h
      by_cases e : x = y
      · exact Or.inl e
      · rcases h with h | h
        · exact Or.inl h
        · exact Or.inr ⟨h, by simpa using e⟩

theorem mem_sortNames_iff {xs : List Name} {x : Name} : x ∈ sortNames xs ↔ x ∈ xs :=
  (C12.sortNames_perm_self xs).mem_iff

/-- invariant-carrying fold over a list in an exception monad -/
theorem foldlM_prefix {α β : Type} (P : List α → β → Prop) (f : β → α → M β)
    (hstep : ∀ done a b b', P done b → f b a = .ok b' → P (done ++ [a]) b') :
    ∀ (l done : List α) (init out : β), P done init → l.foldlM f init = .ok out →
      P (done ++ l) out := by
  intro l
  induction l with
  | nil =>
    intro done init out h0 h
    simp only [List.foldlM_nil, pure, Except.pure, Except.ok.injEq] at h
    subst h; simpa using h0
  | cons a l ih =>
    intro done init out h0 h
    simp only [List.foldlM_cons, bind, Except.bind] at h
    cases hfa : f init a with
    | error e => rw [hfa] at h; cases h
    | ok b' =>
      rw [hfa] at h
      have := ih (done ++ [a]) b' out (hstep done a init b' h0 hfa) h
      simpa using this

/-- One step of the loop of `find_exiting_and_exits`. -/
def exStep (H : Hier) (c : Name) (sub : List Name) (acc : List Name × List Name) (n : Name) :
    M (List Name × List Name) := do
  let b ← getIn "find_exiting_and_exits" H c n
  let out := b.jt.filter fun t => !mem sub t
  let exiting := if !out.isEmpty || b.jt.isEmpty then acc.1 ++ [n] else acc.1
  pure (exiting, acc.2 ++ out)

/-- What the accumulators hold after the names `done` have been processed. -/
def ExInv (H : Hier) (c : Name) (sub : List Name) (done : List Name)
    (acc : List Name × List Name) : Prop :=
  (∀ n, n ∈ acc.1 ↔ n ∈ done ∧ ∃ b, H.getIn? c n = some b ∧ (b.jt = [] ∨ ∃ t ∈ b.jt, t ∉ sub)) ∧
  (∀ t, t ∈ acc.2 ↔ t ∉ sub ∧ ∃ n ∈ done, ∃ b, H.getIn? c n = some b ∧ t ∈ b.jt)

theorem exStep_inv (H : Hier) (c : Name) (sub : List Name) (done : List Name) (a : Name)
    (acc acc' : List Name × List Name) (hi : ExInv H c sub done acc)
    (h : exStep H c sub acc a = .ok acc') : ExInv H c sub (done ++ [a]) acc' := by
  unfold exStep getIn at h
  cases hg : H.getIn? c a with
  | none => simp [hg, bind, Except.bind] at h
  | some b =>
    simp only [hg, bind, Except.bind, pure, Except.pure, Except.ok.injEq] at h
    subst h
    obtain ⟨h1, h2⟩ := hi
    have hout : ∀ t, t ∈ (b.jt.filter fun t => !mem sub t) ↔ t ∈ b.jt ∧ t ∉ sub := by
      intro t
      simp [List.mem_filter, mem, List.contains_iff_mem]
    constructor
    · intro n
      simp only
      split
      · next hc =>
        have hcond : b.jt = [] ∨ ∃ t ∈ b.jt, t ∉ sub := by
          simp only [Bool.or_eq_true, Bool.not_eq_true', List.isEmpty_iff] at hc
          rcases hc with hc | hc
          · right
            cases hf : (b.jt.filter fun t => !mem sub t) with
            | nil => simp [hf] at hc
            | cons t ts =>
              have : t ∈ (b.jt.filter fun t => !mem sub t) := by simp [hf]
              exact ⟨t, ((hout t).mp this).1, ((hout t).mp this).2⟩
          · exact Or.inl hc
        rw [List.mem_append, h1 n]
        constructor
        · rintro (⟨hd, hb⟩ | hn)
          · exact ⟨List.mem_append.mpr (Or.inl hd), hb⟩
          · simp at hn; subst hn
            exact ⟨by simp, b, hg, hcond⟩
        · rintro ⟨hd, hb⟩
          rcases List.mem_append.mp hd with hd | hd
          · exact Or.inl ⟨hd, hb⟩
          · right; simpa using hd
      · next hc =>
        have hncond : ¬ (b.jt = [] ∨ ∃ t ∈ b.jt, t ∉ sub) := by
          simp only [Bool.or_eq_true, Bool.not_eq_true', List.isEmpty_iff, not_or] at hc
          rintro (hh | ⟨t, ht, hts⟩)
          · exact hc.2 hh
          · have : t ∈ (b.jt.filter fun t => !mem sub t) := (hout t).mpr ⟨ht, hts⟩
            have hc1 := hc.1
            cases hf : (b.jt.filter fun t => !mem sub t) with
            | nil => rw [hf] at this; simp at this
            | cons x xs => rw [hf] at hc1; simp at hc1
        rw [h1 n]
        constructor
        · rintro ⟨hd, hb⟩; exact ⟨List.mem_append.mpr (Or.inl hd), hb⟩
        · rintro ⟨hd, b', hb', hcnd⟩
          rcases List.mem_append.mp hd with hd | hd
          · exact ⟨hd, b', hb', hcnd⟩
          · simp at hd; subst hd
            rw [hg] at hb'; cases hb'
            exact absurd hcnd hncond
    · intro t
      simp only
      rw [List.mem_append, h2 t, hout t]
      constructor
      · rintro (⟨hs, n, hn, hb⟩ | ⟨ht, hs⟩)
        · exact ⟨hs, n, List.mem_append.mpr (Or.inl hn), hb⟩
        · exact ⟨hs, a, by simp, b, hg, ht⟩
      · rintro ⟨hs, n, hn, b', hb', ht⟩
        rcases List.mem_append.mp hn with hn | hn
        · exact Or.inl ⟨hs, n, hn, b', hb', ht⟩
        · simp at hn; subst hn
          rw [hg] at hb'; cases hb'
          exact Or.inr ⟨ht, hs⟩

/-- **`find_exiting_and_exits` is its specification**, for every hierarchy, container and subset. -/
theorem exitingExits_spec (H : Hier) (c : Name) (sub : List Name) (ex xs : List Name)
    (h : exitingExits H c sub = .ok (ex, xs)) :
    (∀ n, n ∈ ex ↔ n ∈ sub ∧ ∃ b, H.getIn? c n = some b ∧ (b.jt = [] ∨ ∃ t ∈ b.jt, t ∉ sub)) ∧
    (∀ t, t ∈ xs ↔ t ∉ sub ∧ ∃ n ∈ sub, ∃ b, H.getIn? c n = some b ∧ t ∈ b.jt) := by
  unfold exitingExits at h
  simp only [bind, Except.bind] at h
  split at h
  · cases h
  · next acc hacc =>
    simp only [pure, Except.pure, Except.ok.injEq, Prod.mk.injEq] at h
    obtain ⟨rfl, rfl⟩ := h
    have := foldlM_prefix (ExInv H c sub) (exStep H c sub)
      (fun done a b b' hb hs => exStep_inv H c sub done a b b' hb hs) sub [] ([], []) acc
      (by constructor <;> intro x <;> simp) hacc
    simp only [List.nil_append] at this
    obtain ⟨h1, h2⟩ := this
    exact ⟨fun n => by rw [mem_sortNames_iff, mem_dedup_iff, h1 n],
      fun t => by rw [mem_sortNames_iff, mem_dedup_iff, h2 t]⟩


/-! ## `find_headers_and_entries`, the direct case (some outside block names a block of `sub`) -/

theorem mem_foldl_targets (sub : List Name) (os : List Blk) (init : List Name) (h : Name) :
    h ∈ os.foldl (fun acc o => acc ++ o.jts.filter (mem sub)) init ↔
      h ∈ init ∨ ∃ o ∈ os, h ∈ o.jts ∧ h ∈ sub := by
  induction os generalizing init with
  | nil => simp
  | cons o os ih =>
    simp only [List.foldl_cons, ih, List.mem_append, List.mem_filter, List.mem_cons]
    constructor
    · rintro ((h1 | ⟨h1, h2⟩) | ⟨o', ho', h3⟩)
      · exact Or.inl h1
      · exact Or.inr ⟨o, Or.inl rfl, h1, by simpa [mem, List.contains_iff_mem] using h2⟩
      · exact Or.inr ⟨o', Or.inr ho', h3⟩
    · rintro (h1 | ⟨o', rfl | ho', h3, h4⟩)
      · exact Or.inl (Or.inl h1)
      · exact Or.inl (Or.inr ⟨h3, by simpa [mem, List.contains_iff_mem] using h4⟩)
      · exact Or.inr ⟨o', ho', h3, h4⟩

/-- **Headers and entries of a subset**: when some block outside `sub` names a block of `sub`,
    the headers are exactly the blocks of `sub` named from outside and the entries exactly the
    outside blocks that name a block of `sub` (declared back edges count, as in the code). -/
theorem headersEntries_spec_direct (H : Hier) (f : Nat) (c : Name) (sub hs es : List Name)
    (h : headersEntries H (f + 1) c sub = .ok (hs, es))
    (hex : ∃ o ∈ H.level c, o.name ∉ sub ∧ ∃ t ∈ o.jts, t ∈ sub) :
    (∀ x, x ∈ hs ↔ x ∈ sub ∧ ∃ o ∈ H.level c, o.name ∉ sub ∧ x ∈ o.jts) ∧
    (∀ e, e ∈ es ↔ ∃ o ∈ H.level c, o.name = e ∧ e ∉ sub ∧ ∃ t ∈ o.jts, t ∈ sub) := by
  have houtside : ∀ o, o ∈ (H.level c).filter (fun b => !mem sub b.name) ↔
      o ∈ H.level c ∧ o.name ∉ sub := by
    intro o; simp [List.mem_filter, mem, List.contains_iff_mem]
  have hmemh : ∀ x, x ∈ dedup (((H.level c).filter fun b => !mem sub b.name).foldl
      (fun acc o => acc ++ o.jts.filter (mem sub)) []) ↔
      x ∈ sub ∧ ∃ o ∈ H.level c, o.name ∉ sub ∧ x ∈ o.jts := by
    intro x
    rw [mem_dedup_iff, mem_foldl_targets]
    constructor
    · rintro (h0 | ⟨o, ho, h1, h2⟩)
      · simp at h0
      · exact ⟨h2, o, ((houtside o).mp ho).1, ((houtside o).mp ho).2, h1⟩
    · rintro ⟨h2, o, ho, hn, h1⟩
      exact Or.inr ⟨o, (houtside o).mpr ⟨ho, hn⟩, h1, h2⟩
  unfold headersEntries at h
  simp only [bind, Except.bind] at h
  split at h
  · next hne =>
    simp only [pure, Except.pure, Except.ok.injEq, Prod.mk.injEq] at h
    obtain ⟨rfl, rfl⟩ := h
    refine ⟨fun x => by rw [mem_sortNames_iff, hmemh x], ?_⟩
    intro e
    rw [mem_sortNames_iff, List.mem_map]
    constructor
    · rintro ⟨o, ho, rfl⟩
      obtain ⟨ho1, ho2⟩ := List.mem_filter.mp ho
      obtain ⟨t, ht, hts⟩ := List.any_eq_true.mp ho2
      exact ⟨o, ((houtside o).mp ho1).1, rfl, ((houtside o).mp ho1).2, t, ht,
        by simpa [mem, List.contains_iff_mem] using hts⟩
    · rintro ⟨o, ho, rfl, hn, t, ht, hts⟩
      exact ⟨o, List.mem_filter.mpr ⟨(houtside o).mpr ⟨ho, hn⟩,
        List.any_eq_true.mpr ⟨t, ht, by simpa [mem, List.contains_iff_mem] using hts⟩⟩, rfl⟩
  · next hempty =>
    -- impossible: the header list is not empty
    exfalso
    obtain ⟨o, ho, hn, t, ht, hts⟩ := hex
    have : t ∈ dedup (((H.level c).filter fun b => !mem sub b.name).foldl
        (fun acc o => acc ++ o.jts.filter (mem sub)) []) := (hmemh t).mpr ⟨hts, o, ho, hn, ht⟩
    cases hl : dedup (((H.level c).filter fun b => !mem sub b.name).foldl
        (fun acc o => acc ++ o.jts.filter (mem sub)) []) with
    | nil => rw [hl] at this; simp at this
    | cons y ys => rw [hl] at hempty; simp at hempty

/-! Non-vacuity: the loop `1 → 2 → 1` with entry `0 → 1` and exit `2 → 3`. -/
def subDemo : Hier := [
  { cont := "m", name := "0", jts := ["1"] }, { cont := "m", name := "1", jts := ["2"] },
  { cont := "m", name := "2", jts := ["1", "3"] }, { cont := "m", name := "3" }]

example : (exitingExits subDemo "m" ["1", "2"]).toOption = some (["2"], ["3"]) := by decide +kernel
example : (headersEntries subDemo 3 "m" ["1", "2"]).toOption = some (["1"], ["0"]) := by decide +kernel

end Scfg.C13
