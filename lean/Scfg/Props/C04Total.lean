import Scfg.Props.C04Walks
/-!
# C04 — the converse: an error-free walk by name makes the region-by-region walk succeed

`walks_coincide` (C04Walks.lean) shows: region walk error-free ⇒ the walk by name is identical.
This file proves the other direction for every self-consistent hierarchy: if `WF H`, back edges
belong to loop latches (`s2`), every container named by an entry is a region (`Conts`), and the walk
by name meets no error, then every region-level continuation succeeds — going up through exiting
blocks finds the target in an enclosing level (W3, W4, W5), going down through declared headers ends
at the block the name resolved to (W2) — so the region-by-region walk is the same walk
(`walks_coincide_conv`). Together: the two walks agree as soon as either of them is error-free.
-/
namespace Scfg.C04
open Scfg

/-- every container an entry names is a region (or names no entry: the top level) -/
def Conts (H : Hier) : Prop := ∀ b ∈ H, ∀ r, H.get? b.cont = some r → r.isRegion = true

theorem contsOK_sound (H : Hier) (h : contsOK H = true) : Conts H := by
  intro b hb r hr
  have := List.all_eq_true.mp h b hb
  simpa [hr] using this

/-- **Resolving a name = entering by declared headers**, from the name side. -/
theorem resolve_enter (H : Hier) (hwf : WF H) : ∀ f c n x b,
    H.getIn? c n = some x → resolve H f n = some b → enter H f c n = .ok b := by
  intro f
  induction f with
  | zero => intro c n x b _ h; simp [resolve] at h
  | succ f ih =>
    intro c n x b hx h
    have hg := getIn?_eq_get? H c n x hwf.unique hx
    simp only [resolve, hg] at h
    simp only [enter, hx]
    split
    · next hr =>
      simp only [hr, if_true] at h
      obtain ⟨⟨hh, hhh⟩, _⟩ := hwf.inside x (getIn?_mem H c n x hx).1 hr
      exact ih _ _ hh b hhh h
    · next hr =>
      simp only [hr, Bool.false_eq_true, if_false, Option.some.injEq] at h
      rw [h]

theorem idxOf_of_mem (xs : List Name) (x : Name) (h : x ∈ xs) : ∃ i, idxOf xs x = some i := by
  unfold idxOf
  simp only
  have : List.findIdx (· == x) xs < xs.length := List.findIdx_lt_length_of_exists ⟨x, h, by simp⟩
  exact ⟨List.findIdx (· == x) xs, by simp [this]⟩

/-- what W5 gives about the region around the exiting block `cur` -/
theorem region_targets (H : Hier) (hwf : WF H) (cur R : Blk) (hcur : cur ∈ H)
    (hR : H.get? cur.cont = some R) (hreg : R.isRegion = true) (hex : R.exiting = cur.name) :
    R.jt = cur.jt := by
  obtain ⟨hRm, hRn⟩ := get?_mem H _ _ hR
  obtain ⟨e, he, hj, hb⟩ := hwf.targets R hRm hreg
  rw [hRn, hex, getIn?_self H hwf.unique cur hcur] at he
  simp only [Option.some.injEq] at he
  subst he
  simp [Blk.jt, hb, hj]

/-- **Leaving along a forward target succeeds** when the target is in scope and resolves by name. -/
theorem leave_fwd_total (H : Hier) (hwf : WF H) (hco : Conts H) : ∀ f cur t b', cur ∈ H →
    t ∈ cur.jt → (ancestors H f cur.cont).any (fun a => (H.getIn? a t).isSome) = true →
    resolve H (H.length + 1) t = some b' → leave H (f + 1) cur t false = .ok b' := by
  intro f
  induction f with
  | zero =>
    intro cur t b' _ _ hanc hres
    simp only [ancestors, List.any_cons, List.any_nil, Bool.or_false] at hanc
    obtain ⟨x, hx⟩ := Option.isSome_iff_exists.mp hanc
    simp only [leave, Bool.not_false, Bool.true_and, hanc, if_true]
    exact resolve_enter H hwf _ _ _ x b' hx hres
  | succ f ih =>
    intro cur t b' hcur ht hanc hres
    rw [leave]
    by_cases hin : (H.getIn? cur.cont t).isSome = true
    · obtain ⟨x, hx⟩ := Option.isSome_iff_exists.mp hin
      simp only [Bool.not_false, Bool.true_and, hin, if_true]
      exact resolve_enter H hwf _ _ _ x b' hx hres
    · have hin' : (H.getIn? cur.cont t).isSome = false := by simpa using hin
      simp only [Bool.not_false, Bool.true_and, hin', Bool.false_eq_true, if_false]
      simp only [ancestors] at hanc
      cases hR : H.get? cur.cont with
      | none => simp [hR, hin'] at hanc
      | some R =>
        simp only [hR, List.any_cons, hin', Bool.false_or] at hanc
        have hreg := hco cur hcur R hR
        obtain ⟨hRm, hRn⟩ := get?_mem H _ _ hR
        -- only the exiting block names anything outside its level (W3)
        have hex : R.exiting = cur.name := by
          by_cases hex : R.exiting = cur.name
          · exact hex
          · exfalso
            obtain ⟨x, hx⟩ := hwf.leaves cur hcur R hR hex t
              (List.mem_append.mpr (Or.inl (List.mem_filter.mp ht).1))
            simp [hx] at hin'
        have hjt := region_targets H hwf cur R hcur hR hreg hex
        obtain ⟨pos, hpos⟩ := idxOf_of_mem cur.jt t ht
        have hget := idxOf_get _ _ _ hpos
        simp only [hreg, Bool.not_true, Bool.false_eq_true, if_false, hex, bne_self_eq_false, hpos, hjt,
          hget]
        exact ih R t b' hRm (hjt ▸ ht) hanc hres

/-- the chain of exiting blocks below a region -/
inductive ExitChain (H : Hier) : Blk → Blk → Prop
  | refl {r} : ExitChain H r r
  | step {r e1 e} : r.isRegion = true → H.getIn? r.name r.exiting = some e1 → ExitChain H e1 e →
      ExitChain H r e

theorem innermostExiting_chain (H : Hier) : ∀ f r e, innermostExiting H f r = some e → ExitChain H r e := by
  intro f
  induction f with
  | zero => intro r e h; simp [innermostExiting] at h
  | succ f ih =>
    intro r e h
    simp only [innermostExiting] at h
    split at h
    · simp only [Option.some.injEq] at h; subst h; exact ExitChain.refl
    · next hr =>
      have hr' : r.isRegion = true := by simpa using hr
      split at h
      · simp at h
      · next e1 he1 => exact ExitChain.step hr' he1 (ih _ _ h)

/-- a chain that is not trivial ends with a last link -/
theorem exitChain_last (H : Hier) (r e : Blk) (h : ExitChain H r e) :
    r = e ∨ ∃ r', ExitChain H r r' ∧ r'.isRegion = true ∧ H.getIn? r'.name r'.exiting = some e := by
  induction h with
  | refl => exact Or.inl rfl
  | @step r e1 e hr he1 _ ih =>
    right
    rcases ih with h0 | ⟨r', hc, hr', he'⟩
    · subst h0; exact ⟨r, ExitChain.refl, hr, he1⟩
    · exact ⟨r', ExitChain.step hr he1 hc, hr', he'⟩

theorem enclosingLoop_loop (H : Hier) : ∀ f c L, enclosingLoop H f c = some L → (L.rkind == "loop") = true := by
  intro f
  induction f with
  | zero => intro c L h; simp [enclosingLoop] at h
  | succ f ih =>
    intro c L h
    simp only [enclosingLoop] at h
    split at h
    · simp at h
    · split at h
      · next hk => simp only [Option.some.injEq] at h; subst h; exact hk
      · exact ih _ _ h

/-- **Leaving along a back edge succeeds**: going up through the exiting blocks reaches the nearest
    enclosing loop region, which is re-entered at its declared header. -/
theorem leave_back_total (H : Hier) (hwf : WF H) (hco : Conts H) (L : Blk) (t : Name) :
    ∀ f cur, cur ∈ H → ExitChain H L cur → cur ≠ L → enclosingLoop H f cur.cont = some L →
      leave H (f + 1) cur t true = enter H (H.length + 1) L.name L.header := by
  intro f
  induction f with
  | zero => intro cur _ _ _ h; simp [enclosingLoop] at h
  | succ f ih =>
    intro cur hcur hchain hne hL
    rcases exitChain_last H L cur hchain with h0 | ⟨r', hc, hr', he'⟩
    · exact absurd h0.symm hne
    · obtain ⟨hcm, hcc, hcn⟩ := getIn?_mem H _ _ cur he'
      -- the region directly around `cur` is `r'`
      have hr'm : r' ∈ H := by
        rcases exitChain_last H L r' hc with h0 | ⟨r2, _, _, he2⟩
        · subst h0
          -- `L` itself: it is what the nearest-loop search returns, hence an entry
          simp only [enclosingLoop] at hL
          split at hL
          · simp at hL
          · next R hR =>
            -- get? cur.cont finds an entry named r'.name; whichever branch, L ∈ H
            have : R.name = cur.cont := (get?_mem H _ _ hR).2
            by_cases hk : (R.rkind == "loop") = true
            · simp only [hk, if_true, Option.some.injEq] at hL
              exact hL ▸ (get?_mem H _ _ hR).1
            · simp only [hk, Bool.false_eq_true, if_false] at hL
              -- L comes from further up; in every case it was returned by `get?`
              exact (enclosingLoop_mem H _ _ _ hL)
        · exact (getIn?_mem H _ _ r' he2).1
      have hR : H.get? cur.cont = some r' := by
        rw [hcc]
        have := getIn?_self H hwf.unique r' hr'm
        exact getIn?_eq_get? H _ _ r' hwf.unique this
      rw [leave]
      simp only [Bool.not_true, Bool.false_and, Bool.false_eq_true, if_false, hR, hr', hcn,
        bne_self_eq_false, if_true]
      simp only [enclosingLoop, hR] at hL
      by_cases hk : (r'.rkind == "loop") = true
      · simp only [hk, if_true, Option.some.injEq] at hL ⊢
        rw [hL]
      · simp only [hk, Bool.false_eq_true, if_false] at hL ⊢
        have hne' : r' ≠ L := by
          intro e
          have := enclosingLoop_loop H _ _ _ hL
          rw [e] at hk
          exact hk this
        exact ih r' hr'm hc hne' hL
where
  enclosingLoop_mem (H : Hier) : ∀ f c L, enclosingLoop H f c = some L → L ∈ H := by
    intro f
    induction f with
    | zero => intro c L h; simp [enclosingLoop] at h
    | succ f ih =>
      intro c L h
      simp only [enclosingLoop] at h
      split at h
      · simp at h
      · next R hR =>
        split at h
        · simp only [Option.some.injEq] at h; exact h ▸ (get?_mem H _ _ hR).1
        · exact ih _ _ h

/-- One region-level continuation of a leaf succeeds and ends where the name resolves to. -/
theorem regionStep_total (H : Hier) (hwf : WF H) (hs2 : s2 H = true) (hco : Conts H) (b : Blk)
    (hb : b ∈ H) (i : Nat) (t : Name) (b' : Blk) (ht : b.jts[i]? = some t)
    (hres : resolve H (H.length + 1) t = some b') : regionStep H b i = .ok b' := by
  simp only [regionStep, ht]
  have htm : t ∈ b.jts := List.mem_of_getElem? ht
  cases hbe : b.bes.contains t with
  | false =>
    have htj : t ∈ b.jt := by
      simp only [Blk.jt, List.mem_filter, hbe, Bool.not_false, and_true]
      exact htm
    have hsc := hwf.scope b hb t (List.mem_append.mpr (Or.inl htm))
    exact leave_fwd_total H hwf hco H.length b t b' hb htj hsc hres
  | true =>
    have hne : b.bes ≠ [] := by intro e; rw [e] at hbe; simp at hbe
    obtain ⟨hleaf, t0, L, hbes, _, hL, ⟨e, he, hen⟩, x, y, hx, hy, hxy⟩ :=
      Scfg.C03.s2_sound H hs2 b hb hne
    have htt : t = t0 := by rw [hbes] at hbe; simpa using hbe
    subst htt
    have hchain := innermostExiting_chain H _ _ _ he
    -- the innermost exiting block is `b` itself
    have heb : e = b := by
      have hem : e ∈ H := by
        rcases exitChain_last H L e hchain with h0 | ⟨r', _, _, he'⟩
        · subst h0; exact leave_back_total.enclosingLoop_mem H _ _ _ hL
        · exact (getIn?_mem H _ _ e he').1
      exact eq_of_name H hwf.unique e b hem hb hen
    subst heb
    have hneL : e ≠ L := by
      intro e0
      -- a leaf is not a loop region: the chain from `L` to itself would make `L` the leaf
      have hLr : L.isRegion = true := by
        have : ∀ f c L, enclosingLoop H f c = some L → (∃ m ∈ H, m.cont = c) → L.isRegion = true := by
          intro f
          induction f with
          | zero => intro c L h; simp [enclosingLoop] at h
          | succ f ih =>
            intro c L h hm
            simp only [enclosingLoop] at h
            split at h
            · simp at h
            · next R hR =>
              obtain ⟨m, hmm, hmc⟩ := hm
              have hRr := hco m hmm R (hmc ▸ hR)
              split at h
              · simp only [Option.some.injEq] at h; exact h ▸ hRr
              · exact ih _ _ h ⟨R, (get?_mem H _ _ hR).1, rfl⟩
        exact this _ _ _ hL ⟨e, hb, rfl⟩
      rw [e0] at hleaf
      rw [hleaf] at hLr
      cases hLr
    rw [leave_back_total H hwf hco L t H.length e hb hchain hneL hL]
    -- entering the loop's header ends where its name resolves to, which is where `t` resolves to
    have hLm := leave_back_total.enclosingLoop_mem H _ _ _ hL
    have hLr : L.isRegion = true := by
      rcases exitChain_last H L e hchain with h0 | ⟨r', hc, _, _⟩
      · exact absurd h0.symm hneL
      · cases hc with
        | refl => assumption
        | step hr _ _ => exact hr
    obtain ⟨⟨hh, hhh⟩, _⟩ := hwf.inside L hLm hLr
    have hent := resolve_enter H hwf _ _ _ hh y hhh hy
    rw [hent]
    rw [hres] at hx
    simp only [Option.some.injEq] at hx
    subst hx
    rw [eq_of_name H hwf.unique b' y (resolve_mem H _ _ _ hres) (resolve_mem H _ _ _ hy) hxy]

/-- a non-error result of the run by name means the name resolved -/
theorem advanceName_resolved (H : Hier) (consume : Bool) (f : Nat) (n : Name) (val : Val)
    (h : (advanceName H consume f n val).isErr = false) : ∃ b, resolve H (H.length + 1) n = some b := by
  cases f with
  | zero => simp [advanceName, WState.isErr] at h
  | succ f =>
    simp only [advanceName] at h
    cases hr : resolve H (H.length + 1) n with
    | none => simp [hr, WState.isErr] at h
    | some b => exact ⟨b, rfl⟩

/-- Running through synthetic blocks: if the run by name does not end in an error, the
    region-level run from the block the name resolves to ends in the same state. -/
theorem advance_eq_conv (H : Hier) (hwf : WF H) (hs2 : s2 H = true) (hco : Conts H) (consume : Bool) :
    ∀ f n b val, resolve H (H.length + 1) n = some b →
      (advanceName H consume f n val).isErr = false →
      advanceRegion H consume f b val = advanceName H consume f n val := by
  intro f
  induction f with
  | zero => intro n b val _ h; simp [advanceName, WState.isErr] at h
  | succ f ih =>
    intro n b val hres h
    have hb : b ∈ H := resolve_mem H _ _ _ hres
    simp only [advanceName, hres] at h ⊢
    simp only [advanceRegion]
    by_cases ho : b.isOrig = true
    · simp [ho]
    · simp only [ho, Bool.false_eq_true, if_false] at h ⊢
      cases hsx : synthExec consume b val with
      | error e => rfl
      | ok r =>
        obtain ⟨val', oi⟩ := r
        cases oi with
        | none => rfl
        | some i =>
          simp only [hsx] at h ⊢
          cases ht : b.jts[i]? with
          | none => simp [ht, WState.isErr] at h
          | some t =>
            simp only [ht] at h ⊢
            obtain ⟨b', hb'⟩ := advanceName_resolved H consume f t val' h
            rw [regionStep_total H hwf hs2 hco b hb i t b' ht hb']
            exact ih t b' val' hb' h

theorem step_eq_conv (H : Hier) (hwf : WF H) (hs2 : s2 H = true) (hco : Conts H) (consume : Bool)
    (b : Blk) (hb : b ∈ H) (val : Val) (i : Nat) (h : (stepName H consume b val i).isErr = false) :
    stepRegion H consume b val i = stepName H consume b val i := by
  simp only [stepName] at h ⊢
  cases ht : b.jts[i]? with
  | none => simp [ht, WState.isErr] at h
  | some t =>
    simp only [ht] at h ⊢
    obtain ⟨b', hb'⟩ := advanceName_resolved H consume _ t val h
    simp only [stepRegion, regionStep_total H hwf hs2 hco b hb i t b' ht hb']
    exact advance_eq_conv H hwf hs2 hco consume _ t b' val hb' h

/-- From any state: an error-free walk by name and the region-by-region walk show the same trace. -/
theorem runs_coincide_conv (H : Hier) (hwf : WF H) (hs2 : s2 H = true) (hco : Conts H) (consume : Bool) :
    ∀ (ds : List Nat) (s : WState), CleanRun (sysName H consume) s →
      run (sysRegion H consume) s ds = run (sysName H consume) s ds := by
  have key : ∀ s, CleanRun (sysName H consume) s →
      (sysRegion H consume).obs s = (sysName H consume).obs s ∧
      ∀ d, d < ((sysName H consume).obs s).arity →
        (sysRegion H consume).step s d = (sysName H consume).step s d := by
    intro s hc
    cases s with
    | halt => exact ⟨rfl, fun _ _ => rfl⟩
    | err c m => exact ⟨rfl, fun _ _ => rfl⟩
    | «at» n val =>
      cases hg : H.get? n with
      | none => exact ⟨by simp [sysName, sysRegion, obsOf, hg], fun _ _ => by simp [sysName, sysRegion, hg]⟩
      | some b =>
        have hb : b ∈ H := (get?_mem H n b hg).1
        have hstep : ∀ d, d < ((sysName H consume).obs (.at n val)).arity →
            stepRegion H consume b val d = stepName H consume b val d := by
          intro d hd
          apply step_eq_conv H hwf hs2 hco consume b hb val d
          have := clean_obs _ _ (clean_step _ _ hc d hd)
          have h2 := obs_err_state H _ _ this
          simpa [sysName, hg] using h2
        refine ⟨?_, fun d hd => by simpa [sysName, sysRegion, hg] using hstep d hd⟩
        simp only [sysName, sysRegion, obsOf, hg]
        congr 1
        simp only [arityIn]
        split
        · next t hjts =>
          have har : ((sysName H consume).obs (.at n val)).arity =
              if stepName H consume b val 0 == .halt then 0 else 1 := by
            simp [sysName, obsOf, hg, arityIn, hjts, Obs.arity]
          by_cases hh : stepName H consume b val 0 = .halt
          · have : stepRegion H consume b val 0 = stepName H consume b val 0 :=
              step_eq_conv H hwf hs2 hco consume b hb val 0 (by rw [hh]; rfl)
            rw [this]
          · have h1 : 0 < ((sysName H consume).obs (.at n val)).arity := by
              rw [har]; simp [hh]
            rw [hstep 0 h1]
        · rfl
  intro ds
  induction ds with
  | nil => intro s hc; simp [run, (key s hc).1]
  | cons d ds ih =>
    intro s hc
    obtain ⟨ho, hs⟩ := key s hc
    simp only [run, ho]
    by_cases hd : d < ((sysName H consume).obs s).arity
    · simp only [hd, if_true]
      rw [hs d hd]
      rw [ih _ (clean_step _ _ hc d hd)]
    · simp [hd]

theorem findHeadOf_mem (lvl : List Blk) (h : Name) (hh : findHeadOf lvl = some h) : ∃ b ∈ lvl, b.name = h := by
  unfold findHeadOf at hh
  split at hh
  · next x hx =>
    simp only [Option.some.injEq] at hh
    have : x ∈ lvl.filter (fun b => !(lvl.any fun a => a.jt.contains b.name)) := by rw [hx]; simp
    exact ⟨x, (List.mem_filter.mp this).1, hh⟩
  · simp at hh

/-- **The converse (C04's conclusion, other direction).** For every hierarchy that satisfies `WF`,
    `s2` and `Conts`: if the walk by block-level targets meets no error, the walk region by region —
    declared headers, exiting blocks and region targets only — shows exactly the same trace under
    every decision sequence of any length. -/
theorem walks_coincide_conv (H : Hier) (top : Name) (consume : Bool) (hwf : WF H) (hs2 : s2 H = true)
    (hco : Conts H) (hclean : CleanRun (sysName H consume) (initName H top consume)) :
    ∀ ds, run (sysRegion H consume) (initRegion H top consume) ds
        = run (sysName H consume) (initName H top consume) ds := by
  intro ds
  have hinit : initRegion H top consume = initName H top consume := by
    have hne := obs_err_state H _ _ (clean_obs _ _ hclean)
    simp only [initName] at hne ⊢
    simp only [initRegion]
    cases hh : findHeadOf (H.level top) with
    | none => rfl
    | some h =>
      simp only [hh] at hne ⊢
      obtain ⟨b, hb'⟩ := advanceName_resolved H consume _ h [] hne
      obtain ⟨x, hxm, hxn⟩ := findHeadOf_mem _ _ hh
      have hxl := List.mem_filter.mp hxm
      have hxc : x.cont = top := by simpa using hxl.2
      have hgx : H.getIn? top h = some x := by
        rw [← hxc, ← hxn]; exact getIn?_self H hwf.unique x hxl.1
      rw [resolve_enter H hwf _ _ _ x b hgx hb']
      exact advance_eq_conv H hwf hs2 hco consume _ h b [] hb' hne
  rw [hinit]
  exact runs_coincide_conv H hwf hs2 hco consume ds _ hclean

/-- **Both directions together**: as soon as one of the two walks is error-free, both show the
    same trace under every decision sequence. -/
theorem walks_agree_iff (H : Hier) (top : Name) (consume : Bool) (hwf : WF H) (hs2 : s2 H = true)
    (hco : Conts H)
    (h : CleanRun (sysName H consume) (initName H top consume) ∨
         CleanRun (sysRegion H consume) (initRegion H top consume)) :
    ∀ ds, run (sysName H consume) (initName H top consume) ds
        = run (sysRegion H consume) (initRegion H top consume) ds := by
  intro ds
  rcases h with h | h
  · exact (walks_coincide_conv H top consume hwf hs2 hco h ds).symm
  · exact walks_coincide H top consume hwf hs2 h ds

end Scfg.C04
