import Scfg.Props.C16Nodup
/-!
# C16 — the FIFO loop of `SCFG.__iter__` never runs out of its own fuel

`go_total`: the loop of the iterator model, started with more fuel than "queue length + jump
targets of the level's members not yet seen", answers whenever the nested iterations below the
level's regions answer. `iterAll_go_fuel_enough`: the fuel the model gives the loop
(`|level| + Σ|_jump_targets| + 4`) is always enough — so an `OutOfFuel` of the loop itself is
impossible: the only ways the model of `__iter__` can fail are `find_head` and the nesting fuel.
-/
namespace Scfg.C16
open Scfg Scfg.Model

/-- jump targets of the members of `L` not yet seen -/
def pend (seen : List Name) : List Blk → Nat
  | [] => 0
  | a :: L => (if seen.contains a.name then 0 else a.jt.length) + pend seen L

theorem pend_mono (seen : List Name) (n : Name) : ∀ L, pend (n :: seen) L ≤ pend seen L
  | [] => by simp [pend]
  | a :: L => by
    have := pend_mono seen n L
    simp only [pend, List.contains_cons]
    split <;> split <;> simp_all <;> omega

theorem pend_take (seen : List Name) (n : Name) (hn : n ∉ seen) (b : Blk) (hb : b.name = n) :
    ∀ L, b ∈ L → pend (n :: seen) L + b.jt.length ≤ pend seen L
  | [], h => by simp at h
  | a :: L, h => by
    rcases List.mem_cons.mp h with e | e
    · subst e
      have := pend_mono seen n L
      have h1 : (n :: seen).contains b.name = true := by simp [hb]
      have h2 : seen.contains b.name = false := by
        rw [hb]; simpa [List.contains_iff_mem] using hn
      simp only [pend, h1, h2, if_true]
      simp
      omega
    · have := pend_take seen n hn b hb L e
      have hm := pend_mono seen n [a]
      simp only [pend] at hm ⊢
      omega

theorem getIn_level (H : Hier) (c r : Name) (b : Blk) (h : H.getIn? c r = some b) :
    b ∈ H.level c ∧ b.name = r := by
  have hm := List.mem_of_find?_eq_some h
  have hp := List.find?_some h
  simp only [Bool.and_eq_true, beq_iff_eq] at hp
  exact ⟨by simp [Hier.level, hm, hp.1], hp.2⟩

theorem go_total (H : Hier) (f : Nat) (c : Name)
    (hin : ∀ b ∈ H.level c, b.isRegion = true → ∃ o, iterAll H f b.name = .ok o) :
    ∀ (g : Nat) (queue seen out : List Name), queue.length + pend seen (H.level c) < g →
      ∃ r, iterAll.go H f c g queue seen out = .ok r := by
  intro g
  induction g with
  | zero => intro q s o h; omega
  | succ g ih =>
    intro queue seen out h
    cases queue with
    | nil => exact ⟨out, by simp [iterAll.go]⟩
    | cons name rest =>
      simp only [iterAll.go]
      simp only [List.length_cons] at h
      split
      · exact ih rest seen out (by omega)
      · next hs =>
        have hns : name ∉ seen := by simpa [mem, List.contains_iff_mem] using hs
        split
        · have := pend_mono seen name (H.level c)
          exact ih rest (name :: seen) out (by omega)
        · next b hb =>
          obtain ⟨hmem, hname⟩ := getIn_level H c name b hb
          have hp := pend_take seen name hns b hname (H.level c) hmem
          cases hreg : b.isRegion with
          | false =>
            simp only [Bool.false_eq_true, if_false, bind, Except.bind, pure, Except.pure]
            exact ih _ _ _ (by simp only [List.length_append]; omega)
          | true =>
            obtain ⟨o, ho⟩ := hin b hmem hreg
            simp only [if_true, ho, bind, Except.bind]
            exact ih _ _ _ (by simp only [List.length_append]; omega)

theorem filter_len_le (b : Blk) : b.jt.length ≤ b.jts.length := by
  unfold Blk.jt; exact List.length_filter_le _ _

theorem foldl_jts (L : List Blk) : ∀ n, L.foldl (fun n x => n + x.jts.length) n =
    n + L.foldl (fun n x => n + x.jts.length) 0 := by
  induction L with
  | nil => simp
  | cons a L ih => intro n; simp only [List.foldl_cons]; rw [ih (n + _), ih (0 + _)]; omega

theorem pend_le_total : ∀ L : List Blk, pend [] L ≤ L.foldl (fun n x => n + x.jts.length) 0
  | [] => by simp [pend]
  | a :: L => by
    have h1 := pend_le_total L
    have h2 := filter_len_le a
    simp only [pend, List.foldl_cons]
    rw [foldl_jts]
    simp
    omega

/-- **the loop's own fuel is always enough**: with `find_head` answering and the nested iterations
    answering, the model of `__iter__` answers. -/
theorem iterAll_go_fuel_enough (H : Hier) (f : Nat) (c hd : Name) (hh : findHead H c = .ok hd)
    (hin : ∀ b ∈ H.level c, b.isRegion = true → ∃ o, iterAll H f b.name = .ok o) :
    ∃ out, iterAll H (f + 1) c = .ok out := by
  rw [iterAll]
  simp only [hh, bind, Except.bind]
  apply go_total H f c hin
  have := pend_le_total (H.level c)
  simp only [List.length_singleton]
  omega

/-- non-vacuity: the premises hold on the two-level hierarchy of Props/C16Iter.lean -/
example : ∃ out, iterAll okH2 6 "m" = .ok out := by
  refine iterAll_go_fuel_enough okH2 5 "m" "0" head_m ?_
  intro b hb hr
  have hm : b ∈ okH2 := (List.mem_filter.mp hb).1
  simp only [okH2, List.mem_cons, List.not_mem_nil, or_false] at hm
  rcases hm with e | e | e | e <;> subst e <;> simp_all [Blk.isRegion, BKind.isRegion]
  exact ⟨["1"], okH2_inner⟩

/-- `find_head` answers on container `c` and, to nesting depth `f`, on every region below it -/
def headsOKB (H : Hier) : Nat → Name → Bool
  | 0, _ => false
  | f + 1, c => (match findHead H c with | .ok _ => true | .error _ => false) &&
      (H.level c).all fun b => !b.isRegion || headsOKB H f b.name

/-- **the only ways the model of `__iter__` can fail are `find_head` and the nesting fuel**: if
    `find_head` answers on the container and on every region below it down to depth `f`, the
    iterator model answers — for every hierarchy. -/
theorem iterAll_total : ∀ (H : Hier) (f : Nat) (c : Name), headsOKB H f c = true →
    ∃ out, iterAll H f c = .ok out := by
  intro H f
  induction f with
  | zero => intro c h; simp [headsOKB] at h
  | succ f ih =>
    intro c h
    simp only [headsOKB, Bool.and_eq_true, List.all_eq_true] at h
    obtain ⟨h1, h2⟩ := h
    cases hh : findHead H c with
    | error e => simp [hh] at h1
    | ok hd =>
      refine iterAll_go_fuel_enough H f c hd hh ?_
      intro b hb hr
      have := h2 b hb
      simp only [hr, Bool.not_true, Bool.false_or] at this
      exact ih b.name this

/-- non-vacuity of `iterAll_total` -/
theorem okH2_headsOKB : headsOKB okH2 2 "m" = true := by
  have e : okH2.level "m" = [okH2[0], okH2[1], okH2[2]] := by decide
  have e2 : okH2.level "loop_region_0" = [okH2[3]] := by decide
  have r0 : (okH2[0]).isRegion = false := by decide
  have r1 : (okH2[1]).isRegion = false := by decide
  have r2 : (okH2[2]).isRegion = true := by decide
  have r3 : (okH2[3]).isRegion = false := by decide
  have n2 : (okH2[2]).name = "loop_region_0" := by decide
  simp [headsOKB, head_m, head_l, e, e2, r0, r1, r2, r3, n2]

end Scfg.C16
