import Scfg.Props.C01Wrap
import Scfg.Props.C14Join
/-!
# C14 / C01 — routing arcs through an inserted block leaves every path unchanged (a priori)

`Spliced H H' new s`: `H'` is `H` plus a fresh non-branching, non-assigning synthetic block `new → s`,
where plain blocks may have had occurrences of the target `s` replaced by `new` (what `insert_block`
with one successor does to its predecessors, `SyntheticTail` / `SyntheticExit` / `SyntheticFill` /
`SyntheticReturn` insertion), everything else being equal.

`spliced_paths`: for every such pair and **every** fuel, from every walk state other than the inserted
block itself, if the walk over `H'` meets no error then the walk over `H` shows exactly the same trace
under every decision sequence of any length: the same original blocks in the same order, offering
the same decisions, stopping at the same place. By induction this extends to any sequence of such
insertions ("the set of paths between original blocks is unchanged").
-/
namespace Scfg.C14
open Scfg Scfg.C01 Scfg.C04

/-- undo the insertion on a target name -/
def unsplice (new s : Name) (x : Name) : Name := if x == new then s else x

/-- `b'` is `b` with some targets `s` replaced by `new`, in the successor tuple and (for a block that
    branches on a variable) in its value table, consistently -/
structure SameUpTo (new s : Name) (b b' : Blk) : Prop where
  fields : b' = { b with jts := b'.jts, tbl := b'.tbl }
  targets : b'.jts.map (unsplice new s) = b.jts
  /-- the tables send every value to the same place (their order is free) -/
  tbl : ∀ x : Int, (b.tbl.find? (fun p => p.1 == x)).map (·.2) =
    ((b'.tbl.find? (fun p => p.1 == x)).map (·.2)).map (unsplice new s)
  /-- a block that branches on a variable does not hold both names -/
  inj : b.kind.isBranching = true → ∀ x ∈ b'.jts, ∀ y ∈ b'.jts, unsplice new s x = unsplice new s y → x = y

structure Spliced (H H' : Hier) (new s : Name) : Prop where
  sNe : s ≠ new
  newBlk : ∃ nb, H'.get? new = some nb ∧ nb.isRegion = false ∧ nb.isOrig = false ∧
    nb.kind.isBranching = false ∧ nb.kind ≠ .synthAssign ∧ nb.jts = [s]
  rel : ∀ n, n ≠ new → (H.get? n = none ∧ H'.get? n = none) ∨
    ∃ b b', H.get? n = some b ∧ H'.get? n = some b' ∧ SameUpTo new s b b'
  hdrFresh : ∀ n b, H.get? n = some b → b.header ≠ new

theorem sameUpTo_basic {new s : Name} {b b' : Blk} (h : SameUpTo new s b b') :
    b'.name = b.name ∧ b'.kind = b.kind ∧ b'.isRegion = b.isRegion ∧ b'.isOrig = b.isOrig ∧
    b'.header = b.header ∧ b'.var = b.var ∧ b'.asg = b.asg ∧
    b'.jts.length = b.jts.length := by
  have hf := h.fields
  have hl : b'.jts.length = b.jts.length := by
    have := congrArg List.length h.targets
    simpa using this
  refine ⟨by rw [hf], by rw [hf], by rw [hf]; rfl, by rw [hf]; rfl, by rw [hf], by rw [hf],
    by rw [hf], hl⟩

/-- resolving a name other than `new` gives related blocks in the two hierarchies -/
theorem resolve_rel (H H' : Hier) (new s : Name) (hS : Spliced H H' new s) : ∀ R n, n ≠ new →
    (resolve H R n = none ∧ resolve H' R n = none) ∨
    ∃ b b', resolve H R n = some b ∧ resolve H' R n = some b' ∧ SameUpTo new s b b' := by
  intro R
  induction R with
  | zero => intro n _; exact Or.inl ⟨rfl, rfl⟩
  | succ R ih =>
    intro n hn
    rcases hS.rel n hn with ⟨h1, h2⟩ | ⟨b, b', h1, h2, hsame⟩
    · exact Or.inl ⟨by simp [resolve, h1], by simp [resolve, h2]⟩
    · obtain ⟨_, _, hreg, _, hhdr, _⟩ := sameUpTo_basic hsame
      simp only [resolve, h1, h2, hreg, hhdr]
      by_cases hr : b.isRegion = true
      · simp only [hr, if_true]
        exact ih b.header (hS.hdrFresh n b h1)
      · simp only [hr, Bool.false_eq_true, if_false]
        exact Or.inr ⟨b, b', rfl, rfl, hsame⟩

/-- executing a synthetic block: what succeeds over `H'` succeeds with the same outcome over `H` -/
theorem synthExec_rel {new s : Name} {b b' : Blk} (hsame : SameUpTo new s b b') (consume : Bool) (val : Val)
    (res : Val × Option Nat) (hok : synthExec consume b' val = .ok res) : synthExec consume b val = .ok res := by
  obtain ⟨hname, hkind, _, _, _, hvar, hasg, _⟩ := sameUpTo_basic hsame
  exact synthExec_ren (unsplice new s) hname hkind hvar hasg hsame.targets hsame.tbl hsame.inj consume val res hok

theorem unsplice_of_ne {new s x : Name} (h : x ≠ new) : unsplice new s x = x := by
  simp [unsplice, h]

/-- **Running through synthetic blocks.** A non-error result over `H'` is the result over `H` from
    the un-spliced name. -/
theorem adv_rel (H H' : Hier) (new s : Name) (hS : Spliced H H' new s) (consume : Bool) (R : Nat) :
    ∀ F n val r, advF H' consume R F n val = r → r.isErr = false →
      advF H consume R F (unsplice new s n) val = r := by
  intro F
  induction F with
  | zero => intro n val r h hr; simp only [advF] at h; subst h; simp [WState.isErr] at hr
  | succ F ih =>
    intro n val r h hr
    by_cases hn : n = new
    · -- the inserted block: one step to `s`
      subst hn
      obtain ⟨nb, hg, hreg, hor, hbr, hna, hj⟩ := hS.newBlk
      have hus : unsplice n s n = s := by simp [unsplice]
      rw [hus]
      cases R with
      | zero => simp [advF, resolve, WState.isErr] at h; subst h; simp [WState.isErr] at hr
      | succ R =>
        have hres : resolve H' (R + 1) n = some nb := by simp [resolve, hg, hreg]
        rw [advF, hres] at h
        have hse : synthExec consume nb val = .ok (val, some 0) := by
          have : (nb.kind == BKind.synthAssign) = false := by simpa using hna
          simp [synthExec, hbr, this, hj]
        simp only [hor, Bool.false_eq_true, if_false, hse, hj, List.getElem?_cons_zero] at h
        have := ih s val r h hr
        rw [unsplice_of_ne hS.sNe] at this
        exact advF_mono H consume (R + 1) F s val r this hr
    · rw [unsplice_of_ne hn]
      rw [advF] at h ⊢
      rcases resolve_rel H H' new s hS R n hn with ⟨h1, h2⟩ | ⟨b, b', h1, h2, hsame⟩
      · rw [h2] at h; subst h; simp [WState.isErr] at hr
      · rw [h2] at h
        rw [h1]
        obtain ⟨hname, _, _, horig, _, _, _, _⟩ := sameUpTo_basic hsame
        simp only [horig, hname] at h ⊢
        by_cases ho : b.isOrig = true
        · simp only [ho, if_true] at h ⊢; exact h
        · simp only [ho] at h ⊢
          cases he : synthExec consume b' val with
          | error e => rw [he] at h; subst h; simp [WState.isErr] at hr
          | ok res =>
            have he' := synthExec_rel hsame consume val res he
            rw [he] at h
            rw [he']
            obtain ⟨val', oi⟩ := res
            cases oi with
            | none => exact h
            | some i =>
              simp only at h ⊢
              cases ht : b'.jts[i]? with
              | none => rw [ht] at h; subst h; simp [WState.isErr] at hr
              | some t' =>
                rw [ht] at h
                have htb : b.jts[i]? = some (unsplice new s t') := by
                  rw [← hsame.targets, List.getElem?_map, ht]; rfl
                rw [htb]
                exact ih t' val' r h hr

/-- the states that are compared: everything except standing on the inserted block -/
def NotNew (new : Name) : WState → Prop
  | .at n _ => n ≠ new
  | _ => True

theorem adv_result_notNew (H' : Hier) (new s : Name) (H : Hier) (hS : Spliced H H' new s) (consume : Bool)
    (R : Nat) : ∀ F n val, NotNew new (advF H' consume R F n val) := by
  intro F
  induction F with
  | zero => intro n val; simp [advF, NotNew]
  | succ F ih =>
    intro n val
    rw [advF]
    cases hr : resolve H' R n with
    | none => simp [NotNew]
    | some b =>
      simp only
      by_cases ho : b.isOrig = true
      · simp only [ho, if_true, NotNew]
        -- a block found under the name `new` is the inserted one, which is not original
        intro e
        obtain ⟨nb, hg, _, hor, _⟩ := hS.newBlk
        have hb : H'.get? b.name = some b := by
          -- `resolve` returns what `get?` found under that block's own name
          have : ∀ R n b, resolve H' R n = some b → ∃ m, H'.get? m = some b := by
            intro R
            induction R with
            | zero => intro n b h; simp [resolve] at h
            | succ R ihR =>
              intro n b h
              simp only [resolve] at h
              split at h
              · simp at h
              · next x hx =>
                split at h
                · exact ihR _ _ h
                · simp only [Option.some.injEq] at h; exact ⟨n, h ▸ hx⟩
          obtain ⟨m, hm⟩ := this R n b hr
          have := (get?_mem H' m b hm).2
          rw [this]; exact hm
        rw [e, hg] at hb
        simp only [Option.some.injEq] at hb
        rw [← hb] at ho
        rw [hor] at ho
        cases ho
      · simp only [ho]
        cases synthExec consume b val with
        | error e => simp [NotNew]
        | ok res =>
          obtain ⟨val', oi⟩ := res
          cases oi with
          | none => simp [NotNew]
          | some i =>
            simp only
            cases b.jts[i]? with
            | none => simp [NotNew]
            | some t => exact ih t val'

/-- **Splicing a block into arcs leaves every path unchanged.** -/
theorem spliced_paths (H H' : Hier) (new s : Name) (hS : Spliced H H' new s) (consume : Bool) (R F : Nat) :
    ∀ (ds : List Nat) (st : WState), NotNew new st → CleanRun (sysF H' consume R F) st →
      run (sysF H consume R F) st ds = run (sysF H' consume R F) st ds := by
  refine runs_eq_of_clean_inv (sysF H consume R F) (sysF H' consume R F) (NotNew new) ?_
  intro st hp hc
  cases st with
  | halt => exact ⟨rfl, fun _ _ => ⟨rfl, trivial⟩⟩
  | err c m => exact ⟨rfl, fun _ _ => ⟨rfl, trivial⟩⟩
  | «at» n val =>
    have hn : n ≠ new := hp
    rcases hS.rel n hn with ⟨h1, h2⟩ | ⟨b, b', h1, h2, hsame⟩
    · refine ⟨by simp [sysF, obsOf, h1, h2], fun d hd => ?_⟩
      simp [sysF, obsOf, h2, Obs.arity] at hd
    · obtain ⟨hname, _, _, _, _, _, _, hlen⟩ := sameUpTo_basic hsame
      -- one step from this state
      have hstep : ∀ d, (stepF H' consume R F b' val d).isErr = false →
          stepF H consume R F b val d = stepF H' consume R F b' val d := by
        intro d hne
        simp only [stepF] at hne ⊢
        cases ht : b'.jts[d]? with
        | none => simp [ht, WState.isErr] at hne
        | some t' =>
          rw [ht] at hne
          have htb : b.jts[d]? = some (unsplice new s t') := by
            rw [← hsame.targets, List.getElem?_map, ht]; rfl
          rw [htb]
          exact adv_rel H H' new s hS consume R F t' val _ rfl hne
      have hstepClean : ∀ d, d < ((sysF H' consume R F).obs (.at n val)).arity →
          (stepF H' consume R F b' val d).isErr = false := by
        intro d hd
        have := clean_obs _ _ (clean_step _ _ hc d hd)
        have h2' := obs_err_state H' _ _ this
        simpa [sysF, h2] using h2'
      constructor
      · -- observations
        simp only [sysF, obsOf, h1, h2]
        congr 1
        simp only [arityIn]
        cases hb : b.jts with
        | nil =>
          have : b'.jts = [] := by
            have := hlen; rw [hb] at this; exact List.eq_nil_of_length_eq_zero (by simpa using this)
          rw [this]
        | cons t ts =>
          cases ts with
          | nil =>
            have : ∃ t', b'.jts = [t'] := by
              have := hlen; rw [hb] at this
              match hb' : b'.jts, this with
              | [t'], _ => exact ⟨t', rfl⟩
              | [], h => simp at h
              | _ :: _ :: _, h => simp at h
            obtain ⟨t', ht'⟩ := this
            rw [ht']
            simp only
            have har : ((sysF H' consume R F).obs (.at n val)).arity =
                if stepF H' consume R F b' val 0 == .halt then 0 else 1 := by
              simp [sysF, obsOf, h2, arityIn, ht', Obs.arity]
            by_cases hh : stepF H' consume R F b' val 0 = .halt
            · have := hstep 0 (by rw [hh]; rfl)
              rw [this]
            · have h1' : 0 < ((sysF H' consume R F).obs (.at n val)).arity := by rw [har]; simp [hh]
              rw [hstep 0 (hstepClean 0 h1')]
          | cons t2 ts2 =>
            have : b'.jts.length = (t :: t2 :: ts2).length := by rw [hlen, hb]
            match hb' : b'.jts, this with
            | a :: a2 :: r, hl => simpa using hl.symm
            | [], hl => simp at hl
            | [_], hl => simp at hl
      · intro d hd
        have hne := hstepClean d hd
        refine ⟨?_, ?_⟩
        · simp only [sysF, h1, h2]
          exact hstep d hne
        · simp only [sysF, h2, stepF]
          cases b'.jts[d]? with
          | none => simp [NotNew]
          | some t' => exact adv_result_notNew H' new s H hS consume R F t' val

/-! ## The model of `insert_block` with one successor produces such a pair -/

open Scfg.Model in
theorem map_unsplice_id (new s : Name) (xs : List Name) (h : new ∉ xs) : xs.map (unsplice new s) = xs := by
  induction xs with
  | nil => rfl
  | cons x xs ih =>
    simp only [List.mem_cons, not_or] at h
    simp only [List.map_cons, ih h.2]
    rw [unsplice_of_ne (fun e => h.1 e.symm)]

theorem map_unsplice_set (new s : Name) (xs : List Name) (i : Nat) (hi : i < xs.length) (hx : xs[i] = s)
    (h : new ∉ xs) : (xs.set i new).map (unsplice new s) = xs := by
  induction xs generalizing i with
  | nil => simp at hi
  | cons x xs ih =>
    simp only [List.mem_cons, not_or] at h
    cases i with
    | zero =>
      simp only [List.getElem_cons_zero] at hx
      simp only [List.set_cons_zero, List.map_cons, map_unsplice_id new s xs h.2]
      simp [unsplice, hx]
    | succ i =>
      simp only [List.getElem_cons_succ] at hx
      simp only [List.set_cons_succ, List.map_cons]
      rw [ih i (by simpa using hi) hx h.2, unsplice_of_ne (fun e => h.1 e.symm)]

open Scfg.Model in
/-- what `insert_block(new, P, [s])` makes of a plain predecessor's targets, when `new` is fresh -/
theorem newTargets_one (new s : Name) (b : Blk) (h : new ∉ b.jts) :
    (newTargets new [s] b).map (unsplice new s) = b.jts := by
  unfold newTargets
  simp only [List.isEmpty_cons, Bool.false_eq_true, if_false, List.filter_cons, List.filter_nil]
  cases hb : b.bes.contains s with
  | true => simp only [Bool.not_true, Bool.false_eq_true, if_false, rewire]; exact map_unsplice_id new s _ h
  | false =>
    simp only [Bool.not_false, if_true, rewire]
    cases hidx : idxOf b.jts s with
    | none => exact map_unsplice_id new s _ h
    | some i =>
      obtain ⟨hi, hx⟩ := idxOf_some hidx
      have hc : b.jts.contains new = false := by
        cases hcc : b.jts.contains new with
        | false => rfl
        | true => exact absurd (by simpa [List.contains_iff_mem] using hcc) h
      simp only [hc, Bool.not_false, if_true]
      exact map_unsplice_set new s b.jts i hi hx h

/-- a table that does not mention `new` is its own un-spliced table -/
theorem tbl_fresh (new s : Name) (t : List (Int × Name)) (h : ∀ p ∈ t, p.2 ≠ new) (x : Int) :
    (t.find? (fun p => p.1 == x)).map (·.2) =
    ((t.find? (fun p => p.1 == x)).map (·.2)).map (unsplice new s) := by
  cases hf : t.find? (fun p => p.1 == x) with
  | none => rfl
  | some p =>
    simp only [Option.map_some]
    rw [unsplice_of_ne (h p (List.mem_of_find?_eq_some hf))]

open Scfg.Model in
/-- **`insert_block` with one successor splices.** -/
theorem insertBlock_spliced (H H' : Hier) (c : Name) (kind : BKind) (new s : Name) (preds : List Name)
    (hu : H.names.Nodup) (hu' : H'.names.Nodup) (hnew : new ∉ H.names) (hs : s ≠ new)
    (hk1 : kind.isRegion = false) (hk2 : kind.isOrig = false) (hk3 : kind.isBranching = false)
    (hk4 : kind ≠ .synthAssign) (hnd : preds.Nodup)
    (hplain : ∀ p ∈ preds, ∃ b, H.getIn? c p = some b ∧ b.isRegion = false ∧ b.kind.isBranching = false)
    (hhdr : ∀ b ∈ H, b.header ≠ new) (hjt : ∀ b ∈ H, new ∉ b.jts) (htb : ∀ b ∈ H, ∀ p ∈ b.tbl, p.2 ≠ new)
    (h : insertBlock H c kind new preds [s] = .ok H') : Spliced H H' new s := by
  have hpne : ∀ p ∈ preds, p ≠ new := by
    intro p hp e
    obtain ⟨b, hb, _⟩ := hplain p hp
    obtain ⟨hbm, _, hbn⟩ := getIn?_mem H _ _ b hb
    exact hnew (List.mem_map.mpr ⟨b, hbm, by rw [hbn, e]⟩)
  have look := insertBlock_plain_spec H H' c kind new preds [s] hnd
    (fun p hp => ⟨hpne p hp, hplain p hp⟩) h
  have hget' : ∀ c' n x, H'.getIn? c' n = some x → H'.get? n = some x :=
    fun c' n x hx => getIn?_eq_get? H' c' n x hu' hx
  refine ⟨hs, ?_, ?_, ?_⟩
  · -- the inserted block
    refine ⟨{ cont := c, name := new, kind := kind, jts := [s] }, ?_, ?_, ?_, hk3, hk4, rfl⟩
    · apply hget' c
      rw [look]
      have hnp : new ∉ preds := fun hp => hpne new hp rfl
      simp [updTo, getIn?_putIn, hnp]
    · simpa [Blk.isRegion] using hk1
    · simpa [Blk.isOrig] using hk2
  · intro n hn
    cases hg : H.get? n with
    | none =>
      left
      refine ⟨rfl, ?_⟩
      cases hg' : H'.get? n with
      | none => rfl
      | some x =>
        exfalso
        obtain ⟨hxm, hxn⟩ := get?_mem H' n x hg'
        have hx := getIn?_self H' hu' x hxm
        rw [hxn, look] at hx
        simp only [updTo, getIn?_putIn] at hx
        have hk : ¬ (x.cont = c ∧ n = new) := fun hh => hn hh.2
        simp only [hk, if_false] at hx
        cases hgi : H.getIn? x.cont n with
        | none => simp [hgi] at hx
        | some y =>
          have := getIn?_eq_get? H _ _ y hu hgi
          rw [hg] at this
          cases this
    | some b =>
      right
      obtain ⟨hbm, hbn⟩ := get?_mem H n b hg
      have hbi : H.getIn? b.cont n = some b := by rw [← hbn]; exact getIn?_self H hu b hbm
      have hl := look b.cont n
      simp only [updTo, getIn?_putIn] at hl
      have hk : ¬ (b.cont = c ∧ n = new) := fun hh => hn hh.2
      simp only [hk, if_false, hbi] at hl
      by_cases hp : b.cont = c ∧ n ∈ preds
      · simp only [hp, and_self, if_true] at hl
        refine ⟨b, _, rfl, hget' _ _ _ hl, ⟨by rw [show c = b.cont from hp.1.symm], newTargets_one new s b (hjt b hbm),
          tbl_fresh new s b.tbl (htb b hbm), fun hbr => ?_⟩⟩
        obtain ⟨b0, hb0, h1, h2⟩ := hplain n hp.2
        rw [← hp.1, hbi] at hb0
        simp only [Option.some.injEq] at hb0
        subst hb0
        rw [h2] at hbr; cases hbr
      · simp only [hp, if_false] at hl
        refine ⟨b, b, rfl, hget' _ _ _ hl, ⟨rfl, map_unsplice_id new s _ (hjt b hbm), tbl_fresh new s b.tbl (htb b hbm),
          fun _ x hx y hy hxy => ?_⟩⟩
        have hx' : x ≠ new := fun e => hjt b hbm (e ▸ hx)
        have hy' : y ≠ new := fun e => hjt b hbm (e ▸ hy)
        rwa [unsplice_of_ne hx', unsplice_of_ne hy'] at hxy
  · intro n b hg
    exact hhdr b (get?_mem H n b hg).1

open Scfg.Model in
/-- **`insert_block` with one successor and plain predecessors leaves every path unchanged** (model;
    every hierarchy, every fuel, every decision sequence). -/
theorem insertBlock_preserves_paths (H H' : Hier) (c : Name) (kind : BKind) (new s : Name)
    (preds : List Name) (hu : H.names.Nodup) (hu' : H'.names.Nodup) (hnew : new ∉ H.names) (hs : s ≠ new)
    (hk1 : kind.isRegion = false) (hk2 : kind.isOrig = false) (hk3 : kind.isBranching = false)
    (hk4 : kind ≠ .synthAssign) (hnd : preds.Nodup)
    (hplain : ∀ p ∈ preds, ∃ b, H.getIn? c p = some b ∧ b.isRegion = false ∧ b.kind.isBranching = false)
    (hhdr : ∀ b ∈ H, b.header ≠ new) (hjt : ∀ b ∈ H, new ∉ b.jts) (htb : ∀ b ∈ H, ∀ p ∈ b.tbl, p.2 ≠ new)
    (h : insertBlock H c kind new preds [s] = .ok H') (consume : Bool) (R F : Nat) :
    ∀ (ds : List Nat) (st : WState), NotNew new st → CleanRun (sysF H' consume R F) st →
      run (sysF H consume R F) st ds = run (sysF H' consume R F) st ds :=
  spliced_paths H H' new s
    (insertBlock_spliced H H' c kind new s preds hu hu' hnew hs hk1 hk2 hk3 hk4 hnd hplain hhdr hjt htb h)
    consume R F

/-! ## The decidable relation the harness evaluates on real `insert_block` steps -/

open Scfg.Spec in
theorem sameUpToB_sound (new s : Name) (b b' : Blk) (h : sameUpToB new s b b' = true) : SameUpTo new s b b' := by
  simp only [sameUpToB, Bool.and_eq_true, beq_iff_eq, Bool.or_eq_true, Bool.not_eq_true'] at h
  obtain ⟨⟨⟨h1, h2⟩, h3⟩, h4⟩ := h
  refine ⟨h1, h2, Scfg.C01.tblRelB_sound _ _ _ h3, fun hbr x hx y hy hxy => ?_⟩
  rcases h4 with e | e
  · rw [hbr] at e; cases e
  · simp only [injOn, List.all_eq_true, Bool.or_eq_true, bne_iff_ne, ne_eq, beq_iff_eq] at e
    rcases e x hx y hy with e' | e'
    · exact absurd hxy e'
    · exact e'

open Scfg.Spec in
/-- **Soundness of the step check.** -/
theorem splicedB_sound (H H' : Hier) (new s : Name) (h : splicedB H H' new s = true) : Spliced H H' new s := by
  simp only [splicedB, Bool.and_eq_true, bne_iff_ne, ne_eq] at h
  obtain ⟨⟨⟨h1, h2⟩, h3⟩, h4⟩ := h
  refine ⟨h1, ?_, ?_, ?_⟩
  · cases hg : H'.get? new with
    | none => simp [hg] at h2
    | some nb =>
      simp only [hg, Bool.and_eq_true, Bool.not_eq_true', bne_iff_ne, ne_eq, beq_iff_eq] at h2
      obtain ⟨⟨⟨⟨a1, a2⟩, a3⟩, a4⟩, a5⟩ := h2
      exact ⟨nb, rfl, a1, a2, a3, a4, a5⟩
  · intro n hn
    by_cases hmem : n ∈ H.names ++ H'.names
    · have := List.all_eq_true.mp h3 n hmem
      simp only [Bool.or_eq_true, beq_iff_eq] at this
      rcases this with e | e
      · exact absurd e hn
      · cases hg : H.get? n <;> cases hg' : H'.get? n <;> simp only [hg, hg'] at e
        · exact Or.inl ⟨rfl, rfl⟩
        · cases e
        · cases e
        · exact Or.inr ⟨_, _, rfl, rfl, sameUpToB_sound new s _ _ e⟩
    · simp only [List.mem_append, not_or] at hmem
      exact Or.inl ⟨Scfg.C01.get?_none_of_not_mem H n hmem.1, Scfg.C01.get?_none_of_not_mem H' n hmem.2⟩
  · intro n b hg
    have := List.all_eq_true.mp h4 b (get?_mem H n b hg).1
    simpa using this

end Scfg.C14
