import Scfg.Model.Reserve
import Scfg.Props.C18
/-!
# C18 — a generated name never equals a name already present (the reservation scan, a priori)

`NameGenerator.reserve` parses a name with two regular expressions and advances the counter of its
kind past its index; `SCFG.__post_init__` reserves every block name and control variable of the
graph it is given (also when the graph was written out and read back, which builds new `SCFG`
objects). For the model (`Scfg/Model/Reserve.lean`):

* `parse_render_block/region/var` — parsing a name the generator can hand out returns exactly its
  kind and index (for every non-empty kind and every index);
* `reserve_past` / `reserve_mono` — after `reserve(name)` the kind's counter is past that index,
  and no counter ever decreases;
* `post_init_never_clobbers` — after the reservation scan over a level, **no** name handed out
  later, for any request sequence over a good prefix table, equals the name of a block of that level.
-/
namespace Scfg.C18
open Scfg Scfg.Model

theorem stripPrefix_append (p rest : List Char) : stripPrefix p (p ++ rest) = some rest := by
  induction p with
  | nil => rfl
  | cons c cs ih => simp [stripPrefix, ih]

theorem takeWhile_digits (ds : List Char) (c : Char) (rest : List Char)
    (hd : ∀ x ∈ ds, x.isDigit = true) (hc : c.isDigit = false) :
    (ds ++ c :: rest).takeWhile Char.isDigit = ds := by
  induction ds with
  | nil => simp [List.takeWhile, hc]
  | cons d ds ih =>
    simp only [List.cons_append, List.takeWhile, hd d (by simp)]
    rw [ih fun x hx => hd x (List.mem_cons_of_mem _ hx)]

theorem takeDigitsRev_digits (i : Nat) (c : Char) (rest : List Char) (hc : c.isDigit = false) :
    takeDigitsRev ((Nat.toDigits 10 i).reverse ++ c :: rest) = some (Nat.toDigits 10 i, c :: rest) := by
  have hd : ∀ x ∈ (Nat.toDigits 10 i).reverse, x.isDigit = true := fun x hx =>
    Nat.isDigit_of_mem_toDigits (by omega) (by omega) (List.mem_reverse.mp hx)
  unfold takeDigitsRev
  simp only [takeWhile_digits _ c rest hd hc]
  have hne : (Nat.toDigits 10 i).reverse.isEmpty = false := by
    simp [Nat.toDigits_ne_nil]
  simp [hne]

theorem lit_block : "_block_".toList = ['_', 'b', 'l', 'o', 'c', 'k', '_'] := by rfl
theorem lit_region : "_region_".toList = ['_', 'r', 'e', 'g', 'i', 'o', 'n', '_'] := by rfl
theorem lit_var : "_var_".toList = ['_', 'v', 'a', 'r', '_'] := by rfl
theorem lit_scfg : "__scfg_".toList = ['_', '_', 's', 'c', 'f', 'g', '_'] := by rfl
theorem lit_dunder : "__".toList = ['_', '_'] := by rfl

theorem isEmpty_false_of_ne (l : List Char) (h : l ≠ []) : l.isEmpty = false := by
  cases l with
  | nil => exact absurd rfl h
  | cons a t => rfl

theorem parse_render_block (k : String) (i : Nat) (hk : k.toList ≠ []) :
    parseBlockName (renderL (Ns.block, k) i) = some (k.toList, i) := by
  have hrev : (renderL (Ns.block, k) i).reverse =
      (Nat.toDigits 10 i).reverse ++ '_' :: (['k', 'c', 'o', 'l', 'b', '_'] ++ k.toList.reverse) := by
    unfold renderL pre suf
    simp only [lit_block]
    simp
  unfold parseBlockName
  rw [hrev, takeDigitsRev_digits i '_' _ (by decide)]
  have hs : stripPrefix blockSepRev ('_' :: (['k', 'c', 'o', 'l', 'b', '_'] ++ k.toList.reverse)) =
      some k.toList.reverse := stripPrefix_append blockSepRev k.toList.reverse
  simp only [hs]
  have hne : k.toList.reverse.isEmpty = false := isEmpty_false_of_ne _ (by simpa using hk)
  simp [hne, Nat.ofDigitChars_toDigits]

theorem parse_render_region (k : String) (i : Nat) (hk : k.toList ≠ []) :
    parseBlockName (renderL (Ns.region, k) i) = some (k.toList, i) := by
  have hrev : (renderL (Ns.region, k) i).reverse =
      (Nat.toDigits 10 i).reverse ++ '_' :: (['n', 'o', 'i', 'g', 'e', 'r', '_'] ++ k.toList.reverse) := by
    unfold renderL pre suf
    simp only [lit_region]
    simp
  unfold parseBlockName
  rw [hrev, takeDigitsRev_digits i '_' _ (by decide)]
  have hs0 : stripPrefix blockSepRev ('_' :: (['n', 'o', 'i', 'g', 'e', 'r', '_'] ++ k.toList.reverse)) = none := by
    simp [stripPrefix, blockSepRev]
  have hs : stripPrefix regionSepRev ('_' :: (['n', 'o', 'i', 'g', 'e', 'r', '_'] ++ k.toList.reverse)) =
      some k.toList.reverse := stripPrefix_append regionSepRev k.toList.reverse
  simp only [hs0, hs]
  have hne : k.toList.reverse.isEmpty = false := isEmpty_false_of_ne _ (by simpa using hk)
  simp [hne, Nat.ofDigitChars_toDigits]

theorem parse_render_var (k : String) (i : Nat) (hk : k.toList ≠ []) :
    parseVarName (renderL (Ns.var, k) i) = some (k.toList, i) := by
  have hrev : (renderL (Ns.var, k) i).reverse =
      dunder ++ ((Nat.toDigits 10 i).reverse ++ '_' :: (['r', 'a', 'v', '_'] ++ (k.toList.reverse ++ scfgPrefix.reverse))) := by
    unfold renderL pre suf
    simp only [lit_var, lit_scfg, lit_dunder]
    simp [dunder, scfgPrefix]
  unfold parseVarName
  rw [hrev, stripPrefix_append]
  simp only [takeDigitsRev_digits i '_' _ (by decide)]
  have hs : stripPrefix varSepRev ('_' :: (['r', 'a', 'v', '_'] ++ (k.toList.reverse ++ scfgPrefix.reverse))) =
      some (k.toList.reverse ++ scfgPrefix.reverse) :=
    stripPrefix_append varSepRev (k.toList.reverse ++ scfgPrefix.reverse)
  simp only [hs]
  have h2 : (k.toList.reverse ++ scfgPrefix.reverse).reverse = scfgPrefix ++ k.toList := by
    simp [List.reverse_append]
  rw [h2, stripPrefix_append]
  have hne : k.toList.isEmpty = false := isEmpty_false_of_ne _ hk
  simp [hne, Nat.ofDigitChars_toDigits]

/-- a block / region name does not end in `__`: the variable pattern does not match it -/
theorem parseVar_block_none (ns : Ns) (hns : ns ≠ .var) (k : String) (i : Nat) :
    parseVarName (renderL (ns, k) i) = none := by
  have hlast : ∃ d rest, (renderL (ns, k) i).reverse = d :: rest ∧ d.isDigit = true := by
    have hne := Nat.toDigits_ne_nil (n := i) (b := 10)
    cases hds : (Nat.toDigits 10 i).reverse with
    | nil => simp_all
    | cons d t =>
      refine ⟨d, t ++ (pre ns k).reverse, ?_, ?_⟩
      · cases ns <;> simp_all [renderL, suf, List.reverse_append]
      · exact Nat.isDigit_of_mem_toDigits (b := 10) (n := i) (by omega) (by omega)
          (List.mem_reverse.mp (by rw [hds]; simp))
  obtain ⟨d, rest, hr, hd⟩ := hlast
  unfold parseVarName
  rw [hr]
  have : d ≠ '_' := by intro e; rw [e] at hd; exact absurd hd (by decide)
  have h1 : ('_' == d) = false := by simpa using fun e => this e.symm
  simp [stripPrefix, dunder, h1]

/-- what `reserve` extracts from a name the generator can hand out -/
theorem parse_render (r : Req) (i : Nat) (hk : r.2.toList ≠ []) :
    ((parseVarName (renderL r i)).orElse fun _ => parseBlockName (renderL r i)) = some (r.2.toList, i) := by
  obtain ⟨ns, k⟩ := r
  cases ns
  · rw [parseVar_block_none .block (by decide) k i]; simpa using parse_render_block k i hk
  · rw [parseVar_block_none .region (by decide) k i]; simpa using parse_render_region k i hk
  · rw [parse_render_var k i hk]; rfl

theorem ctrOf_eq_ctr (ng : NameGen) (k : String) : ng.ctrOf k = ctr ng k := rfl

theorem find_setCtr_same (ng : NameGen) (k : String) (v : Nat) :
    ((ng.setCtr k v).find? (·.1 == k)).map (·.2) = some v := by
  unfold NameGen.setCtr
  split
  · next h =>
    induction ng with
    | nil => simp at h
    | cons p ps ih =>
      simp only [List.map_cons, List.find?_cons]
      by_cases hp : p.1 = k
      · simp [hp]
      · have h1 : (p.1 == k) = false := by simpa using hp
        simp only [h1, Bool.false_eq_true, if_false]
        simp only [List.any_cons, h1, Bool.false_or] at h
        exact ih h
  · next h =>
    have h' : ∀ x ∈ ng, ¬ x.1 = k := by
      intro x hx e
      exact h (List.any_eq_true.mpr ⟨x, hx, by simpa using e⟩)
    rw [List.find?_append]
    have : List.find? (fun x => x.1 == k) ng = none := by
      rw [List.find?_eq_none]; intro x hx; simpa using h' x hx
    simp [this]

theorem ctrOf_setCtr_same (ng : NameGen) (k : String) (v : Nat) : (ng.setCtr k v).ctrOf k = v := by
  have := find_setCtr_same ng k v
  unfold NameGen.ctrOf
  cases hf : (ng.setCtr k v).find? (·.1 == k) with
  | none => simp [hf] at this
  | some p => simp only [hf, Option.map_some, Option.some.injEq] at this; exact this

theorem find_setCtr_other (ng : NameGen) (k k' : String) (v : Nat) (hne : k' ≠ k) :
    ((ng.setCtr k v).find? (·.1 == k')).map (·.2) = (ng.find? (·.1 == k')).map (·.2) := by
  have hkk : (k == k') = false := by simpa using fun e => hne e.symm
  have gen : ∀ ps : NameGen,
      ((ps.map fun p => if p.1 == k then (k, v) else p).find? (·.1 == k')).map (·.2) =
      (ps.find? (·.1 == k')).map (·.2) := by
    intro ps
    induction ps with
    | nil => simp
    | cons p ps ih =>
      simp only [List.map_cons, List.find?_cons]
      by_cases hp : p.1 = k
      · have h1 : (p.1 == k) = true := by simpa using hp
        have h3 : (p.1 == k') = false := by rw [hp]; exact hkk
        simp only [h1, if_true, hkk, h3]
        exact ih
      · have h1 : (p.1 == k) = false := by simpa using hp
        simp only [h1, Bool.false_eq_true, if_false]
        by_cases hq : p.1 = k'
        · simp [hq]
        · have h3 : (p.1 == k') = false := by simpa using hq
          simp only [h3]
          exact ih
  unfold NameGen.setCtr
  split
  · exact gen ng
  · rw [List.find?_append]
    cases List.find? (fun x => x.1 == k') ng with
    | some x => simp
    | none => simp [hkk]

theorem ctrOf_setCtr_other (ng : NameGen) (k k' : String) (v : Nat) (hne : k' ≠ k) :
    (ng.setCtr k v).ctrOf k' = ng.ctrOf k' := by
  have := find_setCtr_other ng k k' v hne
  unfold NameGen.ctrOf
  cases h1 : (ng.setCtr k v).find? (·.1 == k') <;> cases h2 : ng.find? (·.1 == k') <;>
    simp_all

/-- no counter ever decreases -/
theorem reserve_mono (ng : NameGen) (n : Name) (k : String) : ng.ctrOf k ≤ (ng.reserve n).ctrOf k := by
  unfold NameGen.reserve
  split
  · exact Nat.le_refl _
  · next kk idx _ =>
    simp only
    split
    · next hle =>
      by_cases hk : k = String.ofList kk
      · subst hk; rw [ctrOf_setCtr_same]; omega
      · rw [ctrOf_setCtr_other _ _ _ _ hk]; exact Nat.le_refl _
    · exact Nat.le_refl _

/-- **After `reserve(name)` the counter of the name's kind is past its index.** -/
theorem reserve_past (ng : NameGen) (n : Name) (r : Req) (i : Nat) (hk : r.2.toList ≠ [])
    (hn : n.toList = renderL r i) : i < (ng.reserve n).ctrOf r.2 := by
  unfold NameGen.reserve
  rw [hn, parse_render r i hk]
  simp only [String.ofList_toList]
  split
  · rw [ctrOf_setCtr_same]; omega
  · omega

theorem foldl_reserve_mono (ns : List Name) : ∀ (ng : NameGen) (k : String),
    ng.ctrOf k ≤ (ns.foldl (fun ng n => ng.reserve n) ng).ctrOf k := by
  induction ns with
  | nil => intro ng k; exact Nat.le_refl _
  | cons n ns ih => intro ng k; exact Nat.le_trans (reserve_mono ng n k) (ih _ k)

/-- one block of the scan -/
def reserveBlk (ng : NameGen) (b : Blk) : NameGen :=
  let ng := ng.reserve b.name
  if b.kind.isBranching then ng.reserve b.var
  else if b.kind == .synthAssign then b.asg.foldl (fun ng p => ng.reserve p.1) ng
  else ng

theorem reserveBlk_mono (ng : NameGen) (b : Blk) (k : String) : ng.ctrOf k ≤ (reserveBlk ng b).ctrOf k := by
  unfold reserveBlk
  simp only
  split
  · exact Nat.le_trans (reserve_mono ng b.name k) (reserve_mono _ b.var k)
  · split
    · refine Nat.le_trans (reserve_mono ng b.name k) ?_
      have : ∀ (ps : List (Name × Int)) (g : NameGen), g.ctrOf k ≤ (ps.foldl (fun ng p => ng.reserve p.1) g).ctrOf k := by
        intro ps
        induction ps with
        | nil => intro g; exact Nat.le_refl _
        | cons p ps ih => intro g; exact Nat.le_trans (reserve_mono g p.1 k) (ih _)
      exact this _ _
    · exact reserve_mono ng b.name k

theorem reserveLevel_eq (ng : NameGen) (lvl : List Blk) : reserveLevel ng lvl = lvl.foldl reserveBlk ng := rfl

theorem reserveLevel_mono (lvl : List Blk) : ∀ (ng : NameGen) (k : String),
    ng.ctrOf k ≤ (reserveLevel ng lvl).ctrOf k := by
  induction lvl with
  | nil => intro ng k; exact Nat.le_refl _
  | cons b bs ih =>
    intro ng k
    rw [reserveLevel_eq, List.foldl_cons, ← reserveLevel_eq]
    exact Nat.le_trans (reserveBlk_mono ng b k) (ih _ k)

/-- after the scan, the counter of every present name's kind is past its index -/
theorem reserveLevel_past (lvl : List Blk) : ∀ (ng : NameGen) (b : Blk), b ∈ lvl →
    ∀ (r : Req) (i : Nat), r.2.toList ≠ [] → b.name.toList = renderL r i →
      i < (reserveLevel ng lvl).ctrOf r.2 := by
  induction lvl with
  | nil => intro ng b hb; simp at hb
  | cons x xs ih =>
    intro ng b hb r i hk hn
    rw [reserveLevel_eq, List.foldl_cons, ← reserveLevel_eq]
    rcases List.mem_cons.mp hb with e | e
    · subst e
      have h1 : i < (ng.reserve b.name).ctrOf r.2 := reserve_past ng b.name r i hk hn
      have h2 : (ng.reserve b.name).ctrOf r.2 ≤ (reserveBlk ng b).ctrOf r.2 := by
        unfold reserveBlk
        simp only
        split
        · exact reserve_mono _ _ _
        · split
          · have : ∀ (ps : List (Name × Int)) (g : NameGen), g.ctrOf r.2 ≤ (ps.foldl (fun ng p => ng.reserve p.1) g).ctrOf r.2 := by
              intro ps
              induction ps with
              | nil => intro g; exact Nat.le_refl _
              | cons p ps ih => intro g; exact Nat.le_trans (reserve_mono g p.1 r.2) (ih _)
            exact this _ _
          · exact Nat.le_refl _
      exact Nat.lt_of_lt_of_le (Nat.lt_of_lt_of_le h1 h2) (reserveLevel_mono xs _ _)
    · exact ih _ b e r i hk hn

/-- every name handed out has the shape `renderL r i` for one of the requests -/
theorem runNames_shape (rs : List Req) : ∀ (ng : NameGen) (n : Name), n ∈ runNames ng rs →
    ∃ r ∈ rs, ∃ i, n.toList = renderL r i := by
  induction rs with
  | nil => intro ng n h; simp [runNames] at h
  | cons q qs ih =>
    intro ng n h
    simp only [runNames, List.mem_cons] at h
    rcases h with h | h
    · exact ⟨q, by simp, _, by rw [h, request_toList]⟩
    · obtain ⟨r, hr, i, hi⟩ := ih _ n h
      exact ⟨r, by simp [hr], i, hi⟩

/-- **A generated name never equals the name of a block already present** (model of the reservation
    scan followed by any request sequence over a good table of non-empty kinds). -/
theorem post_init_never_clobbers (T : List Req) (hT : prefixesOK T = true)
    (hkinds : ∀ r ∈ T, r.2.toList ≠ []) (ng : NameGen) (lvl : List Blk) (rs : List Req)
    (hrs : ∀ r ∈ rs, r ∈ T) :
    ∀ n ∈ runNames (reserveLevel ng lvl) rs, ∀ b ∈ lvl, n ≠ b.name := by
  intro n hn b hb heq
  obtain ⟨r, hr, i, hi⟩ := runNames_shape rs _ n hn
  have hrT := hrs r hr
  have hpast := reserveLevel_past lvl ng b hb r i (hkinds r hrT) (by rw [← heq]; exact hi)
  exact fresh_vs_existing T hT _ rs hrs r hrT i (by rw [← ctrOf_eq_ctr]; exact hpast) n hn hi

/-! ## Any interleaving of reservations and requests (graphs built level by level, as on reload) -/

/-- one step of a generator's life: a reservation or a name request -/
inductive Op
  | reserve (n : Name)
  | request (r : Req)

def applyOp (ng : NameGen) : Op → NameGen
  | .reserve n => ng.reserve n
  | .request r => (Scfg.Model.request ng r).2

theorem applyOp_mono (ng : NameGen) (op : Op) (k : String) : ng.ctrOf k ≤ (applyOp ng op).ctrOf k := by
  cases op with
  | reserve n => exact reserve_mono ng n k
  | request r =>
    simp only [applyOp, request_snd, ctrOf_eq_ctr, ctr_next]
    split
    · next h => rw [h]; omega
    · omega

theorem applyOps_mono (ops : List Op) : ∀ (ng : NameGen) (k : String),
    ng.ctrOf k ≤ (ops.foldl applyOp ng).ctrOf k := by
  induction ops with
  | nil => intro ng k; exact Nat.le_refl _
  | cons op ops ih => intro ng k; exact Nat.le_trans (applyOp_mono ng op k) (ih _ k)

/-- **Reload and every other history.** Whatever reservations and requests a generator has gone
    through (sub-graphs built one by one, meta regions named in between, …): once a name has been
    reserved, no name handed out afterwards equals it. -/
theorem reserved_never_generated (T : List Req) (hT : prefixesOK T = true)
    (hkinds : ∀ r ∈ T, r.2.toList ≠ []) (ng : NameGen) (before after : List Op) (name : Name)
    (rs : List Req) (hrs : ∀ r ∈ rs, r ∈ T) :
    ∀ n ∈ runNames ((before ++ Op.reserve name :: after).foldl applyOp ng) rs, n ≠ name := by
  intro n hn heq
  obtain ⟨r, hr, i, hi⟩ := runNames_shape rs _ n hn
  have hrT := hrs r hr
  have h1 : i < ((before.foldl applyOp ng).reserve name).ctrOf r.2 :=
    reserve_past _ name r i (hkinds r hrT) (by rw [← heq]; exact hi)
  have h2 : ((before.foldl applyOp ng).reserve name).ctrOf r.2 ≤
      ((before ++ Op.reserve name :: after).foldl applyOp ng).ctrOf r.2 := by
    rw [List.foldl_append, List.foldl_cons]
    exact applyOps_mono after _ _
  exact fresh_vs_existing T hT _ rs hrs r hrT i
    (by rw [← ctrOf_eq_ctr]; exact Nat.lt_of_lt_of_le h1 h2) n hn hi

/-! Non-vacuity: the library's kinds are non-empty, and reserving `synth_asign_block_3` moves the
counter of `synth_asign` to 4. -/
example : ∀ r ∈ libReqs, r.2.toList ≠ [] := by decide
example : (NameGen.reserve [] "synth_asign_block_3").ctrOf "synth_asign" = 4 := by decide
example : (NameGen.reserve [] "__scfg_control_var_7__").ctrOf "control" = 8 := by decide
example : NameGen.reserve [("a", 5)] "a_region_2" = [("a", 5)] := by decide

end Scfg.C18
