import Scfg.Props.C14Join
import Scfg.Props.C06Tables
/-!
# C14 — `insert_block_and_control_blocks`, one plain predecessor (model, a priori)

For a predecessor that is not a region the model of `insert_block_and_control_blocks` is a pure
fold (`insertCtl_single`): per rerouted arc — the predecessor's successors that lie in `S`, sorted —
one fresh assignment block `synth_asign_block_k → new` assigning the head's variable the next
value, the predecessor's arc replaced position-wise by that block, and the head's table extended by
`value ↦ original target`. `ctl_table` / `ctl_counter` then give, for every list of arcs and every
start value: the `k`-th assignment block's value is mapped by the table to the `k`-th arc's original
target — "each rerouted arc gets its own assignment block so that the new head continues to that
arc's original target".
-/
namespace Scfg.C14
open Scfg Scfg.Model Scfg.C06

abbrev CtlSt := Hier × NameGen × Int × List (Int × Name) × List Name

/-- the assignment block created for one rerouted arc -/
def asgBlk (c new var an : Name) (v : Int) : Blk :=
  { cont := c, name := an, kind := .synthAssign, jts := [new], asg := [(var, v)] }

/-- one rerouted arc of a plain predecessor -/
def ctlInner (c new var : Name) (a : CtlSt) (s : Name) : CtlSt :=
  let an := (a.2.1.newBlockName "synth_asign").1
  (putIn a.1 (asgBlk c new var an a.2.2.1), (a.2.1.newBlockName "synth_asign").2, a.2.2.1 + 1,
   tblSet a.2.2.2.1 a.2.2.1 s,
   match idxOf a.2.2.2.2 s with
   | some i => a.2.2.2.2.set i an
   | none => a.2.2.2.2)

/-- the monadic step of the model, for reference -/
def ctlInnerM (c new var : Name) (blk : Blk) (a : CtlSt) (s : Name) : M CtlSt := do
  let (H, ng, v, tbl, jt) := a
  let (an, ng') := ng.newBlockName "synth_asign"
  let H1 := putIn H { cont := c, name := an, kind := .synthAssign, jts := [new], asg := [(var, v)] }
  let jt' := match idxOf jt s with
    | some i => jt.set i an
    | none => jt
  let H2 ← renameInExiting H1 (H1.length + 1) blk s an
  pure (H2, ng', v + 1, tblSet tbl v s, jt')

theorem ctlInnerM_plain (c new var : Name) (blk : Blk) (hreg : blk.isRegion = false) (a : CtlSt)
    (s : Name) : ctlInnerM c new var blk a s = .ok (ctlInner c new var a s) := by
  obtain ⟨H, ng, v, tbl, jt⟩ := a
  simp only [ctlInnerM, renameInExiting_plain _ _ blk s _ hreg, bind, Except.bind, pure, Except.pure,
    ctlInner, asgBlk]

theorem ctlFoldM_plain (c new var : Name) (blk : Blk) (hreg : blk.isRegion = false) :
    ∀ (hits : List Name) (a : CtlSt),
      hits.foldlM (ctlInnerM c new var blk) a = .ok (hits.foldl (ctlInner c new var) a) := by
  intro hits
  induction hits with
  | nil => intro a; rfl
  | cons s ss ih =>
    intro a
    simp only [List.foldlM_cons, List.foldl_cons, ctlInnerM_plain c new var blk hreg, bind, Except.bind]
    exact ih _

theorem foldlM_pure {σ α : Type} (f : σ → α → M σ) (g : σ → α → σ) (h : ∀ a s, f a s = .ok (g a s)) :
    ∀ (xs : List α) (a : σ), xs.foldlM f a = .ok (xs.foldl g a) := by
  intro xs
  induction xs with
  | nil => intro a; rfl
  | cons x xs ih =>
    intro a
    simp only [List.foldlM_cons, List.foldl_cons, h, bind, Except.bind]
    exact ih _

/-- the value counter advances by one per arc -/
theorem ctl_counter (c new var : Name) : ∀ (hits : List Name) (a : CtlSt),
    (hits.foldl (ctlInner c new var) a).2.2.1 = a.2.2.1 + hits.length := by
  intro hits
  induction hits with
  | nil => intro a; simp
  | cons s ss ih =>
    intro a
    simp only [List.foldl_cons, ih, List.length_cons]
    simp only [ctlInner]
    omega

/-- **Value ↦ original target.** After the fold over the arcs `hits` starting at value `v0`, the
    table maps `v0 + k` to the `k`-th arc's original target, and keeps every entry below `v0`. -/
theorem ctl_table (c new var : Name) : ∀ (hits : List Name) (a : CtlSt),
    (∀ k (hk : k < hits.length),
      tget (hits.foldl (ctlInner c new var) a).2.2.2.1 (a.2.2.1 + k) = some hits[k]) ∧
    (∀ j, j < a.2.2.1 → tget (hits.foldl (ctlInner c new var) a).2.2.2.1 j = tget a.2.2.2.1 j) := by
  intro hits
  induction hits with
  | nil => intro a; exact ⟨fun k hk => by simp at hk, fun j _ => rfl⟩
  | cons s ss ih =>
    intro a
    obtain ⟨i1, i2⟩ := ih (ctlInner c new var a s)
    have hv : (ctlInner c new var a s).2.2.1 = a.2.2.1 + 1 := rfl
    have ht : (ctlInner c new var a s).2.2.2.1 = tblSet a.2.2.2.1 a.2.2.1 s := rfl
    constructor
    · intro k hk
      simp only [List.foldl_cons]
      cases k with
      | zero =>
        have := i2 a.2.2.1 (by rw [hv]; omega)
        have h0 : a.2.2.1 + ((0 : Nat) : Int) = a.2.2.1 := by omega
        simp only [List.getElem_cons_zero]
        rw [h0, this, ht, tget_set_same]
      | succ k =>
        have hk' : k < ss.length := by simpa using hk
        have := i1 k hk'
        rw [hv] at this
        simp only [List.getElem_cons_succ]
        rw [← this]
        congr 1
        omega
    · intro j hj
      simp only [List.foldl_cons]
      rw [i2 j (by rw [hv]; omega), ht, tget_set_other _ _ _ _ (by omega)]

/-- every arc leaves one assignment block behind that assigns the head's variable the arc's value
    (the block added last for a name wins, as in a Python dict) -/
theorem ctl_last_block (c new var : Name) (a : CtlSt) (s : Name) :
    (ctlInner c new var a s).1.getIn? c (a.2.1.newBlockName "synth_asign").1 =
      some (asgBlk c new var (a.2.1.newBlockName "synth_asign").1 a.2.2.1) := by
  simp [ctlInner, getIn?_putIn, asgBlk]

/-- **`insert_block_and_control_blocks` with one plain predecessor** is the pure fold. -/
theorem insertCtl_single (st : St) (c new p : Name) (succs : List Name) (blk : Blk)
    (hget : st.H.getIn? c p = some blk) (hreg : blk.isRegion = false) :
    insertCtl st c new [p] succs =
      (let var := (st.ng.newVarName "control").1
       let hits := sortNames (dedup (blk.jt.filter fun t => succs.contains t))
       let r := hits.foldl (ctlInner c new var) (st.H, (st.ng.newVarName "control").2, 0, [], blk.jts)
       do
         let (cur, H1) ← popIn "insert_block_and_control_blocks" r.1 c p
         let cur' ← replaceJts cur r.2.2.2.2
         pure { H := putIn (putIn H1 cur')
                  { cont := c, name := new, kind := .synthHead, jts := succs, var := var, tbl := r.2.2.2.1 },
                ng := r.2.1 }) := by
  unfold insertCtl
  simp only [List.foldlM_cons, List.foldlM_nil, getIn, hget, bind, Except.bind, pure, Except.pure]
  rw [foldlM_pure _ (ctlInner c new (st.ng.newVarName "control").1)
    (by intro a s; simp only [renameInExiting_plain _ _ blk s _ hreg]; rfl)]
  simp only
  cases popIn "insert_block_and_control_blocks" _ c p with
  | error e => rfl
  | ok r =>
    obtain ⟨cur, H1⟩ := r
    simp only
    cases replaceJts cur _ <;> rfl

/-! Non-vacuity: two arcs starting at value 0. -/
example : (["a", "b"].foldl (ctlInner "m" "h" "v") ([], [], 0, [], ["x", "a", "b"])).2.2.2.1 = [(0, "a"), (1, "b")] := by
  decide

end Scfg.C14
