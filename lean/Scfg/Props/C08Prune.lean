import Scfg.Model.Ast2Cfg
/-!
# C08 — "only unreachable blocks and no-op statements are pruned" (model, a priori)

* `pruneUnreachable_exact` — for every list of blocks with distinct names and at most two successors
  per block, the model of `prune_unreachable` keeps **exactly** the blocks reachable from the entry
  block `0`: no reachable block is dropped (the depth-first walk provably finishes within its fuel:
  measure |stack| + Σ |successors of unvisited blocks|) and every block kept is reachable.
* `pruneNoops_spec` — the model of `prune_noops` keeps every block, its name and successors, and
  removes exactly the statements `pass`, `break`, `continue` from it, order preserved.
-/
namespace Scfg.C08
open Scfg Scfg.Model Scfg.Py

/-- successors of the block called `n` (none if there is no such block) -/
def succOf (bs : List WBlock) (n : Nat) : List Nat :=
  ((bs.find? (·.name == n)).map (·.jts)).getD []

/-- reachable from the entry block `0` -/
inductive Reach (bs : List WBlock) : Nat → Prop
  | entry : Reach bs 0
  | step {n t} : Reach bs n → t ∈ succOf bs n → Reach bs t

/-- what is still to be paid for: the stack, plus the successors of every block not yet visited -/
def owed (bs : List WBlock) (seen : List Nat) : Nat :=
  ((bs.filter fun b => !seen.contains b.name).map (·.jts.length)).sum

theorem owed_cons (b : WBlock) (bs : List WBlock) (seen : List Nat) :
    owed (b :: bs) seen = (if seen.contains b.name then 0 else b.jts.length) + owed bs seen := by
  simp only [owed, List.filter_cons]
  cases seen.contains b.name <;> simp

theorem succOf_cons (b : WBlock) (bs : List WBlock) (n : Nat) :
    succOf (b :: bs) n = if b.name == n then b.jts else succOf bs n := by
  simp only [succOf, List.find?_cons]
  cases (b.name == n) <;> simp

theorem owed_irrelevant (bs : List WBlock) (seen : List Nat) (n : Nat) (h : ∀ x ∈ bs, x.name ≠ n) :
    owed bs (n :: seen) = owed bs seen := by
  induction bs with
  | nil => rfl
  | cons b bs ih =>
    rw [owed_cons, owed_cons, ih fun x hx => h x (List.mem_cons_of_mem _ hx)]
    have : b.name ≠ n := h b (by simp)
    simp [this]

theorem succOf_none (bs : List WBlock) (n : Nat) (h : ∀ x ∈ bs, x.name ≠ n) : succOf bs n = [] := by
  induction bs with
  | nil => rfl
  | cons b bs ih =>
    rw [succOf_cons]
    have : (b.name == n) = false := by simpa using h b (by simp)
    simp [this, ih fun x hx => h x (List.mem_cons_of_mem _ hx)]

theorem owed_mark (bs : List WBlock) (hnd : (bs.map (·.name)).Nodup) (seen : List Nat) (n : Nat)
    (hn : n ∉ seen) : owed bs (n :: seen) + (succOf bs n).length = owed bs seen := by
  induction bs with
  | nil => simp [owed, succOf]
  | cons b bs ih =>
    simp only [List.map_cons, List.nodup_cons, List.mem_map, not_exists, not_and] at hnd
    have ih' := ih hnd.2
    rw [owed_cons, owed_cons, succOf_cons]
    by_cases hb : b.name = n
    · have hnone : ∀ x ∈ bs, x.name ≠ n := fun x hx e => hnd.1 x hx (by rw [hb, e])
      have h1 : (b.name == n) = true := by simpa using hb
      have h2 : seen.contains b.name = false := by
        rw [hb]
        cases hc : seen.contains n with
        | false => rfl
        | true => exact absurd (by simpa [List.contains_iff_mem] using hc) hn
      have h3 : b.name ∉ seen := by rw [hb]; exact hn
      rw [owed_irrelevant bs seen n hnone]
      simp [hb, hn]
      omega
    · have h1 : (b.name == n) = false := by simpa using hb
      simp only [List.contains_cons, h1, Bool.false_or, Bool.false_eq_true, if_false]
      omega

/-- the depth-first loop: with enough fuel it ends with a set that contains the stack, is closed
    under successors, and only holds nodes reachable from what was given -/
theorem go_spec (bs : List WBlock) (hnd : (bs.map (·.name)).Nodup) (P : Nat → Prop)
    (hP : ∀ n t, P n → t ∈ succOf bs n → P t) :
    ∀ (f : Nat) (stack seen : List Nat),
      stack.length + owed bs seen ≤ f →
      (∀ x ∈ stack, P x) → (∀ x ∈ seen, P x) →
      (∀ x ∈ seen, ∀ t ∈ succOf bs x, t ∈ seen ∨ t ∈ stack) →
      let r := pruneUnreachable.go (succOf bs) f stack seen
      (∀ x ∈ stack, x ∈ r) ∧ (∀ x ∈ seen, x ∈ r) ∧ (∀ x ∈ r, P x) ∧
      (∀ x ∈ r, ∀ t ∈ succOf bs x, t ∈ r) := by
  intro f
  induction f with
  | zero =>
    intro stack seen hfuel hs hseen hcl
    have : stack = [] := by
      cases stack with
      | nil => rfl
      | cons a t => simp at hfuel
    subst this
    simp only [pruneUnreachable.go]
    refine ⟨by simp, fun x hx => hx, hseen, fun x hx t ht => ?_⟩
    rcases hcl x hx t ht with e | e
    · exact e
    · simp at e
  | succ f ih =>
    intro stack seen hfuel hs hseen hcl
    cases stack with
    | nil =>
      simp only [pruneUnreachable.go]
      refine ⟨by simp, fun x hx => hx, hseen, fun x hx t ht => ?_⟩
      rcases hcl x hx t ht with e | e
      · exact e
      · simp at e
    | cons n rest =>
      simp only [pruneUnreachable.go]
      split
      · next hsn =>
        have hsn' : n ∈ seen := by simpa [List.contains_iff_mem] using hsn
        obtain ⟨r1, r2, r3, r4⟩ := ih rest seen (by simp at hfuel; omega)
          (fun x hx => hs x (List.mem_cons_of_mem _ hx)) hseen (by
            intro x hx t ht
            rcases hcl x hx t ht with e | e
            · exact Or.inl e
            · rcases List.mem_cons.mp e with e2 | e2
              · exact Or.inl (e2 ▸ hsn')
              · exact Or.inr e2)
        refine ⟨fun x hx => ?_, r2, r3, r4⟩
        rcases List.mem_cons.mp hx with e | e
        · exact e ▸ r2 n hsn'
        · exact r1 x e
      · next hsn =>
        have hsn' : n ∉ seen := by simpa [List.contains_iff_mem] using hsn
        have hmark := owed_mark bs hnd seen n hsn'
        obtain ⟨r1, r2, r3, r4⟩ := ih (succOf bs n ++ rest) (n :: seen)
          (by simp only [List.length_append, List.length_cons] at hfuel ⊢; omega)
          (by
            intro x hx
            rcases List.mem_append.mp hx with e | e
            · exact hP n x (hs n (by simp)) e
            · exact hs x (List.mem_cons_of_mem _ e))
          (by
            intro x hx
            rcases List.mem_cons.mp hx with e | e
            · exact e ▸ hs n (by simp)
            · exact hseen x e)
          (by
            intro x hx t ht
            rcases List.mem_cons.mp hx with e | e
            · subst e; exact Or.inr (List.mem_append.mpr (Or.inl ht))
            · rcases hcl x e t ht with e1 | e1
              · exact Or.inl (List.mem_cons_of_mem _ e1)
              · rcases List.mem_cons.mp e1 with e2 | e2
                · exact Or.inl (by simp [e2])
                · exact Or.inr (List.mem_append.mpr (Or.inr e2)))
        refine ⟨fun x hx => ?_, fun x hx => r2 x (List.mem_cons_of_mem _ hx), r3, r4⟩
        rcases List.mem_cons.mp hx with e | e
        · exact e ▸ r2 n (by simp)
        · exact r1 x (List.mem_append.mpr (Or.inr e))

theorem owed_le (bs : List WBlock) (h2 : ∀ b ∈ bs, b.jts.length ≤ 2) (seen : List Nat) :
    owed bs seen ≤ 2 * bs.length := by
  induction bs with
  | nil => simp [owed]
  | cons b bs ih =>
    have := ih fun x hx => h2 x (List.mem_cons_of_mem _ hx)
    have hb := h2 b (by simp)
    simp only [owed, List.filter_cons, List.length_cons] at this ⊢
    split
    · simp only [List.map_cons, List.sum_cons]; omega
    · omega

/-- **`prune_unreachable` keeps exactly the reachable blocks.** -/
theorem pruneUnreachable_exact (bs : List WBlock) (hnd : (bs.map (·.name)).Nodup)
    (h2 : ∀ b ∈ bs, b.jts.length ≤ 2) :
    ∀ b, b ∈ pruneUnreachable bs ↔ b ∈ bs ∧ Reach bs b.name := by
  intro b
  have hfuel : [0].length + owed bs [] ≤ bs.length * 3 + 4 := by
    have := owed_le bs h2 []
    simp only [List.length_cons, List.length_nil]; omega
  obtain ⟨r1, _, r3, r4⟩ := go_spec bs hnd (Reach bs) (fun n t hn ht => Reach.step hn ht)
    (bs.length * 3 + 4) [0] [] hfuel
    (by intro x hx; simp only [List.mem_singleton] at hx; exact hx ▸ Reach.entry) (by simp) (by simp)
  have hall : ∀ n, Reach bs n → n ∈ pruneUnreachable.go (succOf bs) (bs.length * 3 + 4) [0] [] := by
    intro n hn
    induction hn with
    | entry => exact r1 0 (by simp)
    | step _ ht ih => exact r4 _ ih _ ht
  show b ∈ bs.filter (fun b => (pruneUnreachable.go (succOf bs) (bs.length * 3 + 4) [0] []).contains b.name) ↔ _
  simp only [List.mem_filter, List.contains_iff_mem]
  exact ⟨fun ⟨hb, hr⟩ => ⟨hb, r3 _ hr⟩, fun ⟨hb, hr⟩ => ⟨hb, hall _ hr⟩⟩

/-- **`prune_noops` removes exactly `pass`, `break`, `continue`** and nothing else. -/
theorem pruneNoops_spec (bs : List WBlock) :
    (pruneNoops bs).length = bs.length ∧
    ∀ i (hi : i < bs.length),
      ((pruneNoops bs)[i]'(by simp [pruneNoops]; exact hi)).name = bs[i].name ∧
      ((pruneNoops bs)[i]'(by simp [pruneNoops]; exact hi)).jts = bs[i].jts ∧
      ((pruneNoops bs)[i]'(by simp [pruneNoops]; exact hi)).instrs = bs[i].instrs.filter (fun x => !isNoop x) := by
  refine ⟨by simp [pruneNoops], fun i hi => ?_⟩
  simp [pruneNoops]

/-! Non-vacuity: block 2 is unreachable and pruned; 0 and 1 stay. -/
example : (pruneUnreachable [{ name := 0, jts := [1] }, { name := 1 }, { name := 2, jts := [1] }]).map (·.name) = [0, 1] := by
  decide

end Scfg.C08
