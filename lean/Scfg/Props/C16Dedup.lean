import Scfg.Props.C16Unique
import Scfg.Model.Edit
/-!
# C16 / C17 — `dict(scfg)` loses nothing

The renderer builds `blocks = dict(scfg)` from the iterator; the model writes this as `dedup` of
the yielded names. `dedup_of_nodup`: on a duplicate-free list `dedup` is the identity, hence
(`iterAll_dict_identity`) on every hierarchy passing `uniqueB` the dictionary the renderer works
on has exactly the yielded names in the yielded order — no later duplicate silently overwrites an
earlier entry.
-/
namespace Scfg.C16
open Scfg Scfg.Model Scfg.Spec

theorem dedup_of_nodup : ∀ (xs : List Name), xs.Nodup → dedup xs = xs
  | [], _ => rfl
  | x :: xs, h => by
    rw [List.nodup_cons] at h
    rw [dedup, dedup_of_nodup xs h.2]
    congr 1
    rw [List.filter_eq_self]
    intro a ha
    simp only [bne_iff_ne, ne_eq]
    intro e
    exact h.1 (e ▸ ha)

theorem iterAll_dict_identity (H : Hier) (f : Nat) (h : uniqueB H f = true) (g : Nat) (c : Name)
    (out : List Name) (ho : iterAll H g c = .ok out) : dedup out = out :=
  dedup_of_nodup out (iterAll_nodup_of_uniqueB H f h g c out ho).1

example : dedup ["0", "loop_region_0", "1", "2"] = ["0", "loop_region_0", "1", "2"] :=
  dedup_of_nodup _ (by decide)

end Scfg.C16
