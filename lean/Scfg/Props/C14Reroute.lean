import Scfg.Props.C14Paths
/-!
# C14 / C01 / C06 — rerouting arcs through inserted control blocks leaves every path unchanged

`insert_block_and_control_blocks` replaces an arc `p → t` by `p → a → new → t`, where `a` assigns a fresh
control variable and `new` branches on it; the loop restructuring replaces back edges and exits by
`p → a → latch [→ exit-branch] → t` in the same way. Here the valuations of the two walks differ (on
the fresh variables only), so the comparison is through a relation on states.

`Rerouted H H' isNew isFresh K`: every block of `H` is still in `H'`, up to renaming targets through
`unr` (an arc into an inserted block is mapped to where the chain of inserted blocks starting there
ends, as computed by `chainEnd` from the assigned values alone) and up to declared back edges; no block
of `H` reads or writes a fresh variable.

`rerouted_paths`: for every such pair, every fuel and every decision sequence, an error-free walk by
name over `H'` shows the trace of the walk over `H` from the same original block.
-/
namespace Scfg.Reroute
open Scfg Scfg.Spec Scfg.C01 Scfg.C04

/-! ## Valuations -/

theorem get?_set (v : Val) (x y : Name) (i : Int) :
    (v.set x i).get? y = if y = x then some i else v.get? y := by
  induction v with
  | nil =>
    by_cases h : y = x
    · subst h; simp [Val.set, Val.get?]
    · have : (x == y) = false := by simpa using fun e => h e.symm
      simp [Val.set, Val.get?, this, h]
  | cons p r ih =>
    obtain ⟨z, j⟩ := p
    simp only [Val.set]
    by_cases hxz : (x == z) = true
    · simp only [hxz, if_true]
      have hxz' : x = z := by simpa using hxz
      subst hxz'
      by_cases h : y = x
      · subst h; simp [Val.get?]
      · have : (x == y) = false := by simpa using fun e => h e.symm
        simp [Val.get?, this, h]
    · simp only [hxz, Bool.false_eq_true, if_false]
      have hxz' : x ≠ z := by simpa using hxz
      by_cases hlt : x < z
      · simp only [hlt, if_true]
        by_cases h : y = x
        · subst h; simp [Val.get?]
        · have : (x == y) = false := by simpa using fun e => h e.symm
          simp [Val.get?, this, h]
      · simp only [hlt, if_false]
        have ih' := ih
        simp only [Val.get?] at ih' ⊢
        simp only [List.find?_cons]
        by_cases hzy : (z == y) = true
        · have hzy' : z = y := by simpa using hzy
          have : y ≠ x := fun e => hxz' (by rw [← e, hzy'])
          simp [hzy, this]
        · simp only [hzy]
          exact ih'

theorem get?_erase (v : Val) (x y : Name) :
    (v.erase x).get? y = if y = x then none else v.get? y := by
  induction v with
  | nil => simp [Val.erase, Val.get?]
  | cons p r ih =>
    obtain ⟨z, j⟩ := p
    simp only [Val.erase, Val.get?] at ih ⊢
    simp only [List.filter_cons]
    by_cases hzx : z = x
    · subst hzx
      simp only [bne_self_eq_false, Bool.false_eq_true, if_false, List.find?_cons]
      rw [ih]
      by_cases h : y = z
      · simp [h]
      · have : (z == y) = false := by simpa using fun e => h e.symm
        simp [h, this]
    · have : (z != x) = true := by simpa using hzx
      simp only [this, if_true, List.find?_cons]
      by_cases hzy : (z == y) = true
      · have hzy' : z = y := by simpa using hzy
        have : y ≠ x := fun e => hzx (by rw [hzy', e])
        simp [hzy, this]
      · simp only [hzy]
        exact ih

/-- the valuations agree on every variable that is not fresh -/
def AgreeOff (F : Name → Bool) (v' v : Val) : Prop := ∀ x, F x = false → v'.get? x = v.get? x

theorem AgreeOff.refl (F : Name → Bool) (v : Val) : AgreeOff F v v := fun _ _ => rfl

theorem AgreeOff.trans {F : Name → Bool} {a b c : Val} (h1 : AgreeOff F a b) (h2 : AgreeOff F b c) :
    AgreeOff F a c := fun x hx => (h1 x hx).trans (h2 x hx)

theorem agree_set_both {F : Name → Bool} {v' v : Val} (h : AgreeOff F v' v) (x : Name) (i : Int) :
    AgreeOff F (v'.set x i) (v.set x i) := by
  intro y hy
  rw [get?_set, get?_set, h y hy]

theorem agree_setAll_both {F : Name → Bool} (a : List (Name × Int)) : ∀ {v' v : Val}, AgreeOff F v' v →
    AgreeOff F (v'.setAll a) (v.setAll a) := by
  induction a with
  | nil => intro v' v h; exact h
  | cons p ps ih =>
    intro v' v h
    simp only [Val.setAll, List.foldl_cons]
    exact ih (agree_set_both h p.1 p.2)

theorem agree_set_fresh {F : Name → Bool} (v : Val) (x : Name) (i : Int) (hx : F x = true) :
    AgreeOff F (v.set x i) v := by
  intro y hy
  rw [get?_set]
  have : y ≠ x := fun e => by rw [e, hx] at hy; cases hy
  simp [this]

theorem agree_setAll_fresh {F : Name → Bool} (a : List (Name × Int)) : ∀ (v : Val),
    (∀ p ∈ a, F p.1 = true) → AgreeOff F (v.setAll a) v := by
  induction a with
  | nil => intro v _; exact AgreeOff.refl F v
  | cons p ps ih =>
    intro v h
    simp only [Val.setAll, List.foldl_cons]
    exact (ih (v.set p.1 p.2) (fun q hq => h q (List.mem_cons_of_mem _ hq))).trans
      (agree_set_fresh v p.1 p.2 (h p (by simp)))

theorem agree_erase_both {F : Name → Bool} {v' v : Val} (h : AgreeOff F v' v) (x : Name) :
    AgreeOff F (v'.erase x) (v.erase x) := by
  intro y hy
  rw [get?_erase, get?_erase, h y hy]

theorem agree_erase_fresh {F : Name → Bool} (v : Val) (x : Name) (hx : F x = true) :
    AgreeOff F (v.erase x) v := by
  intro y hy
  rw [get?_erase]
  have : y ≠ x := fun e => by rw [e, hx] at hy; cases hy
  simp [this]

/-! ## Executing a block under two valuations that agree off the fresh variables -/

/-- the block neither reads nor writes a fresh variable -/
structure Untouched (F : Name → Bool) (b : Blk) : Prop where
  reads : b.kind.isBranching = true → F b.var = false
  writes : ∀ p ∈ b.asg, F p.1 = false

theorem agree_setAll_untouched {F : Name → Bool} (a : List (Name × Int)) : ∀ {v' v : Val},
    AgreeOff F v' v → AgreeOff F (v'.setAll a) (v.setAll a) := agree_setAll_both a

theorem synthExec_agree {F : Name → Bool} {b : Blk} (hb : Untouched F b) (consume : Bool) {v' v : Val}
    (hag : AgreeOff F v' v) (w' : Val) (oi : Option Nat) (hok : synthExec consume b v' = .ok (w', oi)) :
    ∃ w, synthExec consume b v = .ok (w, oi) ∧ AgreeOff F w' w := by
  simp only [synthExec] at hok ⊢
  by_cases hbr : b.kind.isBranching = true
  · simp only [hbr, if_true] at hok ⊢
    rw [← hag b.var (hb.reads hbr)]
    cases hv : v'.get? b.var with
    | none => simp [hv] at hok
    | some x =>
      simp only [hv] at hok ⊢
      cases hf : (b.tbl.find? (fun p => p.1 == x)).map (·.2) with
      | none => simp [hf] at hok
      | some t =>
        simp only [hf] at hok ⊢
        cases hi : idxOf b.jts t with
        | none => simp [hi] at hok
        | some i =>
          simp only [hi, Except.ok.injEq, Prod.mk.injEq] at hok ⊢
          obtain ⟨h1, h2⟩ := hok
          refine ⟨_, ⟨rfl, h2⟩, ?_⟩
          rw [← h1]
          by_cases hc : (consume && b.kind == BKind.synthLatch) = true
          · simp only [hc, if_true]; exact agree_erase_both hag _
          · simp only [hc]; exact hag
  · have hbr' : b.kind.isBranching = false := by simpa using hbr
    simp only [hbr', Bool.false_eq_true, if_false] at hok ⊢
    have hw : AgreeOff F (if b.kind == BKind.synthAssign then v'.setAll b.asg else v')
        (if b.kind == BKind.synthAssign then v.setAll b.asg else v) := by
      by_cases hk : (b.kind == BKind.synthAssign) = true
      · simp only [hk, if_true]; exact agree_setAll_both _ hag
      · simp only [hk]; exact hag
    cases hj : b.jts with
    | nil =>
      simp only [hj, Except.ok.injEq, Prod.mk.injEq] at hok ⊢
      obtain ⟨h1, h2⟩ := hok
      exact ⟨_, ⟨rfl, h2⟩, h1 ▸ hw⟩
    | cons t ts =>
      cases ts with
      | nil =>
        simp only [hj, Except.ok.injEq, Prod.mk.injEq] at hok ⊢
        obtain ⟨h1, h2⟩ := hok
        exact ⟨_, ⟨rfl, h2⟩, h1 ▸ hw⟩
      | cons t2 ts2 => simp [hj] at hok

/-! ## Crossing a chain of inserted blocks -/

/-- the values known to have been assigned are the ones in the valuation -/
def Knows (σ v : Val) : Prop := ∀ x k, σ.get? x = some k → v.get? x = some k

theorem knows_nil (v : Val) : Knows [] v := by intro x k h; simp [Val.get?] at h

theorem knows_set {σ v : Val} (h : Knows σ v) (x : Name) (i : Int) : Knows (σ.set x i) (v.set x i) := by
  intro y k hy
  rw [get?_set] at hy ⊢
  by_cases e : y = x
  · simpa [e] using hy
  · simp only [e, if_false] at hy ⊢; exact h y k hy

theorem knows_setAll (a : List (Name × Int)) : ∀ {σ v : Val}, Knows σ v → Knows (σ.setAll a) (v.setAll a) := by
  induction a with
  | nil => intro σ v h; exact h
  | cons p ps ih =>
    intro σ v h
    simp only [Val.setAll, List.foldl_cons]
    exact ih (knows_set h p.1 p.2)

theorem knows_erase_left {σ v : Val} (h : Knows σ v) (x : Name) : Knows (σ.erase x) v := by
  intro y k hy
  rw [get?_erase] at hy
  by_cases e : y = x
  · simp [e] at hy
  · simp only [e, if_false] at hy; exact h y k hy

theorem knows_erase_both {σ v : Val} (h : Knows σ v) (x : Name) : Knows (σ.erase x) (v.erase x) := by
  intro y k hy
  rw [get?_erase] at hy ⊢
  by_cases e : y = x
  · simp [e] at hy
  · simp only [e, if_false] at hy ⊢; exact h y k hy

/-- **Crossing.** If the chain from `n` is determined by the assigned values and ends at `t`, every
    error-free advance over `H'` from `n` is an advance from `t`, with less fuel if `n` is inserted,
    under a valuation that differs on fresh variables only. -/
theorem chain_adv (H' : Hier) (isNew isFresh : Name → Bool) (consume : Bool) (R : Nat) :
    ∀ K n σ t, chainEnd H' isNew isFresh K n σ = some t →
      ∀ f val' r', Knows σ val' → advF H' consume R f n val' = r' → r'.isErr = false →
      isNew t = false ∧ ∃ f0 val'', f0 + (if isNew n then 1 else 0) ≤ f ∧
        advF H' consume R f0 t val'' = r' ∧ AgreeOff isFresh val'' val' := by
  intro K
  induction K with
  | zero => intro n σ t h; simp [chainEnd] at h
  | succ K ih =>
    intro n σ t h f val' r' hk hadv hne
    rw [chainEnd] at h
    by_cases hn : isNew n = true
    · simp only [hn, Bool.not_true, Bool.false_eq_true, if_false] at h
      cases f with
      | zero => simp only [advF] at hadv; subst hadv; simp [WState.isErr] at hne
      | succ f =>
        cases hg : H'.get? n with
        | none => simp [hg] at h
        | some b =>
          simp only [hg] at h
          by_cases hro : (b.isRegion || b.isOrig) = true
          · simp [hro] at h
          · simp only [hro, Bool.false_eq_true, if_false] at h
            have hreg : b.isRegion = false := by
              cases hx : b.isRegion <;> simp_all
            have hor : b.isOrig = false := by
              cases hx : b.isOrig <;> simp_all
            cases R with
            | zero =>
              simp only [advF, resolve] at hadv; subst hadv; simp [WState.isErr] at hne
            | succ R =>
              have hres : resolve H' (R + 1) n = some b := by simp [resolve, hg, hreg]
              rw [advF, hres] at hadv
              simp only [hor, Bool.false_eq_true, if_false] at hadv
              by_cases hbr : b.kind.isBranching = true
              · simp only [hbr, if_true] at h
                by_cases hfr : isFresh b.var = true
                · simp only [hfr, Bool.not_true, Bool.false_eq_true, if_false] at h
                  cases hs : σ.get? b.var with
                  | none => simp [hs] at h
                  | some x =>
                    simp only [hs] at h
                    cases hf : (b.tbl.find? (fun p => p.1 == x)).map (·.2) with
                    | none => simp [hf] at h
                    | some t1 =>
                      simp only [hf] at h
                      cases hi : idxOf b.jts t1 with
                      | none => simp [hi] at h
                      | some i =>
                        simp only [hi] at h
                        cases ht : b.jts[i]? with
                        | none => simp [ht] at h
                        | some t' =>
                          simp only [ht] at h
                          have hv : val'.get? b.var = some x := hk _ _ hs
                          simp only [synthExec, hbr, if_true, hv, hf, hi, ht] at hadv
                          by_cases hc : (consume && b.kind == BKind.synthLatch) = true
                          · simp only [hc, if_true] at hadv
                            obtain ⟨h1, f0, val'', hle, ha, hag⟩ :=
                              ih t' _ t h f _ r' (knows_erase_both hk b.var) hadv hne
                            refine ⟨h1, f0, val'', ?_, ha, hag.trans (agree_erase_fresh _ _ hfr)⟩
                            simp only [hn, if_true]
                            split at hle <;> omega
                          · simp only [hc] at hadv
                            obtain ⟨h1, f0, val'', hle, ha, hag⟩ :=
                              ih t' _ t h f _ r' (knows_erase_left hk b.var) hadv hne
                            refine ⟨h1, f0, val'', ?_, ha, hag⟩
                            simp only [hn, if_true]
                            split at hle <;> omega
                · simp [hfr] at h
              · have hbr' : b.kind.isBranching = false := by simpa using hbr
                simp only [hbr', Bool.false_eq_true, if_false] at h
                by_cases hany : (b.asg.any fun p => !isFresh p.1) = true
                · simp [hany] at h
                · simp only [hany, Bool.false_eq_true, if_false] at h
                  have hall : ∀ p ∈ b.asg, isFresh p.1 = true := by
                    intro p hp
                    cases hfp : isFresh p.1 with
                    | true => rfl
                    | false =>
                      exfalso; apply hany
                      exact List.any_eq_true.mpr ⟨p, hp, by simp [hfp]⟩
                  cases hj : b.jts with
                  | nil => simp [hj] at h
                  | cons t1 ts =>
                    cases ts with
                    | cons _ _ => simp [hj] at h
                    | nil =>
                      simp only [hj] at h
                      simp only [synthExec, hbr', Bool.false_eq_true, if_false, hj,
                        List.getElem?_cons_zero] at hadv
                      by_cases hk2 : (b.kind == BKind.synthAssign) = true
                      · simp only [hk2, if_true] at h hadv
                        obtain ⟨h1, f0, val'', hle, ha, hag⟩ :=
                          ih t1 _ t h f _ r' (knows_setAll b.asg hk) hadv hne
                        refine ⟨h1, f0, val'', ?_, ha, hag.trans (agree_setAll_fresh _ _ hall)⟩
                        simp only [hn, if_true]
                        split at hle <;> omega
                      · simp only [hk2] at h hadv
                        obtain ⟨h1, f0, val'', hle, ha, hag⟩ := ih t1 _ t h f _ r' hk hadv hne
                        refine ⟨h1, f0, val'', ?_, ha, hag⟩
                        simp only [hn, if_true]
                        split at hle <;> omega
    · have hn' : isNew n = false := by simpa using hn
      simp only [hn', Bool.not_false, if_true, Option.some.injEq] at h
      subst h
      exact ⟨hn', f, val', by simp [hn'], hadv, AgreeOff.refl _ _⟩

/-! ## The relation between the two hierarchies -/

/-- `b'` is `b` with targets renamed (`u` undoes the renaming) in the successor tuple and the value
    table; declared back edges may differ (the walk by name does not read them) -/
structure SameUpToU (u : Name → Name) (b b' : Blk) : Prop where
  fields : b' = { b with jts := b'.jts, tbl := b'.tbl, bes := b'.bes }
  targets : b'.jts.map u = b.jts
  tbl : ∀ x : Int, (b.tbl.find? (fun p => p.1 == x)).map (·.2) =
    ((b'.tbl.find? (fun p => p.1 == x)).map (·.2)).map u
  inj : b.kind.isBranching = true → ∀ x ∈ b'.jts, ∀ y ∈ b'.jts, u x = u y → x = y

theorem sameUpToU_basic {u : Name → Name} {b b' : Blk} (h : SameUpToU u b b') :
    b'.name = b.name ∧ b'.kind = b.kind ∧ b'.isRegion = b.isRegion ∧ b'.isOrig = b.isOrig ∧
    b'.header = b.header ∧ b'.var = b.var ∧ b'.asg = b.asg ∧ b'.jts.length = b.jts.length := by
  have hf := h.fields
  have hl : b'.jts.length = b.jts.length := by
    have := congrArg List.length h.targets
    simpa using this
  refine ⟨by rw [hf], by rw [hf], by rw [hf]; rfl, by rw [hf]; rfl, by rw [hf], by rw [hf],
    by rw [hf], hl⟩

structure PairRel (H' : Hier) (isNew isFresh : Name → Bool) (K : Nat) (b b' : Blk) : Prop where
  same : SameUpToU (unr H' isNew isFresh K) b b'
  untouched : Untouched isFresh b
  /-- every arc into an inserted block starts a chain that is determined by its own assignments -/
  entries : ∀ x ∈ b'.jts, isNew x = true → (chainEnd H' isNew isFresh K x []).isSome = true

structure Rerouted (H H' : Hier) (isNew isFresh : Name → Bool) (K : Nat) : Prop where
  rel : ∀ n, isNew n = false → (H.get? n = none ∧ H'.get? n = none) ∨
    ∃ b b', H.get? n = some b ∧ H'.get? n = some b' ∧ PairRel H' isNew isFresh K b b'
  hdr : ∀ n b, H.get? n = some b → b.isRegion = true → isNew b.header = false

theorem unr_old {H' : Hier} {isNew isFresh : Name → Bool} {K : Nat} {x : Name} (h : isNew x = false) :
    unr H' isNew isFresh K x = x := by simp [unr, h]

/-- resolving an old name gives related blocks, found under an old name -/
theorem resolve_rel (H H' : Hier) (isNew isFresh : Name → Bool) (K : Nat)
    (hS : Rerouted H H' isNew isFresh K) : ∀ R n, isNew n = false →
    (resolve H R n = none ∧ resolve H' R n = none) ∨
    ∃ b b', resolve H R n = some b ∧ resolve H' R n = some b' ∧ PairRel H' isNew isFresh K b b' ∧
      isNew b'.name = false := by
  intro R
  induction R with
  | zero => intro n _; exact Or.inl ⟨rfl, rfl⟩
  | succ R ih =>
    intro n hn
    rcases hS.rel n hn with ⟨h1, h2⟩ | ⟨b, b', h1, h2, hp⟩
    · exact Or.inl ⟨by simp [resolve, h1], by simp [resolve, h2]⟩
    · obtain ⟨_, _, hreg, _, hhdr, _⟩ := sameUpToU_basic hp.same
      simp only [resolve, h1, h2, hreg, hhdr]
      by_cases hr : b.isRegion = true
      · simp only [hr, if_true]
        exact ih b.header (hS.hdr n b h1 hr)
      · simp only [hr, Bool.false_eq_true, if_false]
        refine Or.inr ⟨b, b', rfl, rfl, hp, ?_⟩
        rw [(get?_mem H' n b' h2).2]; exact hn

/-- states of the two walks that are compared: the same place, valuations equal off the fresh variables -/
def StRel (F : Name → Bool) : WState → WState → Prop
  | .at n v, .at n' v' => n = n' ∧ AgreeOff F v' v
  | .halt, .halt => True
  | _, _ => False

/-- the state of the walk over `H'` does not stand on an inserted block -/
def OldSt (isNew : Name → Bool) : WState → Prop
  | .at n _ => isNew n = false
  | _ => True

/-- **Running through synthetic blocks.** -/
theorem adv_rel (H H' : Hier) (isNew isFresh : Name → Bool) (K : Nat)
    (hS : Rerouted H H' isNew isFresh K) (consume : Bool) (R : Nat) :
    ∀ f n val' val r', (isNew n = true → (chainEnd H' isNew isFresh K n []).isSome = true) →
      advF H' consume R f n val' = r' → r'.isErr = false → AgreeOff isFresh val' val →
      StRel isFresh (advF H consume R f (unr H' isNew isFresh K n) val) r' ∧ OldSt isNew r' := by
  intro f
  induction f using Nat.strongRecOn with
  | _ f ih =>
    intro n val' val r' hent hadv hne hag
    by_cases hn : isNew n = true
    · -- an inserted block: cross the chain
      have hsome := hent hn
      cases hc : chainEnd H' isNew isFresh K n [] with
      | none => simp [hc] at hsome
      | some t =>
        obtain ⟨ht, f0, val'', hle, ha, hag2⟩ :=
          chain_adv H' isNew isFresh consume R K n [] t hc f val' r' (knows_nil _) hadv hne
        simp only [hn, if_true] at hle
        have hu : unr H' isNew isFresh K n = t := by simp [unr, hn, hc]
        rw [hu]
        obtain ⟨this, hold⟩ :=
          ih f0 (by omega) t val'' val r' (fun e => by rw [ht] at e; cases e) ha hne (hag2.trans hag)
        rw [unr_old ht] at this
        refine ⟨?_, hold⟩
        -- more fuel does not change a non-error result
        have hmono : ∀ g, f0 ≤ g → StRel isFresh (advF H consume R g t val) r' := by
          intro g hg
          induction g with
          | zero =>
            have : f0 = 0 := by omega
            subst this; exact this
          | succ g ihg =>
            by_cases hfg : f0 = g + 1
            · subst hfg; exact this
            · have h1 := ihg (by omega)
              have hne1 : (advF H consume R g t val).isErr = false := by
                cases hx : advF H consume R g t val with
                | halt => rfl
                | «at» _ _ => rfl
                | err c m => rw [hx] at h1; cases r' <;> simp [StRel] at h1
              rw [advF_mono H consume R g t val _ rfl hne1]
              exact h1
        exact hmono f (by omega)
    · have hn' : isNew n = false := by simpa using hn
      rw [unr_old hn']
      cases f with
      | zero => simp only [advF] at hadv; subst hadv; simp [WState.isErr] at hne
      | succ f =>
        rw [advF] at hadv ⊢
        rcases resolve_rel H H' isNew isFresh K hS R n hn' with ⟨h1, h2⟩ | ⟨b, b', h1, h2, hp, hbn⟩
        · rw [h2] at hadv; subst hadv; simp [WState.isErr] at hne
        · rw [h2] at hadv
          rw [h1]
          obtain ⟨hname, hkind, _, horig, _, hvar, hasg, _⟩ := sameUpToU_basic hp.same
          simp only [horig, hname] at hadv ⊢
          by_cases ho : b.isOrig = true
          · simp only [ho, if_true] at hadv ⊢
            subst hadv
            exact ⟨⟨rfl, hag⟩, by rw [← hname]; exact hbn⟩
          · simp only [ho] at hadv ⊢
            cases he : synthExec consume b' val' with
            | error e => rw [he] at hadv; subst hadv; simp [WState.isErr] at hne
            | ok res =>
              obtain ⟨w', oi⟩ := res
              have he1 : synthExec consume b val' = .ok (w', oi) :=
                synthExec_ren (unr H' isNew isFresh K) hname hkind hvar hasg hp.same.targets hp.same.tbl
                  hp.same.inj consume val' _ he
              obtain ⟨w, he2, hagw⟩ := synthExec_agree hp.untouched consume hag w' oi he1
              rw [he] at hadv
              rw [he2]
              cases oi with
              | none => simp only at hadv ⊢; subst hadv; exact ⟨trivial, trivial⟩
              | some i =>
                simp only at hadv ⊢
                cases ht : b'.jts[i]? with
                | none => rw [ht] at hadv; subst hadv; simp [WState.isErr] at hne
                | some t' =>
                  rw [ht] at hadv
                  have htb : b.jts[i]? = some (unr H' isNew isFresh K t') := by
                    rw [← hp.same.targets, List.getElem?_map, ht]; rfl
                  rw [htb]
                  exact ih f (by omega) t' w' w r'
                    (hp.entries t' (List.mem_of_getElem? ht)) hadv hne hagw

/-! ## Traces -/

/-- **Frame lemma with a relation on states.** -/
theorem runs_eq_of_rel (A B : Sys WState) (P : WState → WState → Prop)
    (key : ∀ sa sb, P sa sb → CleanRun B sb → A.obs sa = B.obs sb ∧
      ∀ d, d < (B.obs sb).arity → P (A.step sa d) (B.step sb d)) :
    ∀ (ds : List Nat) (sa sb : WState), P sa sb → CleanRun B sb → run A sa ds = run B sb ds := by
  intro ds
  induction ds with
  | nil => intro sa sb hp hc; simp [run, (key sa sb hp hc).1]
  | cons d ds ih =>
    intro sa sb hp hc
    obtain ⟨ho, hs⟩ := key sa sb hp hc
    simp only [run, ho]
    by_cases hd : d < (B.obs sb).arity
    · simp only [hd, if_true]
      rw [ih _ _ (hs d hd) (clean_step _ _ hc d hd)]
    · simp [hd]

theorem stRel_halt_iff {F : Name → Bool} {r r' : WState} (h : StRel F r r') : (r == .halt) = (r' == .halt) := by
  cases r <;> cases r' <;> first | rfl | (simp [StRel] at h)

/-- **Rerouting arcs through inserted control blocks leaves every path unchanged.** From the same
    original block, with valuations that agree off the fresh variables: if the walk over `H'` meets no
    error, the walk over `H` shows the same trace, for every decision sequence and every fuel. -/
theorem rerouted_paths (H H' : Hier) (isNew isFresh : Name → Bool) (K : Nat)
    (hS : Rerouted H H' isNew isFresh K) (consume : Bool) (R F : Nat) :
    ∀ (ds : List Nat) (st st' : WState), StRel isFresh st st' → OldSt isNew st' →
      CleanRun (sysF H' consume R F) st' →
      run (sysF H consume R F) st ds = run (sysF H' consume R F) st' ds := by
  intro ds st st' h1 h2 hc
  refine runs_eq_of_rel (sysF H consume R F) (sysF H' consume R F)
    (fun a b => StRel isFresh a b ∧ OldSt isNew b) ?_ ds st st' ⟨h1, h2⟩ hc
  intro sa sb hp hc
  obtain ⟨hrel, hold⟩ := hp
  cases sb with
  | halt =>
    cases sa with
    | halt => exact ⟨rfl, fun d hd => by simp [sysF, obsOf, Obs.arity] at hd⟩
    | err _ _ => simp [StRel] at hrel
    | «at» _ _ => simp [StRel] at hrel
  | err c m =>
    have := clean_obs _ _ hc
    simp [sysF, obsOf, Obs.isErr] at this
  | «at» n val' =>
    cases sa with
    | halt => simp [StRel] at hrel
    | err _ _ => simp [StRel] at hrel
    | «at» n0 val =>
      obtain ⟨hn0, hag⟩ := hrel
      subst hn0
      have hn : isNew n0 = false := hold
      rcases hS.rel n0 hn with ⟨h1, h2⟩ | ⟨b, b', h1, h2, hp⟩
      · refine ⟨by simp [sysF, obsOf, h1, h2], fun d hd => ?_⟩
        simp [sysF, obsOf, h2, Obs.arity] at hd
      · obtain ⟨hname, _, _, _, _, _, _, hlen⟩ := sameUpToU_basic hp.same
        have hstep : ∀ d, (stepF H' consume R F b' val' d).isErr = false →
            StRel isFresh (stepF H consume R F b val d) (stepF H' consume R F b' val' d) ∧
            OldSt isNew (stepF H' consume R F b' val' d) := by
          intro d hne
          simp only [stepF] at hne ⊢
          cases ht : b'.jts[d]? with
          | none => simp [ht, WState.isErr] at hne
          | some t' =>
            rw [ht] at hne
            have htb : b.jts[d]? = some (unr H' isNew isFresh K t') := by
              rw [← hp.same.targets, List.getElem?_map, ht]; rfl
            rw [htb]
            exact adv_rel H H' isNew isFresh K hS consume R F t' val' val _
              (hp.entries t' (List.mem_of_getElem? ht)) rfl hne hag
        have hstepClean : ∀ d, d < ((sysF H' consume R F).obs (.at n0 val')).arity →
            (stepF H' consume R F b' val' d).isErr = false := by
          intro d hd
          have := clean_obs _ _ (clean_step _ _ hc d hd)
          have h2' := obs_err_state H' _ _ this
          simpa [sysF, h2] using h2'
        constructor
        · simp only [sysF, obsOf, h1, h2]
          congr 1
          simp only [arityIn]
          cases hb : b.jts with
          | nil =>
            have : b'.jts = [] := by
              have := hlen; rw [hb] at this; exact List.eq_nil_of_length_eq_zero (by simpa using this)
            rw [this]
          | cons t ts =>
            cases ts with
            | nil =>
              have : ∃ t', b'.jts = [t'] := by
                have := hlen; rw [hb] at this
                match hb' : b'.jts, this with
                | [t'], _ => exact ⟨t', rfl⟩
                | [], h => simp at h
                | _ :: _ :: _, h => simp at h
              obtain ⟨t', ht'⟩ := this
              rw [ht']
              simp only
              have har : ((sysF H' consume R F).obs (.at n0 val')).arity =
                  if stepF H' consume R F b' val' 0 == .halt then 0 else 1 := by
                simp [sysF, obsOf, h2, arityIn, ht', Obs.arity]
              by_cases hh : stepF H' consume R F b' val' 0 = .halt
              · have := (hstep 0 (by rw [hh]; rfl)).1
                rw [stRel_halt_iff this]
              · have h1' : 0 < ((sysF H' consume R F).obs (.at n0 val')).arity := by rw [har]; simp [hh]
                rw [stRel_halt_iff (hstep 0 (hstepClean 0 h1')).1]
            | cons t2 ts2 =>
              have : b'.jts.length = (t :: t2 :: ts2).length := by rw [hlen, hb]
              match hb' : b'.jts, this with
              | a :: a2 :: r, hl => simpa using hl.symm
              | [], hl => simp at hl
              | [_], hl => simp at hl
        · intro d hd
          have hne := hstepClean d hd
          simp only [sysF, h1, h2]
          exact hstep d hne

/-! ## The decidable relation the harness evaluates on real steps -/

theorem sameUpToUB_sound (u : Name → Name) (b b' : Blk) (h : sameUpToUB u b b' = true) : SameUpToU u b b' := by
  simp only [sameUpToUB, Bool.and_eq_true, beq_iff_eq, Bool.or_eq_true, Bool.not_eq_true'] at h
  obtain ⟨⟨⟨h1, h2⟩, h3⟩, h4⟩ := h
  refine ⟨h1, h2, Scfg.C01.tblRelB_sound _ _ _ h3, fun hbr x hx y hy hxy => ?_⟩
  rcases h4 with e | e
  · rw [hbr] at e; cases e
  · simp only [injOn, List.all_eq_true, Bool.or_eq_true, bne_iff_ne, ne_eq, beq_iff_eq] at e
    rcases e x hx y hy with e' | e'
    · exact absurd hxy e'
    · exact e'

theorem untouchedB_sound (F : Name → Bool) (b : Blk) (h : untouchedB F b = true) : Untouched F b := by
  simp only [untouchedB, Bool.and_eq_true, Bool.or_eq_true, Bool.not_eq_true', List.all_eq_true] at h
  refine ⟨fun hbr => ?_, fun p hp => h.2 p hp⟩
  rcases h.1 with e | e
  · rw [hbr] at e; cases e
  · exact e

/-- **Soundness of the step check.** -/
theorem reroutedB_sound (H H' : Hier) (fresh : List Name) (h : reroutedB H H' fresh = true) :
    Rerouted H H' (fun n => (H.get? n).isNone) (fun x => fresh.contains x) (H'.length + 1) := by
  simp only [reroutedB, Bool.and_eq_true] at h
  obtain ⟨h1, h2⟩ := h
  refine ⟨fun n hn => ?_, fun n b hg hreg => ?_⟩
  · right
    cases hg : H.get? n with
    | none => simp [hg] at hn
    | some b =>
      have hmem : n ∈ H.names ++ H'.names := by
        have := (get?_mem H n b hg)
        exact List.mem_append_left _ (List.mem_map.mpr ⟨b, this.1, this.2⟩)
      have := List.all_eq_true.mp h1 n hmem
      simp only [hg, Option.isNone_some, Bool.false_or] at this
      cases hg' : H'.get? n with
      | none => simp [hg'] at this
      | some b' =>
        simp only [hg', Bool.and_eq_true, List.all_eq_true, Bool.or_eq_true, Bool.not_eq_true'] at this
        obtain ⟨⟨a1, a2⟩, a3⟩ := this
        refine ⟨b, b', rfl, rfl, sameUpToUB_sound _ _ _ a1, untouchedB_sound _ _ a2, fun x hx hnx => ?_⟩
        rcases a3 x hx with e | e
        · rw [hnx] at e; cases e
        · exact e
  · have := List.all_eq_true.mp h2 b (get?_mem H n b hg).1
    simp only [Bool.or_eq_true, Bool.not_eq_true'] at this
    rcases this with e | e
    · exact e
    · rw [hreg] at e; cases e

/-- what one accepted step gives: the trace of the walk is unchanged -/
theorem reroutedB_paths (H H' : Hier) (fresh : List Name) (h : reroutedB H H' fresh = true)
    (consume : Bool) (R F : Nat) (n : Name) (val : Val) (hn : (H.get? n).isSome = true)
    (hc : CleanRun (sysF H' consume R F) (.at n val)) (ds : List Nat) :
    run (sysF H consume R F) (.at n val) ds = run (sysF H' consume R F) (.at n val) ds :=
  rerouted_paths H H' _ _ _ (reroutedB_sound H H' fresh h) consume R F ds _ _
    ⟨rfl, AgreeOff.refl _ _⟩ (by simpa [OldSt] using hn) hc

/-! ## Non-vacuity: a two-way branch routed through two assignment blocks and a branching head -/

def exH : Hier := [
  { name := "p", jts := ["t1", "t2"] }, { name := "t1" }, { name := "t2" }]

def exH' : Hier := [
  { name := "p", jts := ["a1", "a2"] }, { name := "t1" }, { name := "t2" },
  { name := "a1", kind := .synthAssign, asg := [("cv", 0)], jts := ["new"] },
  { name := "a2", kind := .synthAssign, asg := [("cv", 1)], jts := ["new"] },
  { name := "new", kind := .synthHead, var := "cv", tbl := [(0, "t1"), (1, "t2")], jts := ["t1", "t2"] }]

example : reroutedB exH exH' ["cv"] = true := by decide

end Scfg.Reroute
