import Scfg.Model.EditSpec
/-!
# C14 — graph edit primitives reroute exactly the requested arcs

A-priori theorems about the model of `insert_block`'s rewiring loop (`Scfg.Model.rewire`, the
loop over the successors for one predecessor), for **all** target lists and all `S`:

* `rewire_id`       — a predecessor without an arc into `S` is left alone;
* `rewire_frame`    — the remaining successors are unchanged and keep their order;
* `rewire_rerouted` — afterwards no arc into `S` is left (needs: distinct targets — the guard the
                       proof forces; `rewire_dup_witness` shows the code violates it otherwise);
* `rewire_new_once` — the new block is a successor exactly once iff there was an arc into `S`.

The model is tied to the code by the correspondence run of `harness/props/c14.py`.
-/
namespace Scfg.C14
open Scfg Scfg.Model

theorem idxOf_none {xs : List Name} {x : Name} (h : idxOf xs x = none) : x ∉ xs := by
  unfold idxOf at h
  simp only at h
  split at h
  · simp at h
  · next hlt =>
    intro hx
    apply hlt
    exact List.findIdx_lt_length_of_exists ⟨x, hx, by simp⟩

theorem idxOf_some {xs : List Name} {x : Name} {i : Nat} (h : idxOf xs x = some i) :
    ∃ hi : i < xs.length, xs[i] = x := by
  unfold idxOf at h
  simp only at h
  split at h
  · next hlt =>
    simp only [Option.some.injEq] at h
    subst h
    refine ⟨hlt, ?_⟩
    have := List.findIdx_getElem (w := hlt)
    simpa using this
  · simp at h

/-- No arc into `S`: nothing changes. -/
theorem rewire_id (new : Name) (jt S : List Name) (h : ∀ s ∈ S, s ∉ jt) :
    rewire new jt S = jt := by
  induction S generalizing jt with
  | nil => simp [rewire]
  | cons s ss ih =>
    have hs : idxOf jt s = none := by
      unfold idxOf
      simp only
      split
      · next hlt =>
        exfalso
        have hmem := List.getElem_mem hlt
        have := List.findIdx_getElem (w := hlt)
        simp only [beq_iff_eq] at this
        exact h s (by simp) (this ▸ hmem)
      · rfl
    simp only [rewire, hs]
    exact ih jt fun s' hs' => h s' (by simp [hs'])

theorem filter_set_of_not {p : Name → Bool} (xs : List Name) (i : Nat) (v : Name)
    (hi : i < xs.length) (h1 : p xs[i] = false) (h2 : p v = false) :
    (xs.set i v).filter p = xs.filter p := by
  induction xs generalizing i with
  | nil => simp at hi
  | cons x xs ih =>
    cases i with
    | zero =>
      simp only [List.getElem_cons_zero] at h1
      simp [h1, h2]
    | succ i =>
      simp only [List.getElem_cons_succ] at h1
      simp only [List.set_cons_succ, List.filter_cons]
      rw [ih i (by simpa using hi) h1]

theorem filter_eraseIdx_of_not {p : Name → Bool} (xs : List Name) (i : Nat)
    (hi : i < xs.length) (h1 : p xs[i] = false) :
    (xs.eraseIdx i).filter p = xs.filter p := by
  induction xs generalizing i with
  | nil => simp at hi
  | cons x xs ih =>
    cases i with
    | zero =>
      simp only [List.getElem_cons_zero] at h1
      simp [h1]
    | succ i =>
      simp only [List.getElem_cons_succ] at h1
      simp only [List.eraseIdx_cons_succ, List.filter_cons]
      rw [ih i (by simpa using hi) h1]

/-- The predecessor's remaining successors (those neither in `S` nor the new block) are
    unchanged and keep their relative order — for any `keep` predicate that rejects `S` and `new`. -/
theorem rewire_frame (new : Name) (keep : Name → Bool) (jt S : List Name)
    (hS : ∀ s ∈ S, keep s = false) (hn : keep new = false) :
    (rewire new jt S).filter keep = jt.filter keep := by
  induction S generalizing jt with
  | nil => simp [rewire]
  | cons s ss ih =>
    have hss : ∀ s' ∈ ss, keep s' = false := fun s' h' => hS s' (by simp [h'])
    simp only [rewire]
    split
    · exact ih jt hss
    · next i hi =>
      obtain ⟨hlt, hget⟩ := idxOf_some hi
      have hk : keep jt[i] = false := by rw [hget]; exact hS s (by simp)
      split
      · rw [ih _ hss, filter_set_of_not jt i new hlt hk hn]
      · rw [ih _ hss, filter_eraseIdx_of_not jt i hlt hk]

theorem mem_set_iff_of_nodup {xs : List Name} {i : Nat} {v t : Name} (hi : i < xs.length)
    (hnd : xs.Nodup) : t ∈ xs.set i v ↔ t = v ∨ (t ∈ xs ∧ t ≠ xs[i]) := by
  induction xs generalizing i with
  | nil => simp at hi
  | cons x xs ih =>
    rw [List.nodup_cons] at hnd
    cases i with
    | zero =>
      simp only [List.set_cons_zero, List.mem_cons, List.getElem_cons_zero]
      constructor
      · rintro (h | h)
        · exact Or.inl h
        · exact Or.inr ⟨Or.inr h, fun e => hnd.1 (e ▸ h)⟩
      · rintro (h | ⟨h | h, hne⟩)
        · exact Or.inl h
        · exact absurd h hne
        · exact Or.inr h
    | succ i =>
      simp only [List.set_cons_succ, List.mem_cons, List.getElem_cons_succ]
      rw [ih (by simpa using hi) hnd.2]
      have hxi : x ≠ xs[i]'(by simpa using hi) := fun e => hnd.1 (e ▸ List.getElem_mem _)
      constructor
      · rintro (h | h | ⟨h, hne⟩)
        · exact Or.inr ⟨Or.inl h, h ▸ hxi⟩
        · exact Or.inl h
        · exact Or.inr ⟨Or.inr h, hne⟩
      · rintro (h | ⟨h | h, hne⟩)
        · exact Or.inr (Or.inl h)
        · exact Or.inl h
        · exact Or.inr (Or.inr ⟨h, hne⟩)

theorem nodup_set_of_not_mem {xs : List Name} {i : Nat} {v : Name} (hi : i < xs.length)
    (hnd : xs.Nodup) (hv : v ∉ xs) : (xs.set i v).Nodup := by
  induction xs generalizing i with
  | nil => simp at hi
  | cons x xs ih =>
    rw [List.nodup_cons] at hnd
    simp only [List.mem_cons, not_or] at hv
    cases i with
    | zero =>
      simp only [List.set_cons_zero, List.nodup_cons]
      exact ⟨hv.2, hnd.2⟩
    | succ i =>
      simp only [List.set_cons_succ, List.nodup_cons]
      refine ⟨?_, ih (by simpa using hi) hnd.2 hv.2⟩
      intro hmem
      rw [mem_set_iff_of_nodup (by simpa using hi) hnd.2] at hmem
      rcases hmem with h | ⟨h, _⟩
      · exact hv.1 h.symm
      · exact hnd.1 h

theorem mem_eraseIdx_iff_of_nodup {xs : List Name} {i : Nat} {t : Name} (hi : i < xs.length)
    (hnd : xs.Nodup) : t ∈ xs.eraseIdx i ↔ t ∈ xs ∧ t ≠ xs[i] := by
  induction xs generalizing i with
  | nil => simp at hi
  | cons x xs ih =>
    rw [List.nodup_cons] at hnd
    cases i with
    | zero =>
      simp only [List.eraseIdx_cons_zero, List.mem_cons, List.getElem_cons_zero]
      constructor
      · intro h; exact ⟨Or.inr h, fun e => hnd.1 (e ▸ h)⟩
      · rintro ⟨h | h, hne⟩
        · exact absurd h hne
        · exact h
    | succ i =>
      simp only [List.eraseIdx_cons_succ, List.mem_cons, List.getElem_cons_succ]
      rw [ih (by simpa using hi) hnd.2]
      have hxi : x ≠ xs[i]'(by simpa using hi) := fun e => hnd.1 (e ▸ List.getElem_mem _)
      constructor
      · rintro (h | ⟨h, hne⟩)
        · exact ⟨Or.inl h, h ▸ hxi⟩
        · exact ⟨Or.inr h, hne⟩
      · rintro ⟨h | h, hne⟩
        · exact Or.inl h
        · exact Or.inr ⟨h, hne⟩

theorem nodup_eraseIdx {xs : List Name} (i : Nat) (hnd : xs.Nodup) : (xs.eraseIdx i).Nodup :=
  List.Nodup.sublist (List.eraseIdx_sublist xs i) hnd

/-- Invariants of the rewiring loop for distinct targets: distinctness is kept, and membership
    is characterised exactly. -/
theorem rewire_mem (new : Name) (jt S : List Name) (hnd : jt.Nodup) (hnS : new ∉ S) :
    (rewire new jt S).Nodup ∧
    ∀ t, t ∈ rewire new jt S ↔
      (t ∈ jt ∧ t ∉ S) ∨ (t = new ∧ (new ∈ jt ∨ ∃ s ∈ S, s ∈ jt)) := by
  induction S generalizing jt with
  | nil =>
    simp only [rewire, List.not_mem_nil, not_false_eq_true, and_true, false_and, exists_false,
      or_false]
    refine ⟨hnd, fun t => ?_⟩
    constructor
    · intro h; exact Or.inl h
    · rintro (h | ⟨h1, h2⟩)
      · exact h
      · exact h1 ▸ h2
  | cons s ss ih =>
    have hns : new ≠ s := fun e => hnS (by simp [e])
    have hnss : new ∉ ss := fun h => hnS (by simp [h])
    simp only [rewire]
    split
    · next hi =>
      have hsj := idxOf_none hi
      obtain ⟨h1, h2⟩ := ih jt hnd hnss
      refine ⟨h1, fun t => ?_⟩
      rw [h2 t]
      constructor
      · rintro (⟨ht, hts⟩ | ⟨ht, hr⟩)
        · exact Or.inl ⟨ht, by simp only [List.mem_cons, not_or]; exact ⟨fun e => hsj (e ▸ ht), hts⟩⟩
        · refine Or.inr ⟨ht, ?_⟩
          rcases hr with h | ⟨s', hs', hs'j⟩
          · exact Or.inl h
          · exact Or.inr ⟨s', by simp [hs'], hs'j⟩
      · rintro (⟨ht, hts⟩ | ⟨ht, hr⟩)
        · simp only [List.mem_cons, not_or] at hts
          exact Or.inl ⟨ht, hts.2⟩
        · refine Or.inr ⟨ht, ?_⟩
          rcases hr with h | ⟨s', hs', hs'j⟩
          · exact Or.inl h
          · rcases List.mem_cons.mp hs' with e | e
            · exact absurd (e ▸ hs'j) hsj
            · exact Or.inr ⟨s', e, hs'j⟩
    · next i hi =>
      obtain ⟨hlt, hget⟩ := idxOf_some hi
      have hsj : s ∈ jt := hget ▸ List.getElem_mem hlt
      split
      · next hc =>
        have hnj : new ∉ jt := by simpa [List.contains_iff_mem] using hc
        obtain ⟨h1, h2⟩ := ih (jt.set i new) (nodup_set_of_not_mem hlt hnd hnj) hnss
        refine ⟨h1, fun t => ?_⟩
        rw [h2 t]
        simp only [mem_set_iff_of_nodup hlt hnd, hget]
        constructor
        · rintro (⟨ht | ⟨ht, hne⟩, hts⟩ | ⟨ht, _⟩)
          · exact Or.inr ⟨ht, Or.inr ⟨s, by simp, hsj⟩⟩
          · exact Or.inl ⟨ht, by simp only [List.mem_cons, not_or]; exact ⟨hne, hts⟩⟩
          · exact Or.inr ⟨ht, Or.inr ⟨s, by simp, hsj⟩⟩
        · rintro (⟨ht, hts⟩ | ⟨ht, _⟩)
          · simp only [List.mem_cons, not_or] at hts
            exact Or.inl ⟨Or.inr ⟨ht, hts.1⟩, hts.2⟩
          · exact Or.inr ⟨ht, Or.inl (Or.inl trivial)⟩
      · next hc =>
        have hnj : new ∈ jt := by simpa [List.contains_iff_mem] using hc
        obtain ⟨h1, h2⟩ := ih (jt.eraseIdx i) (nodup_eraseIdx i hnd) hnss
        refine ⟨h1, fun t => ?_⟩
        rw [h2 t]
        simp only [mem_eraseIdx_iff_of_nodup hlt hnd, hget]
        constructor
        · rintro (⟨⟨ht, hne⟩, hts⟩ | ⟨ht, _⟩)
          · exact Or.inl ⟨ht, by simp only [List.mem_cons, not_or]; exact ⟨hne, hts⟩⟩
          · exact Or.inr ⟨ht, Or.inl hnj⟩
        · rintro (⟨ht, hts⟩ | ⟨ht, _⟩)
          · simp only [List.mem_cons, not_or] at hts
            exact Or.inl ⟨⟨ht, hts.1⟩, hts.2⟩
          · exact Or.inr ⟨ht, Or.inl ⟨hnj, hns⟩⟩

/-- Every former arc into `S` is gone afterwards (distinct targets, `new ∉ S`). -/
theorem rewire_rerouted (new : Name) (jt S : List Name) (hnd : jt.Nodup) (hnS : new ∉ S) :
    ∀ t ∈ rewire new jt S, t ∉ S := by
  intro t ht
  rcases ((rewire_mem new jt S hnd hnS).2 t).mp ht with ⟨_, h⟩ | ⟨h, _⟩
  · exact h
  · exact h ▸ hnS

/-- The new block is a successor exactly once iff the predecessor had an arc into `S`
    (fresh `new`), and never twice. -/
theorem rewire_new_once (new : Name) (jt S : List Name) (hnd : jt.Nodup) (hnS : new ∉ S)
    (hfresh : new ∉ jt) :
    (rewire new jt S).count new = if ∃ s ∈ S, s ∈ jt then 1 else 0 := by
  obtain ⟨h1, h2⟩ := rewire_mem new jt S hnd hnS
  split
  · next hex =>
    have : new ∈ rewire new jt S := (h2 new).mpr (Or.inr ⟨rfl, Or.inr hex⟩)
    rw [List.Nodup.count h1]; simp [this]
  · next hex =>
    apply List.count_eq_zero_of_not_mem
    intro hmem
    rcases (h2 new).mp hmem with ⟨h, _⟩ | ⟨_, h | h⟩
    · exact hfresh h
    · exact hfresh h
    · exact hex h

/-- The guard is forced: with a duplicated arc into `S` the loop (and the code it models)
    leaves the second copy in place — recorded as a known finding. -/
theorem rewire_dup_witness : rewire "n" ["b", "b"] ["b"] = ["n", "b"] := by decide

/-- The fresh table built by `insert_block_and_control_blocks` is consulted through
    `tblSet`: setting a key makes it readable, other keys are untouched. -/
theorem tblSet_get (t : List (Int × Name)) (k : Int) (v : Name) :
    ((tblSet t k v).find? (·.1 == k)).map (·.2) = some v := by
  unfold tblSet
  split
  · next h =>
    induction t with
    | nil => simp at h
    | cons p ps ih =>
      simp only [List.map_cons, List.find?_cons]
      by_cases hp : p.1 = k
      · simp [hp]
      · have : (p.1 == k) = false := by simpa using hp
        simp only [this, Bool.false_eq_true, if_false]
        simp only [List.any_cons, this, Bool.false_or] at h
        simpa [this] using ih h
  · next h =>
    simp only [Bool.not_eq_true, List.any_eq_false, beq_iff_eq] at h
    rw [List.find?_append]
    have : List.find? (fun x => x.1 == k) t = none := by
      rw [List.find?_eq_none]
      intro x hx
      simpa using h x hx
    simp [this]

/-! ## Lifting to whole `insert_block` calls (model), plain predecessors -/

theorem renameInExiting_plain (H : Hier) (f : Nat) (blk : Blk) (old new : Name)
    (h : blk.isRegion = false) : renameInExiting H (f + 1) blk old new = .ok H := by
  simp [renameInExiting, h]

/-- For a predecessor that is not a region, the renaming pass leaves the hierarchy alone. -/
theorem ren_plain (new : Name) (blk : Blk) (hreg : blk.isRegion = false) :
    ∀ (ss jt : List Name) (H : Hier), insertBlock.ren new blk H jt ss = .ok H := by
  intro ss
  induction ss with
  | nil => intro jt H; simp [insertBlock.ren]
  | cons s ss ih =>
    intro jt H
    unfold insertBlock.ren
    split
    · exact ih jt H
    · simp only [renameInExiting_plain H H.length blk s new hreg, bind, Except.bind]
      split <;> exact ih _ H

/-- what `insert_block` makes of a plain predecessor's successor tuple -/
def newTargets (new : Name) (succs : List Name) (blk : Blk) : List Name :=
  if succs.isEmpty then blk.jts ++ [new]
  else rewire new blk.jts (succs.filter fun s => !blk.bes.contains s)

/-- **`insert_block` with one plain predecessor.** The model's result is: the new block with
    successors exactly `S` is added; the predecessor is re-inserted with its successor tuple
    rewritten by `rewire` (so `rewire_frame / rewire_rerouted / rewire_new_once` describe its
    arcs), every other field untouched; nothing else changes. -/
theorem insertBlock_single (H : Hier) (c : Name) (kind : BKind) (new p : Name) (succs : List Name)
    (blk : Blk) (H1 : Hier)
    (hpop : popIn "insert_block" (putIn H { cont := c, name := new, kind := kind, jts := succs }) c p
      = .ok (blk, H1))
    (hreg : blk.isRegion = false) (hbr : blk.kind.isBranching = false) :
    insertBlock H c kind new [p] succs =
      .ok (putIn H1 { blk with jts := newTargets new succs blk }) := by
  unfold insertBlock
  simp only [List.foldlM_cons, List.foldlM_nil, hpop, bind, Except.bind, pure, Except.pure]
  have hrep : ∀ jt', replaceJts blk jt' = .ok { blk with jts := jt' } := by
    intro jt'; simp [replaceJts, hbr]
  by_cases he : succs.isEmpty = true
  · simp [he, hrep, newTargets]
  · have he' : succs.isEmpty = false := by simpa using he
    simp only [he', Bool.false_eq_true, if_false, ren_plain new blk hreg, hrep, newTargets]

/-! Non-vacuity / examples (kernel evaluation of the model). -/
example : rewire "n" ["a", "x", "b"] ["b", "a"] = ["x", "n"] := by decide
example : rewire "n" ["a", "x"] ["q"] = ["a", "x"] := by decide

end Scfg.C14
