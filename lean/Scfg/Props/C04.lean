import Scfg.WF
/-!
# C04 — the region hierarchy is self-consistent

`WF H` spells the property out with quantifiers; `wf_sound` / `wf_complete` show that the
Boolean `wf` the harness evaluates on real outputs is exactly that predicate.
-/
namespace Scfg.C04
open Scfg

theorem nodupB_iff (xs : List Name) : nodupB xs = true ↔ xs.Nodup := by
  induction xs with
  | nil => simp [nodupB]
  | cons x xs ih =>
    simp [nodupB, ih]

/-- The property, clause by clause. -/
structure WF (H : Hier) : Prop where
  /-- block and region names are unique across the whole hierarchy -/
  unique : H.names.Nodup
  /-- each region's header and exiting block lie inside it -/
  inside : ∀ r ∈ H, r.isRegion = true →
    (∃ h, H.getIn? r.name r.header = some h) ∧ (∃ e, H.getIn? r.name r.exiting = some e)
  /-- control leaves a region only from its exiting block: any other member names only
      entries of the region's own level -/
  leaves : ∀ b ∈ H, ∀ r, H.get? b.cont = some r → r.exiting ≠ b.name →
    ∀ t ∈ b.jts ++ b.bes, ∃ x, H.getIn? b.cont t = some x
  /-- every jump target and back edge names an entry of the same or an enclosing level -/
  scope : ∀ b ∈ H, ∀ t ∈ b.jts ++ b.bes, inScope H b.cont t = true
  /-- a region's own targets are exactly the non-back-edge targets of its exiting block -/
  targets : ∀ r ∈ H, r.isRegion = true →
    ∃ e, H.getIn? r.name r.exiting = some e ∧ r.jts = e.jt ∧ r.bes = []
  /-- the recorded parent is the containing region -/
  parent : ∀ r ∈ H, r.isRegion = true → r.parent = r.cont

theorem wf_sound (H : Hier) (h : wf H = true) : WF H := by
  simp only [wf, Bool.and_eq_true] at h
  obtain ⟨⟨⟨⟨⟨h1, h2⟩, h3⟩, h4⟩, h5⟩, h6⟩ := h
  refine ⟨(nodupB_iff _).mp h1, ?_, ?_, ?_, ?_, ?_⟩
  · intro r hr hreg
    have := List.all_eq_true.mp h2 r (List.mem_filter.mpr ⟨hr, hreg⟩)
    simp only [Bool.and_eq_true, Option.isSome_iff_exists] at this
    exact this
  · intro b hb r hr hne t ht
    have := List.all_eq_true.mp h3 b hb
    simp only [hr, Bool.or_eq_true, beq_iff_eq, List.all_eq_true] at this
    rcases this with h | h
    · exact absurd h hne
    · exact Option.isSome_iff_exists.mp (h t ht)
  · intro b hb t ht
    exact List.all_eq_true.mp (List.all_eq_true.mp h4 b hb) t ht
  · intro r hr hreg
    have := List.all_eq_true.mp h5 r (List.mem_filter.mpr ⟨hr, hreg⟩)
    split at this
    · simp at this
    · next e he =>
      simp only [Bool.and_eq_true, beq_iff_eq, List.isEmpty_iff] at this
      exact ⟨e, he, this.1, this.2⟩
  · intro r hr hreg
    have := List.all_eq_true.mp h6 r (List.mem_filter.mpr ⟨hr, hreg⟩)
    simpa using this

theorem wf_complete (H : Hier) (h : WF H) : wf H = true := by
  obtain ⟨h1, h2, h3, h4, h5, h6⟩ := h
  simp only [wf, Bool.and_eq_true]
  refine ⟨⟨⟨⟨⟨(nodupB_iff _).mpr h1, ?_⟩, ?_⟩, ?_⟩, ?_⟩, ?_⟩
  · apply List.all_eq_true.mpr
    intro r hr
    obtain ⟨hr, hreg⟩ := List.mem_filter.mp hr
    simp only [Bool.and_eq_true, Option.isSome_iff_exists]
    exact h2 r hr hreg
  · apply List.all_eq_true.mpr
    intro b hb
    split
    · rfl
    · next r hr =>
      simp only [Bool.or_eq_true, beq_iff_eq, List.all_eq_true]
      by_cases he : r.exiting = b.name
      · exact Or.inl he
      · exact Or.inr fun t ht => Option.isSome_iff_exists.mpr (h3 b hb r hr he t ht)
  · apply List.all_eq_true.mpr
    intro b hb
    apply List.all_eq_true.mpr
    intro t ht
    exact h4 b hb t ht
  · apply List.all_eq_true.mpr
    intro r hr
    obtain ⟨hr, hreg⟩ := List.mem_filter.mp hr
    obtain ⟨e, he, hj, hb⟩ := h5 r hr hreg
    simp [he, hj, hb]
  · apply List.all_eq_true.mpr
    intro r hr
    obtain ⟨hr, hreg⟩ := List.mem_filter.mp hr
    simp [h6 r hr hreg]

theorem wf_iff (H : Hier) : wf H = true ↔ WF H := ⟨wf_sound H, wf_complete H⟩

/-- With unique names, hierarchy-wide lookup and in-level lookup agree: the block found by name
    is the one found in its own container (so "walk by name" and "walk by level" see the same
    entries). -/
theorem getIn?_eq_get? (H : Hier) (c n : Name) (x : Blk) (hu : H.names.Nodup)
    (h : H.getIn? c n = some x) : H.get? n = some x := by
  unfold Hier.getIn? at h
  unfold Hier.get?
  have hx := List.find?_some h
  have hmem := List.mem_of_find?_eq_some h
  simp only [Bool.and_eq_true, beq_iff_eq] at hx
  induction H with
  | nil => simp at hmem
  | cons y ys ih =>
    simp only [Hier.names, List.map_cons, List.nodup_cons, List.mem_map, not_exists, not_and] at hu
    by_cases hy : y.name = n
    · -- the first entry already has the name; by uniqueness it must be x
      rcases List.mem_cons.mp hmem with hxy | hxy
      · simp [hxy, hy]
      · exact absurd (hy.trans hx.2.symm) (fun e => hu.1 x hxy e.symm)
    · have hyn : (y.name == n) = false := by simpa using hy
      have hyc : (y.cont == c && y.name == n) = false := by simp [hyn]
      rw [List.find?_cons, hyn]
      rw [List.find?_cons, hyc] at h
      rcases List.mem_cons.mp hmem with hxy | hxy
      · exact absurd (hxy ▸ hx.2) hy
      · exact ih hu.2 h hxy

/-! Non-vacuity and the pinned-tree witness. `okH` is a real output for `0→1, 1→(1,2)`;
`staleH` is (the relevant part of) the output for the 4-node graph `0→(1,2) 1→(2,3) 2→() 3→(3,2)`
on the pinned tree, where block `3` keeps the stale target `2` (finding O3). -/

def okH : Hier := [
  { cont := "m", name := "0", jts := ["loop_region_0"] },
  { cont := "m", name := "2" },
  { cont := "m", name := "loop_region_0", kind := .region, jts := ["2"], rkind := "loop",
    header := "1", exiting := "1", parent := "m" },
  { cont := "loop_region_0", name := "1", jts := ["1", "2"], bes := ["1"] }]

example : wf okH = true := by decide

def staleH : Hier := [
  { cont := "m", name := "branch_region_3", kind := .region, jts := ["tail_region_1"],
    rkind := "branch", header := "loop_region_0", exiting := "loop_region_0", parent := "m" },
  { cont := "branch_region_3", name := "loop_region_0", kind := .region,
    jts := ["tail_region_1"], rkind := "loop", header := "3", exiting := "3",
    parent := "branch_region_3" },
  { cont := "loop_region_0", name := "3", jts := ["3", "2"], bes := ["3"] },
  { cont := "m", name := "tail_region_1", kind := .region, jts := ["tail_region_0"],
    rkind := "tail", header := "t", exiting := "t", parent := "m" },
  { cont := "tail_region_1", name := "t", kind := .synthTail, jts := ["tail_region_0"] },
  { cont := "m", name := "tail_region_0", kind := .region, rkind := "tail", header := "2",
    exiting := "2", parent := "m" },
  { cont := "tail_region_0", name := "2" }]

/-- The stale target is out of scope and the loop region's targets differ from its exiting
    block's: `wf` rejects it. -/
example : wf staleH = false := by decide
example : w4 staleH = false ∧ w5 staleH = false := by decide

end Scfg.C04
